(* Model of renderer.go showInJS and showInJSON over a universe of Go values.

   The routing (leading type switch, clause of the kind switch, conversion of
   map keys, isEmptyValue clause) is read from the generated decision trees
   (gen/Facts_show.v); the recursion over composites, the loops, the struct
   tags and the sorting of the map keys are modelled by hand. What the model
   does not compute (decimal text of a float, the text returned by a user
   method, time formatting, the escapers) enters through the record `leaves`.
   No proofs here. *)
From Coq Require Import List NArith ZArith Bool.
From Verif Require Import Bytes ShowTree Facts_show ShowTypesM.
Import ListNotations.
Open Scope N_scope.

Inductive value :=
| VNil                                  (* the nil interface value *)
| VBool (b : bool)
| VInt (z : Z)
| VUint (n : N)
| VFloat (x : N)                        (* IEEE 754 bits of a float32/float64; the text comes from the oracle *)
| VComplex (re im : N)
| VStr (s : bytes)
| VOpaque                               (* a non nil chan, func or unsafe pointer *)
| VNilRef                               (* a nil pointer, slice, map, chan, func or unsafe pointer *)
| VBytes (s : bytes)                    (* a non nil []byte *)
| VSeq (xs : list value)                (* an array or a non nil slice *)
| VPtr (v : value)
| VMap (kvs : list (value * value))     (* a non nil map, in the iteration order of this run *)
| VStruct (fs : list value)             (* one value per field, unexported ones included *)
| VTime (x : N)                         (* a time.Time (opaque identity) *)
| VIface (d : ty) (v : value).          (* a non nil interface value: dynamic type d, value v *)

Inductive result :=
| ROk (out : bytes)
| RCannotShow                           (* the show function returns a `cannot show value of type` error *)
| RPanic
| RStuck.                               (* the model does not apply (ill typed descriptor/value pair) *)

(* ---- typing of values ---- *)

Definition iface_ids : list N := map N.of_nat (seq 0 13).
(* every interface implemented by an interface type is implemented by the dynamic types of its values *)
Definition flags_sub (a b : N) : bool := forallb (fun i => implb (N.testbit a i) (N.testbit b i)) iface_ids.

(* only a struct is time.Time, only a slice is []byte *)
Definition wf_flags (t : ty) : bool :=
  (negb (flag t w_Time) || match t with TStruct _ _ => true | _ => false end) &&
  (negb (flag t w_ByteSlice) || match t with TSlice _ _ => true | _ => false end).

Definition typed_fields (at_ : ty -> value -> bool) : list (finfo * ty) -> list value -> bool :=
  fix go (fs : list (finfo * ty)) (vs : list value) {struct vs} : bool :=
    match fs, vs with
    | [], [] => true
    | (_, ft) :: fs', fv :: vs' => at_ ft fv && go fs' vs'
    | _, _ => false
    end.

(* has_typeb env t v: v is a value of the type t, t being met inside the composites env (t is not a back reference) *)
Fixpoint has_typeb (env : list ty) (t : ty) (v : value) {struct v} : bool :=
  let at_ (tc : ty) (x : value) : bool :=
    match resolve (t :: env) tc with
    | None => false
    | Some (env', t') => has_typeb env' t' x
    end in
  wf_flags t &&
  match t with
  | TRec _ => false
  | TLeaf k fl =>
    if k =? k_Interface then
      match v with
      | VNil => true
      | VIface d x => negb (is_iface d) && negb (is_rec d) && closedb 0 d && wf_tyb d && flags_sub fl (flags_of d) && has_typeb [] d x
      | _ => false
      end
    else if k =? k_Bool then match v with VBool _ => true | _ => false end
    else if (k_Int <=? k) && (k <=? k_Int64) then match v with VInt _ => true | _ => false end
    else if (k_Uint <=? k) && (k <=? k_Uintptr) then match v with VUint _ => true | _ => false end
    else if (k =? k_Float32) || (k =? k_Float64) then match v with VFloat _ => true | _ => false end
    else if (k =? k_Complex64) || (k =? k_Complex128) then match v with VComplex _ _ => true | _ => false end
    else if k =? k_String then match v with VStr _ => true | _ => false end
    else if (k =? k_Chan) || (k =? k_Func) || (k =? k_UnsafePointer) then match v with VOpaque | VNilRef => true | _ => false end
    else false
  | TArr _ e => match v with VSeq xs => forallb (at_ e) xs | _ => false end
  | TSlice _ e =>
    if flag t w_ByteSlice then match v with VBytes _ | VNilRef => true | _ => false end
    else match v with VNilRef => true | VSeq xs => forallb (at_ e) xs | _ => false end
  | TPtr _ e => match v with VNilRef => true | VPtr x => at_ e x | _ => false end
  | TMap _ tk te =>
    match v with
    | VNilRef => true
    | VMap kvs => forallb (fun kx : value * value => at_ tk (fst kx) && at_ te (snd kx)) kvs
    | _ => false
    end
  | TStruct _ fs =>
    if flag t w_Time then match v with VTime _ => true | _ => false end
    else match v with
         | VStruct vs =>
           typed_fields at_ fs vs
         | _ => false
         end
  end.

(* every interface value nested in v (map keys excepted) holds a dynamic type that the static check accepts *)
Fixpoint boxed_okb (f : showfn) (v : value) : bool :=
  match v with
  | VIface d x => outcome_eqb (static_rec f [] d) OOk && boxed_okb f x
  | VSeq xs | VStruct xs => forallb (boxed_okb f) xs
  | VPtr x => boxed_okb f x
  | VMap kvs => forallb (fun kx : value * value => boxed_okb f (snd kx)) kvs
  | _ => true
  end.

(* What the model does not compute. *)
Record leaves := {
  lf_trusted : showfn -> N -> ty -> value -> bytes;   (* native.JS / JSStringer / JSEnvStringer ... text (c = which case) *)
  lf_time_js : N -> option bytes;                      (* showTimeInJS; None: it panics (year out of range) *)
  lf_time_json : N -> bytes;                           (* v.Format(time.RFC3339) *)
  lf_error_text : ty -> value -> bytes;                (* v.Error() *)
  lf_key_text : ty -> value -> bytes;                  (* k.String() / k.String(env) of a map key *)
  lf_float : N -> N -> bytes;                          (* strconv.FormatFloat(x, 'f', -1, bits): bits, IEEE bits *)
  lf_float_zero : N -> N -> bool;                      (* v.Float() == 0 *)
  lf_complex : N -> N -> N -> bytes;                   (* toString of a complex number: bits, re, im *)
  lf_string : showfn -> bytes -> bytes;                (* jsStringEscape / jsonStringEscape *)
  lf_base64 : bytes -> bytes;                          (* base64.StdEncoding *)
  lf_type_name : ty -> bytes                           (* env.TypeOf(v).String() *)
}.

(* ---- decimal numbers ---- *)
Fixpoint dec_digits (fuel : nat) (n : N) (acc : bytes) : bytes :=
  match fuel with
  | O => acc
  | S fuel' =>
    let acc' := (48 + n mod 10) :: acc in
    if n / 10 =? 0 then acc' else dec_digits fuel' (n / 10) acc'
  end.
Definition dec_of_N (n : N) : bytes := dec_digits (S (N.to_nat (N.size n))) n [].
Definition dec_of_Z (z : Z) : bytes :=
  match z with
  | Zneg p => 45 :: dec_of_N (Npos p)
  | _ => dec_of_N (Z.to_N z)
  end.

(* ---- strings ---- *)
Fixpoint bytes_ltb (a b : bytes) : bool :=
  match a, b with
  | [], [] => false
  | [], _ :: _ => true
  | _ :: _, [] => false
  | x :: a', y :: b' => if x <? y then true else if y <? x then false else bytes_ltb a' b'
  end.

(* sort.Slice by key; the order of equal keys is not specified by Go (see has_type: keys are distinct) *)
Fixpoint insert_kv {A} (k : bytes) (v : A) (l : list (bytes * A)) : list (bytes * A) :=
  match l with
  | [] => [(k, v)]
  | (k', v') :: r => if bytes_ltb k' k then (k', v') :: insert_kv k v r else (k, v) :: l
  end.
Fixpoint sort_kv {A} (l : list (bytes * A)) : list (bytes * A) :=
  match l with
  | [] => []
  | (k, v) :: r => insert_kv k v (sort_kv r)
  end.

(* parseTagValue: name before the first comma, omitempty if one of the following options is `omitempty` *)
Fixpoint split_comma (s cur : bytes) : list bytes :=
  match s with
  | [] => [rev cur]
  | c :: r => if c =? 44 then rev cur :: split_comma r [] else split_comma r (c :: cur)
  end.
Definition s_omitempty : bytes := [111; 109; 105; 116; 101; 109; 112; 116; 121].
Definition parse_tag (tag : bytes) : bytes * bool :=
  match split_comma tag [] with
  | [] => (tag, false)
  | name :: opts => (name, existsb (bytes_eqb s_omitempty) opts)
  end.

Definition s_null : bytes := [110; 117; 108; 108].
Definition s_true : bytes := [116; 114; 117; 101].
Definition s_false : bytes := [102; 97; 108; 115; 101].
Definition s_undef_pre : bytes :=   (* undefined/* scriggo: cannot represent a *)
  [117;110;100;101;102;105;110;101;100;47;42;32;115;99;114;105;103;103;111;58;32;99;97;110;110;111;116;32;114;101;112;114;101;115;101;110;116;32;97;32].
Definition s_undef_post : bytes := [32;118;97;108;117;101;32;42;47].   (* value */ *)
Definition q : N := 34.

Definition bind (r : result) (k : bytes -> result) : result :=
  match r with ROk b => k b | e => e end.

Section Show.
  Variable L : leaves.
  Variable f : showfn.

  Definition show_tbl := match f with FJS => gen_showInJS_tbl | FJSON => gen_showInJSON_tbl end.
  Definition mapkey_tbl := match f with FJS => gen_showInJS_mapkey_tbl | FJSON => gen_showInJSON_mapkey_tbl end.

  Definition quoted (s : bytes) : bytes := q :: lf_string L f s ++ [q].

  (* isEmptyValue(v.Field(i)): by the kind of the field type *)
  Definition is_empty (ft : ty) (v : value) : option bool :=
    match eval_tree (fun _ => VStuck) (tree_assoc gen_isEmptyValue_tbl (kind_of ft)) with
    | OClass c _ =>
      if c =? k_Bool then match v with VBool b => Some (negb b) | _ => None end
      else if c =? k_Int then match v with VInt z => Some (Z.eqb z 0) | _ => None end
      else if c =? k_Uint then match v with VUint n => Some (n =? 0) | _ => None end
      else if c =? k_Float32 then match v with VFloat x => Some (lf_float_zero L (kind_of ft) x) | _ => None end
      else if c =? k_Array then     (* String, Map, Slice, Array: v.Len() == 0 *)
        match v with
        | VStr s => Some (match s with [] => true | _ => false end)
        | VBytes s => Some (match s with [] => true | _ => false end)
        | VSeq xs => Some (match xs with [] => true | _ => false end)
        | VMap kvs => Some (match kvs with [] => true | _ => false end)
        | VNilRef => Some true
        | _ => None
        end
      else if c =? k_Interface then (* Interface, Pointer, UnsafePointer: v.IsNil() *)
        match v with
        | VNil | VNilRef => Some true
        | VIface _ _ | VPtr _ | VOpaque => Some false
        | _ => None
        end
      else if c =? 999 then Some false
      else None
    | _ => None
    end.

  (* the string of a map key: key.Interface() is a Stringer / EnvStringer, or toString *)
  Definition key_string (d : option ty) (v : value) : result :=
    match eval_tree (dyn_val false d) (tree_assoc mapkey_tbl (dyn_kind d)) with
    | OOk =>
      match d with
      | None => ROk []                                           (* toString(nil) *)
      | Some t =>
        if flag t i_Stringer || flag t i_EnvStringer then ROk (lf_key_text L t v)
        else match v with
             | VBool b => ROk (if b then s_true else s_false)
             | VInt z => ROk (dec_of_Z z)
             | VUint n => ROk (dec_of_N n)
             | VFloat x => ROk (lf_float L (kind_of t) x)
             | VComplex re im => ROk (lf_complex L (kind_of t) re im)
             | VStr s => ROk s
             | _ => RStuck
             end
      end
    | OErr => RCannotShow
    | OPanic => RPanic
    | _ => RStuck
    end.

  (* elements of an array or slice: e1 `,` e2 ...; the first error stops *)
  Fixpoint join_results (rs : list result) (first : bool) : result :=
    match rs with
    | [] => ROk []
    | r :: rest => bind r (fun b => bind (join_results rest false) (fun b' =>
                     ROk ((if first then [] else [44]) ++ b ++ b')))
    end.

  Definition array_lit (rs : list result) : result :=
    match rs with
    | [] => ROk [91; 93]
    | _ => bind (join_results rs true) (fun b => ROk (91 :: b ++ [93]))
    end.

  (* members of an object: `"` name `":` value, separated by commas; the first error stops *)
  Fixpoint join_members (ms : list (bytes * result)) (first : bool) : result :=
    match ms with
    | [] => ROk []
    | (name, r) :: rest =>
      bind r (fun b => bind (join_members rest false) (fun b' =>
        ROk ((if first then [q] else [44; q]) ++ lf_string L f name ++ [q; 58] ++ b ++ b')))
    end.

  Definition object_lit (ms : list (bytes * result)) : result :=
    bind (join_members ms true) (fun b => ROk (123 :: b ++ [125])).

  (* the nil interface value *)
  Definition show_nil : result :=
    match eval_tree (dyn_val false None) (tree_assoc show_tbl k_Invalid) with
    | OHandled 255 => ROk s_null
    | OPanic => RPanic
    | _ => RStuck
    end.

  (* what one struct field contributes: None = the field is skipped *)
  Definition field_member (fi : finfo) (ft' : option ty) (fv : value) (shown : result) : option (bytes * result) :=
    if f_exported fi then
      match f_tag fi with
      | [] => Some (f_name fi, shown)
      | tag =>
        if bytes_eqb tag [45] then None
        else
          let (tname, omit) := parse_tag tag in
          let name := match tname with [] => f_name fi | _ => tname end in
          if omit then
            match ft' with
            | Some t' =>
              match is_empty t' fv with
              | Some true => None
              | Some false => Some (name, shown)
              | None => Some (name, RStuck)
              end
            | None => Some (name, RStuck)
            end
          else Some (name, shown)
      end
    else None.

  (* the members of the object written for a struct; None: wrong number of values *)
  Definition struct_members (mem : finfo -> ty -> value -> option (bytes * result)) :
      list (finfo * ty) -> list value -> option (list (bytes * result)) :=
    fix go (fs : list (finfo * ty)) (vs : list value) {struct vs} : option (list (bytes * result)) :=
      match fs, vs with
      | [], [] => Some []
      | (fi, ft) :: fs', fv :: vs' =>
        match go fs' vs' with
        | None => None
        | Some ms =>
          match mem fi ft fv with
          | Some m => Some (m :: ms)
          | None => Some ms
          end
        end
      | _, _ => None
      end.

  (* the strings of the keys of a map, in iteration order: the first failure is returned *)
  Fixpoint first_key_error (ks : list result) : option result :=
    match ks with
    | [] => None
    | ROk _ :: r => first_key_error r
    | e :: _ => Some e
    end.

  Definition key_of (r : result) : bytes := match r with ROk b => b | _ => [] end.

  (* what the recursion over the components of a composite value produced *)
  Inductive kids :=
  | KNone
  | KSeq (rs : list result)                         (* the elements of a slice or array, shown *)
  | KPtr (r : result)                               (* the pointee, shown *)
  | KMap (krs : list (result * result))             (* per entry: the string of the key, the element shown *)
  | KStruct (ms : option (list (bytes * result))).  (* the members of the object; None: wrong number of fields *)

  (* value.Interface() at a position of static type tc inside a composite whose
     environment is env: an interface position yields the dynamic value *)
  Definition show_at_with (rec : list ty -> ty -> value -> result) (env : list ty) (tc : ty) (x : value) : result :=
    match resolve env tc with
    | None => RStuck
    | Some (env', t') =>
      if is_iface t' then
        match x with
        | VNil => show_nil
        | VIface d x' => if is_iface d || is_rec d then RStuck else rec [] d x'
        | _ => RStuck
        end
      else rec env' t' x
    end.

  (* the string of the key k of a map whose key type is tk *)
  Definition key_at (env : list ty) (tk : ty) (k : value) : result :=
    match resolve env tk with
    | None => RStuck
    | Some (_, tk') =>
      if is_iface tk' then
        match k with
        | VNil => key_string None VNil
        | VIface d k' => key_string (Some d) k'
        | _ => RStuck
        end
      else key_string (Some tk') k
    end.

  (* one step of showInJS / showInJSON on a value of dynamic type t (never an
     interface type nor a back reference), the components being already shown *)
  Definition show_node (t : ty) (v : value) (k : kids) : result :=
    match eval_tree (dyn_val false (Some t)) (tree_assoc show_tbl (kind_of t)) with
    | OHandled c =>
      if c =? w_Time then
        match v, f with
        | VTime x, FJS => match lf_time_js L x with Some b => ROk b | None => RPanic end
        | VTime x, FJSON => ROk (q :: lf_time_json L x ++ [q])
        | _, _ => RStuck
        end
      else if c =? 255 then RStuck            (* case nil: not a typed value *)
      else ROk (lf_trusted L f c t v)
    | OClass c true =>
      if c =? k_String then ROk (quoted (lf_error_text L t v)) else RStuck
    | OClass c false =>
      if c =? k_Bool then match v with VBool b => ROk (if b then s_true else s_false) | _ => RStuck end
      else if c =? k_Int then match v with VInt z => ROk (dec_of_Z z) | _ => RStuck end
      else if c =? k_Uint then match v with VUint n => ROk (dec_of_N n) | _ => RStuck end
      else if (c =? k_Float32) || (c =? k_Float64) then match v with VFloat x => ROk (lf_float L c x) | _ => RStuck end
      else if c =? k_String then match v with VStr s => ROk (quoted s) | _ => RStuck end
      else if c =? k_Slice then
        if flag t w_ByteSlice then
          match v with
          | VBytes b => ROk (q :: lf_base64 L b ++ [q])
          | VNilRef => ROk s_null               (* value.([]byte) with b != nil fails: v.IsNil() *)
          | _ => RStuck
          end
        else
          match v, k with
          | VNilRef, _ => ROk s_null
          | VSeq _, KSeq rs => array_lit rs
          | _, _ => RStuck
          end
      else if c =? k_Array then
        match v, k with
        | VSeq _, KSeq rs => array_lit rs
        | _, _ => RStuck
        end
      else if c =? k_Pointer then
        match v, k with
        | VNilRef, _ => ROk s_null
        | VPtr _, KPtr r => r
        | VOpaque, _ => RPanic                 (* reflect: Value.Elem of an unsafe pointer *)
        | _, _ => RStuck
        end
      else if c =? k_Struct then
        match v, k with
        | VStruct _, KStruct (Some ms) => object_lit ms
        | _, _ => RStuck
        end
      else if c =? k_Map then
        match v, k with
        | VNilRef, _ => ROk s_null
        | VMap _, KMap krs =>
          (* every key is converted first: a failure returns before anything is written *)
          match first_key_error (map fst krs) with
          | Some e => e
          | None => object_lit (sort_kv (map (fun kr : result * result => (key_of (fst kr), snd kr)) krs))
          end
        | _, _ => RStuck
        end
      else if c =? 999 then
        match f with
        | FJS => ROk (s_undef_pre ++ lf_type_name L t ++ s_undef_post)
        | FJSON => ROk s_null
        end
      else RStuck
    | OPanic => RPanic
    | _ => RStuck
    end.

  Fixpoint show_val (env : list ty) (t : ty) (v : value) {struct v} : result :=
    show_node t v
      match v with
      | VSeq xs =>
        match t with
        | TSlice _ e | TArr _ e => KSeq (map (show_at_with show_val (t :: env) e) xs)
        | _ => KNone
        end
      | VPtr x =>
        match t with
        | TPtr _ e => KPtr (show_at_with show_val (t :: env) e x)
        | _ => KNone
        end
      | VMap kvs =>
        match t with
        | TMap _ tk te =>
          KMap (map (fun kx : value * value => (key_at (t :: env) tk (fst kx), show_at_with show_val (t :: env) te (snd kx))) kvs)
        | _ => KNone
        end
      | VStruct vs =>
        match t with
        | TStruct _ fs =>
          KStruct (struct_members (fun fi ft fv =>
            field_member fi (match resolve (t :: env) ft with Some (_, t') => Some t' | None => None end) fv
                         (show_at_with show_val (t :: env) ft fv)) fs vs)
        | _ => KNone
        end
      | _ => KNone
      end.

  (* {{ v }} where the expression has the static type t (closed) *)
  Definition show_top (t : ty) (v : value) : result :=
    match t with
    | TRec _ => RStuck
    | _ =>
      if is_iface t then
        match v with
        | VNil => show_nil
        | VIface d x => if is_iface d || is_rec d then RStuck else show_val [] d x
        | _ => RStuck
        end
      else show_val [] t v
    end.
End Show.

(* renderer.Show for an expression of static type t whose value is v:
   the contexts other than JS and JSON only look at the dynamic type. *)
Definition dyn_type (t : ty) (v : value) : option (option ty) :=
  if is_iface t then
    match v with
    | VNil => Some None
    | VIface d _ => Some (Some d)
    | _ => None
    end
  else Some (Some t).

Definition show_any (L : leaves) (conv : bool) (ctx : N) (url : bool) (t : ty) (v : value) : result :=
  match dyn_type t v with
  | None => RStuck
  | Some d =>
    match dynamic_show conv ctx url d with
    | OOk => ROk []          (* the text written by these contexts is not modelled here *)
    | OErr => RCannotShow
    | OPanic => RPanic
    | OCall f => show_top L f t v
    | _ => RStuck
    end
  end.
