(* The leaves of showInJS / showInJSON that the model computes itself:
   jsStringEscape / jsonStringEscape (byte level restatement over the generated
   table of escapers.go) and base64.StdEncoding. The other leaves (float text,
   time text, texts returned by user methods) stay oracles. No proofs here. *)
From Coq Require Import List NArith Bool.
From Verif Require Import Bytes ShowTree Facts_show Facts_escapers ShowTypesM ShowJsonM.
Import ListNotations.
Open Scope N_scope.

(* the escape of the rune c, from the table generated from jsStringEscape *)
Definition esc_rune (c : N) (dflt : bytes) : bytes :=
  match assoc_get gen_jsStringEscape_tbl c with
  | Some e => e
  | None => dflt
  end.

Definition esc_byte (c : N) : bytes := if c <? 128 then esc_rune c [c] else [c].

(* jsStringEscape ranges over runes; the runes it replaces are the ASCII ones of
   the table and U+2028, U+2029 (E2 80 A8, E2 80 A9). An ASCII byte is always a
   rune of its own and E2 always starts a rune, so the function is this one on
   bytes (invalid UTF-8 is copied as it is). *)
Fixpoint js_escape (s : bytes) : bytes :=
  match s with
  | [] => []
  | c :: r =>
    match r with
    | c2 :: c3 :: r' =>
      if (c =? 226) && (c2 =? 128) && (c3 =? 168) then esc_rune 8232 [c; c2; c3] ++ js_escape r'
      else if (c =? 226) && (c2 =? 128) && (c3 =? 169) then esc_rune 8233 [c; c2; c3] ++ js_escape r'
      else esc_byte c ++ js_escape r
    | _ => esc_byte c ++ js_escape r
    end
  end.

Definition b64_char (i : N) : N :=
  if i <? 26 then 65 + i
  else if i <? 52 then 97 + (i - 26)
  else if i <? 62 then 48 + (i - 52)
  else if i =? 62 then 43 else 47.

Fixpoint base64 (s : bytes) : bytes :=
  match s with
  | [] => []
  | [a] => [b64_char (a / 4); b64_char ((a mod 4) * 16); 61; 61]
  | [a; b] => [b64_char (a / 4); b64_char ((a mod 4) * 16 + b / 16); b64_char ((b mod 16) * 4); 61]
  | a :: b :: c :: r =>
    [b64_char (a / 4); b64_char ((a mod 4) * 16 + b / 16); b64_char ((b mod 16) * 4 + c / 64); b64_char (c mod 64)] ++ base64 r
  end.

(* the leaves with the computed ones filled in; the rest of O is the oracle *)
Definition concrete (O : leaves) : leaves :=
  {| lf_trusted := lf_trusted O; lf_time_js := lf_time_js O; lf_time_json := lf_time_json O;
     lf_error_text := lf_error_text O; lf_key_text := lf_key_text O; lf_float := lf_float O;
     lf_float_zero := lf_float_zero O; lf_complex := lf_complex O;
     lf_string := fun _ s => js_escape s; lf_base64 := base64; lf_type_name := lf_type_name O |}.
