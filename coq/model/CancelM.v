(* CancelM: model of cancellation in the run loop (internal/runtime run.go
   runFunc and run, vm.go stop/SetContext): the check of env.done at the head
   of the instruction loop, the watcher goroutine that sets env.done when the
   context is done, the blocking channel instructions, which include the done
   case in their select when a context was set, and runFunc's final statements (what it returns when a panic is pending, i.e.
   while the deferred calls started by an unrecovered panic run: generated
   table Facts_vm_sites.runfunc_tail).
   The program, the readiness of channels, the scheduler's choice among ready
   select cases and the moment the watcher runs are oracles.  Which code site a
   blocking instruction executes, and whether that site is guarded by the done
   case, is read from the generated list Facts_vm_sites.block_sites.
   No proofs in this file. *)
From Coq Require Import List NArith Bool Arith.
Import ListNotations.
From Verif Require Import Facts_vm_sites.

Inductive bop := BReceive | BSend | BSelect | BRange.

Definition bop_code (b : bop) : N :=
  match b with
  | BReceive => op_OpReceive | BSend => op_OpSend | BSelect => op_OpSelect | BRange => op_OpRange
  end.

Definition site : Type := (N * N * N * N * bool * bool * bool * N)%type.

Definition s_op (s : site) : N := match s with (o, _, _, _, _, _, _, _) => o end.
Definition s_kind (s : site) : N := match s with (_, k, _, _, _, _, _, _) => k end.
Definition s_branch (s : site) : N := match s with (_, _, b, _, _, _, _, _) => b end.
Definition s_cond (s : site) : N := match s with (_, _, _, c, _, _, _, _) => c end.
Definition s_has_done (s : site) : bool := match s with (_, _, _, _, d, _, _, _) => d end.
Definition s_stops (s : site) : bool := match s with (_, _, _, _, _, t, _, _) => t end.
Definition s_idx_ok (s : site) : bool := match s with (_, _, _, _, _, _, i, _) => i end.
Definition s_class (s : site) : N := match s with (_, _, _, _, _, _, _, c) => c end.

(* is the site executed when the VM has (has not) a context with a Done
   channel?  Conditions 1 `done == nil` and 2 `done == nil || hasDefaultCase`
   (hasDefaultCase is never true) hold exactly without a context; a site under
   an unknown condition, or under none, counts as executed in both cases. *)
Definition site_taken (has_ctx : bool) (s : site) : bool :=
  let known := N.eqb (s_cond s) 1 || N.eqb (s_cond s) 2 in
  if known then
    if N.eqb (s_branch s) 1 then negb has_ctx
    else if N.eqb (s_branch s) 2 then has_ctx
    else true
  else true.

Definition site_guarded (s : site) : bool := s_has_done s && s_stops s && s_idx_ok s.

Definition sites_of (b : bop) (has_ctx : bool) : list site :=
  filter (fun s => N.eqb (s_op s) (bop_code b) && site_taken has_ctx s) block_sites.

(* every site the instruction can execute under a context selects on the done case *)
Definition op_guarded (b : bop) : bool :=
  let l := sites_of b true in
  negb (match l with [] => true | _ => false end) && forallb site_guarded l.

(* instructions as the loop sees them *)
Inductive ikind :=
| KCompute                 (* any instruction that does not block *)
| KBlock (b : bop)
| KPanic (frames : bool)   (* the instruction panics (OpPanic, a run-time fault, a panicking native function):
                              runRecoverable converts the panic, runFunc links the PanicError into vm.panic;
                              with frames left (len(vm.calls) > 0) it pushes a panicked frame and calls
                              runRecoverable again: nextCall runs the deferred calls, whose instructions are
                              the ones that follow in the stream; with no frame it leaves its loop *)
| KRecover                 (* recover() and the trimming done by nextCall: vm.panic is nil again *)
| KFinish                  (* the code has ended: run returns, runRecoverable returns nil, runFunc leaves its loop *)
| KAbort (o : N).          (* Stop, Fatal or an internal error: runFunc returns it at once *)

(* what runFunc returns: the error of the context, nil, vm.panic, or the value of a Stop/Fatal *)
Inductive result := RCtxErr | RNil | RPanicErr | ROwn (o : N).

Record oracle := mkoracle {
  o_prog : nat -> ikind;          (* the instruction at each pc (every program, also infinite ones) *)
  o_ready : nat -> bool;          (* at this clock tick a case of the program's own channels is ready *)
  o_pick_done : nat -> bool;      (* with both ready, reflect.Select chooses the done case *)
  o_watcher : nat -> bool;        (* at this tick the watcher goroutine has run (it only acts once the context is done) *)
  o_cancel_at : option nat        (* the tick at which the context is cancelled *)
}.

Record cstate := mkcstate {
  cpc : nat;
  clock : nat;
  cdone : bool;                   (* env.done *)
  cpending : bool                 (* vm.panic != nil: the code that runs is a deferred call started by a panic that is not recovered (yet) *)
}.

Definition cancelled (orc : oracle) (s : cstate) : bool :=
  match o_cancel_at orc with Some c => Nat.leb c (clock s) | None => false end.

Inductive cres := CNext (s : cstate) | CRet (r : result).

Definition tick (s : cstate) (pc : nat) (done : bool) : cstate := mkcstate pc (S (clock s)) done (cpending s).
Definition tick_pending (s : cstate) (pc : nat) (done pending : bool) : cstate := mkcstate pc (S (clock s)) done pending.

(* the statements of runFunc after its loop, as generated from run.go
   (Facts_vm_sites.runfunc_tail): stop != nil is has_ctx *)
Definition tail_result (code : N) : result :=
  match code with
  | 0%N => RNil
  | 1%N => RCtxErr
  | 2%N => RPanicErr
  | n => ROwn n
  end.

Definition leave (has_ctx done pending : bool) : cres :=
  CRet (tail_result (runfunc_tail has_ctx done pending)).

(* the instruction part of an iteration *)
Definition cbody (has_ctx : bool) (orc : oracle) (s : cstate) : cres :=
  (* the watcher may have run meanwhile *)
  let done := cdone s || (has_ctx && cancelled orc s && o_watcher orc (clock s)) in
  match o_prog orc (cpc s) with
  | KCompute => CNext (tick s (S (cpc s)) done)
  | KFinish => leave has_ctx done (cpending s)
  | KAbort o => CRet (ROwn o)
  | KPanic frames =>
      if frames then CNext (tick_pending s (S (cpc s)) done true)
      else leave has_ctx done true
  | KRecover => CNext (tick_pending s (S (cpc s)) done false)
  | KBlock b =>
      let ready := o_ready orc (clock s) in
      if has_ctx && op_guarded b then
        (* reflect.Select over the program's cases and the done case; when the
           done case is chosen: vm.stop() sets env.done, run returns, runFunc leaves its loop *)
        match ready, cancelled orc s with
        | false, false => CNext (tick s (cpc s) done)               (* still blocked *)
        | true, false => CNext (tick s (S (cpc s)) done)
        | false, true => leave has_ctx true (cpending s)
        | true, true => if o_pick_done orc (clock s) then leave has_ctx true (cpending s) else CNext (tick s (S (cpc s)) done)
        end
      else
        (* a plain Recv / Send / Select without the done case *)
        if ready then CNext (tick s (S (cpc s)) done) else CNext (tick s (cpc s) done)
  end.

(* one iteration of the loop: the head test (vm.stop(), then runFunc leaves its loop), then the instruction *)
Definition cstep (has_ctx : bool) (orc : oracle) (s : cstate) : cres :=
  if has_ctx && cdone s then leave has_ctx true (cpending s) else cbody has_ctx orc s.

Fixpoint crun (has_ctx : bool) (orc : oracle) (n : nat) (s : cstate) : option result :=
  match n with
  | O => None
  | S n' =>
      match cstep has_ctx orc s with
      | CRet r => Some r
      | CNext s' => crun has_ctx orc n' s'
      end
  end.

(* the same, entered in the middle of an instruction (no head test first) *)
Definition crun_mid (has_ctx : bool) (orc : oracle) (n : nat) (s : cstate) : option result :=
  match n with
  | O => None
  | S n' =>
      match cbody has_ctx orc s with
      | CRet r => Some r
      | CNext s' => crun has_ctx orc n' s'
      end
  end.

(* ---- the deterministic scenarios of the correspondence ----
   program: one blocking instruction b, then the end of the code;
   busy = true: an endless loop of non-blocking instructions instead.
   phase 0: that is the main code; phase 1: it is the body of a deferred
   function started by a panic that is not recovered (the stream begins with
   the panicking instruction).
   mode 0: no context; 1: a context that is never cancelled; 2: cancelled at tick 3.
   answer 0: still running after the fuel (blocked or looping), 1: nil, 2: context error,
   3: the PanicError, 4: another value *)
Definition scenario_prog (b : bop) (busy : bool) (phase : N) (pc : nat) : ikind :=
  let body (k : nat) := if busy then KCompute else match k with O => KBlock b | _ => KFinish end in
  if N.eqb phase 0 then body pc
  else match pc with O => KPanic true | S k => body k end.

Definition scenario_oracle (b : bop) (busy ready : bool) (mode phase : N) : oracle :=
  mkoracle (scenario_prog b busy phase)
           (fun _ => ready) (fun _ => false) (fun t => Nat.leb 5%nat t)
           (if N.eqb mode 2 then Some 3%nat else None).

Definition scenario5 (bcode : N) (busy ready : bool) (mode phase : N) : N :=
  let b := if N.eqb bcode 1 then BSend else if N.eqb bcode 2 then BSelect else if N.eqb bcode 3 then BRange else BReceive in
  match crun (negb (N.eqb mode 0)) (scenario_oracle b busy ready mode phase) 40%nat (mkcstate 0%nat 0%nat false false) with
  | None => 0%N
  | Some RNil => 1%N
  | Some RCtxErr => 2%N
  | Some RPanicErr => 3%N
  | Some (ROwn _) => 4%N
  end.

Definition scenario (bcode : N) (busy ready : bool) (mode : N) : N := scenario5 bcode busy ready mode 0.

(* for the line protocol: input bytes [bcode; busy; ready; mode] or [bcode; busy; ready; mode; phase], output one byte *)
Definition cancel_case (s : list N) : option (list N) :=
  match s with
  | [bcode; busy; ready; mode] => Some [scenario bcode (negb (N.eqb busy 0)) (negb (N.eqb ready 0)) mode]
  | [bcode; busy; ready; mode; phase] => Some [scenario5 bcode (negb (N.eqb busy 0)) (negb (N.eqb ready 0)) mode phase]
  | _ => None
  end.
