(* Package-level variable initialisation order.
   sc_order: what internal/compiler/checker_package.go sortDeclarations does for
   variables - repeatedly take the first declaration (in source order) whose
   references are all resolved: a reference to a variable is resolved when the
   variable has been taken, a reference to a function when the variables that
   the function refers to, directly or through other functions (visited by
   levels, at most length funcs steps: funcVarDeps), have been taken.
   sc_order_old: the algorithm before the repair (every function counted as
   resolved), kept for the refutation that documents the defect.
   go_order: the Go specification - repeatedly take the earliest variable that
   is ready, a variable depending on y if its initialiser refers to y or to a
   function that (transitively through functions) refers to y.
   A package is given by its variables and functions in source order, each
   with the package-level names its initialiser / body refers to.  The model
   keeps duplicates where the code uses a map of reached functions: the sets
   are the same.  No proofs. *)
From Verif Require Import Bytes.
Open Scope N_scope.

Definition name := N.
Record pkg := { vars : list (name * list name); funcs : list (name * list name) }.

Definition is_func (p : pkg) (d : name) : bool := mem (map fst (funcs p)) d.
Definition is_var (p : pkg) (d : name) : bool := mem (map fst (vars p)) d.

(* first element satisfying f, and the list without it *)
Fixpoint pick {A} (f : A -> bool) (l : list A) : option (A * list A) :=
  match l with
  | [] => None
  | x :: r => if f x then Some (x, r)
              else match pick f r with Some (y, r') => Some (y, x :: r') | None => None end
  end.

(* generic: repeatedly pick the first ready declaration; when none is ready the
   rest is appended as it is (the checker reports the error later) *)
Fixpoint order_by (ready : list name -> name * list name -> bool) (fuel : nat)
         (todo : list (name * list name)) (done : list name) : list name :=
  match fuel with
  | O => map fst todo
  | S k =>
    match pick (ready done) todo with
    | Some (v, rest) => fst v :: order_by ready k rest (fst v :: done)
    | None => map fst todo
    end
  end.

Definition refs_of (l : list (name * list name)) (n : name) : list name :=
  match assoc_get l n with Some r => r | None => [] end.

(* ---- Scriggo before the repair ---- *)
Definition sc_ready_old (p : pkg) (done : list name) (v : name * list name) : bool :=
  forallb (fun d => mem done d || is_func p d) (snd v).
Definition sc_order_old (p : pkg) : list name := order_by (sc_ready_old p) (length (vars p)) (vars p) [].

(* ---- Scriggo ---- *)
Definition func_refs (p : pkg) (f : name) : list name := filter (is_func p) (refs_of (funcs p) f).
Definition var_refs (p : pkg) (f : name) : list name := filter (is_var p) (refs_of (funcs p) f).

(* the functions of the levels 0..k starting from the level fs *)
Fixpoint freach (p : pkg) (k : nat) (fs : list name) : list name :=
  fs ++ match k with
        | O => []
        | S k' => freach p k' (flat_map (func_refs p) fs)
        end.

(* funcVarDeps *)
Definition func_var_deps (p : pkg) (f : name) : list name :=
  flat_map (var_refs p) (freach p (length (funcs p)) [f]).

Definition sc_ready (p : pkg) (done : list name) (v : name * list name) : bool :=
  forallb (fun d => if is_func p d then forallb (mem done) (func_var_deps p d) else mem done d) (snd v).
Definition sc_order (p : pkg) : list name := order_by (sc_ready p) (length (vars p)) (vars p) [].

(* ---- Go specification ---- *)

(* variables a function depends on, following function references up to depth fuel *)
Fixpoint fdeps (p : pkg) (fuel : nat) (f : name) : list name :=
  let rs := refs_of (funcs p) f in
  filter (is_var p) rs ++
  match fuel with
  | O => []
  | S k => flat_map (fdeps p k) (filter (is_func p) rs)
  end.

(* variables the initialiser of a variable depends on *)
Definition go_deps (p : pkg) (v : name * list name) : list name :=
  filter (is_var p) (snd v) ++ flat_map (fdeps p (length (funcs p))) (filter (is_func p) (snd v)).

Definition go_ready (p : pkg) (done : list name) (v : name * list name) : bool :=
  forallb (fun d => mem done d) (go_deps p v).
Definition go_order (p : pkg) : list name := order_by (go_ready p) (length (vars p)) (vars p) [].
