(* MiniGoTyping: a typed fragment of Go (basic types, named types over them,
   untyped constants, operators, conversions, declarations, assignment,
   if/for/switch/return, functions with multiple results, imports) and an
   EXECUTABLE type checker tc : program -> bool for it.
   The declarative typing relation written from the Go specification is in
   MiniGoSpec.v; the equivalence proofs are in proofs/MiniGo_proofs.v.
   No proofs here.

   Conventions: identifiers are numbers, 0 is the blank identifier; int and
   uint are 64 bits wide (the harness runs on amd64); constant values are exact
   rationals (the generator only produces dyadic float constants, for which
   float64 rounding is the identity). *)
From Coq Require Export List ZArith NArith QArith Bool.
Export ListNotations.

Definition ident := N.
Definition blank : ident := 0%N.

(* ------------------------------------------------------------------ types *)

Inductive basic :=
| BBool | BString
| BInt | BInt8 | BInt16 | BInt32 | BInt64
| BUint | BUint8 | BUint16 | BUint32 | BUint64
| BFloat64.

(* a type is a predeclared basic type, a defined type `type Tn b` over a basic
   type, a composite type (pointer, slice, array, map, struct with the fields
   F0 .. Fn-1 named by their position, function), the empty interface, or a
   defined type `type Tn u` over a composite type or the empty interface *)
Inductive ty :=
| TBasic (b : basic)
| TNamed (n : N) (b : basic)
| TPtr (t : ty)
| TSlice (t : ty)
| TArray (n : Z) (t : ty)
| TMap (k v : ty)
| TStruct (fs : list ty)
| TFunc (ps rs : list ty)
| TAny
| TDef (n : N) (u : ty).

(* the basic type under a type of basic underlying type; composite types have
   none: the answer BBool is never used for them, every use is guarded by
   tclass below, and no constant is representable in it *)
Definition under (t : ty) : basic :=
  match t with TBasic b => b | TNamed _ b => b | _ => BBool end.

(* the underlying type *)
Definition underlying (t : ty) : ty :=
  match t with TNamed _ b => TBasic b | TDef _ u => u | _ => t end.

Definition basic_eqb (a b : basic) : bool :=
  match a, b with
  | BBool, BBool | BString, BString | BInt, BInt | BInt8, BInt8 | BInt16, BInt16
  | BInt32, BInt32 | BInt64, BInt64 | BUint, BUint | BUint8, BUint8
  | BUint16, BUint16 | BUint32, BUint32 | BUint64, BUint64 | BFloat64, BFloat64 => true
  | _, _ => false
  end.

(* type identity *)
Fixpoint ty_eqb (a b : ty) {struct a} : bool :=
  let fix go (xs ys : list ty) {struct xs} : bool :=
    match xs, ys with
    | [], [] => true
    | x :: xs', y :: ys' => ty_eqb x y && go xs' ys'
    | _, _ => false
    end in
  match a, b with
  | TBasic x, TBasic y => basic_eqb x y
  | TNamed n x, TNamed m y => N.eqb n m && basic_eqb x y
  | TPtr x, TPtr y => ty_eqb x y
  | TSlice x, TSlice y => ty_eqb x y
  | TArray n x, TArray m y => Z.eqb n m && ty_eqb x y
  | TMap k v, TMap k' v' => ty_eqb k k' && ty_eqb v v'
  | TStruct xs, TStruct ys => go xs ys
  | TFunc ps rs, TFunc ps' rs' => go ps ps' && go rs rs'
  | TAny, TAny => true
  | TDef n u, TDef m u' => N.eqb n m && ty_eqb u u'
  | _, _ => false
  end.

Fixpoint tys_eqb (a b : list ty) : bool :=
  match a, b with
  | [], [] => true
  | x :: a', y :: b' => ty_eqb x y && tys_eqb a' b'
  | _, _ => false
  end.

(* classes of types, also used for the kinds of untyped constants *)
Inductive bclass := KBool | KStr | KInt | KFloat | KComp | KNil.

Definition class_of (b : basic) : bclass :=
  match b with
  | BBool => KBool | BString => KStr | BFloat64 => KFloat
  | _ => KInt
  end.

Definition is_numeric (k : bclass) : bool :=
  match k with KInt | KFloat => true | _ => false end.

Definition bclass_eqb (a b : bclass) : bool :=
  match a, b with
  | KBool, KBool | KStr, KStr | KInt, KInt | KFloat, KFloat | KComp, KComp | KNil, KNil => true
  | _, _ => false
  end.

(* the class of a type: that of its basic underlying type, KComp for the others *)
Definition tclass (t : ty) : bclass :=
  match t with TBasic b | TNamed _ b => class_of b | _ => KComp end.

(* value range of the integer types: (min, max) *)
Definition int_range (b : basic) : option (Z * Z) :=
  match b with
  | BInt | BInt64 => Some (- 2 ^ 63, 2 ^ 63 - 1)
  | BInt8 => Some (- 2 ^ 7, 2 ^ 7 - 1)
  | BInt16 => Some (- 2 ^ 15, 2 ^ 15 - 1)
  | BInt32 => Some (- 2 ^ 31, 2 ^ 31 - 1)
  | BUint | BUint64 => Some (0, 2 ^ 64 - 1)
  | BUint8 => Some (0, 2 ^ 8 - 1)
  | BUint16 => Some (0, 2 ^ 16 - 1)
  | BUint32 => Some (0, 2 ^ 32 - 1)
  | _ => None
  end%Z.

(* untyped constant kinds, ordered int < rune < float for numeric ones *)
(* UNil is the kind of the predeclared nil *)
Inductive ukind := UBool | UInt | URune | UFloat | UString | UNil.

Definition kind_class (k : ukind) : bclass :=
  match k with UBool => KBool | UString => KStr | UFloat => KFloat | UNil => KNil | _ => KInt end.

Definition default_ty (k : ukind) : ty :=
  TBasic (match k with
          | UBool => BBool | UInt => BInt | URune => BInt32
          | UFloat => BFloat64 | UString => BString
          | UNil => BBool (* nil has no default type: no rule converts it to bool *) end).

Definition kind_rank (k : ukind) : N :=
  match k with UInt => 1 | URune => 2 | UFloat => 3 | _ => 0 end%N.

(* --------------------------------------------------------- constant values *)

(* the value of a numeric constant is an exact rational, kept reduced; the
   values of boolean and string constants do not influence typing *)
Inductive cval := CNum (q : Q) | COther.

Definition qint (q : Q) : option Z :=
  let r := Qred q in
  if Pos.eqb (Qden r) 1 then Some (Qnum r) else None.

Definition qz (z : Z) : Q := inject_Z z.

Definition max_float64 : Q := qz (2 ^ 1024 - 2 ^ 971).

Definition q_abs_le (q m : Q) : bool := Qle_bool q m && Qle_bool (Qopp m) q.

(* the constant q is representable by a value of the basic type b *)
Definition const_fits (q : Q) (b : basic) : bool :=
  match int_range b with
  | Some (lo, hi) =>
    match qint q with
    | Some z => Z.leb lo z && Z.leb z hi
    | None => false
    end
  | None =>
    match b with
    | BFloat64 => q_abs_le q max_float64
    | _ => false
    end
  end.

Definition q_is_zero (q : Q) : bool := Z.eqb (Qnum q) 0.

(* ------------------------------------------- types of expressions (operands) *)

(* typed, or untyped of some kind *)
Inductive vty := VT (t : ty) | VU (k : ukind).

(* EVal v (Some c): a constant; EVal v None: a non constant value (an untyped
   non constant value only arises as the boolean result of a comparison);
   ETuple: the result of a call of a function with zero or several results *)
Inductive etype := EVal (v : vty) (c : option cval) | ETuple (ts : list ty).

Definition vty_class (v : vty) : bclass :=
  match v with VT t => tclass t | VU k => kind_class k end.

(* ---- properties of types ---- *)

Definition is_iface (t : ty) : bool := match underlying t with TAny => true | _ => false end.

(* a type is named if it is predeclared or defined (any is an alias of the
   type literal interface{}) *)
Definition is_named (t : ty) : bool :=
  match t with TBasic _ | TNamed _ _ | TDef _ _ => true | _ => false end.

(* nil is a value of pointer, slice, map, function and interface types *)
Definition nillable (t : ty) : bool :=
  match underlying t with TPtr _ | TSlice _ | TMap _ _ | TFunc _ _ | TAny => true | _ => false end.

(* comparable types: basic types, pointers, interfaces; structs and arrays
   of comparable types; not slices, maps, functions *)
Fixpoint comparable (t : ty) : bool :=
  match t with
  | TBasic _ | TNamed _ _ | TPtr _ | TAny => true
  | TSlice _ | TMap _ _ | TFunc _ _ => false
  | TArray _ e => comparable e
  | TStruct fs => (fix all (l : list ty) : bool := match l with [] => true | x :: r => comparable x && all r end) fs
  | TDef _ u => comparable u
  end.

(* well formed types: array lengths are not negative, map keys are
   comparable, a defined type is defined over a type literal *)
Fixpoint wf_ty (t : ty) : bool :=
  let fix all (l : list ty) : bool := match l with [] => true | x :: r => wf_ty x && all r end in
  match t with
  | TBasic _ | TNamed _ _ | TAny => true
  | TPtr e | TSlice e => wf_ty e
  | TArray n e => Z.leb 0 n && wf_ty e
  | TMap k v => wf_ty k && comparable k && wf_ty v
  | TStruct fs => all fs
  | TFunc ps rs => all ps && all rs
  | TDef _ u => wf_ty u && negb (is_named u)
  end.

(* a value of type v is assignable to a variable of type t: identical types,
   identical underlying types when one of them is not named, or t is the
   empty interface (which every type implements) *)
Definition assignable_ty (v t : ty) : bool :=
  ty_eqb v t
  || (ty_eqb (underlying v) (underlying t) && (negb (is_named v) || negb (is_named t)))
  || is_iface t.

(* implicit conversion of an untyped operand to the type t; an untyped
   constant converted to an interface type takes its default type first *)
Definition conv_basic (k : ukind) (c : option cval) (t : ty) : bool :=
  match kind_class k, tclass t with
  | KBool, KBool | KStr, KStr => true
  | (KInt | KFloat), (KInt | KFloat) =>
    match c with
    | Some (CNum q) => const_fits q (under t)
    | _ => false
    end
  | _, _ => false
  end.

Definition conv_untyped (k : ukind) (c : option cval) (t : ty) : option etype :=
  match k with
  | UNil => if nillable t then Some (EVal (VT t) c) else None
  | _ =>
    if is_iface t then (if conv_basic k c (default_ty k) then Some (EVal (VT t) c) else None)
    else if conv_basic k c t then Some (EVal (VT t) c) else None
  end.

(* assignability of an operand to a variable of type t *)
Definition assign_to (e : etype) (t : ty) : bool :=
  match e with
  | EVal (VT t') _ => assignable_ty t' t
  | EVal (VU k) c => match conv_untyped k c t with Some _ => true | None => false end
  | ETuple _ => false
  end.

(* the type an operand gets when no type is given: x := e, var x = e, _ = e *)
Definition default_of (e : etype) : option ty :=
  match e with
  | EVal (VT t) _ => Some t
  | EVal (VU k) c => match conv_untyped k c (default_ty k) with Some _ => Some (default_ty k) | None => None end
  | ETuple _ => None
  end.

(* ---------------------------------------------------------------- operators *)

Inductive unop := UPlus | UNeg | UNot | UCompl.

Inductive binop :=
| OAdd | OSub | OMul | ODiv | ORem
| OAnd | OOr | OXor | OAndNot
| OShl | OShr
| OEq | ONe | OLt | OLe | OGt | OGe
| OLAnd | OLOr.

Definition is_shift (o : binop) : bool := match o with OShl | OShr => true | _ => false end.
Definition is_equality (o : binop) : bool := match o with OEq | ONe => true | _ => false end.
Definition is_order (o : binop) : bool := match o with OLt | OLe | OGt | OGe => true | _ => false end.
Definition is_comparison (o : binop) : bool := is_equality o || is_order o.
Definition is_logical (o : binop) : bool := match o with OLAnd | OLOr => true | _ => false end.

(* the arithmetic or logical operator o is defined on operands of class k *)
Definition op_defined (o : binop) (k : bclass) : bool :=
  match o with
  | OAdd => match k with KStr | KInt | KFloat => true | _ => false end
  | OSub | OMul | ODiv => is_numeric k
  | ORem | OAnd | OOr | OXor | OAndNot => bclass_eqb k KInt
  | OLAnd | OLOr => bclass_eqb k KBool
  | _ => false
  end.

Definition is_unsigned (b : basic) : bool :=
  match b with BUint | BUint8 | BUint16 | BUint32 | BUint64 => true | _ => false end.

(* value of a constant operation on numeric operands of class k (k = KInt:
   integer division and remainder truncate toward zero) *)
Definition qbin (o : binop) (k : bclass) (a b : Q) : option Q :=
  match o with
  | OAdd => Some (Qred (a + b))
  | OSub => Some (Qred (a - b))
  | OMul => Some (Qred (a * b))
  | ODiv =>
    match k with
    | KInt => match qint a, qint b with
              | Some x, Some y => Some (qz (Z.quot x y))
              | _, _ => None
              end
    | _ => Some (Qred (a / b))
    end
  | ORem => match qint a, qint b with Some x, Some y => Some (qz (Z.rem x y)) | _, _ => None end
  | OAnd => match qint a, qint b with Some x, Some y => Some (qz (Z.land x y)) | _, _ => None end
  | OOr => match qint a, qint b with Some x, Some y => Some (qz (Z.lor x y)) | _, _ => None end
  | OXor => match qint a, qint b with Some x, Some y => Some (qz (Z.lxor x y)) | _, _ => None end
  | OAndNot => match qint a, qint b with Some x, Some y => Some (qz (Z.ldiff x y)) | _, _ => None end
  | _ => None
  end.

(* the constant result c of an operation whose type is v: a typed numeric
   constant must be representable in its type (constant overflow) *)
Definition const_ok (v : vty) (c : cval) : bool :=
  match v, c with
  | VT t, CNum q => const_fits q (under t)
  | _, _ => true
  end.

Definition mk_const (v : vty) (c : cval) : option etype :=
  if const_ok v c then Some (EVal v (Some c)) else None.

(* operands of a binary operation brought to a common type: the common vty
   and the two (possibly absent) constant values *)
Definition match_types (a b : etype) : option (vty * option cval * option cval) :=
  match a, b with
  | EVal (VT t1) c1, EVal (VT t2) c2 =>
    if ty_eqb t1 t2 then Some (VT t1, c1, c2) else None
  | EVal (VT t1) c1, EVal (VU k2) c2 =>
    match conv_untyped k2 c2 t1 with Some _ => Some (VT t1, c1, c2) | None => None end
  | EVal (VU k1) c1, EVal (VT t2) c2 =>
    match conv_untyped k1 c1 t2 with Some _ => Some (VT t2, c1, c2) | None => None end
  | EVal (VU k1) c1, EVal (VU k2) c2 =>
    if is_numeric (kind_class k1) && is_numeric (kind_class k2) then
      Some (VU (if N.ltb (kind_rank k1) (kind_rank k2) then k2 else k1), c1, c2)
    else if bclass_eqb (kind_class k1) (kind_class k2) then Some (VU k1, c1, c2)
    else None
  | _, _ => None
  end.

Definition both_const (c1 c2 : option cval) : bool :=
  match c1, c2 with Some _, Some _ => true | _, _ => false end.

(* operands of a comparison: "the first operand must be assignable to the
   type of the second operand, or vice versa"; the result is the class in
   which the comparison takes place and whether both operands are constants *)
Definition is_nil_operand (e : etype) : bool :=
  match e with EVal (VU UNil) _ => true | _ => false end.

Definition cmp_compat (a b : etype) : option (option cval * option cval) :=
  match a, b with
  | EVal (VT t1) c1, EVal (VT t2) c2 =>
    if assignable_ty t1 t2 || assignable_ty t2 t1 then Some (c1, c2) else None
  | _, _ => match match_types a b with Some (_, c1, c2) => Some (c1, c2) | None => None end
  end.

(* the operand e can be compared with == and != to the operand other: its
   type is comparable, or it is a slice, map or function value compared to
   nil; nil is not compared to nil *)
Definition eq_operand_ok (other : etype) (e : etype) : bool :=
  match e with
  | EVal (VT t) _ => comparable t || (is_nil_operand other && nillable t)
  | EVal (VU k) _ => negb (bclass_eqb (kind_class k) KNil) || negb (is_nil_operand other)
  | ETuple _ => false
  end.

Definition is_ordered (k : bclass) : bool :=
  match k with KInt | KFloat | KStr => true | _ => false end.

Definition ordered_operand (e : etype) : bool :=
  match e with EVal v _ => is_ordered (vty_class v) | ETuple _ => false end.

Definition tc_compare (o : binop) (a b : etype) : option etype :=
  match cmp_compat a b with
  | None => None
  | Some (c1, c2) =>
    if (if is_order o then ordered_operand a && ordered_operand b
        else eq_operand_ok b a && eq_operand_ok a b)
    then Some (EVal (VU UBool) (if both_const c1 c2 then Some COther else None))
    else None
  end.

Definition is_zero_const (c : option cval) : bool :=
  match c with Some (CNum q) => q_is_zero q | _ => false end.

Definition is_const (c : option cval) : bool := match c with Some _ => true | None => false end.

Definition max_shift : Z := 1074.

(* the count of a shift: an integer type, or an untyped constant representable
   as uint; a constant count is not negative *)
Definition shift_count_ok (vb : vty) (cb : option cval) : bool :=
  match vb, cb with
  | VT t, None => bclass_eqb (tclass t) KInt
  | VT t, Some (CNum q) =>
    bclass_eqb (tclass t) KInt && match qint q with Some z => Z.leb 0 z | None => false end
  | VU k, Some (CNum q) => is_numeric (kind_class k) && const_fits q BUint
  | _, _ => false
  end.

(* the type of a constant shift: that of the left operand; an untyped constant
   that is not of integer kind becomes an untyped integer constant *)
Definition shift_result_vty (va : vty) : vty :=
  match va with
  | VU k => if bclass_eqb (kind_class k) KInt then va else VU UInt
  | _ => va
  end.

Definition shift_value (o : binop) (x s : Z) : Z :=
  match o with OShl => Z.shiftl x s | _ => Z.shiftr x s end.

(* x << y, x >> y *)
Definition tc_shift (o : binop) (a b : etype) : option etype :=
  match a, b with
  | EVal va ca, EVal vb cb =>
    if negb (shift_count_ok vb cb) then None else
    match va, ca with
    | VT t, None =>
      if bclass_eqb (tclass t) KInt then Some (EVal (VT t) None) else None
    | _, Some (CNum q) =>
      (* constant shifted operand: of integer type, or untyped and integral *)
      let left_ok := match va with
                     | VT t => bclass_eqb (tclass t) KInt
                     | VU k => is_numeric (kind_class k)
                     end in
      match left_ok, qint q with
      | true, Some x =>
        match cb with
        | Some (CNum qs) =>
          match qint qs with
          | Some s =>
            if Z.leb s max_shift then
              mk_const (shift_result_vty va) (CNum (qz (shift_value o x s)))
            else None
          | None => None
          end
        | _ =>
          (* non constant shift of a constant: an untyped constant takes the
             type it would have without the shift; the fragment only uses it
             where that type is int *)
          match va with
          | VT t => Some (EVal (VT t) None)
          | VU _ => if const_fits q BInt then Some (EVal (VT (TBasic BInt)) None) else None
          end
        end
      | _, _ => None
      end
    | _, _ => None
    end
  | _, _ => None
  end.

(* division or remainder by a constant zero: an error when the dividend is a
   constant or of integer type *)
Definition div_zero_b (o : binop) (k : bclass) (c1 c2 : option cval) : bool :=
  (match o with ODiv | ORem => true | _ => false end)
  && is_zero_const c2 && (is_const c1 || bclass_eqb k KInt).

Definition tc_binary (o : binop) (a b : etype) : option etype :=
  if is_shift o then tc_shift o a b else
  if is_comparison o then tc_compare o a b else
  match match_types a b with
  | None => None
  | Some (v, c1, c2) =>
    let k := vty_class v in
    if negb (op_defined o k) then None
    else if div_zero_b o k c1 c2 then None
    else
      match c1, c2 with
      | Some (CNum q1), Some (CNum q2) =>
        match qbin o k q1 q2 with
        | Some r => mk_const v (CNum r)
        | None => None
        end
      | Some _, Some _ => Some (EVal v (Some COther))
      | _, _ => Some (EVal v None)
      end
  end.

Definition int_width (b : basic) : Z :=
  match b with
  | BUint8 => 8 | BUint16 => 16 | BUint32 => 32 | _ => 64
  end.

(* the unary operator o is defined on operands of class k *)
Definition un_defined (o : unop) (k : bclass) : bool :=
  match o with
  | UPlus | UNeg => is_numeric k
  | UNot => bclass_eqb k KBool
  | UCompl => bclass_eqb k KInt
  end.

(* ^x for a constant x: complement within the width of an unsigned type, -x-1 otherwise *)
Definition compl_value (v : vty) (x : Z) : Z :=
  match v with
  | VT t => if is_unsigned (under t) then Z.lxor x (2 ^ int_width (under t) - 1) else (- x - 1)
  | VU _ => (- x - 1)
  end%Z.

Definition tc_unary (o : unop) (a : etype) : option etype :=
  match a with
  | EVal v c =>
    if negb (un_defined o (vty_class v)) then None else
    match c with
    | None => Some (EVal v None)
    | Some COther => Some (EVal v (Some COther))
    | Some (CNum q) =>
      match o with
      | UPlus => Some (EVal v (Some (CNum q)))
      | UNeg => mk_const v (CNum (Qred (Qopp q)))
      | UCompl =>
        match qint q with
        | Some x => mk_const v (CNum (qz (compl_value v x)))
        | None => None
        end
      | UNot => None
      end
    end
  | ETuple _ => None
  end.

(* conversion T(x) *)
Definition is_bytes_or_runes (t : ty) : bool :=
  match underlying t with
  | TSlice e => match underlying e with TBasic BUint8 | TBasic BInt32 => true | _ => false end
  | _ => false
  end.

(* a non constant value of type t2 can be converted to t *)
Definition convertible (t2 t : ty) : bool :=
  assignable_ty t2 t
  || ty_eqb (underlying t2) (underlying t)
  || match t2, t with TPtr a, TPtr b => ty_eqb (underlying a) (underlying b) | _, _ => false end
  || (is_numeric (tclass t2) && is_numeric (tclass t))
  || (bclass_eqb (tclass t2) KInt && bclass_eqb (tclass t) KStr)
  || (bclass_eqb (tclass t2) KStr && is_bytes_or_runes t)
  || (is_bytes_or_runes t2 && bclass_eqb (tclass t) KStr).

Definition tc_convert (t : ty) (a : etype) : option etype :=
  match a with
  | EVal v (Some c) =>
    (* constant conversion; to an interface or a slice type the result is not a constant *)
    if is_iface t then
      match v with
      | VT _ => Some (EVal (VT t) None)
      | VU k => if conv_basic k (Some c) (default_ty k) then Some (EVal (VT t) None) else None
      end
    else if bclass_eqb (vty_class v) KStr && is_bytes_or_runes t then Some (EVal (VT t) None)
    else
    match vty_class v, tclass t, c with
    | (KInt | KFloat), (KInt | KFloat), CNum q =>
      if const_fits q (under t) then Some (EVal (VT t) (Some c)) else None
    | KInt, KStr, CNum _ => Some (EVal (VT t) (Some COther))
    | KStr, KStr, COther | KBool, KBool, COther => Some (EVal (VT t) (Some COther))
    | _, _, _ => None
    end
  | EVal (VT t2) None =>
    if convertible t2 t then Some (EVal (VT t) None) else None
  | EVal (VU k2) None =>
    if match kind_class k2 with
       | KNil => nillable t
       | KBool => bclass_eqb (tclass t) KBool || is_iface t
       | _ => false
       end
    then Some (EVal (VT t) None) else None
  | ETuple _ => None
  end.

(* ---- index, slice, selector, indirection ---- *)

(* an index: of integer type, or an untyped constant representable as int; a
   constant index is not negative.  Some (Some z): the constant index z *)
Definition index_ok (i : etype) : option (option Z) :=
  match i with
  | EVal (VT t) None => if bclass_eqb (tclass t) KInt then Some None else None
  | EVal (VT t) (Some (CNum q)) =>
    if bclass_eqb (tclass t) KInt then
      match qint q with Some z => if Z.leb 0 z then Some (Some z) else None | None => None end
    else None
  | EVal (VU k) (Some (CNum q)) =>
    if is_numeric (kind_class k) && const_fits q BInt then
      match qint q with Some z => if Z.leb 0 z then Some (Some z) else None | None => None end
    else None
  | _ => None
  end.

(* a constant index is below (incl: not above) the length n *)
Definition in_bound (z : option Z) (n : Z) (incl : bool) : bool :=
  match z with Some z => if incl then Z.leb z n else Z.ltb z n | None => true end.

(* the array type that t is or points to *)
Definition array_of (t : ty) : option (Z * ty) :=
  match underlying t with
  | TArray n e => Some (n, e)
  | TPtr p => match underlying p with TArray n e => Some (n, e) | _ => None end
  | _ => None
  end.

Definition is_string_ty (t : ty) : bool := bclass_eqb (tclass t) KStr.

Definition tc_index (a i : etype) : option etype :=
  match a with
  | EVal (VT t) _ =>
    match underlying t with
    | TSlice e => match index_ok i with Some _ => Some (EVal (VT e) None) | None => None end
    | TMap k v => if assign_to i k then Some (EVal (VT v) None) else None
    | _ =>
      match array_of t with
      | Some (n, e) =>
        match index_ok i with
        | Some z => if in_bound z n false then Some (EVal (VT e) None) else None
        | None => None
        end
      | None =>
        if is_string_ty t then
          match index_ok i with Some _ => Some (EVal (VT (TBasic BUint8)) None) | None => None end
        else None
      end
    end
  | EVal (VU UString) (Some _) =>
    match index_ok i with Some _ => Some (EVal (VT (TBasic BUint8)) None) | None => None end
  | _ => None
  end.

Definition bounds_ordered (zl zh : option Z) : bool :=
  match zl, zh with Some l, Some h => Z.leb l h | _, _ => true end.

(* a[lo:hi]; addr: the operand is addressable (needed for an array operand) *)
Definition tc_slice (addr : bool) (a : etype) (zl zh : option Z) : option etype :=
  if negb (bounds_ordered zl zh) then None else
  match a with
  | EVal (VT t) _ =>
    match underlying t with
    | TSlice _ => Some (EVal (VT t) None)
    | TArray n e =>
      if addr && in_bound zl n true && in_bound zh n true then Some (EVal (VT (TSlice e)) None) else None
    | TPtr p =>
      match underlying p with
      | TArray n e => if in_bound zl n true && in_bound zh n true then Some (EVal (VT (TSlice e)) None) else None
      | _ => None
      end
    | _ => if is_string_ty t then Some (EVal (VT t) None) else None
    end
  | EVal (VU UString) (Some _) => Some (EVal (VT (TBasic BString)) None)
  | _ => None
  end.

(* the struct type that t is or points to; true: through a pointer *)
Definition struct_of (t : ty) : option (list ty * bool) :=
  match underlying t with
  | TStruct fs => Some (fs, false)
  | TPtr p => match underlying p with TStruct fs => Some (fs, true) | _ => None end
  | _ => None
  end.

Definition tc_sel (a : etype) (i : N) : option etype :=
  match a with
  | EVal (VT t) _ =>
    match struct_of t with
    | Some (fs, _) => match nth_error fs (N.to_nat i) with Some f => Some (EVal (VT f) None) | None => None end
    | None => None
    end
  | _ => None
  end.

Definition tc_deref (a : etype) : option etype :=
  match a with
  | EVal (VT t) _ => match underlying t with TPtr p => Some (EVal (VT p) None) | _ => None end
  | _ => None
  end.

Definition tc_addr (ok : bool) (a : etype) : option etype :=
  match a with
  | EVal (VT t) _ => if ok then Some (EVal (VT (TPtr t)) None) else None
  | _ => None
  end.

(* x.(T): x of interface type *)
Definition tc_assert (a : etype) (t : ty) : option etype :=
  match a with
  | EVal (VT t2) _ => if is_iface t2 && wf_ty t then Some (EVal (VT t) None) else None
  | _ => None
  end.

(* ---- builtin functions ---- *)

Definition int_val : etype := EVal (VT (TBasic BInt)) None.

(* len(x) and cap(x) (cp = true); nocalls: x contains no function call, which
   makes the length of an array a constant *)
Definition tc_len (cp nocalls : bool) (a : etype) : option etype :=
  match a with
  | EVal (VT t) _ =>
    match underlying t with
    | TSlice _ => Some int_val
    | TMap _ _ => if cp then None else Some int_val
    | _ =>
      match array_of t with
      | Some (n, _) =>
        Some (if nocalls then EVal (VT (TBasic BInt)) (Some (CNum (qz n))) else int_val)
      | None => if is_string_ty t && negb cp then Some int_val else None
      end
    end
  | EVal (VU UString) (Some _) => if cp then None else Some int_val
  | _ => None
  end.

Definition all_assign_elem (vs : list etype) (t : ty) : bool := forallb (fun v => assign_to v t) vs.

(* append(s, x1 .. xn) *)
Definition tc_append (s : etype) (vs : list etype) : option etype :=
  match s with
  | EVal (VT t) _ =>
    match underlying t with
    | TSlice e => if all_assign_elem vs e then Some (EVal (VT t) None) else None
    | _ => None
    end
  | _ => None
  end.

(* a size argument of make *)
Definition size_ok (v : etype) : option (option Z) := index_ok v.

(* make(T, sizes) *)
Definition tc_make (t : ty) (vs : list etype) : option etype :=
  if negb (wf_ty t) then None else
  match underlying t, vs with
  | TSlice _, [l] => match size_ok l with Some _ => Some (EVal (VT t) None) | None => None end
  | TSlice _, [l; c] =>
    match size_ok l, size_ok c with
    | Some zl, Some zc => if bounds_ordered zl zc then Some (EVal (VT t) None) else None
    | _, _ => None
    end
  | TMap _ _, [] => Some (EVal (VT t) None)
  | TMap _ _, [l] => match size_ok l with Some _ => Some (EVal (VT t) None) | None => None end
  | _, _ => None
  end.

Definition tc_new (t : ty) : option etype :=
  if wf_ty t then Some (EVal (VT (TPtr t)) None) else None.

(* copy(dst, src): slices of identical element types, or bytes from a string *)
Definition tc_copy (d s : etype) : option etype :=
  match d with
  | EVal (VT td) _ =>
    match underlying td with
    | TSlice ed =>
      match s with
      | EVal (VT ts) _ =>
        match underlying ts with
        | TSlice es => if ty_eqb ed es then Some int_val else None
        | _ => if is_string_ty ts && ty_eqb (underlying ed) (TBasic BUint8) then Some int_val else None
        end
      | EVal (VU UString) (Some _) => if ty_eqb (underlying ed) (TBasic BUint8) then Some int_val else None
      | _ => None
      end
    | _ => None
    end
  | _ => None
  end.

(* delete(m, k) *)
Definition tc_delete (m k : etype) : option etype :=
  match m with
  | EVal (VT t) _ =>
    match underlying t with
    | TMap kt _ => if assign_to k kt then Some (ETuple []) else None
    | _ => None
    end
  | _ => None
  end.

(* ---- composite literals ---- *)

(* an element of a composite literal after its parts are typed: positional,
   with a constant index or field number, or with a key expression *)
Inductive item := IPos (v : etype) | IIdx (z : Z) (v : etype) | IKey (k v : etype).

Definition memZ (z : Z) (l : list Z) : bool := existsb (Z.eqb z) l.

(* struct literal with positional values *)
Fixpoint lit_struct_pos (fs : list ty) (its : list item) : bool :=
  match fs, its with
  | [], [] => true
  | f :: fs', IPos v :: its' => assign_to v f && lit_struct_pos fs' its'
  | _, _ => false
  end.

(* struct literal with field names: known fields, no duplicates *)
Fixpoint lit_struct_key (fs : list ty) (seen : list Z) (its : list item) : bool :=
  match its with
  | [] => true
  | IIdx z v :: its' =>
    Z.leb 0 z && negb (memZ z seen)
    && match nth_error fs (Z.to_nat z) with Some f => assign_to v f | None => false end
    && lit_struct_key fs (z :: seen) its'
  | _ :: _ => false
  end.

(* array (bound Some n) or slice literal: cur is the index of the next
   positional element *)
Fixpoint lit_elems (bound : option Z) (e : ty) (cur : Z) (seen : list Z) (its : list item) : bool :=
  match its with
  | [] => true
  | IPos v :: its' =>
    in_bound (Some cur) (match bound with Some n => n | None => cur + 1 end) false
    && negb (memZ cur seen) && assign_to v e
    && lit_elems bound e (cur + 1) (cur :: seen) its'
  | IIdx z v :: its' =>
    Z.leb 0 z && in_bound (Some z) (match bound with Some n => n | None => z + 1 end) false
    && negb (memZ z seen) && assign_to v e
    && lit_elems bound e (z + 1) (z :: seen) its'
  | IKey _ _ :: _ => false
  end.

Definition const_num (e : etype) : option Q :=
  match e with EVal _ (Some (CNum q)) => Some q | _ => None end.

Definition memQ (q : Q) (l : list Q) : bool := existsb (Qeq_bool q) l.

(* map literal: every element has a key; no two equal numeric constant keys *)
Fixpoint lit_map (k v : ty) (seen : list Q) (its : list item) : bool :=
  match its with
  | [] => true
  | IKey tk tv :: its' =>
    assign_to tk k && assign_to tv v
    && match const_num tk with
       | Some q => negb (memQ q seen) && lit_map k v (q :: seen) its'
       | None => lit_map k v seen its'
       end
  | _ :: _ => false
  end.

Definition all_pos (its : list item) : bool := forallb (fun i => match i with IPos _ => true | _ => false end) its.

Definition tc_complit (t : ty) (its : list item) : option etype :=
  if negb (wf_ty t) then None else
  if match underlying t with
     | TStruct fs =>
       match its with
       | [] => true
       | _ => if all_pos its then lit_struct_pos fs its else lit_struct_key fs [] its
       end
     | TArray n e => lit_elems (Some n) e 0 [] its
     | TSlice e => lit_elems None e 0 [] its
     | TMap k v => lit_map k v [] its
     | _ => false
     end
  then Some (EVal (VT t) None) else None.

(* -------------------------------------------------------------- expressions *)

Inductive expr :=
| ELitB (b : bool)
| ELitI (z : Z)                     (* integer literal *)
| ELitR (z : Z)                     (* rune literal *)
| ELitF (n : Z) (d : positive)      (* floating-point literal n/d *)
| ELitS (s : N)                     (* string literal number s *)
| ENilE                             (* the predeclared nil *)
| EVar (x : ident)
| EUn (o : unop) (e : expr)
| EBin (o : binop) (a b : expr)
| EConv (t : ty) (e : expr)
| ECall (f : ident) (args : exprs)
| EPkg (p f : N) (args : exprs)     (* call of function f of the imported package p *)
| ECompLit (t : ty) (els : elts)    (* T{...} *)
| EIndex (a i : expr)               (* a[i] *)
| ESliceE (a lo hi : expr)          (* a[lo:hi]; EOmit for an absent bound *)
| EOmit                             (* only as an absent bound of a slice expression *)
| EAddr (e : expr)                  (* &e *)
| EDeref (e : expr)                 (* *e *)
| ESel (e : expr) (i : N)           (* e.Fi *)
| ELen (e : expr) | ECap (e : expr)
| EAppend (s : expr) (args : exprs)
| EMake (t : ty) (args : exprs)
| ENew (t : ty)
| ECopy (d s : expr)
| EDelete (m k : expr)
| EAssert (e : expr) (t : ty)       (* e.(T) *)
with exprs := ENone | ECons (e : expr) (r : exprs)
with elts :=
| LNil
| LPos (e : expr) (r : elts)            (* e *)
| LIdx (z : Z) (e : expr) (r : elts)    (* z: e  (array, slice)   Fz: e  (struct) *)
| LKey (k e : expr) (r : elts).         (* k: e  (map) *)

Inductive entity :=
| EntVar (t : ty)
| EntConst (e : etype)
| EntFunc (ps rs : list ty).

Definition scope := list (ident * entity).
Definition env := list scope.      (* innermost scope first *)

Fixpoint scope_get (s : scope) (x : ident) : option entity :=
  match s with
  | [] => None
  | (y, e) :: r => if N.eqb y x then Some e else scope_get r x
  end.

Fixpoint lookup (E : env) (x : ident) : option entity :=
  match E with
  | [] => None
  | s :: r => match scope_get s x with Some e => Some e | None => lookup r x end
  end.

(* the packages that can be imported and their functions: 0 = strings
   (0 ToUpper(string) string, 1 Repeat(string, int) string), 1 = strconv
   (0 Itoa(int) string) *)
Definition pkg_sig (p f : N) : option (list ty * list ty) :=
  match p, f with
  | 0, 0 => Some ([TBasic BString], [TBasic BString])
  | 0, 1 => Some ([TBasic BString; TBasic BInt], [TBasic BString])
  | 1, 0 => Some ([TBasic BInt], [TBasic BString])
  | _, _ => None
  end%N.

Definition pkg_known (p : N) : bool := N.ltb p 2.

Definition memN (x : N) (l : list N) : bool := existsb (N.eqb x) l.

Fixpoint args_ok (as_ : list etype) (ps : list ty) : bool :=
  match as_, ps with
  | [], [] => true
  | a :: as', p :: ps' => assign_to a p && args_ok as' ps'
  | _, _ => false
  end.

Definition call_result (rs : list ty) : etype :=
  match rs with [t] => EVal (VT t) None | _ => ETuple rs end.

(* the expression contains no function call (the length of an array it
   denotes is then a constant) *)
Fixpoint no_calls (e : expr) : bool :=
  match e with
  | ECall _ _ | EPkg _ _ _ | EAppend _ _ | EMake _ _ | ENew _ | ECopy _ _ | EDelete _ _ => false
  | EUn _ a | EConv _ a | EAddr a | EDeref a | ESel a _ | ELen a | ECap a | EAssert a _ => no_calls a
  | EBin _ a b | EIndex a b => no_calls a && no_calls b
  | ESliceE a b c => no_calls a && no_calls b && no_calls c
  | ECompLit _ els => no_calls_elts els
  | _ => true
  end
with no_calls_elts (l : elts) : bool :=
  match l with
  | LNil => true
  | LPos e r | LIdx _ e r => no_calls e && no_calls_elts r
  | LKey k e r => no_calls k && no_calls e && no_calls_elts r
  end.

Definition is_complit (e : expr) : bool := match e with ECompLit _ _ => true | _ => false end.

(* G: the imported packages.  addressable: "a variable, pointer indirection,
   or slice indexing operation; or a field selector of an addressable struct
   operand; or an array indexing operation of an addressable array" *)
Fixpoint tc_expr (G : list N) (E : env) (e : expr) : option etype :=
  match e with
  | ELitB _ => Some (EVal (VU UBool) (Some COther))
  | ELitI z => Some (EVal (VU UInt) (Some (CNum (qz z))))
  | ELitR z => Some (EVal (VU URune) (Some (CNum (qz z))))
  | ELitF n d => Some (EVal (VU UFloat) (Some (CNum (Qred (n # d)))))
  | ELitS _ => Some (EVal (VU UString) (Some COther))
  | ENilE => Some (EVal (VU UNil) None)
  | EVar x =>
    if N.eqb x blank then None else
    match lookup E x with
    | Some (EntVar t) => Some (EVal (VT t) None)
    | Some (EntConst c) => Some c
    | Some (EntFunc ps rs) => Some (EVal (VT (TFunc ps rs)) None)
    | None => None
    end
  | EUn o a =>
    match tc_expr G E a with Some ta => tc_unary o ta | None => None end
  | EBin o a b =>
    match tc_expr G E a, tc_expr G E b with
    | Some ta, Some tb => tc_binary o ta tb
    | _, _ => None
    end
  | EConv t a =>
    if negb (wf_ty t) then None else
    match tc_expr G E a with Some ta => tc_convert t ta | None => None end
  | ECall f args =>
    match lookup E f, tc_exprs G E args with
    | Some (EntFunc ps rs), Some tas => if args_ok tas ps then Some (call_result rs) else None
    | Some (EntVar t), Some tas =>
      match underlying t with
      | TFunc ps rs => if args_ok tas ps then Some (call_result rs) else None
      | _ => None
      end
    | _, _ => None
    end
  | EPkg p f args =>
    if negb (memN p G) then None else
    match pkg_sig p f, tc_exprs G E args with
    | Some (ps, rs), Some tas => if args_ok tas ps then Some (call_result rs) else None
    | _, _ => None
    end
  | ECompLit t els =>
    match tc_elts G E els with Some its => tc_complit t its | None => None end
  | EIndex a i =>
    match tc_expr G E a, tc_expr G E i with
    | Some ta, Some ti => tc_index ta ti
    | _, _ => None
    end
  | ESliceE a lo hi =>
    match tc_expr G E a,
          match lo with EOmit => Some None | _ => match tc_expr G E lo with Some t => index_ok t | None => None end end,
          match hi with EOmit => Some None | _ => match tc_expr G E hi with Some t => index_ok t | None => None end end
    with
    | Some ta, Some zl, Some zh => tc_slice (addressable G E a) ta zl zh
    | _, _, _ => None
    end
  | EOmit => None
  | EAddr a =>
    match tc_expr G E a with
    | Some ta => tc_addr (addressable G E a || is_complit a) ta
    | None => None
    end
  | EDeref a => match tc_expr G E a with Some ta => tc_deref ta | None => None end
  | ESel a i => match tc_expr G E a with Some ta => tc_sel ta i | None => None end
  | ELen a => match tc_expr G E a with Some ta => tc_len false (no_calls a) ta | None => None end
  | ECap a => match tc_expr G E a with Some ta => tc_len true (no_calls a) ta | None => None end
  | EAppend a args =>
    match tc_expr G E a, tc_exprs G E args with
    | Some ta, Some tas => tc_append ta tas
    | _, _ => None
    end
  | EMake t args => match tc_exprs G E args with Some tas => tc_make t tas | None => None end
  | ENew t => tc_new t
  | ECopy d a =>
    match tc_expr G E d, tc_expr G E a with
    | Some td, Some ta => tc_copy td ta
    | _, _ => None
    end
  | EDelete m k =>
    match tc_expr G E m, tc_expr G E k with
    | Some tm, Some tk => tc_delete tm tk
    | _, _ => None
    end
  | EAssert a t => match tc_expr G E a with Some ta => tc_assert ta t | None => None end
  end
with tc_exprs (G : list N) (E : env) (es : exprs) : option (list etype) :=
  match es with
  | ENone => Some []
  | ECons e r =>
    match tc_expr G E e, tc_exprs G E r with
    | Some t, Some ts => Some (t :: ts)
    | _, _ => None
    end
  end
with tc_elts (G : list N) (E : env) (l : elts) : option (list item) :=
  match l with
  | LNil => Some []
  | LPos e r =>
    match tc_expr G E e, tc_elts G E r with
    | Some t, Some its => Some (IPos t :: its)
    | _, _ => None
    end
  | LIdx z e r =>
    match tc_expr G E e, tc_elts G E r with
    | Some t, Some its => Some (IIdx z t :: its)
    | _, _ => None
    end
  | LKey k e r =>
    match tc_expr G E k, tc_expr G E e, tc_elts G E r with
    | Some tk, Some t, Some its => Some (IKey tk t :: its)
    | _, _, _ => None
    end
  end
with addressable (G : list N) (E : env) (e : expr) : bool :=
  match e with
  | EVar x => negb (N.eqb x blank) && match lookup E x with Some (EntVar _) => true | _ => false end
  | EDeref _ => true
  | EIndex a _ =>
    match tc_expr G E a with
    | Some (EVal (VT t) _) =>
      match underlying t with
      | TSlice _ => true
      | TArray _ _ => addressable G E a
      | TPtr _ => true
      | _ => false
      end
    | _ => false
    end
  | ESel a _ =>
    match tc_expr G E a with
    | Some (EVal (VT t) _) =>
      match underlying t with TPtr _ => true | _ => addressable G E a end
    | _ => false
    end
  | _ => false
  end.

(* --------------------------------------------------------------- statements *)

Inductive stmt :=
| SVar (xs : list ident) (t : option ty) (es : exprs)  (* var xs [t] [= es] *)
| SConst (x : ident) (t : option ty) (e : expr)        (* const x [t] = e *)
| SShort (xs : list ident) (es : exprs)                (* xs := es *)
| SAssign (xs : list ident) (es : exprs)               (* xs = es, targets are variables or _ *)
| SOpAssign (x : ident) (o : binop) (e : expr)         (* x o= e *)
| SIncDec (x : ident)                                  (* x++ or x-- *)
| SExpr (e : expr)                                     (* expression statement *)
| SIf (c : expr) (th el : block)                       (* an empty el: no else branch *)
| SFor (c : expr) (body : block)                       (* for c { } *)
| SLoop (body : block)                                 (* for { } *)
| SSwitch (tag : expr) (cs : clauses) (d : block)      (* tag true: switch { }; empty d: no default *)
| SReturn (es : exprs)
| SBreak
| SContinue
| SBlock (b : block)
| SSet (l : expr) (e : expr)                           (* l = e, l an index expression, a selector or an indirection *)
| SRange (k v : ident) (def : bool) (e : expr) (body : block)
    (* for k, v := range e (def) or for k, v = range e; a blank v, or k and v, can be absent *)
with block := BNil | BCons (s : stmt) (r : block)
with clauses := CNil | CCons (es : exprs) (b : block) (r : clauses).

Record ctx := { cx_results : list ty; cx_loop : bool; cx_brk : bool }.

Definition in_loop (cx : ctx) : ctx := {| cx_results := cx_results cx; cx_loop := true; cx_brk := true |}.
Definition in_switch (cx : ctx) : ctx := {| cx_results := cx_results cx; cx_loop := cx_loop cx; cx_brk := true |}.

Definition head_scope (E : env) : scope := match E with s :: _ => s | [] => [] end.
Definition tail_env (E : env) : env := match E with _ :: r => r | [] => [] end.
Definition declare (E : env) (x : ident) (e : entity) : env :=
  if N.eqb x blank then E else ((x, e) :: head_scope E) :: tail_env E.
Definition in_head (E : env) (x : ident) : bool :=
  match scope_get (head_scope E) x with Some _ => true | None => false end.

Fixpoint declare_vars (E : env) (xs : list ident) (ts : list ty) : env :=
  match xs, ts with
  | x :: xs', t :: ts' => declare_vars (declare E x (EntVar t)) xs' ts'
  | _, _ => E
  end.

(* no non blank identifier occurs twice *)
Fixpoint nodup_names (xs : list ident) : bool :=
  match xs with
  | [] => true
  | x :: r => (N.eqb x blank || negb (memN x r)) && nodup_names r
  end.

Definition all_fresh (E : env) (xs : list ident) : bool :=
  forallb (fun x => N.eqb x blank || negb (in_head E x)) xs.

(* types of the values of a multiple assignment: n expressions for n
   operands, or one call with n results *)
Definition rhs_values (tes : list etype) : list etype :=
  match tes with
  | [ETuple ts] => map (fun t => EVal (VT t) None) ts
  | _ => tes
  end.

Fixpoint defaults_of (vs : list etype) : option (list ty) :=
  match vs with
  | [] => Some []
  | v :: r => match default_of v, defaults_of r with
              | Some t, Some ts => Some (t :: ts)
              | _, _ => None
              end
  end.

Fixpoint all_assign (vs : list etype) (ts : list ty) : bool :=
  match vs, ts with
  | [], [] => true
  | v :: vs', t :: ts' => assign_to v t && all_assign vs' ts'
  | _, _ => false
  end.

(* targets of xs = vs: blank takes any value that has a default type, a
   variable takes an assignable value *)
Fixpoint assign_targets (E : env) (xs : list ident) (vs : list etype) : bool :=
  match xs, vs with
  | [], [] => true
  | x :: xs', v :: vs' =>
    (if N.eqb x blank then match default_of v with Some _ => true | None => false end
     else match lookup E x with Some (EntVar t) => assign_to v t | _ => false end)
    && assign_targets E xs' vs'
  | _, _ => false
  end.

(* xs := vs: an identifier already declared in the current scope must be a
   variable and is assigned; the others are declared with the default type *)
Fixpoint short_targets (E : env) (xs : list ident) (vs : list etype) : option (list (ident * ty)) :=
  match xs, vs with
  | [], [] => Some []
  | x :: xs', v :: vs' =>
    match short_targets E xs' vs' with
    | None => None
    | Some news =>
      if N.eqb x blank then match default_of v with Some _ => Some news | None => None end
      else match scope_get (head_scope E) x with
           | Some (EntVar t) => if assign_to v t then Some news else None
           | Some _ => None
           | None => match default_of v with Some t => Some ((x, t) :: news) | None => None end
           end
    end
  | _, _ => None
  end.

Fixpoint declare_list (E : env) (l : list (ident * ty)) : env :=
  match l with
  | [] => E
  | (x, t) :: r => declare_list (declare E x (EntVar t)) r
  end.

Definition is_bool_cond (e : etype) : bool :=
  match e with
  | EVal v _ => bclass_eqb (vty_class v) KBool
  | ETuple _ => false
  end.

Definition is_call (e : expr) : bool :=
  match e with ECall _ _ | EPkg _ _ _ | ECopy _ _ | EDelete _ _ => true | _ => false end.

(* the left side of l = e when it is not an identifier *)
Definition is_lvalue_form (l : expr) : bool :=
  match l with EIndex _ _ | ESel _ _ | EDeref _ => true | _ => false end.

Definition is_map_index (G : list N) (E : env) (l : expr) : bool :=
  match l with
  | EIndex a _ =>
    match tc_expr G E a with
    | Some (EVal (VT t) _) => match underlying t with TMap _ _ => true | _ => false end
    | _ => false
    end
  | _ => false
  end.

(* the types of the iteration variables of a range clause *)
Definition range_types (e : etype) : option (ty * ty) :=
  match e with
  | EVal (VT t) _ =>
    match underlying t with
    | TSlice el => Some (TBasic BInt, el)
    | TMap k v => Some (k, v)
    | _ =>
      match array_of t with
      | Some (_, el) => Some (TBasic BInt, el)
      | None => if is_string_ty t then Some (TBasic BInt, TBasic BInt32) else None
      end
    end
  | EVal (VU UString) (Some _) => Some (TBasic BInt, TBasic BInt32)
  | _ => None
  end.

Definition is_arith (o : binop) : bool := negb (is_comparison o) && negb (is_logical o).

Fixpoint exprs_len (es : exprs) : nat :=
  match es with ENone => O | ECons _ r => S (exprs_len r) end.

(* each case expression must be comparable with the (typed) tag *)
Fixpoint cases_ok (tagv : etype) (tes : list etype) : bool :=
  match tes with
  | [] => true
  | te :: r => match tc_binary OEq tagv te with Some _ => true | None => false end && cases_ok tagv r
  end.

(* ---- use of variables (for "declared and not used") ---- *)

Fixpoint fu_expr (e : expr) : list ident :=
  match e with
  | EVar x => [x]
  | EUn _ a => fu_expr a
  | EBin _ a b => fu_expr a ++ fu_expr b
  | EConv _ a => fu_expr a
  | ECall f args => f :: fu_exprs args
  | EPkg _ _ args => fu_exprs args
  | ECompLit _ els => fu_elts els
  | EIndex a b | ECopy a b | EDelete a b => fu_expr a ++ fu_expr b
  | ESliceE a b c => fu_expr a ++ fu_expr b ++ fu_expr c
  | EAddr a | EDeref a | ESel a _ | ELen a | ECap a | EAssert a _ => fu_expr a
  | EAppend a args => fu_expr a ++ fu_exprs args
  | EMake _ args => fu_exprs args
  | _ => []
  end
with fu_exprs (es : exprs) : list ident :=
  match es with ENone => [] | ECons e r => fu_expr e ++ fu_exprs r end
with fu_elts (l : elts) : list ident :=
  match l with
  | LNil => []
  | LPos e r | LIdx _ e r => fu_expr e ++ fu_elts r
  | LKey k e r => fu_expr k ++ fu_expr e ++ fu_elts r
  end.

Definition remove_all (ds l : list ident) : list ident :=
  filter (fun x => negb (memN x ds)) l.

(* names that statement s declares in the current scope, cur being the names
   already declared there *)
Definition decl_stmt (cur : list ident) (s : stmt) : list ident :=
  match s with
  | SVar xs _ _ => filter (fun x => negb (N.eqb x blank)) xs
  | SConst x _ _ => if N.eqb x blank then [] else [x]
  | SShort xs _ => filter (fun x => negb (N.eqb x blank) && negb (memN x cur)) xs
  | _ => []
  end.

(* uses of identifiers in a statement / block that refer to declarations
   outside of it *)
Fixpoint fu_stmt (s : stmt) : list ident :=
  match s with
  | SVar _ _ es => fu_exprs es
  | SConst _ _ e => fu_expr e
  | SShort _ es => fu_exprs es
  | SAssign _ es => fu_exprs es
  | SOpAssign x _ e => x :: fu_expr e
  | SIncDec x => [x]
  | SExpr e => fu_expr e
  | SIf c th el => fu_expr c ++ fu_block [] th ++ fu_block [] el
  | SFor c b => fu_expr c ++ fu_block [] b
  | SLoop b => fu_block [] b
  | SSwitch t cs d => fu_expr t ++ fu_clauses cs ++ fu_block [] d
  | SReturn es => fu_exprs es
  | SBreak | SContinue => []
  | SBlock b => fu_block [] b
  | SSet l e => fu_expr l ++ fu_expr e
  | SRange k v def e b =>
    fu_expr e ++ (if def then remove_all [k; v] (fu_block [] b) else fu_block [] b)
  end
with fu_block (cur : list ident) (b : block) : list ident :=
  match b with
  | BNil => []
  | BCons s r =>
    fu_stmt s ++ remove_all (decl_stmt cur s) (fu_block (decl_stmt cur s ++ cur) r)
  end
with fu_clauses (cs : clauses) : list ident :=
  match cs with
  | CNil => []
  | CCons es b r => fu_exprs es ++ fu_block [] b ++ fu_clauses r
  end.

(* the variables (not constants) that s declares *)
Definition var_decls (cur : list ident) (s : stmt) : list ident :=
  match s with
  | SConst _ _ _ => []
  | _ => decl_stmt cur s
  end.

Definition scope_names (s : scope) : list ident := map fst s.

(* ---- terminating statements ---- *)

Fixpoint hb_stmt (s : stmt) : bool :=       (* contains a break that refers to the enclosing statement *)
  match s with
  | SBreak => true
  | SIf _ a b => hb_block a || hb_block b
  | SBlock b => hb_block b
  | _ => false
  end
with hb_block (b : block) : bool :=
  match b with BNil => false | BCons s r => hb_stmt s || hb_block r end.

Fixpoint term_stmt (s : stmt) : bool :=
  match s with
  | SReturn _ => true
  | SBlock b => term_block b
  | SIf _ a b => term_block a && term_block b
  | SLoop b => negb (hb_block b)
  | SSwitch _ cs d => term_block d && negb (hb_block d) && term_clauses cs
  | _ => false
  end
with term_block (b : block) : bool :=
  match b with
  | BNil => false
  | BCons s BNil => term_stmt s
  | BCons _ r => term_block r
  end
with term_clauses (cs : clauses) : bool :=
  match cs with
  | CNil => true
  | CCons _ b r => term_block b && negb (hb_block b) && term_clauses r
  end.

(* ---- the statement checker ---- *)

Definition tuple_or_values (tes : list etype) (n : nat) : option (list etype) :=
  let vs := rhs_values tes in
  if Nat.eqb (length vs) n then
    (* every value is a single value *)
    if forallb (fun v => match v with EVal _ _ => true | ETuple _ => false end) vs then Some vs else None
  else None.

Fixpoint tc_stmt (G : list N) (cx : ctx) (E : env) (s : stmt) : option env :=
  match s with
  | SVar xs t es =>
    if negb (nodup_names xs && all_fresh E xs) then None else
    if negb (match t with Some t => wf_ty t | None => true end) then None else
    match xs with [] => None | _ =>
    match es, t with
    | ENone, Some t => Some (declare_vars E xs (map (fun _ => t) xs))
    | ENone, None => None
    | _, _ =>
      match tc_exprs G E es with
      | None => None
      | Some tes =>
        match tuple_or_values tes (length xs) with
        | None => None
        | Some vs =>
          match t with
          | Some t =>
            if all_assign vs (map (fun _ => t) xs) then Some (declare_vars E xs (map (fun _ => t) xs)) else None
          | None =>
            match defaults_of vs with
            | Some ts => Some (declare_vars E xs ts)
            | None => None
            end
          end
        end
      end
    end end
  | SConst x t e =>
    if negb (N.eqb x blank) && in_head E x then None else
    match tc_expr G E e with
    | Some (EVal v (Some c)) =>
      match t with
      | None => Some (declare E x (EntConst (EVal v (Some c))))
      | Some t =>
        if bclass_eqb (tclass t) KComp then None else   (* the type of a constant is a basic type *)
        match v with
        | VT t' => if ty_eqb t' t then Some (declare E x (EntConst (EVal v (Some c)))) else None
        | VU k => match conv_untyped k (Some c) t with
                  | Some r => Some (declare E x (EntConst r))
                  | None => None
                  end
        end
      end
    | _ => None
    end
  | SShort xs es =>
    if negb (nodup_names xs) then None else
    if forallb (fun x => N.eqb x blank || in_head E x) xs then None else   (* no new variables *)
    match tc_exprs G E es with
    | None => None
    | Some tes =>
      match tuple_or_values tes (length xs) with
      | None => None
      | Some vs =>
        match short_targets E xs vs with
        | Some news => Some (declare_list E news)
        | None => None
        end
      end
    end
  | SAssign xs es =>
    match xs with [] => None | _ =>
    match tc_exprs G E es with
    | None => None
    | Some tes =>
      match tuple_or_values tes (length xs) with
      | None => None
      | Some vs => if assign_targets E xs vs then Some E else None
      end
    end end
  | SOpAssign x o e =>
    if negb (is_arith o) || N.eqb x blank then None else
    match lookup E x, tc_expr G E e with
    | Some (EntVar t), Some te =>
      match tc_binary o (EVal (VT t) None) te with
      | Some (EVal (VT t') _) => if ty_eqb t' t then Some E else None
      | _ => None
      end
    | _, _ => None
    end
  | SIncDec x =>
    if N.eqb x blank then None else
    match lookup E x with
    | Some (EntVar t) => if is_numeric (tclass t) then Some E else None
    | _ => None
    end
  | SExpr e =>
    if is_call e then match tc_expr G E e with Some _ => Some E | None => None end else None
  | SIf c th el =>
    match tc_expr G E c with
    | Some tcnd => if is_bool_cond tcnd && tc_block G cx ([] :: E) th && tc_block G cx ([] :: E) el
                 then Some E else None
    | None => None
    end
  | SFor c b =>
    match tc_expr G E c with
    | Some tcnd => if is_bool_cond tcnd && tc_block G (in_loop cx) ([] :: E) b then Some E else None
    | None => None
    end
  | SLoop b => if tc_block G (in_loop cx) ([] :: E) b then Some E else None
  | SSwitch tag cs d =>
    match tc_expr G E tag with
    | Some ttag =>
      match default_of ttag with
      | Some t =>
        if tc_clauses G (in_switch cx) E (EVal (VT t) None) cs && tc_block G (in_switch cx) ([] :: E) d
        then Some E else None
      | None => None
      end
    | None => None
    end
  | SReturn es =>
    match tc_exprs G E es with
    | None => None
    | Some tes =>
      match tuple_or_values tes (length (cx_results cx)) with
      | Some vs => if all_assign vs (cx_results cx) then Some E else None
      | None => None
      end
    end
  | SBreak => if cx_brk cx then Some E else None
  | SContinue => if cx_loop cx then Some E else None
  | SBlock b => if tc_block G cx ([] :: E) b then Some E else None
  | SSet l e =>
    if negb (is_lvalue_form l) then None else
    match tc_expr G E l, tc_expr G E e with
    | Some (EVal (VT t) _), Some te =>
      if (addressable G E l || is_map_index G E l) && assign_to te t then Some E else None
    | _, _ => None
    end
  | SRange k v def e b =>
    match tc_expr G E e with
    | None => None
    | Some te =>
      match range_types te with
      | None => None
      | Some (tk, tv) =>
        if def then
          if nodup_names [k; v]
             && forallb (fun x => N.eqb x blank || memN x (fu_block [] b)) [k; v]
             && tc_block G (in_loop cx) ([] :: declare_vars ([] :: E) [k; v] [tk; tv]) b
          then Some E else None
        else
          if assign_targets E [k; v] [EVal (VT tk) None; EVal (VT tv) None]
             && tc_block G (in_loop cx) ([] :: E) b
          then Some E else None
      end
    end
  end
with tc_block (G : list N) (cx : ctx) (E : env) (b : block) : bool :=
  match b with
  | BNil => true
  | BCons s r =>
    match tc_stmt G cx E s with
    | None => false
    | Some E' =>
      let cur := scope_names (head_scope E) in
      forallb (fun x => memN x (fu_block (decl_stmt cur s ++ cur) r)) (var_decls cur s)
      && tc_block G cx E' r
    end
  end
with tc_clauses (G : list N) (cx : ctx) (E : env) (tagv : etype) (cs : clauses) : bool :=
  match cs with
  | CNil => true
  | CCons es b r =>
    match tc_exprs G E es with
    | Some tes => cases_ok tagv tes && tc_block G cx ([] :: E) b && tc_clauses G cx E tagv r
    | None => false
    end
  end.

(* ------------------------------------------------------------------ programs *)

Inductive gdecl :=
| GConst (x : ident) (t : option ty) (e : expr)
| GVar (x : ident) (t : option ty) (e : expr).

Record fdecl := { fn_name : ident; fn_params : list (ident * ty); fn_results : list ty; fn_body : block }.

Record program := { p_imports : list N; p_globals : list gdecl; p_funcs : list fdecl; p_main : block }.

(* package level constants and variables, in order; each sees the previous ones *)
Fixpoint tc_globals (G : list N) (E : env) (gs : list gdecl) : option env :=
  match gs with
  | [] => Some E
  | GConst x t e :: r =>
    if N.eqb x blank then None else
    match tc_stmt G {| cx_results := []; cx_loop := false; cx_brk := false |} E (SConst x t e) with
    | Some E' => tc_globals G E' r
    | None => None
    end
  | GVar x t e :: r =>
    if N.eqb x blank then None else
    match tc_stmt G {| cx_results := []; cx_loop := false; cx_brk := false |} E (SVar [x] t (ECons e ENone)) with
    | Some E' => tc_globals G E' r
    | None => None
    end
  end.

Fixpoint declare_funcs (E : env) (fs : list fdecl) : option env :=
  match fs with
  | [] => Some E
  | f :: r =>
    if N.eqb (fn_name f) blank || in_head E (fn_name f) then None else
    declare_funcs (declare E (fn_name f) (EntFunc (map snd (fn_params f)) (fn_results f))) r
  end.

Definition tc_func (G : list N) (E : env) (f : fdecl) : bool :=
  nodup_names (map fst (fn_params f)) &&
  forallb wf_ty (map snd (fn_params f)) && forallb wf_ty (fn_results f) &&
  let E' := declare_vars ([] :: E) (map fst (fn_params f)) (map snd (fn_params f)) in
  tc_block G {| cx_results := fn_results f; cx_loop := false; cx_brk := false |} E' (fn_body f)
  && match fn_results f with [] => true | _ => term_block (fn_body f) end.

(* packages used by the program *)
Fixpoint pk_expr (e : expr) : list N :=
  match e with
  | EUn _ a => pk_expr a
  | EBin _ a b => pk_expr a ++ pk_expr b
  | EConv _ a => pk_expr a
  | ECall _ args => pk_exprs args
  | EPkg p _ args => p :: pk_exprs args
  | ECompLit _ els => pk_elts els
  | EIndex a b | ECopy a b | EDelete a b => pk_expr a ++ pk_expr b
  | ESliceE a b c => pk_expr a ++ pk_expr b ++ pk_expr c
  | EAddr a | EDeref a | ESel a _ | ELen a | ECap a | EAssert a _ => pk_expr a
  | EAppend a args => pk_expr a ++ pk_exprs args
  | EMake _ args => pk_exprs args
  | _ => []
  end
with pk_exprs (es : exprs) : list N :=
  match es with ENone => [] | ECons e r => pk_expr e ++ pk_exprs r end
with pk_elts (l : elts) : list N :=
  match l with
  | LNil => []
  | LPos e r | LIdx _ e r => pk_expr e ++ pk_elts r
  | LKey k e r => pk_expr k ++ pk_expr e ++ pk_elts r
  end.

Fixpoint pk_stmt (s : stmt) : list N :=
  match s with
  | SVar _ _ es | SShort _ es | SAssign _ es | SReturn es => pk_exprs es
  | SConst _ _ e | SOpAssign _ _ e | SExpr e => pk_expr e
  | SIf c a b => pk_expr c ++ pk_block a ++ pk_block b
  | SFor c b => pk_expr c ++ pk_block b
  | SLoop b | SBlock b => pk_block b
  | SSwitch t cs d => pk_expr t ++ pk_clauses cs ++ pk_block d
  | SSet l e => pk_expr l ++ pk_expr e
  | SRange _ _ _ e b => pk_expr e ++ pk_block b
  | _ => []
  end
with pk_block (b : block) : list N :=
  match b with BNil => [] | BCons s r => pk_stmt s ++ pk_block r end
with pk_clauses (cs : clauses) : list N :=
  match cs with CNil => [] | CCons es b r => pk_exprs es ++ pk_block b ++ pk_clauses r end.

Definition pk_program (p : program) : list N :=
  flat_map (fun g => match g with GConst _ _ e | GVar _ _ e => pk_expr e end) (p_globals p)
  ++ flat_map (fun f => pk_block (fn_body f)) (p_funcs p)
  ++ pk_block (p_main p).

Fixpoint nodupN (l : list N) : bool :=
  match l with [] => true | x :: r => negb (memN x r) && nodupN r end.

Definition tc (p : program) : bool :=
  let G := p_imports p in
  forallb pkg_known G && nodupN G
  && forallb (fun q => memN q (pk_program p)) G        (* imported and not used *)
  && match tc_globals G [[]] (p_globals p) with
     | None => false
     | Some E1 =>
       match declare_funcs E1 (p_funcs p) with
       | None => false
       | Some E2 =>
         forallb (tc_func G E2) (p_funcs p)
         && tc_func G E2 {| fn_name := blank; fn_params := []; fn_results := []; fn_body := p_main p |}
       end
     end.
