(* VmRunM: what VM.Run (internal/runtime/vm.go) does with the error returned
   by runFunc, as a function read from the generated decision table
   Facts_vmrun.vmrun_table (gofacts executes the statements of VM.Run on every
   kind of error and every state of the context).  No proofs in this file.

   kinds of error: 0 *PanicError, 1 *PanicError with an outError message,
   2 *fatalError (env.Fatal), 3 stopError (env.Stop), 4 any other error, 5 nil;
   states of the context: 0 none, 1 live, 2 done (cancelled or expired);
   actions: 1 return the error as it is, 2 return the error given to Stop,
   3 return the error of the output, 4 panic with the value given to Fatal,
   5 return the error of the context, 6 return nil, 0 anything else.
   In the frame machine FramesM the outcomes OStop e, ORunPanics v, OPanic c
   and ONil are the actions 2, 4, 1 and 6. *)
From Coq Require Import List NArith Bool.
Import ListNotations.
From Verif Require Import Facts_vmrun.
Open Scope N_scope.

Definition run_action (kind ctx : N) : option N :=
  match find (fun r => match r with (k, c, _) => N.eqb k kind && N.eqb c ctx end) vmrun_table with
  | Some (_, _, a) => Some a
  | None => None
  end.

Definition ctx_states : list N := [0; 1; 2].

(* what the documentation promises: Stop(err) makes Run return err itself,
   Fatal(v) makes Run panic with v, an unrecovered panic is returned as a
   PanicError (the error of the output when the panic is a failed write), a
   run that ends returns nil - whatever the state of the context *)
Definition run_documented (ctx : N) : bool :=
  match run_action 3 ctx, run_action 2 ctx, run_action 0 ctx, run_action 1 ctx, run_action 5 ctx with
  | Some 2, Some 4, Some 1, Some 3, Some 6 => true
  | _, _, _, _, _ => false
  end.
