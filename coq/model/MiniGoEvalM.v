(* MiniGoEvalM: a fuelled big-step evaluator for the expression core of the
   MiniGo fragment of MiniGoM.v: literals, variables and named constants, unary
   and binary operators (arithmetic, bitwise, shifts, comparisons, short-circuit
   logical operators) and conversions T(x) between the basic types and the
   defined types over them.  No function calls, no composite types, no nil.
   No proofs here.

   Outcomes are explicit: a value, a run-time panic (integer division or
   remainder by zero, negative shift count), stuck (an operator applied to
   values of the wrong shape, an unbound identifier, an expression form outside
   the core), out of fuel.

   Simplifications, none of which matters for progress:
   - strings are abstract: a string value is a number; concatenation adds the
     numbers, comparison compares them;
   - integers do not wrap (Z operations), floats are exact rationals, float
     division by zero yields the value of Qdiv (zero) instead of an infinity;
   - named constants are read from the store like variables: the store gives a
     value to every constant identifier (the value is not tied to the constant
     value recorded by the type checker);
   - an integer and a float operand of one arithmetic operation or comparison
     are brought to float (this is what the implicit conversion of an untyped
     integer constant does; the converse case, an untyped FLOAT constant used
     with an integer operand, needs the static types and is outside the proved
     core: see core in MiniGoProgress_proofs.v). *)
From Coq Require Import Qround.
From Verif Require Import MiniGoM.

Inductive value := VBool (b : bool) | VInt (z : Z) | VFloat (q : Q) | VStr (s : N).

Definition store := list (ident * value).

Fixpoint store_get (st : store) (x : ident) : option value :=
  match st with
  | [] => None
  | (y, v) :: r => if N.eqb y x then Some v else store_get r x
  end.

Inductive result := RVal (v : value) | RPanic | RStuck | ROutOfFuel.

Definition eval_un (o : unop) (v : value) : result :=
  match o, v with
  | UPlus, VInt z => RVal (VInt z)
  | UPlus, VFloat q => RVal (VFloat q)
  | UNeg, VInt z => RVal (VInt (- z))
  | UNeg, VFloat q => RVal (VFloat (Qopp q))
  | UNot, VBool b => RVal (VBool (negb b))
  | UCompl, VInt z => RVal (VInt (- z - 1))
  | _, _ => RStuck
  end.

Definition int_op (o : binop) (x y : Z) : result :=
  match o with
  | OAdd => RVal (VInt (x + y))
  | OSub => RVal (VInt (x - y))
  | OMul => RVal (VInt (x * y))
  | ODiv => if Z.eqb y 0 then RPanic else RVal (VInt (Z.quot x y))
  | ORem => if Z.eqb y 0 then RPanic else RVal (VInt (Z.rem x y))
  | OAnd => RVal (VInt (Z.land x y))
  | OOr => RVal (VInt (Z.lor x y))
  | OXor => RVal (VInt (Z.lxor x y))
  | OAndNot => RVal (VInt (Z.ldiff x y))
  | OShl => if Z.ltb y 0 then RPanic else RVal (VInt (Z.shiftl x y))
  | OShr => if Z.ltb y 0 then RPanic else RVal (VInt (Z.shiftr x y))
  | OEq => RVal (VBool (Z.eqb x y))
  | ONe => RVal (VBool (negb (Z.eqb x y)))
  | OLt => RVal (VBool (Z.ltb x y))
  | OLe => RVal (VBool (Z.leb x y))
  | OGt => RVal (VBool (Z.ltb y x))
  | OGe => RVal (VBool (Z.leb y x))
  | OLAnd | OLOr => RStuck
  end.

Definition float_op (o : binop) (x y : Q) : result :=
  match o with
  | OAdd => RVal (VFloat (Qred (x + y)))
  | OSub => RVal (VFloat (Qred (x - y)))
  | OMul => RVal (VFloat (Qred (x * y)))
  | ODiv => RVal (VFloat (Qred (x / y)))
  | OEq => RVal (VBool (Qeq_bool x y))
  | ONe => RVal (VBool (negb (Qeq_bool x y)))
  | OLt => RVal (VBool (negb (Qle_bool y x)))
  | OLe => RVal (VBool (Qle_bool x y))
  | OGt => RVal (VBool (negb (Qle_bool x y)))
  | OGe => RVal (VBool (Qle_bool y x))
  | _ => RStuck
  end.

Definition str_op (o : binop) (x y : N) : result :=
  match o with
  | OAdd => RVal (VStr (x + y))
  | OEq => RVal (VBool (N.eqb x y))
  | ONe => RVal (VBool (negb (N.eqb x y)))
  | OLt => RVal (VBool (N.ltb x y))
  | OLe => RVal (VBool (N.leb x y))
  | OGt => RVal (VBool (N.ltb y x))
  | OGe => RVal (VBool (N.leb y x))
  | _ => RStuck
  end.

Definition bool_op (o : binop) (x y : bool) : result :=
  match o with
  | OEq => RVal (VBool (Bool.eqb x y))
  | ONe => RVal (VBool (negb (Bool.eqb x y)))
  | OLAnd => RVal (VBool (x && y))
  | OLOr => RVal (VBool (x || y))
  | _ => RStuck
  end.

Definition eval_bin (o : binop) (v1 v2 : value) : result :=
  match v1, v2 with
  | VInt x, VInt y => int_op o x y
  | VFloat x, VFloat y => float_op o x y
  | VInt x, VFloat y => float_op o (inject_Z x) y
  | VFloat x, VInt y => float_op o x (inject_Z y)
  | VStr x, VStr y => str_op o x y
  | VBool x, VBool y => bool_op o x y
  | _, _ => RStuck
  end.

(* x && y and x || y do not evaluate y when x decides the result *)
Definition short_circuit (o : binop) (v1 : value) : option value :=
  match o, v1 with
  | OLAnd, VBool false => Some (VBool false)
  | OLOr, VBool true => Some (VBool true)
  | _, _ => None
  end.

(* conversion of a value to a type of class k *)
Definition eval_conv (k : bclass) (v : value) : result :=
  match k, v with
  | KBool, VBool b => RVal (VBool b)
  | KInt, VInt z => RVal (VInt z)
  | KInt, VFloat q => RVal (VInt (Qfloor q))
  | KFloat, VInt z => RVal (VFloat (inject_Z z))
  | KFloat, VFloat q => RVal (VFloat q)
  | KStr, VStr s => RVal (VStr s)
  | KStr, VInt z => RVal (VStr (Z.to_N z))
  | _, _ => RStuck
  end.

Fixpoint eval (fuel : nat) (st : store) (E : env) (e : expr) : result :=
  match fuel with
  | O => ROutOfFuel
  | S f =>
    match e with
    | ELitB b => RVal (VBool b)
    | ELitI z => RVal (VInt z)
    | ELitR z => RVal (VInt z)
    | ELitF n d => RVal (VFloat (Qred (n # d)))
    | ELitS s => RVal (VStr s)
    | EVar x =>
      match lookup E x with
      | Some (EntVar _) | Some (EntConst _) =>
        match store_get st x with Some v => RVal v | None => RStuck end
      | _ => RStuck
      end
    | EUn o a =>
      match eval f st E a with
      | RVal v => eval_un o v
      | r => r
      end
    | EBin o a b =>
      match eval f st E a with
      | RVal v1 =>
        match short_circuit o v1 with
        | Some v => RVal v
        | None =>
          match eval f st E b with
          | RVal v2 => eval_bin o v1 v2
          | r => r
          end
        end
      | r => r
      end
    | EConv t a =>
      match eval f st E a with
      | RVal v => eval_conv (tclass t) v
      | r => r
      end
    | _ => RStuck
    end
  end.
