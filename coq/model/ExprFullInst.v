(* The C27 model of the primary-expression grammar instantiated with the
   generated facts (Facts_AstOps, Facts_AstPrim), the model of
   ValidTemplatePath (PathsM) and a model of strconv.Quote on ASCII. *)
From Coq Require Import List NArith Bool.
From Verif Require Import Bytes Facts_AstOps Facts_AstPrim PathsM ExprFullM ExprFullOk.
Import ListNotations.
Open Scope N_scope.

Definition x_kw_text (w : kwd) : bytes :=
  match w with
  | WMap => gen_tokenMap | WStruct => gen_tokenStruct | WInterface => gen_tokenInterface
  | WFunc => gen_tokenFunc | WMacro => gen_tokenMacro | WChan => gen_tokenChan
  | WType => gen_tokenType | WDefault => gen_tokenDefault | WRender => gen_tokenRender
  end.

(* strconv.Quote on ASCII bytes; a byte above 127 is copied (right for the
   valid UTF-8 encodings of printable runes only) *)
Definition hexdigit (n : N) : N := if n <? 10 then 48 + n else 87 + n.
Definition quote_byte (c : N) : bytes :=
  if c =? 34 then [92; 34]
  else if c =? 92 then [92; 92]
  else if c =? 7 then [92; 97]
  else if c =? 8 then [92; 98]
  else if c =? 12 then [92; 102]
  else if c =? 10 then [92; 110]
  else if c =? 13 then [92; 114]
  else if c =? 9 then [92; 116]
  else if c =? 11 then [92; 118]
  else if (c <? 32) || (c =? 127) then [92; 120; hexdigit (c / 16); hexdigit (c mod 16)]
  else [c].
Definition x_quote (s : bytes) : bytes := 34 :: concat (map quote_byte s) ++ [34].

Section Inst.
Variable expanded tmpl : bool.

Definition x_pp : ex -> option (list pc) :=
  pp gen_op_string gen_bin_prec gen_un_prec gen_OperatorReceive gen_OperatorPointer gen_OperatorExtendedNot
     gen_StringLiteral gen_ReceiveDirection gen_SendDirection gen_tokenArrow x_quote expanded.

Definition x_show : ex -> option bytes :=
  show gen_op_string gen_bin_prec gen_un_prec gen_OperatorReceive gen_OperatorPointer gen_OperatorExtendedNot
       gen_StringLiteral gen_ReceiveDirection gen_SendDirection x_kw_text gen_tokenArrow x_quote expanded.

Definition x_relex : list pc -> lexres := relex gen_StringLiteral gen_IntLiteral gen_FloatLiteral x_kw_text gen_keywords gen_tmpl_keywords tmpl.

Definition x_pexpr : nat -> pflags -> list tk -> RT :=
  pexpr gen_bin_prec gen_un_prec gen_unary_tokens gen_binary_tokens gen_OperatorReceive gen_OperatorPointer
        gen_OperatorNotContains gen_StringLiteral gen_NoDirection gen_ReceiveDirection gen_SendDirection
        x_kw_text gen_tokenArrow gen_tokenMultiplication gen_tokenExtendedNot gen_tokenContains
        gen_tokenIdentifier gen_tokenLeftBracket gen_result_start gen_macro_results valid_template_path tmpl.

Definition x_parse_top (guard : bool) (ts : list tk) : RT :=
  x_pexpr (fuel_of ts) (mkfl guard false false false) ts.

Definition x_roundtrip : bool -> list tk -> ex -> rt :=
  roundtrip gen_op_string gen_bin_prec gen_un_prec gen_unary_tokens gen_binary_tokens gen_OperatorReceive gen_OperatorPointer
     gen_OperatorExtendedNot gen_OperatorNotContains gen_StringLiteral gen_IntLiteral gen_FloatLiteral
     gen_NoDirection gen_ReceiveDirection gen_SendDirection x_kw_text
     gen_tokenArrow gen_tokenMultiplication gen_tokenExtendedNot gen_tokenContains gen_tokenIdentifier gen_tokenLeftBracket
     gen_result_start gen_macro_results gen_keywords gen_tmpl_keywords x_quote valid_template_path expanded tmpl.

Definition x_ok : bool -> bool -> ex -> option tk -> bool :=
  ok gen_op_string gen_bin_prec gen_un_prec gen_unary_tokens gen_binary_tokens gen_OperatorReceive gen_OperatorPointer
     gen_OperatorExtendedNot gen_OperatorNotContains gen_StringLiteral gen_NoDirection gen_ReceiveDirection gen_SendDirection
     gen_tokenArrow gen_tokenMultiplication gen_tokenExtendedNot gen_tokenContains gen_tokenIdentifier gen_tokenLeftBracket
     x_kw_text gen_result_start gen_macro_results x_quote valid_template_path expanded tmpl.

Definition x_printable : bool -> option tk -> ex -> bool :=
  printable gen_op_string gen_bin_prec gen_un_prec gen_unary_tokens gen_binary_tokens gen_OperatorReceive gen_OperatorPointer
     gen_OperatorExtendedNot gen_OperatorNotContains gen_StringLiteral gen_IntLiteral gen_FloatLiteral
     gen_NoDirection gen_ReceiveDirection gen_SendDirection
     gen_tokenArrow gen_tokenMultiplication gen_tokenExtendedNot gen_tokenContains gen_tokenIdentifier gen_tokenLeftBracket
     x_kw_text gen_result_start gen_macro_results gen_keywords gen_tmpl_keywords x_quote valid_template_path expanded tmpl.

Definition x_printable_type : option tk -> ex -> bool :=
  printable_type gen_op_string gen_bin_prec gen_un_prec gen_unary_tokens gen_binary_tokens gen_OperatorReceive gen_OperatorPointer
     gen_OperatorExtendedNot gen_OperatorNotContains gen_StringLiteral gen_IntLiteral gen_FloatLiteral
     gen_NoDirection gen_ReceiveDirection gen_SendDirection
     gen_tokenArrow gen_tokenMultiplication gen_tokenExtendedNot gen_tokenContains gen_tokenIdentifier gen_tokenLeftBracket
     x_kw_text gen_result_start gen_macro_results gen_keywords gen_tmpl_keywords x_quote valid_template_path expanded tmpl.
End Inst.
