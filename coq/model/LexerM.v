(* scanTemplate / scan of internal/compiler/lexer.go for templates: the text
   scan with its contexts, scanTag, scanAttribute, CDATA, Markdown code blocks
   and URLs, the delimiters, lexComment, raw blocks (skipRawContent,
   endRawIndex, skipRawSpaces), the shebang line; scanProgram / scan for
   programs at the end.  No proofs here. *)
From Verif Require Import Bytes Utf8 Facts_lexer LexBase LexCodeM.
Open Scope N_scope.

Definition s_script : bytes := [115; 99; 114; 105; 112; 116].
Definition s_style : bytes := [115; 116; 121; 108; 101].
Definition s_type : bytes := [116; 121; 112; 101].
Definition nonempty (s : bytes) : bool := match s with [] => false | _ => true end.

Section Scan.
Variable U : unitab.
Variable noshow : bool.   (* noParseShow *)

Definition lex_show (l : lexer) : res lexer :=
  let* l1 := emitc gen_tokenLeftBraces 2 l in
  let* l2 := lex_code U gen_tokenRightBraces l1 in
  emitc gen_tokenRightBraces 2 l2.

Definition lex_statement (l : lexer) : res lexer :=
  let* l1 := emitc gen_tokenStartStatement 2 l in
  let* l2 := lex_code U gen_tokenEndStatement l1 in
  emitc gen_tokenEndStatement 2 l2.

Definition lex_statements (l : lexer) : res lexer :=
  let* l1 := emitc gen_tokenStartStatements 3 l in
  let* l2 := lex_code U gen_tokenEndStatements l1 in
  emitc gen_tokenEndStatements 3 l2.

(* for i := lo; i < lo+n; i++ { if c := l.src[i]; c == '\n' { l.newline() } else if isStartChar(c) { l.column++ } } *)
Fixpoint count_range (n : nat) (i : N) (l : lexer) : res lexer :=
  match n with
  | O => Ok l
  | S n' =>
    let* c := idx l i in
    count_range n' (i + 1) (if c =? 10 then newline l else if isStartChar c then addcol 1 l else l)
  end.

(* ---- lexComment; state: (nested + 1, p) ---- *)
Definition comment_body (l : lexer) (st : N * N) : res (step (N * N)) :=
  let '(nest1, p) := st in
  if nest1 =? 0 then Ok (Stop st) else
  if len l <? p then Fault else
  match index_byte (drop p (l_src l)) 35 with
  | None => Err l
  | Some i =>
    let* isopen := (0 <? i) &&& idx_is l (p + i - 1) 123 in
    if isopen then Ok (Again (nest1 + 1, p + i + 1))
    else
      let* isclose := (i + 1 <? len l - p) &&& idx_is l (p + i + 1) 125 in
      if isclose then Ok (Again (nest1 - 1, p + 1 + i + 1)) else Ok (Again (nest1, p + i + 1))
  end.

Definition lex_comment (l : lexer) : res lexer :=
  let* (_, p) := loop (S (length (l_src l))) (comment_body l) (1, 2) in
  let l1 := addcol 4 l in
  let* l2 := count_range (N.to_nat (p - 2 - 2)) 2 l1 in
  (* ghost: after a new line inside the comment the two bytes of the closing
     delimiter are not counted *)
  let l3 := if l_line l2 =? l_line l1 then l2 else mark_cdev l2 in
  emit_at (l_line l) (l_col l) (l_cdev l) (l_ldev l) gen_tokenComment p l3.

(* ---- skipRawSpaces, endRawIndex, skipRawContent ---- *)
Definition raw_space_body (s : bytes) (p : N) : res (step N) :=
  if p <? nlen s then
    let '(r, w) := decode_rune (drop p s) in
    let israw := (r =? 32) || ((r =? rune_error) && Nat.eqb w 1) || negb (u_graphic U r) in
    if negb israw then Ok (Stop p) else Ok (Again (p + N.of_nat w))
  else Ok (Stop p).
Definition skip_raw_spaces (s : bytes) (p : N) : res N := loop (S (length s)) (raw_space_body s) p.

Definition sget_is (s : bytes) (i c : N) : res bool := let* x := sget s i in Ok (x =? c).

Definition end_raw_body (s marker : bytes) (st : N * option N) : res (step (N * option N)) :=
  let '(i0, _) := st in
  if negb (i0 <? nlen s) then Ok (Stop (i0, None)) else
  match index_byte (drop i0 s) 123 with
  | None => Ok (Stop (i0, None))
  | Some j =>
    let p := i0 + j in
    let next : res (step (N * option N)) := Ok (Again (p + 1, None)) in
    let* b1 := (nlen s <? p + 2) ||| (let* x := sget_is s (p + 1) 37 in Ok (negb x)) in
    if b1 then next else
    let* i := skip_raw_spaces s (p + 2) in
    let* b2 := (nlen s <? i + 3) |||
               (let* e := sget_is s i 101 in if negb e then Ok true else
                let* n := sget_is s (i + 1) 110 in if negb n then Ok true else
                let* d := sget_is s (i + 2) 100 in Ok (negb d)) in
    if b2 then next else
    let e0 := i + 3 in
    let* i := skip_raw_spaces s (i + 3) in
    let* prev := (if i =? 0 then Fault else sget s (i - 1)) in
    let* israw := (isSpace prev && (i + 3 <=? nlen s)) &&&
                  (let* r := sget_is s i 114 in if negb r then Ok false else
                   let* a := sget_is s (i + 1) 97 in if negb a then Ok false else
                   sget_is s (i + 2) 119) in
    (* e: the index after 'end' or 'raw'; the marker must be preceded by a space *)
    let e := if israw then i + 3 else e0 in
    let* i := (if israw then skip_raw_spaces s (i + 3) else Ok i) in
    let ml := nlen marker in
    let* mi :=
      if 0 <? ml then
        if (i =? e) || (nlen s <? i + ml) || negb (bytes_eqb (take ml (drop i s)) marker) then Ok None
        else let* i' := skip_raw_spaces s (i + ml) in Ok (Some i')
      else Ok (Some i) in
    match mi with
    | None => next
    | Some i =>
      let* b3 := (nlen s <? i + 2) |||
                 (let* x := sget_is s i 37 in if negb x then Ok true else
                  let* y := sget_is s (i + 1) 125 in Ok (negb y)) in
      if b3 then next else Ok (Stop (p, Some p))
    end
  end.

Definition end_raw_index (s marker : bytes) : res (option N) :=
  let* (_, r) := loop (S (length s)) (end_raw_body s marker) (0, None) in Ok r.

Definition skip_raw_content (l : lexer) : res (lexer * N) :=
  match l_raw l with
  | None => Fault
  | Some marker =>
    let* r := end_raw_index (l_src l) marker in
    match r with
    | Some p => if p =? 0 then Ok (l, 0) else let* l1 := count_range (N.to_nat p) 0 l in Ok (l1, p)
    | None => let* l1 := count_range (length (l_src l)) 0 l in Ok (l1, len l)
    end
  end.

(* ---- scanCodeBlock ---- *)
Definition scan_code_block (l : lexer) (p : N) : res (N * N) :=
  if p <? len l then
    let* c := idx l p in
    if c =? 9 then Ok (p + 1, gen_ContextTabCodeBlock)
    else if c =? 32 then
      let* t := (p + 3 <? len l) &&&
                (let* a := idx_is l (p + 1) 32 in if negb a then Ok false else
                 let* b := idx_is l (p + 2) 32 in if negb b then Ok false else
                 idx_is l (p + 3) 32) in
      if t then Ok (p + 4, gen_ContextSpacesCodeBlock) else Ok (p, gen_ContextMarkdown)
    else Ok (p, gen_ContextMarkdown)
  else Ok (p, gen_ContextMarkdown).

(* p, l.ctx = l.scanCodeBlock(p); ghost: the skipped indentation is not counted in the column *)
Definition apply_code_block (l : lexer) (p : N) : res (lexer * N) :=
  let* (q, cx) := scan_code_block l p in
  Ok (set_ctx cx (if p <? q then mark_cdev l else l), q).

(* ---- scanTag ---- *)
Definition tag_body (st : lexer * N) : res (step (lexer * N)) :=
  let '(l, p) := st in
  if negb (p <? len l) then Ok (Stop st) else
  let* c := idx l p in
  if (c =? 62) || (c =? 47) || isASCIISpace c || (c =? 123) then Ok (Stop st) else
  let l := addcol 1 l in
  if c <? 128 then Ok (Again (l, p + 1)) else
  let '(_, w) := decode_rune (drop p (l_src l)) in
  (* ghost: a byte that does not start a character is counted as a column *)
  Ok (Again ((if isStartChar c then l else mark_cdev l), p + N.of_nat w)).

Definition scan_tag (l : lexer) (p : N) : res (lexer * bytes * N) :=
  let* isa := (if p =? len l then Ok false else (let* c := idx l p in Ok (isAlpha c))) in
  if negb isa then Ok (l, [], p) else
  let* (l1, q) := loop (S (length (l_src l))) tag_body (addcol 1 l, p + 1) in
  if len l <? q then Fault else
  Ok (l1, to_lower U (take (q - p) (drop p (l_src l))), q).

(* ---- scanAttribute ---- *)
(* first loop; state (l, p, returned "") *)
Definition attr_name_body (st : lexer * N * bool) : res (step (lexer * N * bool)) :=
  let '(l, p, _) := st in
  if negb (p <? len l) then Ok (Stop (l, p, false)) else
  let* c := idx l p in
  if (c =? 61) || isASCIISpace c then Ok (Stop (l, p, false)) else
  if (c <=? 31) || (c =? 34) || (c =? 39) || (c =? 62) || (c =? 47) || (c =? 127) then Ok (Stop (l, p, true)) else
  let* r :=  (* None: return "", p *)
    if 128 <=? c then
      let '(r, w) := decode_rune (drop p (l_src l)) in
      if (r =? rune_error) && Nat.eqb w 1 then Ok None
      else if ((127 <=? r) && (r <=? 159)) || u_nonchar U r then Ok None
      else Ok (Some (p + N.of_nat w - 1))
    else Ok (Some p) in
  match r with
  | None => Ok (Stop (l, p, true))
  | Some p1 =>
    let* delim := ((c =? 123) && (p1 + 1 <? len l)) &&&
                  (let* d := idx l (p1 + 1) in Ok ((d =? 123) || (d =? 37) || (d =? 35))) in
    if delim then Ok (Stop (l, p1, true)) else
    Ok (Again (addcol 1 l, p1 + 1, false))
  end.

(* spaces loops; mode 0: "Reads '='", mode 1: "Reads the quote".
   state (l, p, k): k = 0 running, 1 stopped by break, 2 returned "" *)
Definition attr_sp_body (mode : N) (st : lexer * N * N) : res (step (lexer * N * N)) :=
  let '(l, p, _) := st in
  if negb (p <? len l) then Ok (Stop (l, p, 0)) else
  let* c := idx l p in
  if (mode =? 0) && (c =? 61) then Ok (Stop (addcol 1 l, p + 1, 1))
  else if (mode =? 1) && (c =? 62) then Ok (Stop (l, p, 2))
  else if isASCIISpace c then
    Ok (Again ((if c =? 10 then newline l else addcol 1 l), p + 1, 0))
  else if mode =? 0 then Ok (Stop (l, p, 2)) else Ok (Stop (l, p, 1)).

Definition scan_attribute (l : lexer) (p : N) : res (lexer * bytes * N) :=
  let s := p in
  let fuel := S (length (l_src l)) in
  let* (l1, p1, ret) := loop fuel attr_name_body (l, p, false) in
  if ret then Ok (l1, [], p1) else
  if (p1 =? s) || (p1 =? len l) then Ok (l1, [], p1) else
  if len l <? p1 then Fault else
  let name := to_lower U (take (p1 - s) (drop s (l_src l))) in
  let* (l2, p2, k2) := loop fuel (attr_sp_body 0) (l1, p1, 0) in
  if k2 =? 2 then Ok (l2, [], p2) else
  let* (l3, p3, k3) := loop fuel (attr_sp_body 1) (l2, p2, 0) in
  if k3 =? 2 then Ok (l3, [], p3) else
  if p3 =? len l then Ok (l3, [], p3) else
  Ok (l3, name, p3).

(* ---- the text scan ---- *)
Record mst := mkM {
  m_l : lexer; m_p : N;
  m_lin : N; m_col : N; m_lcd : bool; m_lld : bool;   (* lin, col and their ghost flags *)
  m_quote : N; m_url : bool; m_jsc : N; m_sol : bool }.

Definition mset_lp (l : lexer) (p : N) (s : mst) : mst :=
  mkM l p (m_lin s) (m_col s) (m_lcd s) (m_lld s) (m_quote s) (m_url s) (m_jsc s) (m_sol s).
Definition mset_quote (q : N) (s : mst) : mst :=
  mkM (m_l s) (m_p s) (m_lin s) (m_col s) (m_lcd s) (m_lld s) q (m_url s) (m_jsc s) (m_sol s).
Definition mset_url (u : bool) (s : mst) : mst :=
  mkM (m_l s) (m_p s) (m_lin s) (m_col s) (m_lcd s) (m_lld s) (m_quote s) u (m_jsc s) (m_sol s).
Definition mset_jsc (j : N) (s : mst) : mst :=
  mkM (m_l s) (m_p s) (m_lin s) (m_col s) (m_lcd s) (m_lld s) (m_quote s) (m_url s) j (m_sol s).
Definition mset_sol (b : bool) (s : mst) : mst :=
  mkM (m_l s) (m_p s) (m_lin s) (m_col s) (m_lcd s) (m_lld s) (m_quote s) (m_url s) (m_jsc s) b.
(* p = 0; lin = l.line; col = l.column *)
Definition resync (l : lexer) (s : mst) : mst :=
  mkM l 0 (l_line l) (l_col l) (l_cdev l) (l_ldev l) (m_quote s) (m_url s) (m_jsc s) (m_sol s).

(* l.emitAtLineColumn(lin, col, tokenText, p) *)
Definition emit_text (s : mst) (l : lexer) : res lexer :=
  emit_at (m_lin s) (m_col s) (m_lcd s) (m_lld s) gen_tokenText (m_p s) l.
(* if p > 0 { l.emitAtLineColumn(lin, col, tokenText, p) } *)
Definition flush_text (s : mst) : res lexer :=
  if 0 <? m_p s then emit_text s (m_l s) else Ok (m_l s).

(* ghost: p += 8 (7) skips the byte after the tag name without looking at it *)
Definition mark_if_nl (l : lexer) (i : N) : lexer :=
  match get (l_src l) i with
  | Some c => if c =? 10 then mark_ldev (mark_cdev l) else l
  | None => l
  end.

(* Markdown: URL detection *)
Definition md_url (st : mst) : res (mst * bool) :=
  let l := m_l st in let p := m_p st in
  if m_url st then
    if isMarkdownEndURL (drop p (l_src l)) then
      let* l1 := flush_text st in
      let* l2 := emit gen_tokenEndURL 0 l1 in
      Ok (mset_url false (resync l2 st), false)
    else Ok (st, false)
  else
    let* okprev := (if p =? 0 then Ok true else (let* c := idx l (p - 1) in Ok (negb (isAlpha c)))) in
    if okprev && isMarkdownStartURL (drop p (l_src l)) then
      let* l1 := flush_text st in
      let* l2 := emit gen_tokenStartURL 0 l1 in
      let* c4 := idx l2 4 in
      let p' := if c4 =? 115 then 8 else 7 in
      (* ghost: col = l.column + p while l.column stays behind *)
      Ok (mkM (mark_cdev l2) p' (l_line l2) (l_col l2 + p') true (l_ldev l2) (m_quote st) true (m_jsc st) (m_sol st), true)
    else Ok (st, false).

(* HTML (and Markdown): '<' *)
Definition html_lt (st : mst) (c : N) : res (mst * bool) :=
  if negb (c =? 60) then Ok (st, false) else
  let l := m_l st in let p := m_p st in
  let* iscd := ((l_ctx l =? gen_ContextHTML) && (p + 8 <? len l)) &&& idx_is l (p + 1) 33 in
  if iscd && has_prefix (drop p (l_src l)) gen_lex_cdataStart then
    let p := p + 6 in
    let l := addcol 6 l in
    let t := match index (drop p (l_src l)) gen_lex_cdataEnd with None => len l | Some i => p + i + 2 end in
    let* l1 := count_range (N.to_nat (t - p)) p l in
    Ok (mset_lp l1 (N.max p t) st, true)
  else
    let* (l1, name, q) := scan_tag (addcol 1 l) (p + 1) in
    let l2 := set_tag name l1 in
    let l3 :=
      if nonempty name then
        let l' := set_ctx gen_ContextTag l2 in
        if bytes_eqb name s_script then set_tctx gen_ContextJS l'
        else if bytes_eqb name s_style then set_tctx gen_ContextCSS l'
        else l'
      else l2 in
    Ok (mset_lp l3 q st, true).

Definition attr_ctx_of (quote : N) : N := if quote =? 0 then gen_ContextUnquotedAttr else gen_ContextQuotedAttr.

Definition tag_ctx (fc : N) (st : mst) (c : N) : res (mst * bool) :=
  let l := m_l st in let p := m_p st in
  let* endtag := (c =? 62) ||| ((c =? 47) &&& ((p <? len l) &&& idx_is l p 62)) in
  if endtag then
    let l1 := set_tctx fc (set_tag [] (set_ctx (l_tctx l) l)) in
    if c =? 47 then Ok (mset_lp (addcol 1 l1) (p + 1) st, false) else Ok (mset_lp l1 p st, false)
  else if negb (isASCIISpace c) then
    let* (l1, attr, next) := scan_attribute l p in
    let l1 := set_att attr l1 in
    if p <? next then
      let p := next in
      if nonempty attr && (p <? len l1) then
        let* q := idx l1 p in
        let isq := (q =? 34) || (q =? 39) in
        let quote := if isq then q else m_quote st in
        let l2 := if isq then addcol 1 l1 else l1 in
        let p := if isq then p + 1 else p in
        if containsURL (l_tag l2) attr then
          let* l3 := emit_text (mset_lp l2 p st) l2 in
          let l4 := set_ctx (attr_ctx_of quote) l3 in
          let* l5 := emit gen_tokenStartURL 0 l4 in
          Ok (mset_url true (mset_quote quote (resync l5 st)), true)
        else
          Ok (mset_quote quote (mset_lp (set_ctx (attr_ctx_of quote) (set_tidx p l2)) p st), true)
      else Ok (mset_lp l1 p st, true)
    else Ok (mset_lp l1 p st, false)
  else Ok (st, false).

(* l.src[l.tag.index:p] *)
Definition attr_value (l : lexer) (p : N) : res bytes :=
  if (p <? l_tidx l) || (len l <? p) then Fault else Ok (take (p - l_tidx l) (drop (l_tidx l) (l_src l))).

Definition attr_ctx (fc : N) (st : mst) (c : N) : res (mst * bool) :=
  let l := m_l st in let p := m_p st in
  let isend := ((l_ctx l =? gen_ContextQuotedAttr) && (c =? m_quote st))
               || ((l_ctx l =? gen_ContextUnquotedAttr) && ((c =? 62) || isASCIISpace c)) in
  if negb isend then Ok (st, false) else
  let st := mset_quote 0 st in
  let* st1 :=
    if m_url st then
      let* l1 := flush_text st in
      let* l2 := emit gen_tokenEndURL 0 l1 in
      Ok (mset_url false (resync l2 st))
    else if bytes_eqb (l_att l) s_type then
      if bytes_eqb (l_tag l) s_script then
        let* typ := attr_value l p in
        if bytes_eqb typ gen_lex_moduleType then Ok st else
        let typ := trim_space U typ in
        if nonempty typ then
          if equal_fold U typ gen_lex_jsonLDMimeType then Ok (mset_lp (set_tctx gen_ContextJSON l) p st)
          else if negb (equal_fold U typ gen_lex_jsMimeType) then Ok (mset_lp (set_tctx fc l) p st)
          else Ok st
        else Ok st
      else if bytes_eqb (l_tag l) s_style then
        let* typ0 := attr_value l p in
        let typ := trim_space U typ0 in
        if nonempty typ && negb (equal_fold U typ gen_lex_cssMimeType) then Ok (mset_lp (set_tctx fc l) p st)
        else Ok st
      else Ok st
    else Ok st in
  let l1 := set_tidx 0 (set_att [] (set_ctx gen_ContextTag (m_l st1))) in
  Ok (mset_lp l1 (m_p st1) st1, c =? 62).

(* CSS *)
Definition css_ctx (fc : N) (isHTML : bool) (st : mst) (c : N) : mst :=
  let l := m_l st in let p := m_p st in
  if isHTML && (c =? 60) && isEndStyle (drop p (l_src l)) then
    mset_lp (addcol 7 (set_ctx fc (mark_if_nl l (p + 7)))) (p + 7) st
  else if (c =? 34) || (c =? 39) then mset_quote c (mset_lp (set_ctx gen_ContextCSSString l) p st)
  else st.

(* string contexts: CSSString, JSString, JSONString *)
Definition str_ctx (fc : N) (isHTML : bool) (back : N) (quote : N) (json : bool) (isend : bytes -> bool) (skip : N)
  (st : mst) (c : N) : res mst :=
  let l := m_l st in let p := m_p st in
  if c =? 92 then
    let* esc := (p + 1 <? len l) &&& (let* x := idx l (p + 1) in Ok ((x =? quote) || (x =? 92))) in
    if esc then Ok (mset_lp (addcol 1 l) (p + 1) st) else Ok st
  else if c =? quote then Ok (mset_quote 0 (mset_lp (set_ctx back l) p st))
  else if c =? 60 then
    if isHTML && isend (drop p (l_src l)) then
      Ok (mset_quote 0 (mset_lp (addcol skip (set_ctx fc (mark_if_nl l (p + skip)))) (p + skip) st))
    else Ok st
  else Ok st.

(* JS *)
Definition js_ctx (fc : N) (isHTML : bool) (st : mst) (c : N) : res mst :=
  let l := m_l st in let p := m_p st in
  if isHTML && (c =? 60) && isEndScript (drop p (l_src l)) then
    Ok (mset_jsc 0 (mset_lp (addcol 8 (set_ctx fc (mark_if_nl l (p + 8)))) (p + 8) st))
  else if m_jsc st =? 1 then
    Ok (if (c =? 10) || (c =? 13) then mset_jsc 0 st else st)
  else if m_jsc st =? 2 then
    let* fin := (c =? 42) &&& ((p + 1 <? len l) &&& idx_is l (p + 1) 47) in
    if fin then Ok (mset_jsc 0 (mset_lp (addcol 1 l) (p + 1) st)) else Ok st
  else if (c =? 47) && (p + 1 <? len l) then
    let* d := idx l (p + 1) in
    if d =? 47 then Ok (mset_jsc 1 (mset_lp (addcol 1 l) (p + 1) st))
    else if d =? 42 then Ok (mset_jsc 2 (mset_lp (addcol 1 l) (p + 1) st))
    else Ok st
  else if (c =? 34) || (c =? 39) then Ok (mset_quote c (mset_lp (set_ctx gen_ContextJSString l) p st))
  else Ok st.

(* JSON *)
Definition json_ctx (fc : N) (isHTML : bool) (st : mst) (c : N) : mst :=
  let l := m_l st in let p := m_p st in
  if isHTML && (c =? 60) && isEndScript (drop p (l_src l)) then
    mset_lp (addcol 8 (set_ctx fc (mark_if_nl l (p + 8)))) (p + 8) st
  else if c =? 34 then mset_quote 34 (mset_lp (set_ctx gen_ContextJSONString l) p st)
  else st.

(* the end of an iteration: p++, new line handling, column *)
Definition bottom (st : mst) (c : N) : res (step mst) :=
  let l := m_l st in
  let p := m_p st + 1 in
  if c =? 10 then
    let l := newline l in
    let* cr := (p <? len l) &&& idx_is l p 13 in
    (* ghost: the carriage return after a new line is skipped without counting it *)
    let l := if cr then mark_cdev l else l in
    let p := if cr then p + 1 else p in
    if (l_ctx l =? gen_ContextTabCodeBlock) || (l_ctx l =? gen_ContextSpacesCodeBlock) then
      let* (l1, q) := apply_code_block l p in Ok (Again (mset_lp l1 q st))
    else if l_ctx l =? gen_ContextMarkdown then
      if m_sol st then let* (l1, q) := apply_code_block l p in Ok (Again (mset_lp l1 q st))
      else Ok (Again (mset_sol true (mset_lp l p st)))
    else Ok (Again (mset_lp l p st))
  else Ok (Again (mset_lp (if isStartChar c then addcol 1 l else l) p st)).

Definition ctx_switch (fc : N) (isHTML : bool) (st : mst) (c : N) : res (mst * bool) :=
  let cx := l_ctx (m_l st) in
  if cx =? gen_ContextMarkdown then
    let* (st1, cont) := md_url st in
    if cont then Ok (st1, true) else html_lt st1 c
  else if cx =? gen_ContextHTML then html_lt st c
  else if cx =? gen_ContextTag then tag_ctx fc st c
  else if (cx =? gen_ContextQuotedAttr) || (cx =? gen_ContextUnquotedAttr) then attr_ctx fc st c
  else if cx =? gen_ContextCSS then Ok (css_ctx fc isHTML st c, false)
  else if cx =? gen_ContextCSSString then
    let* s := str_ctx fc isHTML gen_ContextCSS (m_quote st) false isEndStyle 7 st c in Ok (s, false)
  else if cx =? gen_ContextJS then let* s := js_ctx fc isHTML st c in Ok (s, false)
  else if cx =? gen_ContextJSString then
    let* s := str_ctx fc isHTML gen_ContextJS (m_quote st) false isEndScript 8 st c in
    (* leaving the script also resets nothing else: jsComment is untouched here *)
    Ok (s, false)
  else if cx =? gen_ContextJSON then Ok (json_ctx fc isHTML st c, false)
  else if cx =? gen_ContextJSONString then
    let* s := str_ctx fc isHTML gen_ContextJSON 34 true isEndScript 8 st c in Ok (s, false)
  else Ok (st, false).

Definition scan_body (fc : N) (isHTML : bool) (st : mst) : res (step mst) :=
  let l := m_l st in let p := m_p st in
  if negb (p <? len l) then Ok (Stop st) else
  let* c := idx l p in
  let ismd := l_ctx l =? gen_ContextMarkdown in
  let st := if ismd then mset_sol (m_sol st && isSpace c) st else st in
  if ismd && (c =? 92) then
    let p := p + 1 in
    let l := addcol 1 l in
    let* t := (p <? len l) &&& (let* d := idx l p in Ok (negb (d =? 10) && negb (d =? 104))) in
    if t then
      let '(_, w) := decode_rune (drop p (l_src l)) in
      (* ghost: a byte that does not start a character is counted as a column *)
      let l1 := match get (l_src l) p with Some d => if isStartChar d then l else mark_cdev l | None => l end in
      Ok (Again (mset_lp (addcol 1 l1) (p + N.of_nat w) st))
    else Ok (Again (mset_lp l p st))
  else
  let* d := (if (c =? 123) && (p + 1 <? len l) then let* x := idx l (p + 1) in Ok (Some x) else Ok None) in
  if oeq d 123 && negb noshow then
    let* l1 := flush_text st in
    let* l2 := lex_show l1 in
    Ok (Again (resync l2 st))
  else if oeq d 37 then
    let* l1 := flush_text st in
    let* three := (2 <? len l1) &&& idx_is l1 2 37 in
    let* l2 := (if three then lex_statements l1 else lex_statement l1) in
    let st1 := resync l2 st in
    match l_raw l2 with
    | Some _ => let* (l3, q) := skip_raw_content l2 in Ok (Again (mset_lp l3 q st1))
    | None => Ok (Again st1)
    end
  else if oeq d 35 then
    let* l1 := flush_text st in
    let* l2 := lex_comment l1 in
    Ok (Again (resync l2 st))
  else
  let* bad := (c =? 35) &&& ((p + 1 <? len l) &&& idx_is l (p + 1) 125) in
  if bad then
    (* ghost: the error has the current line and column but the offset of the pending text *)
    Err (if 0 <? p then mark_ldev (mark_cdev l) else l)
  else
  let* (st1, cont) := ctx_switch fc isHTML st c in
  if cont then Ok (Again st1) else bottom st1 c.

Inductive outcome : Type :=
| Done (toks : list token) (err : option lexer)
| Crashed
| OutOfFuel.

Definition scan_start (fmt : N) (text : bytes) : lexer :=
  mkL text 0 1 1 fmt [] [] [] 0 (if fmt =? gen_ContextMarkdown then gen_ContextMarkdown else gen_ContextHTML)
      None 0 0 [] false false true.

Definition shebang (l : lexer) : res lexer :=
  if 1 <? len l then
    let* a := idx l 0 in
    let* isb := (a =? 35) &&& idx_is l 1 33 in
    if isb then
      let nl := index_byte (l_src l) 10 in
      let t := match nl with Some t => t | None => len l - 1 end in
      let* l1 := emit gen_tokenShebangLine (t + 1) l in
      (* l.line++; ghost: without a new line the line and the column are those of a line that does not exist *)
      let l2 := set_line (l_line l1 + 1) l1 in
      Ok (match nl with Some _ => l2 | None => mark_ldev (mark_cdev l2) end)
    else Ok l
  else Ok l.

Definition scan_fuel (text : bytes) : nat := S (S (2 * length text)).

Definition scan_run (fmt : N) (text : bytes) : res lexer :=
  let* l1 := shebang (scan_start fmt text) in
  let fc := l_ctx l1 in
  let isHTML := (fc =? gen_ContextHTML) || (fc =? gen_ContextMarkdown) in
  let* (l2, p0) := (if fc =? gen_ContextMarkdown then apply_code_block l1 0 else Ok (l1, 0)) in
  let st0 := mkM l2 p0 (l_line l1) (l_col l1) (l_cdev l1) (l_ldev l1) 0 false 0 true in
  let* st := loop (scan_fuel text) (scan_body fc isHTML) st0 in
  let l := m_l st in
  let* l3 := (if 0 <? len l then emit_text st l else Ok l) in
  let* l4 := (if (l_ctx l3 =? gen_ContextMarkdown) && m_url st then emit gen_tokenEndURL 0 l3 else Ok l3) in
  emit gen_tokenEOF 0 l4.

Definition scan_template (fmt : N) (text : bytes) : outcome :=
  match scan_run fmt text with
  | Ok l => Done (rev (l_out l)) None
  | Err l => Done (rev (l_out l)) (Some l)
  | Fault => Crashed
  | NoFuel => OutOfFuel
  end.

End Scan.

(* ---- scanProgram: scan with templateSyntax = false, that is lexCode(tokenEOF)
   on the whole source followed by the EOF token ---- *)
Section Program.
Variable U : unitab.

Definition prog_start (text : bytes) : lexer :=
  mkL text 0 1 1 gen_ContextText [] [] [] 0 0 None 0 0 [] false false false.

Definition scan_program_run (text : bytes) : res lexer :=
  let* l1 := lex_code U gen_tokenEOF (prog_start text) in
  emit gen_tokenEOF 0 l1.

Definition scan_program (text : bytes) : outcome :=
  match scan_program_run text with
  | Ok l => Done (rev (l_out l)) None
  | Err l => Done (rev (l_out l)) (Some l)
  | Fault => Crashed
  | NoFuel => OutOfFuel
  end.

End Program.
