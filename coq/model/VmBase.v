(* VmBase: programs as dumped by the vmexec hook, the machine state of the VM
   (internal/runtime/vm.go: fp, st, pc, ok, regs, calls) and the register
   accessors of internal/runtime/registers.go (int/intk/setInt, string/
   stringk/setString, general/generalk/setGeneral) written by hand.  The
   generated register transfers (gen/Facts_vmexec.v) and the step function
   (VmExecM.v) are built on these.  No proofs here. *)
From Coq Require Import FMapPositive.
From Verif Require Import GoInt.
Open Scope Z_scope.

(* a Go string: its bytes *)
Definition str := list Z.

(* a value held in a general register (a reflect.Value): the zero Value, or a
   typed integer (kind = reflect.Kind, v = the value of that type), a bool, a string *)
Inductive gval :=
  | GInvalid
  | GInt (kind : Z) (v : Z)
  | GBool (b : bool)
  | GStr (s : str).

Record instr := mkI { i_op : Z; i_a : Z; i_b : Z; i_c : Z }.

(* a native function: code 1 is t.P(args ...interface{}), anything else is outside the model *)
Record native := mkNat { n_code : Z; n_variadic : bool; n_numin : Z; n_outoff : Z * Z * Z * Z }.

Record quad := mkQ { q0 : Z; q1 : Z; q2 : Z; q3 : Z }.

Record func := mkF {
  f_numreg : quad;               (* NumReg: int, float, string, general *)
  f_body : list instr;
  f_ints : list Z;               (* Values.Int *)
  f_strs : list str;             (* Values.String *)
  f_gens : list gval;            (* Values.General *)
  f_funcs : list Z;              (* Functions: indexes into the program *)
  f_natives : list native;       (* NativeFunctions *)
  f_types : list Z               (* Types: reflect.Kind of every entry *)
}.

Definition program := list func.

(* checked indexing: a Go slice index out of range is never defaulted *)
Fixpoint nth_nat {A} (l : list A) (n : nat) : option A :=
  match l, n with
  | [], _ => None
  | x :: _, O => Some x
  | _ :: r, S m => nth_nat r m
  end.
Definition nthZ {A} (l : list A) (i : Z) : option A :=
  if (i <? 0) || (Z.of_nat (length l) <=? i) then None else nth_nat l (Z.to_nat i).

(* a register file: the Go slice regs.int / regs.string / regs.general.  Its
   length is the stack top st; entries never written hold the zero value. *)
Definition rf (A : Type) := PositiveMap.t A.
Definition rf_key (a : Z) : positive := Z.to_pos (a + 1).
Definition rf_get {A} (d : A) (m : rf A) (a : Z) : A :=
  match PositiveMap.find (rf_key a) m with Some v => v | None => d end.
Definition rf_set {A} (m : rf A) (a : Z) (v : A) : rf A := PositiveMap.add (rf_key a) v m.

(* callFrame: the caller function, its frame pointers and the return pc (the
   status is always `started` in the subset: no defer, no tail call) *)
Record frame := mkFr { fr_fn : Z; fr_fp : quad; fr_pc : Z }.

Record state := mkS {
  s_fn : Z;                 (* vm.fn, as an index into the program *)
  s_pc : Z;                 (* vm.pc *)
  s_fp : quad;              (* vm.fp *)
  s_st : quad;              (* vm.st = lengths of the four register slices *)
  s_ok : bool;              (* vm.ok *)
  s_int : rf Z;             (* regs.int *)
  s_str : rf str;           (* regs.string *)
  s_gen : rf gval;          (* regs.general *)
  s_calls : list frame;     (* vm.calls, innermost first *)
  s_out : list (list gval)  (* what t.P printed, most recent call first *)
}.

Definition set_pc (s : state) (pc : Z) : state :=
  mkS (s_fn s) pc (s_fp s) (s_st s) (s_ok s) (s_int s) (s_str s) (s_gen s) (s_calls s) (s_out s).
Definition set_fp (s : state) (fp : quad) : state :=
  mkS (s_fn s) (s_pc s) fp (s_st s) (s_ok s) (s_int s) (s_str s) (s_gen s) (s_calls s) (s_out s).
Definition set_int_rf (s : state) (m : rf Z) : state :=
  mkS (s_fn s) (s_pc s) (s_fp s) (s_st s) (s_ok s) m (s_str s) (s_gen s) (s_calls s) (s_out s).
Definition set_str_rf (s : state) (m : rf str) : state :=
  mkS (s_fn s) (s_pc s) (s_fp s) (s_st s) (s_ok s) (s_int s) m (s_gen s) (s_calls s) (s_out s).
Definition set_gen_rf (s : state) (m : rf gval) : state :=
  mkS (s_fn s) (s_pc s) (s_fp s) (s_st s) (s_ok s) (s_int s) (s_str s) m (s_calls s) (s_out s).
Definition set_out (s : state) (o : list (list gval)) : state :=
  mkS (s_fn s) (s_pc s) (s_fp s) (s_st s) (s_ok s) (s_int s) (s_str s) (s_gen s) (s_calls s) o.

(* why the model stops without an answer: the VM would index a slice out of
   range (a host-level Go panic, not a panic of the program), use an indirect
   register, or execute something outside the subset *)
Inductive fault :=
  | FBadPc | FBadFunc | FBadReg | FIndirect | FBadConst | FBadType | FUnsupported (op : Z) | FNative | FTerm.

(* Go run-time panics of the interpreted program itself *)
Inductive pclass := PDivide | PIndex.

Inductive xres (A : Type) := XOk (v : A) | XFault (f : fault) | XPanic (c : pclass).
Arguments XOk {A}. Arguments XFault {A}. Arguments XPanic {A}.

Definition xbind {A B} (r : xres A) (k : A -> xres B) : xres B :=
  match r with XOk v => k v | XFault f => XFault f | XPanic c => XPanic c end.

(* a generated integer term (option Z, None = the term could not be evaluated) as a step result *)
Definition xsome (o : option Z) : xres Z := match o with Some v => XOk v | None => XFault FTerm end.

(* uint8(x) of an int8 operand, as used to index the constant tables *)
Definition u8 (x : Z) : Z := wrap U8 x.

(* ---- registers.go ---- *)

(* vm.int(r): r > 0 reads regs.int[fp[0]+Addr(r)]; r <= 0 is an indirect register (not modelled) *)
Definition rd_int (s : state) (r : Z) : xres Z :=
  if 0 <? r then
    let a := q0 (s_fp s) + r in
    if a <? q0 (s_st s) then XOk (rf_get 0 (s_int s) a) else XFault FBadReg
  else XFault FIndirect.
(* vm.intk(r, k): k = true is the immediate int64(r) *)
Definition rd_intk (s : state) (r : Z) (k : bool) : xres Z := if k then XOk r else rd_int s r.
Definition wr_int (s : state) (r v : Z) : xres state :=
  if 0 <? r then
    let a := q0 (s_fp s) + r in
    if a <? q0 (s_st s) then XOk (set_int_rf s (rf_set (s_int s) a v)) else XFault FBadReg
  else XFault FIndirect.

Definition rd_str (s : state) (r : Z) : xres str :=
  if 0 <? r then
    let a := q2 (s_fp s) + r in
    if a <? q2 (s_st s) then XOk (rf_get [] (s_str s) a) else XFault FBadReg
  else XFault FIndirect.
(* vm.stringk(r, k): k = true is the constant vm.fn.Values.String[uint8(r)] *)
Definition rd_strk (f : func) (s : state) (r : Z) (k : bool) : xres str :=
  if k then match nthZ (f_strs f) (u8 r) with Some v => XOk v | None => XFault FBadConst end
  else rd_str s r.
Definition wr_str (s : state) (r : Z) (v : str) : xres state :=
  if 0 <? r then
    let a := q2 (s_fp s) + r in
    if a <? q2 (s_st s) then XOk (set_str_rf s (rf_set (s_str s) a v)) else XFault FBadReg
  else XFault FIndirect.

Definition rd_gen (s : state) (r : Z) : xres gval :=
  if 0 <? r then
    let a := q3 (s_fp s) + r in
    if a <? q3 (s_st s) then XOk (rf_get GInvalid (s_gen s) a) else XFault FBadReg
  else XFault FIndirect.
(* vm.generalk(r, k): k = true is the constant vm.fn.Values.General[uint8(r)] *)
Definition rd_genk (f : func) (s : state) (r : Z) (k : bool) : xres gval :=
  if k then match nthZ (f_gens f) (u8 r) with Some v => XOk v | None => XFault FBadConst end
  else rd_gen s r.
Definition wr_gen (s : state) (r : Z) (v : gval) : xres state :=
  if 0 <? r then
    let a := q3 (s_fp s) + r in
    if a <? q3 (s_st s) then XOk (set_gen_rf s (rf_set (s_gen s) a v)) else XFault FBadReg
  else XFault FIndirect.

(* constant tables: vm.fn.Values.Int[i] etc. with Go's bounds check *)
Definition const_int (f : func) (i : Z) : xres Z :=
  match nthZ (f_ints f) i with Some v => XOk v | None => XFault FBadConst end.
Definition const_str (f : func) (i : Z) : xres str :=
  match nthZ (f_strs f) i with Some v => XOk v | None => XFault FBadConst end.
Definition const_gen (f : func) (i : Z) : xres gval :=
  match nthZ (f_gens f) i with Some v => XOk v | None => XFault FBadConst end.

(* s[i] on a string: a Go run-time panic (index out of range) outside 0 <= i < len(s) *)
Definition str_index (x : str) (i : Z) : xres Z :=
  match nthZ x i with Some b => XOk b | None => XPanic PIndex end.
Definition str_len (x : str) : Z := Z.of_nat (length x).

(* the `k` of an instruction: op < 0 *)
Definition kneg (i : instr) : bool := i_op i <? 0.
