(* The integer ALU of the VM as the code defines it: the builder's instruction
   selection (generated tables) composed with VM.run's per-opcode, per-kind
   expressions (generated terms).  No proofs here. *)
From Verif Require Import GoInt Facts_alu.
Open Scope Z_scope.

(* Go type of a reflect.Kind (64-bit platform) *)
Definition kind_ity (k : Z) : option ity :=
  if k =? gen_kind_Int then Some I64 else
  if k =? gen_kind_Int8 then Some I8 else
  if k =? gen_kind_Int16 then Some I16 else
  if k =? gen_kind_Int32 then Some I32 else
  if k =? gen_kind_Int64 then Some I64 else
  if k =? gen_kind_Uint then Some U64 else
  if k =? gen_kind_Uint8 then Some U8 else
  if k =? gen_kind_Uint16 then Some U16 else
  if k =? gen_kind_Uint32 then Some U32 else
  if k =? gen_kind_Uint64 then Some U64 else
  if k =? gen_kind_Uintptr then Some U64 else None.

(* An integer value v is held in an int64 register in this form: the int64
   with the same low 64 bits (v itself except for uint64 values >= 2^63). *)
Definition canon (v : Z) : Z := wrap I64 v.

Definition select_tbl (op : binop) : list (Z * (Z * Z)) :=
  match op with
  | Add => gen_select_Add | Sub => gen_select_Sub | Mul => gen_select_Mul
  | Quo => gen_select_Div | Rem => gen_select_Rem
  | And => gen_select_And | Or => gen_select_Or | Xor => gen_select_Xor | AndNot => gen_select_AndNot
  | Shl => gen_select_Shl | Shr => gen_select_Shr
  end.

(* What the VM leaves in the destination register for the source expression
   `x op y` whose operands have kind k: the instruction the builder appends
   ({Op, A, B: y, C: z}; for the kind-dispatching opcodes z = x and A is the
   flattened kind, for the others A is x's register) executed by VM.run.
   g stands for the content of a register the instruction must not depend on.
   None = no instruction / opcode not handled; Some None = run-time panic. *)
Definition vm_binop (op : binop) (k : Z) (x y g : Z) : option (option Z) :=
  match zassoc (select_tbl op) k with
  | None => None
  | Some (opc, a) =>
    if a =? gen_select_reg_x
    then gen_alu opc a (Some (canon x)) (Some (canon y)) (Some g)
    else gen_alu opc a (Some g) (Some (canon y)) (Some (canon x))
  end.

(* z = -y : emitNeg *)
Definition vm_neg (k : Z) (y g : Z) : option (option Z) :=
  match zassoc gen_select_Neg k with
  | None => None
  | Some (opc, a) => gen_alu opc a (Some g) (Some (canon y)) (Some g)
  end.

(* z = y - x : emitSubInv (the operands are swapped by the instruction) *)
Definition vm_subinv (k : Z) (x y g : Z) : option (option Z) :=
  match zassoc gen_select_SubInv k with
  | None => None
  | Some (opc, a) =>
    if a =? gen_select_reg_x
    then gen_alu opc a (Some (canon x)) (Some (canon y)) (Some g)
    else gen_alu opc a (Some g) (Some (canon y)) (Some (canon x))
  end.

Definition omap {A B} (f : A -> B) (o : option A) : option B :=
  match o with Some x => Some (f x) | None => None end.

(* T(x) for x of integer kind ks converted to integer kind kd: emitConvert
   picks the opcode from the source kind, VM.run dispatches on the
   destination kind. *)
Definition vm_convert (ks kd : Z) (x : Z) : option (option Z) :=
  match zassoc gen_select_Convert ks with
  | None => None
  | Some opc =>
    if opc =? gen_OpConvertInt then gen_alu_OpConvertInt kd (Some (canon x))
    else if opc =? gen_OpConvertUint then gen_alu_OpConvertUint kd (Some (canon x))
    else None
  end.

(* `x c y` for operands of kind k used as a condition: emitComparison picks
   the runtime.Condition from the operator and the kind, OpIfInt evaluates it
   on the two registers. *)
Definition select_cmp_tbl (c : cmpop) : list (Z * Z) :=
  match c with
  | Ceq => gen_select_cmp_OperatorEqual | Cne => gen_select_cmp_OperatorNotEqual
  | Clt => gen_select_cmp_OperatorLess | Cle => gen_select_cmp_OperatorLessEqual
  | Cgt => gen_select_cmp_OperatorGreater | Cge => gen_select_cmp_OperatorGreaterEqual
  end.
Definition vm_cmp (c : cmpop) (k : Z) (x y : Z) : option (option bool) :=
  match zassoc (select_cmp_tbl c) k with
  | None => None
  | Some cnd => gen_ifint cnd (Some (canon x)) (Some (canon y))
  end.
