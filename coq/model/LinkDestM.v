(* Model of cmd/scriggo linkdestination.go applyReplacements / the decision of
   appendReplacement, and mdescape.go markdownURLEscape / markdownUnescape.
   Slices and indexes are checked (LFault where Go would panic), loops run on
   explicit fuel (LFuel, excluded by the theorems).  Byte predicates come from
   Facts_linkdest.  No proofs here. *)
From Verif Require Import Bytes IndexM Facts_linkdest.
Open Scope N_scope.

Inductive lres (A : Type) :=
| LOk (x : A)
| LFault      (* slice bounds or index out of range *)
| LFuel.
Arguments LOk {A} x.
Arguments LFault {A}.
Arguments LFuel {A}.

(* ---------------- applyReplacements ---------------- *)

(* start and stop are Go ints: any list can be given, also negative numbers *)
Record repl := mkRepl { r_start : Z; r_stop : Z; r_text : bytes }.

Definition zlen (s : bytes) : Z := Z.of_nat (length s).

(* s[a:b] with Go's check 0 <= a <= b <= len(s) *)
Definition zslice (s : bytes) (a b : Z) : option bytes :=
  if ((0 <=? a) && (a <=? b) && (b <=? zlen s))%Z
  then Some (firstn (Z.to_nat (b - a)) (skipn (Z.to_nat a) s))
  else None.

(* the loop `for _, r := range replacements` and the final dst.Write(src[prev:]) *)
Fixpoint apply_loop (src : bytes) (prev : Z) (rs : list repl) (out : bytes) : option bytes :=
  match rs with
  | [] =>
    match zslice src prev (zlen src) with
    | Some t => Some (out ++ t)
    | None => None
    end
  | r :: rs' =>
    if (r_start r <? prev)%Z then apply_loop src prev rs' out
    else
      match zslice src prev (r_start r) with
      | None => None
      | Some t => apply_loop src (r_stop r) rs' (out ++ t ++ r_text r)
      end
  end.

(* slices.SortFunc by start: for the at most 12 elements the correspondence
   uses, Go runs an insertion sort, which is stable; the theorems are stated
   for lists that are already sorted, where any sort is the identity on the
   kept elements *)
Fixpoint insert_by_start (r : repl) (l : list repl) : list repl :=
  match l with
  | [] => [r]
  | x :: l' => if (r_start r <? r_start x)%Z then r :: l else x :: insert_by_start r l'
  end.
Definition sort_by_start (l : list repl) : list repl := fold_left (fun acc r => insert_by_start r acc) l [].

(* None = Go panics (slice bounds out of range) *)
Definition applyReplacements (src : bytes) (rs : list repl) : option bytes :=
  match rs with
  | [] => Some src
  | _ => apply_loop src 0 (sort_by_start rs) []
  end.

(* ---------------- markdownURLEscape ---------------- *)

(* strings.IndexByte *)
Fixpoint index_byte (c : N) (s : bytes) (k : N) : option N :=
  match s with
  | [] => None
  | x :: r => if x =? c then Some k else index_byte c r (k + 1)
  end.

(* the loop `for s != ""`: returns the builder content and the remaining s *)
Fixpoint ue_loop (fuel : nat) (s b : bytes) : lres (bytes * bytes) :=
  match fuel with
  | O => LFuel
  | S fuel =>
    match s with
    | [] => LOk (b, s)
    | _ =>
      match index_byte gen_mdurl_esc_search s 0 with
      | None => LOk (b, s)                                   (* break *)
      | Some i =>
        match slice s 0 (i + 1) with                          (* b.WriteString(s[:i+1]) *)
        | None => LFault
        | Some t =>
          let b1 := b ++ t in
          let dbl :=
            if i + 1 =? nlen s then Some true                 (* i == len(s)-1 *)
            else match get s (i + 1) with
                 | None => None
                 | Some d => Some (mem gen_mdurl_esc_doubles d)
                 end in
          match dbl with
          | None => LFault
          | Some d =>
            let b2 := if d then b1 ++ [gen_mdurl_esc_written] else b1 in
            match slice s (i + 1) (nlen s) with               (* s = s[i+1:] *)
            | None => LFault
            | Some s' => ue_loop fuel s' b2
            end
          end
        end
      end
    end
  end.

Definition markdownURLEscape (s : bytes) : lres bytes :=
  match ue_loop (S (length s)) s [] with
  | LOk (b, s') => if nlen b =? 0 then LOk s' else LOk (b ++ s')
  | LFault => LFault
  | LFuel => LFuel
  end.

(* ---------------- markdownUnescape ---------------- *)

(* the substitution pairs (c, d) -> w *)
Definition un_subst (c d : N) : option N :=
  match assoc_get gen_mdurl_unesc_subst c with
  | Some (d', w) => if d =? d' then Some w else None
  | None => None
  end.

Fixpoint un_loop (fuel : nat) (s : bytes) (i last : N) (out : bytes) : lres bytes :=
  match fuel with
  | O => LFuel
  | S fuel =>
    if i <? nlen s then
      match get s i with
      | None => LFault
      | Some c =>
        let flush :=
          if last =? i then Some out
          else match slice s last i with Some t => Some (out ++ t) | None => None end in
        if i + 1 <? nlen s then
          match get s (i + 1) with
          | None => LFault
          | Some d =>
            if mem (assoc_list gen_mdurl_unesc_escape c) d then
              (* write s[last:i], write s[i+1:i+2], i++, last = i+1, continue *)
              match flush, slice s (i + 1) (i + 2) with
              | Some o, Some t => un_loop fuel s (i + 2) (i + 2) (o ++ t)
              | _, _ => LFault
              end
            else
              match un_subst c d with
              | Some w =>
                match flush with
                | Some o => un_loop fuel s (i + 2) (i + 2) (o ++ [w])
                | None => LFault
                end
              | None => un_loop fuel s (i + 1) last out
              end
          end
        else un_loop fuel s (i + 1) last out
      end
    else
      if last =? nlen s then LOk out
      else match slice s last (nlen s) with Some t => LOk (out ++ t) | None => LFault end
  end.

Definition markdownUnescape (s : bytes) : lres bytes := un_loop (S (length s)) s 0 0 [].

(* ---------------- the decision of appendReplacement ---------------- *)

(* net/url is external: a parsed URL is abstract.  A destination is skipped when
   it has a scheme, or neither host nor path; otherwise it is rewritten and
   the replacement is markdownURLEscape(u.String()). *)
Section Decision.
  Variable url : Type.
  Variable parse : bytes -> option url.          (* url.Parse; None = error *)
  Variable scheme host path : url -> bytes.
  Variable rewrite : url -> url.                 (* the scheme/host/path transformation against the base *)
  Variable to_string : url -> bytes.             (* u.String() *)

  Definition is_empty (b : bytes) : bool := match b with [] => true | _ => false end.

  Definition lres_opt {A} (r : lres A) : option A := match r with LOk x => Some x | _ => None end.

  (* None = no replacement appended *)
  Definition appendReplacement_repl (raw : bytes) : option bytes :=
    match lres_opt (markdownUnescape raw) with
    | None => None
    | Some d =>
      match parse d with
      | None => None
      | Some u =>
        if negb (is_empty (scheme u)) || (is_empty (host u) && is_empty (path u)) then None
        else lres_opt (markdownURLEscape (to_string (rewrite u)))
      end
    end.
End Decision.

(* option views for the in-Coq cross-check *)
Definition lres_bytes_opt (r : lres bytes) : option bytes := match r with LOk x => Some x | _ => None end.
Definition markdownURLEscape_opt (s : bytes) := lres_bytes_opt (markdownURLEscape s).
Definition markdownUnescape_opt (s : bytes) := lres_bytes_opt (markdownUnescape s).
