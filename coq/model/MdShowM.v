(* Decision trees of the Markdown show functions of renderer.go
   (showInMarkdown, showInMarkdownCodeBlock), as produced by gofacts
   (facts_mdshow.go).  The atoms are those of lib/ShowTree.v (interface
   satisfaction and identity with a well known type, decided on the dynamic
   type of the shown value).  A leaf names the SINK that receives the value and
   the SOURCE of the string handed to it.  No proofs here. *)
From Coq Require Import List NArith Bool.
From Verif Require Import ShowTree.
Import ListNotations.
Open Scope N_scope.

(* where the written string comes from *)
Inductive mdsrc :=
| SValue                    (* string(v): the value itself, of a string type *)
| SToString                 (* toString(env, value) *)
| SString (env : bool)      (* v.String() / v.String(env) *)
| SError                    (* v.Error() *)
| SMarkdown (env : bool)    (* v.Markdown() / v.Markdown(env) *)
| SHTML (env : bool).       (* v.HTML() / v.HTML(env) *)

Inductive mdout :=
| MWrite (s : mdsrc)                       (* written as it is *)
| MEscape (s : mdsrc) (allowHTML : bool)   (* markdownEscape(w, s, allowHTML) *)
| MCode (s : mdsrc) (spaces : bool)        (* markdownCodeBlockEscape(w, s, spaces) *)
| MCannot                                     (* cannot show value of type: nothing is written *)
| MPanic
| MStuck.                                  (* no entry in the table *)

Inductive mdtree :=
| MLeaf (o : mdout)
| MNode (a : atom) (yes no : mdtree).

(* the function renderer.Show calls for a context *)
Inductive mdroute := RParagraph | RCodeBlock (spaces : bool).

Fixpoint md_eval (val : atom -> bool) (t : mdtree) : mdout :=
  match t with
  | MLeaf o => o
  | MNode a y n => if val a then md_eval val y else md_eval val n
  end.

Fixpoint md_assoc (l : list (N * mdtree)) (k : N) : mdtree :=
  match l with
  | [] => MLeaf MStuck
  | (k', t) :: r => if N.eqb k k' then t else md_assoc r k
  end.

Fixpoint route_assoc (l : list (N * mdroute)) (c : N) : option mdroute :=
  match l with
  | [] => None
  | (c', r) :: l' => if N.eqb c c' then Some r else route_assoc l' c
  end.
