(* Specification side of C28 (executable, no proofs): structural equality,
   the pre-order of all nodes, the hypotheses on trees (well-formed with
   respect to the schema, required fields present), and the computable
   condition "the selectors extracted from clone.go / walk.go agree with the
   schema" that the theorems take as their proviso. *)
From Coq Require Import List NArith Bool.
From Verif Require Import Bytes AstSchema AstTreeM.
Import ListNotations.
Open Scope N_scope.

Definition pair_eqb (a b : N * N) : bool := (fst a =? fst b) && (snd a =? snd b).
Definition memp (l : list (N * N)) (p : N * N) : bool := existsb (pair_eqb p) l.
Fixpoint assocp {A : Type} (l : list ((N * N) * A)) (p : N * N) : option A :=
  match l with
  | [] => None
  | (q, a) :: r => if pair_eqb q p then Some a else assocp r p
  end.
Fixpoint list_eqb (a b : list N) : bool :=
  match a, b with
  | [], [] => true
  | x :: r, y :: s => (x =? y) && list_eqb r s
  | _, _ => false
  end.
Fixpoint scal_eqb (a b : list (N * bytes)) : bool :=
  match a, b with
  | [], [] => true
  | (f, v) :: r, (g, w) :: s => (f =? g) && bytes_eqb v w && scal_eqb r s
  | _, _ => false
  end.
Fixpoint nodupb (l : list N) : bool :=
  match l with [] => true | a :: r => negb (mem r a) && nodupb r end.
Definition is_some {A : Type} (o : option A) : bool := match o with Some _ => true | None => false end.
Definition is_nil {A : Type} (l : list A) : bool := match l with [] => true | _ => false end.
Fixpoint forallb2 {A B : Type} (p : A -> B -> bool) (a : list A) (b : list B) : bool :=
  match a, b with
  | [], [] => true
  | x :: r, y :: s => p x y && forallb2 p r s
  | _, _ => false
  end.

Section Spec.
Variable schema : list kind_decl.
(* fields that are never nil in a tree built by the constructors (hand-written, by kind and field) *)
Variable required : list (N * N).
(* fields that always hold the same constant record: (kind, field) -> (kind of the record, its scalars) *)
Variable consts : list ((N * N) * (N * list (N * bytes))).
(* fields whose children always have the given scalar values: (kind, field) -> scalars *)
Variable edge_scal : list ((N * N) * list (N * bytes)).

Definition edge_scal_of (k f : N) : list (N * bytes) :=
  match assocp edge_scal (k, f) with Some l => l | None => [] end.

(* ---- hypotheses on a tree ---- *)

Definition field_ok (k : N) (fl : N * list tree) : bool :=
  let f := fst fl in
  let cs := snd fl in
  (negb (is_single schema k f) || (Nat.leb (length cs) 1)) &&
  forallb (fun c => mem (static_of schema k f) (t_kind c)) cs &&
  (negb (memp required (k, f)) || negb (is_nil cs)) &&
  match assocp consts (k, f) with
  | Some (ck, csc) =>
    match cs with
    | [T _ k' sc' []] => (k' =? ck) && scal_eqb sc' csc
    | _ => false
    end
  | None => true
  end &&
  forallb (fun c => forallb (fun sv => bytes_eqb (scal_of (t_scal c) (fst sv)) (snd sv)) (edge_scal_of k f)) cs.

Definition node_ok (t : tree) : bool :=
  match t with
  | T _ k sc kd =>
    is_some (decl_of schema k) &&
    list_eqb (map fst sc) (map f_id (scalar_fields schema k)) &&
    list_eqb (map fst kd) (map f_id (child_fields schema k)) &&
    forallb (field_ok k) kd
  end.

(* every record of the tree is an instance of its kind: the fields of the
   schema in order, children of allowed kinds, required fields present *)
Definition hyp (t : tree) : bool := forallb node_ok (subtrees t).

Definition no_kind (exc : list N) (t : tree) : bool :=
  forallb (fun n => negb (mem exc (t_kind n))) (subtrees t).

Definition schema_ok : bool :=
  forallb (fun d => nodupb (map f_id (k_fields d))) schema && nodupb (map k_id schema).

(* ---- clone: the selectors agree with the schema ---- *)
Section CloneGood.
Variable table : list ((N * N) * ccase).
Variable exc : list N.             (* kinds left out (listed exceptions) *)

Definition cval_good (k : N) (fld : field) (e : N * cval) : bool :=
  (fst e =? f_id fld) &&
  match snd e with
  | CVia f c ns =>
    (f =? f_id fld) && (ns || negb (f_class fld =? 1) || memp required (k, f)) &&
    (* a constant that the cases of the children write must be what the children hold *)
    forallb (fun k' =>
               match lookup2 table c k' with
               | Some cs' =>
                 forallb (fun e => match snd e with
                                   | SConst v => existsb (fun sv => (fst sv =? fst e) && bytes_eqb (snd sv) v) (edge_scal_of k f)
                                   | _ => true
                                   end) (c_scal cs')
               | None => true
               end) (f_static fld)
  | CNew c k' =>
    (f_class fld =? 1) &&
    match assocp consts (k, f_id fld) with
    | Some (ck, csc) =>
      (ck =? k') &&
      match lookup2 table c k' with
      | Some cs =>
        (c_kind cs =? k') && is_nil (c_kids cs) &&
        match eval_svals [] (c_scal cs) with Some v => scal_eqb v csc | None => false end
      | None => false
      end
    | None => false
    end
  | _ => false
  end.

Definition sval_good (fld : field) (e : N * sval) : bool :=
  (fst e =? f_id fld) && match snd e with SCopy f => f =? f_id fld | SConst _ => true | _ => false end.

Definition no_sconst (cs : ccase) : bool :=
  forallb (fun e => match snd e with SConst _ => false | _ => true end) (c_scal cs).

Definition case_good (k : N) (cs : ccase) : bool :=
  (c_kind cs =? k) &&
  forallb2 (cval_good k) (child_fields schema k) (c_kids cs) &&
  forallb2 sval_good (scalar_fields schema k) (c_scal cs).

(* the pairs (context, kind) a pair leads to *)
Definition csuccs (k : N) (cs : ccase) : list (N * N) :=
  flat_map (fun e =>
    match snd e with
    | CVia f c _ => map (fun k' => (c, k')) (filter (fun k' => negb (mem exc k')) (static_of schema k f))
    | _ => []
    end) (c_kids cs).

Definition cpair_good (nd : list (N * N)) (p : N * N) : bool :=
  match lookup2 table (fst p) (snd p) with
  | Some cs => case_good (snd p) cs && forallb (memp nd) (csuccs (snd p) cs)
  | None => false
  end.

Definition croots : list (N * N) :=
  map (fun d => (0, k_id d)) (filter (fun d => k_node d && negb (mem exc (k_id d))) schema).

(* nd: a set of pairs closed under csuccs that contains the roots, all good *)
Definition clone_table_good (nd : list (N * N)) : bool :=
  schema_ok && forallb (memp nd) croots && forallb (cpair_good nd) nd &&
  forallb (fun p => match lookup2 table (fst p) (snd p) with Some cs => no_sconst cs | None => false end) croots.

(* closure by iteration (any nd passing clone_table_good will do) *)
Fixpoint cclosure (fuel : nat) (nd todo : list (N * N)) : list (N * N) :=
  match fuel with
  | O => nd
  | S fu =>
    match todo with
    | [] => nd
    | p :: r =>
      if memp nd p then cclosure fu nd r
      else
        match lookup2 table (fst p) (snd p) with
        | Some cs => cclosure fu (p :: nd) (csuccs (snd p) cs ++ r)
        | None => cclosure fu (p :: nd) r
        end
    end
  end.
Definition cneeded : list (N * N) := cclosure 5000 [] croots.

End CloneGood.

(* ---- walk ---- *)
Section WalkGood.
Variable wtable : list ((N * N) * wcase).
Variable prune : N -> bool.
(* explicit deviations of Walk from "every child": (kind, field) never
   walked, and (kind, field) whose child is entered without being visited *)
Variable skip : list (N * N).
Variable transparent : list (N * N).

(* kinds without nodes below them: not nodes, no child fields *)
Definition inert (k : N) : bool := negb (is_node schema k) && is_nil (child_fields schema k).
Definition inert_field (fld : field) : bool := forallb inert (f_static fld).

Definition vflag (k f k' : N) : bool := is_node schema k' && negb (memp transparent (k, f)).

(* what Walk is expected to produce, defined on the structure alone: the
   records that are nodes, in pre-order, with Leave after the children *)
Fixpoint events_v (v : bool) (t : tree) : list event :=
  match t with
  | T i k _ kd =>
    let inner :=
      (fix es (l : list (N * list tree)) : list event :=
         match l with
         | [] => []
         | fl :: r =>
           (if memp skip (k, fst fl) then []
            else (fix el (cs : list tree) : list event :=
                    match cs with
                    | [] => []
                    | c :: r2 => events_v (vflag k (fst fl) (t_kind c)) c ++ el r2
                    end) (snd fl)) ++ es r
         end) kd in
    if v then (if prune k then [Enter i] else Enter i :: inner ++ [Leave]) else inner
  end.

Definition events (t : tree) : list event := events_v (is_node schema (t_kind t)) t.

Fixpoint walign (k : N) (flds : list field) (items : list witem) : bool :=
  match flds with
  | [] => is_nil items
  | fld :: fr =>
    if inert_field fld || memp skip (k, f_id fld) then walign k fr items
    else
      match items with
      | WVia f c ns :: ir =>
        (f =? f_id fld) && (ns || negb (f_class fld =? 1) || memp required (k, f)) &&
        forallb (fun k' =>
                   match lookup2 wtable c k' with
                   | Some wc => Bool.eqb (w_visit wc) (vflag k f k')
                   | None => false
                   end) (f_static fld) &&
        walign k fr ir
      | [] => false
      end
  end.

Definition wsuccs (k : N) (wc : wcase) : list (N * N) :=
  flat_map (fun it => match it with WVia f c _ => map (fun k' => (c, k')) (static_of schema k f) end) (w_items wc).

Definition wpair_good (nd : list (N * N)) (p : N * N) : bool :=
  match lookup2 wtable (fst p) (snd p) with
  | Some wc => walign (snd p) (child_fields schema (snd p)) (w_items wc) && forallb (memp nd) (wsuccs (snd p) wc)
  | None => false
  end.

Definition wroots : list (N * N) := map (fun d => (0, k_id d)) (filter k_node schema).

Definition walk_table_good (nd : list (N * N)) : bool :=
  schema_ok && forallb (memp nd) wroots &&
  forallb (fun p => match lookup2 wtable (fst p) (snd p) with Some wc => w_visit wc | None => false end) wroots &&
  forallb (wpair_good nd) nd.

Fixpoint wclosure (fuel : nat) (nd todo : list (N * N)) : list (N * N) :=
  match fuel with
  | O => nd
  | S fu =>
    match todo with
    | [] => nd
    | p :: r =>
      if memp nd p then wclosure fu nd r
      else
        match lookup2 wtable (fst p) (snd p) with
        | Some wc => wclosure fu (p :: nd) (wsuccs (snd p) wc ++ r)
        | None => wclosure fu (p :: nd) r
        end
    end
  end.
Definition wneeded : list (N * N) := wclosure 5000 [] wroots.

End WalkGood.
End Spec.
