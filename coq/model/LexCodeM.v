(* lexCode and the literal lexers of internal/compiler/lexer.go
   (lexIdentifierOrKeyword, lexNumber, lexInterpretedString, lexRawString,
   lexRuneLiteral), for templates and programs (field l_tsyn = templateSyntax).
   No proofs here. *)
From Verif Require Import Bytes Utf8 Facts_lexer LexBase.
Open Scope N_scope.

Section Code.
Variable U : unitab.

(* len(l.src) > i, then l.src[i] *)
Definition nxt (l : lexer) (i : N) : res (option N) :=
  if i <? len l then let* x := idx l i in Ok (Some x) else Ok None.
Definition oeq (o : option N) (c : N) : bool := match o with Some x => x =? c | None => false end.

(* ---- lexIdentifierOrKeyword(s) ---- *)
Definition ident_body (l : lexer) (st : N * N) : res (step (N * N)) :=
  let '(p, cols) := st in
  if p <? len l then
    let '(r, w) := decode_rune (drop p (l_src l)) in
    if negb (r =? 95) && negb (u_letter U r) && negb (u_digit U r) then Ok (Stop st)
    else Ok (Again (p + N.of_nat w, cols + 1))
  else Ok (Stop st).

(* the keyword switch, with the words of the template syntax when l.templateSyntax *)
Definition kw_lookup (tsyn : bool) (id : bytes) : N :=
  match bassoc (if tsyn then gen_keywords_template else gen_keywords_program) id with
  | Some t => t
  | None => gen_tokenIdentifier
  end.

Definition lex_ident (s : N) (l : lexer) : res (lexer * N * bytes) :=
  let* (p, cols) := loop (S (length (l_src l))) (ident_body l) (s, 1) in
  if len l <? p then Fault else
  let id := take p (l_src l) in
  let typ := kw_lookup (l_tsyn l) id in
  let* l1 := emit typ p l in
  Ok (addcol cols l1, typ, id).

(* ---- lexNumber ---- *)
Record nst := mkN { n_p : N; n_base : N; n_dot : bool; n_exp : N; n_0o : bool }.
Definition nset_p (p : N) (s : nst) : nst := mkN p (n_base s) (n_dot s) (n_exp s) (n_0o s).
Definition fix8 (s : nst) : N := if (n_base s =? 8) && negb (n_0o s) then 10 else n_base s.
Definition is_digit09 (c : N) : bool := (48 <=? c) && (c <=? 57).

Definition num_prefix (l : lexer) : res nst :=
  let* c := idx l 0 in
  let st0 := mkN 0 10 false 0 false in
  let* st1 :=
    if (c =? 48) && (1 <? len l) then
      let* d := idx l 1 in
      let st := if (d =? 120) || (d =? 88) then mkN 2 16 false 0 false
                else if (d =? 111) || (d =? 79) then mkN 2 8 false 0 true
                else if (d =? 95) || is_digit09 d then mkN 1 8 false 0 false
                else if (d =? 98) || (d =? 66) then mkN 2 2 false 0 false
                else st0 in
      let p := n_p st in
      let* us := (p <? len l) &&& idx_is l p 95 in
      if us then
        let* bad := (p + 1 <? len l) &&& (let* e := idx l (p + 1) in Ok (negb (isHexDigit e))) in
        if bad then Err l else Ok (nset_p (p + 1) st)
      else Ok st
    else Ok st0 in
  let p := n_p st1 in
  let* isdot := (p <? len l) &&& idx_is l p 46 in
  if isdot then
    let base := fix8 st1 in
    if base <? 10 then Err l else Ok (mkN (p + 1) base true 0 (n_0o st1))
  else Ok st1.

(* the exponent part reached from the second switch of the DIGITS loop *)
Definition num_exponent (l : lexer) (st : nst) : res (step nst) :=
  let p := n_p st in
  let* e := idx l p in
  if (e =? 101) || (e =? 69) then
    if n_base st =? 16 then (if n_dot st then Err l else Ok (Again st))
    else
      let base := fix8 st in
      if negb (base =? 10) then Err l else
      let st := mkN p base (n_dot st) (n_exp st) (n_0o st) in
      if negb (n_exp st =? 0) then Ok (Again st) else
      let p := p + 1 in
      let* sg := (p <? len l) &&& (let* f := idx l p in Ok ((f =? 43) || (f =? 45))) in
      Ok (Again (mkN (if sg then p + 1 else p) base (n_dot st) 101 (n_0o st)))
  else if (e =? 112) || (e =? 80) then
    if negb (n_base st =? 16) then Err l else
    if negb (n_exp st =? 0) then Ok (Again st) else
    let p := p + 1 in
    let* sg := (p <? len l) &&& (let* f := idx l p in Ok ((f =? 43) || (f =? 45))) in
    Ok (Again (mkN (if sg then p + 1 else p) (n_base st) (n_dot st) 112 (n_0o st)))
  else Ok (Again st).

Definition digits_body (l : lexer) (st : nst) : res (step nst) :=
  let p := n_p st in
  if negb (p <? len l) then Ok (Stop st) else
  let* c := idx l p in
  let base := n_base st in
  let* sw :=
    if base =? 10 then Ok (if isDecDigit c then Some base else None)
    else if base =? 16 then
      if ((n_exp st =? 0) && negb (isHexDigit c)) || (negb (n_exp st =? 0) && negb (isDecDigit c)) then
        (if n_dot st && (n_exp st =? 0) then Err l else Ok None)
      else Ok (Some base)
    else if base =? 8 then
      if negb (isOctDigit c) then
        if ((c =? 56) || (c =? 57)) && negb (n_0o st) then Ok (Some 10)
        else if isDecDigit c then Err l else Ok None
      else Ok (Some base)
    else if base =? 2 then
      if negb (isBinDigit c) then (if isDecDigit c then Err l else Ok None) else Ok (Some base)
    else Ok (Some base) in
  match sw with
  | None => Ok (Stop st)
  | Some base =>
    let p := p + 1 in
    let st := mkN p base (n_dot st) (n_exp st) (n_0o st) in
    if negb (p <? len l) then Ok (Again st) else
    let* d := idx l p in
    if d =? 95 then
      let p := p + 1 in
      let* brk := (p <? len l) &&& (let* e := idx l p in Ok (negb (isHexDigit e))) in
      if brk then Ok (Stop (nset_p p st)) else Ok (Again (nset_p p st))
    else if d =? 46 then
      if n_dot st || negb (n_exp st =? 0) then Ok (Stop st) else
      let base := fix8 st in
      if base <? 10 then Err l else
      let p := p + 1 in
      let st := mkN p base true (n_exp st) (n_0o st) in
      if p =? len l then Ok (Stop st) else num_exponent l st
    else num_exponent l st
  end.

Definition lex_number (l : lexer) : res lexer :=
  let* st0 := num_prefix l in
  let* st := loop (S (length (l_src l))) (digits_body l) st0 in
  let p := n_p st in
  let* us := (p <? len l) &&& idx_is l p 95 in
  if us then Err l else
  let* last := (if p =? 0 then Fault else idx l (p - 1)) in
  let bad :=
    if (last =? 120) || (last =? 88) || (last =? 111) || (last =? 79) || (last =? 98) || (last =? 66) then p =? 2
    else if last =? 46 then (p =? 3) && (n_base st =? 16)
    else if last =? 95 then true
    else if (last =? 101) || (last =? 69) then negb (n_base st =? 16)
    else if (last =? 112) || (last =? 80) || (last =? 43) || (last =? 45) then true
    else false in
  if bad then Err l else
  if (n_base st =? 16) && n_dot st && negb (n_exp st =? 112) then Err l else
  let* imag := (p <? len l) &&& idx_is l p 105 in
  if imag then
    let* l1 := emit gen_tokenImaginary (p + 1) l in Ok (addcol (p + 1) l1)
  else
    let* oct := ((0 <? p) && (n_base st =? 10)) &&& (let* z := idx_is l 0 48 in Ok (z && negb (n_dot st) && (n_exp st =? 0))) in
    let* bad89 :=
      if oct then
        (if len l <? p then Fault else Ok (existsb (fun c => (c =? 56) || (c =? 57)) (take (p - 1) (drop 1 (l_src l)))))
      else Ok false in
    if bad89 then Err l else
    let typ := if n_dot st || negb (n_exp st =? 0) then gen_tokenFloat else gen_tokenInt in
    let* l1 := emit typ p l in Ok (addcol p l1).

(* ---- escapes ---- *)
Definition hexval (c : N) : option N :=
  if (48 <=? c) && (c <=? 57) then Some (c - 48)
  else if (97 <=? c) && (c <=? 102) then Some (c - 97 + 10)
  else if (65 <=? c) && (c <=? 70) then Some (c - 65 + 10)
  else None.

(* n hexadecimal digits from l.src[q]; None: a character that is not one *)
Fixpoint hex_run (l : lexer) (q : N) (n : nat) (r : N) : res (option N) :=
  match n with
  | O => Ok (Some r)
  | S n' => let* c := idx l q in
            match hexval c with Some v => hex_run l (q + 1) n' (r * 16 + v) | None => Ok None end
  end.

Definition is_simple_escape (c q : N) : bool :=
  (c =? 97) || (c =? 98) || (c =? 102) || (c =? 110) || (c =? 114) || (c =? 116) || (c =? 118) || (c =? 92) || (c =? q).
Definition is_oct (c : N) : bool := (48 <=? c) && (c <=? 55).
Definition bad_code_point (r : N) : bool := is_surrogate r || (1114111 <? r).

(* l.src = l.src[p:]; return l.errorf(...) *)
Definition err_at (p : N) (l : lexer) {A} : res A := let* l1 := advance p l in Err l1.

(* ---- lexInterpretedString ---- *)
Definition str_body (l : lexer) (st : N * N) : res (step (N * N)) :=
  let '(p, cols) := st in
  if p =? len l then Err l else
  let* c := idx l p in
  if c =? 34 then Ok (Stop st)
  else if c =? 92 then
    if p + 1 =? len l then Err l else
    let* e := idx l (p + 1) in
    if (e =? 117) || (e =? 85) then
      let n := if e =? 85 then 8 else 4 in
      if len l <=? p + 1 + n then Err l else
      let* hr := hex_run l (p + 2) (N.to_nat n) 0 in
      match hr with
      | None => err_at p l
      | Some r =>
        (* r is an int32 in the Go code: a value >= 2^31 is negative and passes the test *)
        if (r <? 2147483648) && bad_code_point r then err_at p l
        else Ok (Again (p + 2 + n, cols + 2 + n))
      end
    else if is_simple_escape e 34 then Ok (Again (p + 2, cols + 2))
    else if e =? 120 then
      if p + 2 =? len l then err_at p l else
      let* h1 := idx l (p + 2) in
      if negb (isHexDigit h1) then err_at p l else
      if p + 3 =? len l then err_at p l else
      let* h2 := idx l (p + 3) in
      if negb (isHexDigit h2) then err_at p l else
      Ok (Again (p + 4, cols + 4))
    else if is_oct e then
      if p + 2 =? len l then err_at p l else
      let* o1 := idx l (p + 2) in
      if negb (is_oct o1) then err_at p l else
      if p + 3 =? len l then err_at p l else
      let* o2 := idx l (p + 3) in
      if negb (is_oct o2) then err_at p l else
      if 255 <? ((e - 48) * 8 + (o1 - 48)) * 8 + (o2 - 48) then err_at p l else
      Ok (Again (p + 4, cols + 4))
    else err_at p l
  else if c =? 10 then err_at p l
  else
    let '(r, w) := decode_rune (drop p (l_src l)) in
    if (r =? rune_error) && (Nat.eqb w 1) then err_at p l
    else if r =? gen_lex_BOM then Err l
    else Ok (Again (p + N.of_nat w, cols + 1)).

Definition lex_string (l : lexer) : res lexer :=
  let* (p, cols) := loop (S (length (l_src l))) (str_body l) (1, 1) in
  let* l1 := emit gen_tokenInterpretedString (p + 1) l in
  Ok (addcol (cols + 1) l1).

(* ---- lexRawString ---- *)
Definition raw_body (st : lexer * N) : res (step (lexer * N)) :=
  let '(l, p) := st in
  if p =? len l then Err l else
  let* c := idx l p in
  if c =? 96 then Ok (Stop (addcol 1 l, p))
  else if c =? 10 then Ok (Again (newline l, p + 1))
  else
    let '(r, w) := decode_rune (drop p (l_src l)) in
    if (r =? rune_error) && (Nat.eqb w 1) then err_at p l
    else if r =? gen_lex_BOM then Err l
    else Ok (Again (addcol 1 l, p + N.of_nat w)).

Definition lex_raw_string (l : lexer) : res lexer :=
  let lin := l_line l in let col := l_col l in
  let cd := l_cdev l in let ld := l_ldev l in
  let* (l1, p) := loop (S (length (l_src l))) raw_body (addcol 1 l, 1) in
  emit_at lin col cd ld gen_tokenRawString (p + 1) l1.

(* ---- lexRuneLiteral ---- *)
Definition lex_rune (l : lexer) : res lexer :=
  if len l =? 1 then Err l else
  let* c1 := idx l 1 in
  let* pw :=   (* (p, the literal holds a rune of more than one byte) *)
    if c1 =? 92 then
      if len l =? 2 then Err l else
      let* c := idx l 2 in
      if is_simple_escape c 39 then (if len l <? 3 then Err l else Ok (3, false))
      else if c =? 120 then
        if len l <? 5 then Err l else
        let* h1 := idx l 3 in
        if negb (isHexDigit h1) then Err l else
        let* h2 := idx l 4 in
        if negb (isHexDigit h2) then Err l else Ok (5, false)
      else if (c =? 117) || (c =? 85) then
        let n := if c =? 85 then 8 else 4 in
        if len l <? n + 3 then Err l else
        let* hr := hex_run l 3 (N.to_nat n) 0 in
        match hr with
        | None => Err l
        | Some r => if bad_code_point r then Err l else Ok (n + 3, false)
        end
      else if is_oct c then
        if len l <? 5 then Err l else
        let* o1 := idx l 3 in
        if negb (is_oct o1) then Err l else
        let* o2 := idx l 4 in
        if negb (is_oct o2) then Err l else
        if 255 <? ((c - 48) * 8 + (o1 - 48)) * 8 + (o2 - 48) then Err l else Ok (5, false)
      else Err l
    else if c1 =? 10 then Err l
    else if c1 =? 39 then Err l
    else
      let '(r, w) := decode_rune (drop 1 (l_src l)) in
      if (r =? rune_error) && (Nat.eqb w 1) then Err l
      else if r =? gen_lex_BOM then Err l
      else Ok (N.of_nat w + 1, Nat.ltb 1 w) in
  let '(p, wide) := pw in
  let* t := (p <? len l) &&& idx_is l p 39 in
  if negb t then Err l else
  let* l1 := emit gen_tokenRune (p + 1) l in
  (* ghost: l.column += p+1 counts the bytes of the rune *)
  Ok (addcol (p + 1) (if wide then mark_cdev l1 else l1)).

(* ---- lexCode(end) ---- *)
Record cst := mkC { c_l : lexer; c_mou : bool; c_idi : N; c_idt : bytes; c_elas : bool; c_ulb : N; c_ret : bool }.
Definition cset_l (l : lexer) (e : bool) (s : cst) : cst := mkC l (c_mou s) (c_idi s) (c_idt s) e (c_ulb s) (c_ret s).
Definition cset_ulb (n : N) (s : cst) : cst := mkC (c_l s) (c_mou s) (c_idi s) (c_idt s) (c_elas s) n (c_ret s).
Definition creturn (l : lexer) (s : cst) : cst := mkC l (c_mou s) (c_idi s) (c_idt s) (c_elas s) (c_ulb s) true.

(* emit(typ, n); l.column += n; endLineAsSemicolon = e; (continue) *)
Definition opk (typ n : N) (e : bool) (s : cst) : res (step cst) :=
  let* l1 := emitc typ n (c_l s) in Ok (Again (cset_l l1 e s)).

Fixpoint find_index (l : list bytes) (k : bytes) (i : N) : option N :=
  match l with
  | [] => None
  | x :: r => if bytes_eqb x k then Some i else find_index r k (i + 1)
  end.

(* if endLineAsSemicolon { l.emit(tokenSemicolon, 0) } *)
Definition auto_semi (e : bool) (l : lexer) : res lexer :=
  if e then emit gen_tokenSemicolon 0 l else Ok l.

(* the same when the line and column of the lexer are known to be behind the offset (ghost flags of the token only) *)
Definition auto_semi_dev (e : bool) (l : lexer) : res lexer :=
  if e then emit_at (l_line l) (l_col l) true true gen_tokenSemicolon 0 l else Ok l.

Definition code_ident (endt first : N) (c : N) (s : cst) : res (step cst) :=
  let l := c_l s in
  let* r :=
    if (c =? 95) || ((c <? 128) && u_letter U c) then
      let* x := lex_ident 1 l in Ok (Some x)
    else
      let '(r, w) := decode_rune (l_src l) in
      if negb (u_letter U r) then
        if r =? gen_lex_BOM then
          (if l_base l =? 0 then Ok None else Err l)
        else Err l
      else let* x := lex_ident (N.of_nat w) l in Ok (Some x) in
  match r with
  | None =>
    (* l.src = l.src[utf8.RuneLen(BOM):]; ghost: the byte order mark is a character that takes no column *)
    let* l1 := advance 3 l in Ok (Again (cset_l (mark_cdev l1) (c_elas s) s))
  | Some (l1, typ, txt) =>
    let s1 :=
      if endt =? gen_tokenEndStatement then
        if l_tot l1 =? first then
          if typ =? gen_tokenMacro then
            mkC (set_ctxs (l_ctx l1 :: l_ctxs l1) l1) true (c_idi s) (c_idt s) (c_elas s) (c_ulb s) (c_ret s)
          else if typ =? gen_tokenEnd then
            match l_ctxs l1 with
            | x :: r => cset_l (set_ctxs r (set_ctx x l1)) (c_elas s) s
            | [] => cset_l l1 (c_elas s) s
            end
          else if (typ =? gen_tokenIf) || (typ =? gen_tokenFor) || (typ =? gen_tokenSwitch) || (typ =? gen_tokenSelect) then
            match l_ctxs l1 with
            | _ :: _ => cset_l (set_ctxs (l_ctx l1 :: l_ctxs l1) l1) (c_elas s) s
            | [] => cset_l l1 (c_elas s) s
            end
          else cset_l l1 (c_elas s) s
        else if typ =? gen_tokenUsing then
          mkC (set_ctxs (l_ctx l1 :: l_ctxs l1) l1) true (c_idi s) (c_idt s) (c_elas s) (c_ulb s) (c_ret s)
        else if c_mou s && (typ =? gen_tokenIdentifier) && negb (l_tot l1 =? first + 1) then
          mkC l1 (c_mou s) (l_tot l1) txt (c_elas s) (c_ulb s) (c_ret s)
        else cset_l l1 (c_elas s) s
      else cset_l l1 (c_elas s) s in
    let e := (typ =? gen_tokenBreak) || (typ =? gen_tokenContinue) || (typ =? gen_tokenFallthrough)
             || (typ =? gen_tokenReturn) || (typ =? gen_tokenIdentifier) in
    Ok (Again (cset_l (c_l s1) e s1))
  end.

Definition code_body (endt first : N) (s : cst) : res (step cst) :=
  let l := c_l s in
  if len l =? 0 then Ok (Stop s) else
  let* c := idx l 0 in
  if c =? 34 then let* l1 := lex_string l in Ok (Again (cset_l l1 true s))
  else if c =? 96 then let* l1 := lex_raw_string l in Ok (Again (cset_l l1 true s))
  else if c =? 39 then let* l1 := lex_rune l in Ok (Again (cset_l l1 true s))
  else if c =? 46 then
    let* d := nxt l 1 in
    if match d with Some x => is_digit09 x | None => false end then
      let* l1 := lex_number l in Ok (Again (cset_l l1 true s))
    else
      let* d2 := (if oeq d 46 then nxt l 2 else Ok None) in
      if oeq d2 46 then opk gen_tokenEllipsis 3 false s else opk gen_tokenPeriod 1 false s
  else if is_digit09 c then let* l1 := lex_number l in Ok (Again (cset_l l1 true s))
  else if c =? 61 then
    let* d := nxt l 1 in
    if oeq d 61 then opk gen_tokenEqual 2 false s else opk gen_tokenSimpleAssignment 1 false s
  else if c =? 43 then
    let* d := nxt l 1 in
    if oeq d 43 then opk gen_tokenIncrement 2 true s
    else if oeq d 61 then opk gen_tokenAdditionAssignment 2 false s
    else opk gen_tokenAddition 1 false s
  else if c =? 45 then
    let* d := nxt l 1 in
    if oeq d 45 then opk gen_tokenDecrement 2 true s
    else if oeq d 61 then opk gen_tokenSubtractionAssignment 2 false s
    else opk gen_tokenSubtraction 1 false s
  else if c =? 42 then
    let* d := nxt l 1 in
    if oeq d 61 then opk gen_tokenMultiplicationAssignment 2 false s else opk gen_tokenMultiplication 1 false s
  else if c =? 47 then
    let* d := nxt l 1 in
    if oeq d 47 then
      (* line comment *)
      match index_nl_bom (l_src l) with
      | None => Ok (Stop s)                       (* break LOOP *)
      | Some p =>
        let* x := idx l p in
        if negb (x =? 10) then Err l else
        let* l1 := advance p l in
        (* ghost: the column is not advanced over the comment *)
        let l1 := mark_cdev l1 in
        let* l2 := auto_semi (c_elas s) l1 in
        let* l3 := advance 1 (newline l2) in
        Ok (Again (cset_l l3 false s))
      end
    else if oeq d 42 then
      (* general comment *)
      let* l1 := advance 2 l in
      match index (l_src l1) [42; 47] with
      | None => Err l1
      | Some p =>
        let nl := index_nl_bom (take p (l_src l1)) in
        let* badbom := match nl with Some k => let* x := idx l1 k in Ok (negb (x =? 10)) | None => Ok false end in
        if badbom then Err l1 else
        let many := 1 <? count_nl (take p (l_src l1)) in
        let* l2 := advance (p + 2) l1 in
        (* ghost: neither the column nor more than one line is accounted for *)
        let l2 := mark_cdev l2 in
        match nl with
        | Some _ =>
          (* ghost: the semicolon has the line of the start of the comment *)
          let* l3 := auto_semi_dev (c_elas s) l2 in
          let l4 := mark_cdev (newline l3) in
          Ok (Again (cset_l (if many then mark_ldev l4 else l4) false s))
        | None => Ok (Again (cset_l l2 (c_elas s) s))
        end
      end
    else if oeq d 61 then opk gen_tokenDivisionAssignment 2 false s
    else opk gen_tokenDivision 1 false s
  else if c =? 37 then
    let* d := nxt l 1 in
    if oeq d 125 then
      if endt =? gen_tokenEndStatement then
        let l1 :=
          if c_idi s =? l_tot l then
            match find_index gen_formatTypeName (c_idt s) 0 with Some i => set_ctx i l | None => l end
          else l in
        Ok (Stop (creturn l1 s))
      else if (endt =? gen_tokenRightBraces) || (endt =? gen_tokenEndStatements) then Err l
      else opk gen_tokenModulo 1 false s
    else if oeq d 37 then
      let* d2 := nxt l 2 in
      if negb (oeq d2 125) then opk gen_tokenModulo 1 false s
      else if endt =? gen_tokenEndStatements then
        let* l1 := auto_semi (c_elas s) l in Ok (Stop (creturn l1 s))
      else if (endt =? gen_tokenRightBraces) || (endt =? gen_tokenEndStatement) then Err l
      else opk gen_tokenModulo 1 false s
    else if oeq d 61 then opk gen_tokenModuloAssignment 2 false s
    else opk gen_tokenModulo 1 false s
  else if c =? 38 then
    let* d := nxt l 1 in
    if oeq d 38 then opk gen_tokenAnd 2 false s
    else if oeq d 94 then
      let* d2 := nxt l 2 in
      if oeq d2 61 then opk gen_tokenAndNotAssignment 3 false s else opk gen_tokenAndNot 2 false s
    else if oeq d 61 then opk gen_tokenAndAssignment 2 false s
    else opk gen_tokenAmpersand 1 false s
  else if c =? 124 then
    let* d := nxt l 1 in
    if oeq d 124 then opk gen_tokenOr 2 false s
    else if oeq d 61 then opk gen_tokenOrAssignment 2 false s
    else opk gen_tokenVerticalBar 1 false s
  else if c =? 33 then
    let* d := nxt l 1 in
    if oeq d 61 then opk gen_tokenNotEqual 2 false s else opk gen_tokenNot 1 false s
  else if c =? 60 then
    let* d := nxt l 1 in
    if oeq d 61 then opk gen_tokenLessOrEqual 2 false s
    else if oeq d 45 then opk gen_tokenArrow 2 false s
    else if oeq d 60 then
      let* d2 := nxt l 2 in
      if oeq d2 61 then opk gen_tokenLeftShiftAssignment 3 false s else opk gen_tokenLeftShift 2 false s
    else opk gen_tokenLess 1 false s
  else if c =? 62 then
    let* d := nxt l 1 in
    if oeq d 61 then opk gen_tokenGreaterOrEqual 2 false s
    else if oeq d 62 then
      let* d2 := nxt l 2 in
      if oeq d2 61 then opk gen_tokenRightShiftAssignment 3 false s else opk gen_tokenRightShift 2 false s
    else opk gen_tokenGreater 1 false s
  else if c =? 40 then opk gen_tokenLeftParenthesis 1 false s
  else if c =? 41 then opk gen_tokenRightParenthesis 1 true s
  else if c =? 91 then opk gen_tokenLeftBracket 1 false s
  else if c =? 93 then opk gen_tokenRightBracket 1 true s
  else if c =? 123 then
    let* l1 := emitc gen_tokenLeftBrace 1 l in
    let s1 := cset_l l1 false s in
    Ok (Again (if endt =? gen_tokenRightBraces then cset_ulb (c_ulb s + 1) s1 else s1))
  else if c =? 125 then
    let* r :=   (* Some s: go on and emit the right brace; None: return nil *)
      if endt =? gen_tokenRightBraces then
        let* d := nxt l 1 in
        let* closes :=
          if oeq d 125 then
            if c_ulb s =? 0 then Ok true
            else if c_ulb s =? 1 then (let* d2 := nxt l 2 in Ok (negb (oeq d2 125)))
            else Ok false
          else Ok false in
        if closes then Ok None
        else Ok (Some (if 0 <? c_ulb s then cset_ulb (c_ulb s - 1) s else s))
      else Ok (Some s) in
    match r with
    | None => Ok (Stop (creturn l s))
    | Some s1 => opk gen_tokenRightBrace 1 true s1
    end
  else if c =? 94 then
    let* d := nxt l 1 in
    if oeq d 61 then opk gen_tokenXorAssignment 2 false s else opk gen_tokenXor 1 false s
  else if c =? 58 then
    let* d := nxt l 1 in
    if oeq d 61 then opk gen_tokenDeclaration 2 false s else opk gen_tokenColon 1 false s
  else if c =? 44 then opk gen_tokenComma 1 false s
  else if (c =? 32) || (c =? 9) || (c =? 13) then
    let* l1 := advance 1 l in Ok (Again (cset_l (addcol 1 l1) (c_elas s) s))
  else if c =? 10 then
    let* l1 := auto_semi (c_elas s) l in
    let* l2 := advance 1 (newline l1) in
    Ok (Again (cset_l l2 false s))
  else if c =? 59 then opk gen_tokenSemicolon 1 false s
  else if c =? 0 then Err l
  else code_ident endt first c s.

(* fuel: every iteration consumes at least one byte *)
Definition lex_code (endt : N) (l : lexer) : res lexer :=
  if len l =? 0 then (if negb (endt =? gen_tokenEOF) then Err l else Ok l) else
  let first := l_tot l + 1 in
  let* s := loop (S (length (l_src l))) (code_body endt first) (mkC l false 0 [] false 0 false) in
  if c_ret s then Ok (c_l s) else
  if negb (endt =? gen_tokenEOF) then Err (c_l s) else auto_semi (c_elas s) (c_l s).

End Code.
