(* The template calculus, runtime level: what the VM does with the template
   instructions that touch the output.  A compiled template is a tree of
   functions; a body is a list of Text, Show, macro call (OpCallMacro and the
   macro case of OpCallIndirect in run.go: the renderer switch on the format)
   and macro call taken as a value and shown.  defer/recover is modelled as a
   flag on the function (its body starts by deferring a function that calls
   recover; the flag also stands for the mere presence of a deferred call, which
   changes how the function returns).  Writers are as in RendererM.  The expression language, the show
   functions outside URLs and the Markdown converter are parameters.
   No proofs here. *)
From Verif Require Import Bytes Facts_render RendererM.
Open Scope N_scope.

Inductive tnode :=
| TText (txt : bytes) (u isSet : bool)        (* OpText *)
| TShow (c : N) (v : shown)                   (* OpShow of a value *)
| TCall (f : tfunc) (b : N)                   (* call of a macro with B = the format of the caller context *)
| TCallShow (f : tfunc) (c : N) (ty : N) (native : bool)
                                              (* call with B = ReturnString, then OpShow of the string as a value of
                                                 the format type ty in the context c; native = the macro is held in
                                                 an indirect variable, loaded as a native function value and run by
                                                 callable.Value in a new VM *)
with tfunc :=
| TFunc (fmt : N) (recovers : bool) (body : list tnode).

(* payload of a panic raised by the instructions of the calculus *)
Inductive outcome :=
| Done
| Panic (e : werr)        (* panic(outError{err}): becomes a PanicError, recoverable *)
| Fatal (e : option werr) (* panic(&fatalError{..}): not recoverable, leaves Run as a host panic;
                             Some e = the converter error, None = no converter configured *)
| Fault.                  (* a Go runtime error inside the renderer: becomes a fatalError too *)

Definition of_res (r : res) : outcome :=
  match r with ROk => Done | RErr e => Panic e | RFault => Fault end.

Definition never : writer := fun _ => None.

Section Exec.
  (* showing a string that has the format type ty in the context byte c *)
  Variable showf : N -> N -> bytes -> shown.
  (* the Markdown converter as the list of Write calls it makes for a source; None = not configured *)
  Variable conv : option (bytes -> list bytes).
  (* OpReturn raises the converter error as a fatalError (true) or as an outError (false):
     generated fact gen_conv_error_is_fatal *)
  Variable conv_fatal : bool.

  Fixpoint exec_node (w : writer) (st : rstate) (ws : wst) (n : tnode) {struct n} : rstate * wst * outcome :=
    let exec_list :=
      fix exec_list (w : writer) (st : rstate) (ws : wst) (l : list tnode) {struct l} : rstate * wst * outcome :=
        match l with
        | [] => (st, ws, Done)
        | x :: r =>
          match exec_node w st ws x with
          | (st1, ws1, Done) => exec_list w st1 ws1 r
          | other => other
          end
        end in
    match n with
    | TText txt u isSet =>
      let '(st1, ws1, r) := r_text w st ws txt u isSet in (st1, ws1, of_res r)
    | TShow c v =>
      let '(st1, ws1, r) := r_show w st ws c v in (st1, ws1, of_res r)
    | TCall (TFunc fmt rec body) b =>
      if b =? fmt then
        (* same renderer *)
        match exec_list w st ws body with
        | (st1, ws1, Panic e) => if rec then (st1, ws1, Done) else (st1, ws1, Panic e)
        | other => other
        end
      else if (fmt =? gen_FormatMarkdown) && (b =? gen_FormatHTML) then
        match conv with
        | None => (st, ws, Fatal None)
        | Some cv =>
          (* vm.renderer = newRenderer(&bytes.Buffer{}) *)
          match exec_list never r0 w0 body with
          | (_, bws, Done) =>
            (* a function with a deferred call does not return through OpReturn but through
               nextCall, which only restores the renderer: nothing is converted, the buffer is dropped *)
            if rec then (st, ws, Done) else
            (* OpReturn: err := vm.env.conv(out.Bytes(), call.renderer.out); panic(...) *)
            match run_script w ws (map AWrite (cv (concat (w_out bws)))) with
            | (ws1, ROk) => (st, ws1, Done)
            | (ws1, RErr e) =>
              if conv_fatal then (st, ws1, Fatal (Some e))
              else if rec then (st, ws1, Done) else (st, ws1, Panic e)
            | (ws1, RFault) => (st, ws1, Fault)
            end
          | (_, _, Panic e) => if rec then (st, ws, Done) else (st, ws, Panic e)
          | (_, _, o) => (st, ws, o)
          end
        end
      else
        (* vm.renderer = newRenderer(vm.renderer.out): same writer, fresh URL state *)
        match exec_list w r0 ws body with
        | (_, ws1, Panic e) => if rec then (st, ws1, Done) else (st, ws1, Panic e)
        | (_, ws1, o) => (st, ws1, o)
        end
    | TCallShow (TFunc fmt rec body) c ty native =>
      (* vm.renderer = newRenderer(&strings.Builder{}) *)
      match exec_list never r0 w0 body with
      | (_, bws, Done) =>
        (* with a deferred call the callee returns through nextCall and the result register is
           never set from the string builder: the value is the empty string; not so in the new
           VM of callable.Value, which reads the builder after runFunc *)
        let s := if rec && negb native then [] else concat (w_out bws) in
        let '(st1, ws1, r) := r_show w st ws c (showf c ty s) in (st1, ws1, of_res r)
      | (_, bws, Panic e) =>
        if rec then
          let s := if native then concat (w_out bws) else [] in
          let '(st1, ws1, r) := r_show w st ws c (showf c ty s) in (st1, ws1, of_res r)
        else if native then (st, ws, Fatal (Some e))   (* callable.Value wraps the PanicError in a fatalError *)
        else (st, ws, Panic e)
      | (_, _, o) => (st, ws, o)
      end
    end.

  Fixpoint exec_list (w : writer) (st : rstate) (ws : wst) (l : list tnode) {struct l} : rstate * wst * outcome :=
    match l with
    | [] => (st, ws, Done)
    | x :: r =>
      match exec_node w st ws x with
      | (st1, ws1, Done) => exec_list w st1 ws1 r
      | other => other
      end
    end.

  (* what Template.Run gives for the main function of a template *)
  Inductive run_result :=
  | RunNil                        (* Run returns nil *)
  | RunErr (e : werr)             (* Run returns the error (the writer error, or the show error) *)
  | RunHostPanic (e : option werr).  (* Run panics *)

  Definition run_main (w : writer) (main : tfunc) : wst * run_result :=
    match main with
    | TFunc _ rec body =>
      match exec_list w r0 w0 body with
      | (_, ws, Done) => (ws, RunNil)
      | (_, ws, Panic e) => (ws, if rec then RunNil else RunErr e)
      | (_, ws, Fatal e) => (ws, RunHostPanic e)
      | (_, ws, Fault) => (ws, RunHostPanic None)
      end
    end.
End Exec.

(* The renderer chosen by OpCallMacro for the B operand and the format of the
   callee, as exec_node decides it (0 the caller renderer, 1 a string
   builder, 2 a buffer converted at return, 3 a new renderer on the same
   writer); proved equal to the generated table gen_callmacro_switch. *)
Definition switch_kind (b : Z) (fmt : N) : N :=
  if Z.eqb b gen_ReturnString then 1
  else if Z.eqb b (Z.of_N fmt) then 0
  else if (fmt =? gen_FormatMarkdown) && Z.eqb b (Z.of_N gen_FormatHTML) then 2
  else 3.

(* no function of the tree recovers *)
Fixpoint norec_node (n : tnode) : bool :=
  match n with
  | TText _ _ _ | TShow _ _ => true
  | TCall (TFunc _ rec body) _ => negb rec && forallb norec_node body
  | TCallShow (TFunc _ rec body) _ _ _ => negb rec && forallb norec_node body
  end.
Definition norec_func (f : tfunc) : bool :=
  match f with TFunc _ rec body => negb rec && forallb norec_node body end.

(* the operands the emitter guarantees, through the whole tree *)
Fixpoint ok_node (n : tnode) : bool :=
  match n with
  | TText txt u s => op_ok (OText txt u s)
  | TShow c v => op_ok (OShow c v)
  | TCall (TFunc _ _ body) _ => forallb ok_node body
  | TCallShow (TFunc _ _ body) c _ _ => op_ok (OShow c (mkShown [] None None)) && forallb ok_node body
  end.
