(* The reference tokenizer of RefTok.v with options, spec side of C06 layer
   (B).  The first version (RefTok.ref_run) leaves three gaps through which a
   source stays "inside the fragment" although the reference no longer
   describes what a browser and the lexer do (witnesses in props/C06.v):
   a show whose body holds a comment with the closing braces inside, a show
   (or a quoted ">") between the name of an end tag and its ">", a backslash in front of an
   end tag inside a string literal of a script, and a show inside a shebang
   line.  o_strict closes them.
   o_raw = false leaves the fragment at the start of a script or style
   element; o_ident = true admits only shows of the form
   "{{" spaces identifier spaces "}}" (ASCII letters, digits, underscore).
   No proofs here. *)
From Verif Require Import Bytes Utf8 Facts_lexer LexBase LexCodeM LexerM LexTables RefTok.
Open Scope N_scope.

Record ropt := mkOpt { o_strict : bool; o_raw : bool; o_ident : bool }.

(* the first version *)
Definition opt_first : ropt := mkOpt false true false.
(* the corrected fragment *)
Definition opt_strict : ropt := mkOpt true true false.
(* the sub-fragment of the proved theorem: text and tags with quoted
   attributes, shows of an identifier *)
Definition opt_html : ropt := mkOpt true false true.

Definition hd_is (r : bytes) (c : N) : bool := match r with d :: _ => d =? c | [] => false end.

Definition raw_elem (tag : bytes) : bool := bytes_eqb tag s_script || bytes_eqb tag s_style.
(* the state after the ">" of a start tag *)
Definition after_tag (o : ropt) (tag : bytes) : rstate :=
  if raw_elem tag then (if o_raw o then RRaw tag 0 else ROutside) else RData.

Definition rstep2 (o : ropt) (st : rstate) (c : N) (r : bytes) : rstate * nat :=
  match st with
  | RTagName name =>
    if is_ws c then (RInTag name, 0%nat)
    else if c =? 62 then (after_tag o name, 0%nat)
    else if is_letter c || ((48 <=? c) && (c <=? 57)) || (c =? 45) then (RTagName (name ++ [lower c]), 0%nat)
    else (ROutside, 0%nat)
  | RInTag tag =>
    if is_ws c then (RInTag tag, 0%nat)
    else if c =? 62 then (after_tag o tag, 0%nat)
    else if is_letter c then (RAttrName tag [lower c], 0%nat)
    else (ROutside, 0%nat)
  | RAttrName tag attr =>
    if raw_elem tag && bytes_eqb attr s_type then (ROutside, 0%nat)
    else if c =? 61 then (RBeforeValue tag attr, 0%nat)
    else if is_ws c then (RAfterName tag attr, 0%nat)
    else if c =? 62 then (after_tag o tag, 0%nat)
    else if is_letter c || (c =? 45) then (RAttrName tag (attr ++ [lower c]), 0%nat)
    else (ROutside, 0%nat)
  | RRaw elem q =>
    if o_strict o && negb (q =? 0) && (c =? 92) && hd_is r 60 then (ROutside, 0%nat)
    else rstep st c r
  | _ => rstep st c r
  end.

Definition is_ident_start (c : N) : bool := is_letter c || (c =? 95).
Definition is_ident_char (c : N) : bool := is_letter c || (c =? 95) || ((48 <=? c) && (c <=? 57)).
Fixpoint skip_spaces (s : bytes) : bytes :=
  match s with c :: r => if c =? 32 then skip_spaces r else s | [] => [] end.
Fixpoint skip_ident (s : bytes) : bytes :=
  match s with c :: r => if is_ident_char c then skip_ident r else s | [] => [] end.

(* the body of a show *)
Definition skip_show2 (o : ropt) (s : bytes) : option bytes :=
  if o_ident o then
    match skip_spaces s with
    | c :: r =>
      if is_ident_start c then
        match skip_spaces (skip_ident r) with
        | a :: b :: r' => if (a =? 125) && (b =? 125) then Some r' else None
        | _ => None
        end
      else None
    | [] => None
    end
  else if o_strict o && existsb (N.eqb 47) (firstn (length s - length (match skip_show s with Some r => r | None => [] end)) s) then None
  else skip_show s.

Fixpoint ref_run2 (o : ropt) (fuel : nat) (st : rstate) (off : N) (s : bytes) (acc : list (N * N)) : option (list (N * N)) :=
  match fuel with
  | O => None
  | S f =>
    match s with
    | [] => match st with ROutside => None | _ => Some (rev acc) end
    | c :: r =>
      match st with
      | ROutside => None
      | _ =>
        if (c =? 123) && hd_is r 123 then
          match ctx_of st, skip_show2 o (skipn 1 r) with
          | Some cx, Some r' => ref_run2 o f st (off + (nlen s - nlen r')) r' ((off, cx) :: acc)
          | _, _ => None
          end
        else if (c =? 123) && (hd_is r 37 || hd_is r 35) then None
        else
          let '(st', k) := rstep2 o st c r in
          match st' with
          | ROutside =>
            match st with
            | RRaw elem _ =>
              if (c =? 60) && end_tag_here elem (c :: r) then
                if match nth_error r (S (length elem)) with Some t => (t =? 47) || (t =? 12) | None => false end then None else
                match index_byte r 62 with
                | Some k =>
                  (* strict: nothing but white space between the name of the end tag and its ">" *)
                  if o_strict o && negb (forallb is_ws (skipn (S (length elem)) (take k r))) then None
                  else ref_run2 o f RData (off + 1 + k + 1) (drop (k + 1) r) acc
                | None => if o_strict o && negb (forallb is_ws (skipn (S (length elem)) r)) then None else Some (rev acc)
                end
              else None
            | _ => None
            end
          | _ => ref_run2 o f st' (off + 1 + N.of_nat k) (skipn k r) acc
          end
      end
    end
  end.

(* strict: a source that begins with a shebang line is outside the fragment (the lexer takes the
   whole line, shows included, for one token) *)
Definition ref_contexts2 (o : ropt) (src : bytes) : option (list (N * N)) :=
  if o_strict o && has_prefix src [35; 33] then None else ref_run2 o (S (length src)) RData 0 src [].

Definition ctx_sim_ok2 (o : ropt) (src : bytes) : bool :=
  match ref_contexts2 o src with
  | None => true
  | Some want =>
    match scan_template go_unicode false gen_ContextHTML src with
    | Done toks None => same_pairs want (lexer_contexts toks)
    | Done _ (Some _) => true
    | _ => false
    end
  end.

(* for the driver: one digit per option set (first, strict, html): "1" agree or outside the fragment *)
Definition ctx_sim2_case (src : bytes) : option bytes :=
  Some (map (fun o => if ctx_sim_ok2 o src then 49 else 48) [opt_first; opt_strict; opt_html]).
