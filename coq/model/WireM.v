(* Binary codec shared by the correspondence drivers of engine files: the
   harness sends a case as byte strings, the functions below decode it, run the
   model and encode the observable result; the same functions are evaluated
   inside Coq by the cross-check.  u8 = one byte; str = u8 length + bytes;
   list = u8 count + items.  Not part of any theorem. *)
From Verif Require Import Bytes.
Open Scope N_scope.

Definition dec (A : Type) : Type := bytes -> option (A * bytes).

Definition dec_u8 : dec N :=
  fun s => match s with b :: r => Some (b, r) | [] => None end.

Fixpoint take (k : nat) (s : bytes) : option (bytes * bytes) :=
  match k with
  | O => Some ([], s)
  | S k1 =>
    match s with
    | [] => None
    | b :: r => match take k1 r with Some (a, rest) => Some (b :: a, rest) | None => None end
    end
  end.

Definition dec_str : dec bytes :=
  fun s => match s with [] => None | k :: r => take (N.to_nat k) r end.

Fixpoint dec_list {A : Type} (d : dec A) (k : nat) : dec (list A) :=
  fun s =>
    match k with
    | O => Some ([], s)
    | S k1 =>
      match d s with
      | Some (a, s1) => match dec_list d k1 s1 with Some (l, s2) => Some (a :: l, s2) | None => None end
      | None => None
      end
    end.

Definition dec_clist {A : Type} (d : dec A) : dec (list A) :=
  fun s => match s with [] => None | k :: r => dec_list d (N.to_nat k) r end.

Definition dec_pair {A B : Type} (da : dec A) (db : dec B) : dec (A * B) :=
  fun s => match da s with
           | Some (a, s1) => match db s1 with Some (b, s2) => Some ((a, b), s2) | None => None end
           | None => None
           end.

(* a complete decode: nothing may be left over *)
Definition dec_all {A : Type} (d : dec A) (s : bytes) : option A :=
  match d s with Some (a, []) => Some a | _ => None end.

Definition len8 {A : Type} (l : list A) : N := N.of_nat (length l).
Definition enc_str (s : bytes) : bytes := len8 s :: s.
Definition enc_clist {A : Type} (e : A -> bytes) (l : list A) : bytes := len8 l :: flat_map e l.

(* option N as one byte: 0 = None, k = Some k *)
Definition dec_opt8 : dec (option N) :=
  fun s => match s with b :: r => Some (if N.eqb b 0 then None else Some b, r) | [] => None end.
Definition enc_opt8 (o : option N) : bytes := match o with None => [0] | Some k => [k] end.
