(* Specification side of template globals (C17): a run in which every declared
   global is ONE variable, found by its name. Executable, independent of the
   emitter's table of globals. *)
From Verif Require Import Bytes VarsM.
Open Scope N_scope.

Definition natives (ups : list upvar) : list var :=
  flat_map (fun u => match u with UNative v => [v] | UOther => [] end) ups.

(* the reference sites of a program, with their variable *)
Fixpoint item_sites (it : item) : list (N * var) :=
  match it with
  | IRef s v => [(s, v)]
  | ILit _ body => flat_map item_sites body
  end.

(* the globals a program uses *)
Fixpoint item_vars (it : item) : list var :=
  match it with
  | IRef _ v => [v]
  | ILit ups body => natives ups ++ flat_map item_vars body
  end.

Definition prog_sites (tops : list (list item)) : list (N * var) := flat_map (flat_map item_sites) tops.
Definition prog_vars (tops : list (list item)) : list var := flat_map (flat_map item_vars) tops.

(* Where the variable of a declaration d lives, given its entry in Run's vars:
   - declared with a value: the Go variable of the declaration (an entry in
     vars is an error);
   - a value of the declared type: private storage holding a copy;
   - a pointer to the declared type: the caller's variable;
   - no entry: private storage holding the zero value. *)
Definition spec_cell (d : decl) (iv : option initv) : cell + ipanic :=
  match d_addr d, iv with
  | Some a, None => inl (CShared a)
  | Some _, Some _ => inr PAlreadyInit
  | None, None => inl (COwn (d_zero d))
  | None, Some INil => inr PNilInit
  | None, Some (IVal ty t) => if ty =? d_type d then inl (COwn t) else inr PWrongType
  | None, Some (IPtr ty a) => if ty =? d_type d then inl (CShared a) else inr PWrongType
  | None, Some (INilPtr ty) => if ty =? d_type d then inr PNilPointer else inr PWrongType
  end.

Fixpoint spec_env (decls : list (var * decl)) (vars : list (var * initv)) (vs : list var)
  : list (var * cell) + (bytes * ipanic) :=
  match vs with
  | [] => inl []
  | v :: r =>
    match spec_cell (decl_of decls v) (assocb vars v) with
    | inr p => inr (v, p)
    | inl c =>
      match spec_env decls vars r with
      | inr e => inr e
      | inl env => inl ((v, c) :: env)
      end
    end
  end.

Fixpoint env_set (env : list (var * cell)) (v : var) (c : cell) : list (var * cell) :=
  match env with
  | [] => []
  | (k, x) :: r => if bytes_eqb k v then (k, c) :: r else (k, x) :: env_set r v c
  end.

Record sstate := mkss { ss_env : list (var * cell); ss_mem : memory; ss_out : list bytes }.

Definition spec_event (sites : list (N * var)) (ss : sstate) (ev : event) : option sstate :=
  let s := match ev with TShow s => s | TSet s _ => s end in
  match assoc_get sites s with
  | None => None
  | Some v =>
    match assocb (ss_env ss) v with
    | None => None
    | Some c =>
      match ev, c with
      | TShow _, CShared a =>
        match assoc_get (ss_mem ss) a with
        | Some t => Some (mkss (ss_env ss) (ss_mem ss) (t :: ss_out ss))
        | None => None
        end
      | TShow _, COwn t => Some (mkss (ss_env ss) (ss_mem ss) (t :: ss_out ss))
      | TSet _ t, CShared a => Some (mkss (ss_env ss) (mem_set (ss_mem ss) a t) (ss_out ss))
      | TSet _ t, COwn _ => Some (mkss (env_set (ss_env ss) v (COwn t)) (ss_mem ss) (ss_out ss))
      end
    end
  end.

Fixpoint spec_events (sites : list (N * var)) (ss : sstate) (evs : list event) : option sstate :=
  match evs with
  | [] => Some ss
  | ev :: r =>
    match spec_event sites ss ev with
    | Some ss' => spec_events sites ss' r
    | None => None
    end
  end.

Definition spec_run (decls : list (var * decl)) (tops : list (list item))
           (vars : list (var * initv)) (mem : memory) (evs : list event) : run_result :=
  match spec_env decls vars (prog_vars tops) with
  | inr (n, p) => RPanic n p
  | inl env =>
    match spec_events (prog_sites tops) (mkss env mem []) evs with
    | Some ss => RDone (rev (ss_out ss)) (ss_mem ss)
    | None => RFault
    end
  end.
