(* Wire format of the C22 correspondence cases (see WireM.v).  Not part of any theorem. *)
From Verif Require Import Bytes WireM LookupM.
Open Scope N_scope.

Definition dec_kv : dec (name * decl) := dec_pair dec_str dec_u8.

(* tree := 1 pname:str decls:list(name:str decl:u8) | 2 members:list(tree) *)
Fixpoint dec_tree (fuel : nat) (s : bytes) : option (ipkg * bytes) :=
  match fuel with
  | O => None
  | S fuel1 =>
    match s with
    | 1 :: s1 =>
      match dec_str s1 with
      | Some (pn, s2) =>
        match dec_clist dec_kv s2 with
        | Some (ds, s3) => Some (IPkg pn ds, s3)
        | None => None
        end
      | None => None
      end
    | 2 :: s1 =>
      match dec_clist (dec_tree fuel1) s1 with
      | Some (ms, s2) => Some (IComb ms, s2)
      | None => None
      end
    | _ => None
    end
  end.

Definition dec_cbres (b : N) : cbres :=
  if N.eqb b 0 then CNil else if N.eqb b 1 then CStop else CErr (b - 2).
Definition enc_cbres (r : cbres) : N :=
  match r with CNil => 0 | CStop => 1 | CErr e => e + 2 end.

Definition enc_kv (kv : name * decl) : bytes := enc_str (fst kv) ++ [snd kv].

(* LookupFunc with a recording callback whose results follow the schedule:
   the calls made, in order, and the returned error *)
Definition c22_lookupfunc (t sched : bytes) : option bytes :=
  match dec_all (dec_tree (S (length t))) t with
  | Some p =>
    let '(calls, r) := lookupfunc p log (cb_of (cb_sched (map dec_cbres sched))) [] in
    Some (enc_clist enc_kv calls ++ [enc_cbres r])
  | None => None
  end.

(* PackageName and Lookup of each of the given names *)
Definition c22_lookup (t names : bytes) : option bytes :=
  match dec_all (dec_tree (S (length t))) t, dec_all (dec_clist dec_str) names with
  | Some p, Some ns => Some (enc_str (pkg_name p) ++ map (lookup p) ns)
  | _, _ => None
  end.

(* importer := 1 list(path:str value:opt8) | 2 id:u8 only:(0 | 1 str) p:opt8 e:opt8 | 3 list(importer) *)
Fixpoint dec_imp (fuel : nat) (s : bytes) : option (imp * bytes) :=
  match fuel with
  | O => None
  | S fuel1 =>
    match s with
    | 1 :: s1 =>
      match dec_clist (dec_pair dec_str dec_opt8) s1 with
      | Some (pp, s2) => Some (ImpPackages pp, s2)
      | None => None
      end
    | 2 :: id :: s1 =>
      let only :=
        match s1 with
        | 0 :: s2 => Some (None, s2)
        | 1 :: s2 => match dec_str s2 with Some (q, s3) => Some (Some q, s3) | None => None end
        | _ => None
        end in
      match only with
      | Some (o, s2) =>
        match dec_pair dec_opt8 dec_opt8 s2 with
        | Some ((p, e), s3) => Some (ImpFixed id o p e, s3)
        | None => None
        end
      | None => None
      end
    | 3 :: s1 =>
      match dec_clist (dec_imp fuel1) s1 with
      | Some (ims, s2) => Some (ImpComb ims, s2)
      | None => None
      end
    | _ => None
    end
  end.

Definition c22_import (i path : bytes) : option bytes :=
  match dec_all (dec_imp (S (length i))) i with
  | Some t =>
    let '((p, e), tr) := import t path in
    Some (enc_opt8 p ++ enc_opt8 e ++ enc_clist (fun x => [x]) tr)
  | None => None
  end.
