(* Models of the show functions of internal/runtime that issue SEVERAL Write
   calls for one shown value, with their own error handling, as functions
   from the writer state to the new state and the result (C13):

     escapeBytes (escapers.go) with the encoder of encoding/base64
       (Write: blocks of 768 input bytes, then the rest rounded down to a
       multiple of three; Close: the last one or two bytes; the error of the
       writer is kept by the encoder and returned by Close);
     showInJS / showInJSON (renderer.go) of strings, byte slices, times,
       arrays and slices, structs and maps, nested: the err variable carried
       through if err == nil { ... } chains and the if err != nil { return
       err } at the head of the loops;
     showInCSS of a string (quote, cssStringEscape, quote);
     the string escapers, whose loops return at the first failed Write: their
       Write calls are the chunk lists of EscapersM, run with early exit;
     newStringWriter / strWriterWrapper: one Write call per WriteString.

   The leaves that are one WriteString of a text computed elsewhere (numbers,
   null, trusted JS, new Date(...)) carry that text.  No proofs here. *)
From Coq Require Import List NArith Bool.
From Verif Require Import Bytes Facts_render RendererM EscapersM ShowLeavesM.
Import ListNotations.
Open Scope N_scope.

Definition wprog := writer -> wst -> wst * res.

(* _, err = w.WriteString(c) *)
Definition wr_res (c : bytes) : wprog := fun w ws =>
  match wr w ws c with
  | (ws', None) => (ws', ROk)
  | (ws', Some e) => (ws', RErr e)
  end.

(* if err == nil { err = k } *)
Definition on_ok (st : wst * res) (k : wst -> wst * res) : wst * res :=
  match st with
  | (ws, ROk) => k ws
  | other => other
  end.

(* a loop that issues the Write calls cs in order and returns at the first failure *)
Definition write_all (cs : list bytes) : wprog := fun w ws => run_script w ws (map AWrite cs).

(* ---------------------------------------------------------------- encoding/base64 encoder *)

Definition b64_block : N := 768.      (* len(e.out) / 4 * 3 with out [1024]byte *)

(* the blocks written by encoder.Write(p) and what stays in e.buf; None: out of fuel *)
Fixpoint b64_blocks (fuel : nat) (p : bytes) : option (list bytes * bytes) :=
  if nlen p <? 3 then Some ([], p)
  else match fuel with
       | O => None
       | S f =>
         let nn := if b64_block <=? nlen p then b64_block else nlen p - (nlen p) mod 3 in
         match b64_blocks f (skipn (N.to_nat nn) p) with
         | Some (bl, rest) => Some (firstn (N.to_nat nn) p :: bl, rest)
         | None => None
         end
       end.

Record encoder := mkEnc { e_err : option werr; e_buf : bytes }.

(* for each block: e.enc.Encode; if _, e.err = e.w.Write(...); e.err != nil { return n, e.err } *)
Fixpoint enc_write_blocks (w : writer) (ws : wst) (bl : list bytes) : wst * option werr :=
  match bl with
  | [] => (ws, None)
  | b :: r =>
    match wr w ws (base64 b) with
    | (ws', None) => enc_write_blocks w ws' r
    | (ws', Some e) => (ws', Some e)
    end
  end.

(* encoder.Write(p) on a fresh encoder (nbuf = 0); None: out of fuel *)
Definition enc_write (w : writer) (ws : wst) (en : encoder) (p : bytes) : option (wst * encoder) :=
  match e_err en with
  | Some _ => Some (ws, en)
  | None =>
    match b64_blocks (length p) p with
    | None => None
    | Some (bl, rest) =>
      match enc_write_blocks w ws bl with
      | (ws', None) => Some (ws', mkEnc None rest)      (* trailing fringe: copy(e.buf[:], p) *)
      | (ws', Some e) => Some (ws', mkEnc (Some e) (e_buf en))
      end
    end
  end.

(* encoder.Close() *)
Definition enc_close (w : writer) (ws : wst) (en : encoder) : wst * option werr :=
  match e_err en, e_buf en with
  | None, _ :: _ =>
    match wr w ws (base64 (e_buf en)) with
    | (ws', r) => (ws', r)
    end
  | err, _ => (ws, err)
  end.

(* ---------------------------------------------------------------- escapeBytes *)

Definition quote : bytes := [34].

(* escapeBytes(w, b, addQuote); RFault stands for out of fuel (excluded by the theorems) *)
Definition escapeBytes (addQuote : bool) (b : bytes) : wprog := fun w ws =>
  let st1 := if addQuote then wr_res quote w ws else (ws, ROk) in
  match st1 with
  | (ws1, ROk) =>
    (* encoder := base64.NewEncoder(base64.StdEncoding, w); _, _ = encoder.Write(b) *)
    match enc_write w ws1 (mkEnc None []) b with
    | None => (ws1, RFault)
    | Some (ws2, en) =>
      (* err := encoder.Close() *)
      match enc_close w ws2 en with
      | (ws3, None) =>
        (* if addQuote && err == nil { _, err = w.WriteString() } *)
        if addQuote then wr_res quote w ws3 else (ws3, ROk)
      | (ws3, Some e) => (ws3, RErr e)
      end
    end
  | other => other      (* if err != nil { return err } *)
  end.

(* its Write calls when none fails *)
Definition escapeBytes_chunks (addQuote : bool) (b : bytes) : list bytes :=
  let q := if addQuote then [quote] else [] in
  match b64_blocks (length b) b with
  | Some (bl, rest) => q ++ map base64 bl ++ (match rest with [] => [] | _ => [base64 rest] end) ++ q
  | None => q
  end.

(* ---------------------------------------------------------------- string escapers *)

Definition js_string_chunks (s : bytes) : list bytes :=
  match jsStringEscape s with Some cs => cs | None => [] end.

(* ---------------------------------------------------------------- showInJS / showInJSON *)

Inductive jval :=
| JText (t : bytes)                 (* one WriteString: null, a number, true, trusted JS, new Date(...), undefined ... *)
| JStr (s : bytes)                  (* a string (or the text of an error): quote, jsStringEscape, quote *)
| JTime (t : bytes)                 (* showInJSON of a time.Time: quote, text, quote as three calls *)
| JBytes (b : bytes)                (* a non nil []byte: escapeBytes with quotes *)
| JSeq (xs : list jval)             (* a non empty array or slice *)
| JObj (ms : list (bytes * jval))   (* a struct (the fields that are written) or a non nil map (sorted entries) *)
| JFail.                            (* a map with a key that cannot be shown: the error is returned before any Write *)

Definition str_prog (s : bytes) : wprog := fun w ws =>
  (* _, err := w.WriteString(\); if err == nil { err = jsStringEscape(w, s) }; if err == nil { _, err = w.WriteString(\) } *)
  on_ok (on_ok (wr_res quote w ws) (fun ws1 => write_all (js_string_chunks s) w ws1)) (fun ws2 => wr_res quote w ws2).

(* the loop over the elements of an array or slice:
     _, err := w.WriteString([)
     for i := 0; i < v.Len(); i++ {
       if err != nil { return err }
       if i > 0 { _, err = w.WriteString(,) }
       if err == nil { err = showInJS(env, out, v.Index(i).Interface()) } }
     if err == nil { _, err = w.WriteString(]) }
     return err
   st is the writer state and the value of err at the head of the iteration *)
Definition seq_loop (show : jval -> wprog) (w : writer) :=
  fix loop (xs : list jval) (first : bool) (st : wst * res) {struct xs} : wst * res :=
    match xs with
    | [] => on_ok st (fun ws' => wr_res [93] w ws')
    | x :: r =>
      match st with
      | (ws0, ROk) =>
        let st1 := if first then (ws0, ROk) else wr_res [44] w ws0 in
        loop r false (on_ok st1 (fun ws1 => show x w ws1))
      | other => other
      end
    end.

(* the loop over the fields of a struct or the sorted entries of a map:
     _, err := w.WriteString({)
     for ... {
       if err != nil { return err }
       if first { _, err = w.WriteString(quote) } else { _, err = w.WriteString(comma quote) }
       if err == nil { err = jsStringEscape(w, name) }
       if err == nil { _, err = w.WriteString(quote colon) }
       if err == nil { err = showInJS(env, w, value) } }
     if err == nil { _, err = w.WriteString(}) }
     return err *)
Definition obj_loop (show : jval -> wprog) (w : writer) :=
  fix loop (ms : list (bytes * jval)) (first : bool) (st : wst * res) {struct ms} : wst * res :=
    match ms with
    | [] => on_ok st (fun ws' => wr_res [125] w ws')
    | (name, x) :: r =>
      match st with
      | (ws0, ROk) =>
        let st1 := if first then wr_res quote w ws0 else wr_res [44; 34] w ws0 in
        let st2 := on_ok st1 (fun ws1 => write_all (js_string_chunks name) w ws1) in
        let st3 := on_ok st2 (fun ws2 => wr_res [34; 58] w ws2) in
        loop r false (on_ok st3 (fun ws3 => show x w ws3))
      | other => other
      end
    end.

Fixpoint show_js (v : jval) (w : writer) (ws : wst) {struct v} : wst * res :=
  match v with
  | JText t => wr_res t w ws
  | JStr s => str_prog s w ws
  | JTime t =>
    on_ok (on_ok (wr_res quote w ws) (fun ws1 => wr_res t w ws1)) (fun ws2 => wr_res quote w ws2)
  | JBytes b => escapeBytes true b w ws
  | JSeq xs => seq_loop show_js w xs true (wr_res [91] w ws)
  | JObj ms => obj_loop show_js w ms true (wr_res [123] w ws)
  | JFail => (ws, RErr show_error)
  end.

(* the Write calls of a successful run, and the error that ends it if it is not a writer error *)
Definition seq_view (view : jval -> list bytes * option werr) :=
  fix go (xs : list jval) (first : bool) : list bytes * option werr :=
    match xs with
    | [] => ([[93]], None)
    | x :: r =>
      let sep := if first then [] else [[44]] in
      match view x with
      | (cs, Some e) => (sep ++ cs, Some e)
      | (cs, None) => let '(cr, er) := go r false in (sep ++ cs ++ cr, er)
      end
    end.

Definition obj_view (view : jval -> list bytes * option werr) :=
  fix go (ms : list (bytes * jval)) (first : bool) : list bytes * option werr :=
    match ms with
    | [] => ([[125]], None)
    | (name, x) :: r =>
      let head := (if first then quote else [44; 34]) :: js_string_chunks name ++ [[34; 58]] in
      match view x with
      | (cs, Some e) => (head ++ cs, Some e)
      | (cs, None) => let '(cr, er) := go r false in (head ++ cs ++ cr, er)
      end
    end.

Fixpoint js_chunks (v : jval) : list bytes * option werr :=
  match v with
  | JText t => ([t], None)
  | JStr s => (quote :: js_string_chunks s ++ [quote], None)
  | JTime t => ([quote; t; quote], None)
  | JBytes b => (escapeBytes_chunks true b, None)
  | JSeq xs => let '(cs, e) := seq_view js_chunks xs true in ([91] :: cs, e)
  | JObj ms => let '(cs, e) := obj_view js_chunks ms true in ([123] :: cs, e)
  | JFail => ([], Some show_error)
  end.

(* how renderer.Show of RendererM runs the calls of a show function given as data *)
Definition run_shown (cs : list bytes * option werr) : wprog := fun w ws =>
  match run_script w ws (map AWrite (fst cs)) with
  | (ws', ROk) => (ws', match snd cs with Some e => RErr e | None => ROk end)
  | other => other
  end.

(* ---------------------------------------------------------------- the other contexts *)

(* what is shown: a string, a non nil []byte, or a composite for JS / JSON *)
Inductive sval :=
| SvStr (s : bytes)
| SvBytes (b : bytes)
| SvJ (v : jval).

(* showInCSS of a string: quote, cssStringEscape, quote *)
Definition css_str_prog (s : bytes) : wprog := fun w ws =>
  on_ok (on_ok (wr_res quote w ws) (fun ws1 => write_all (cssStringEscape s) w ws1)) (fun ws2 => wr_res quote w ws2).

(* the show function of the context ctx (numbering of ast.Context) on the value;
   None: the pair is not modelled *)
Definition show_prog (ctx : N) (v : sval) : option wprog :=
  match v with
  | SvStr s =>
    if ctx =? gen_ContextHTML then Some (write_all (htmlEscape s))
    else if ctx =? gen_ContextQuotedAttr then Some (write_all (attributeEscape true true s))
    else if ctx =? gen_ContextUnquotedAttr then Some (write_all (attributeEscape true false s))
    else if ctx =? gen_ContextCSS then Some (css_str_prog s)
    else if ctx =? gen_ContextCSSString then Some (write_all (cssStringEscape s))
    else if (ctx =? gen_ContextJS) || (ctx =? gen_ContextJSON) then Some (str_prog s)
    else if (ctx =? gen_ContextJSString) || (ctx =? gen_ContextJSONString) then Some (write_all (js_string_chunks s))
    else None
  | SvBytes b =>
    if ctx =? gen_ContextHTML then Some (wr_res b)                          (* out.Write(v) *)
    else if (ctx =? gen_ContextCSS) || (ctx =? gen_ContextCSSString) then Some (escapeBytes false b)
    else if (ctx =? gen_ContextJS) || (ctx =? gen_ContextJSON) then Some (escapeBytes true b)
    else None
  | SvJ j =>
    if (ctx =? gen_ContextJS) || (ctx =? gen_ContextJSON) then Some (show_js j) else None
  end.

(* its calls as data *)
Definition show_view (ctx : N) (v : sval) : option (list bytes * option werr) :=
  match v with
  | SvStr s =>
    if ctx =? gen_ContextHTML then Some (htmlEscape s, None)
    else if ctx =? gen_ContextQuotedAttr then Some (attributeEscape true true s, None)
    else if ctx =? gen_ContextUnquotedAttr then Some (attributeEscape true false s, None)
    else if ctx =? gen_ContextCSS then Some (quote :: cssStringEscape s ++ [quote], None)
    else if ctx =? gen_ContextCSSString then Some (cssStringEscape s, None)
    else if (ctx =? gen_ContextJS) || (ctx =? gen_ContextJSON) then Some (quote :: js_string_chunks s ++ [quote], None)
    else if (ctx =? gen_ContextJSString) || (ctx =? gen_ContextJSONString) then Some (js_string_chunks s, None)
    else None
  | SvBytes b =>
    if ctx =? gen_ContextHTML then Some ([b], None)
    else if (ctx =? gen_ContextCSS) || (ctx =? gen_ContextCSSString) then Some (escapeBytes_chunks false b, None)
    else if (ctx =? gen_ContextJS) || (ctx =? gen_ContextJSON) then Some (escapeBytes_chunks true b, None)
    else None
  | SvJ j =>
    if (ctx =? gen_ContextJS) || (ctx =? gen_ContextJSON) then Some (js_chunks j) else None
  end.
