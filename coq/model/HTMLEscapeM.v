(* Model of scriggo.HTMLEscape (templates.go): the two passes with the n / j
   bookkeeping, the output buffer b as an array with checked slicing, and the
   early `copy … break` exit.  Per-byte behaviour comes from the generated
   tables.  No proofs here. *)
From Verif Require Import Bytes Facts_HTMLEscape.
Open Scope N_scope.

(* copy(b[j:], src): panics (None) if j > len b; copies min(len b - j, len src). *)
Definition copy_at (b : bytes) (j : N) (src : bytes) : option bytes :=
  if nlen b <? j then None else
  let jn := N.to_nat j in
  let room := (length b - jn)%nat in
  Some (firstn jn b ++ firstn room src ++ skipn (jn + Nat.min room (length src)) b).

(* b[j] = c: panics if j >= len b. *)
Definition set_at (b : bytes) (j : N) (c : N) : option bytes :=
  if j <? nlen b then
    let jn := N.to_nat j in Some (firstn jn b ++ [c] ++ skipn (S jn) b)
  else None.

Definition he_adv (c : N) : N :=
  match assoc_get gen_HTMLEscape_adv c with Some k => k | None => 0 end.

(* first loop: returns (n, j) *)
Fixpoint he_pass1 (s : bytes) (i n j : N) : N * N :=
  match s with
  | [] => (n, j)
  | c :: r =>
    match assoc_get gen_HTMLEscape_inc c with
    | None => he_pass1 r (i + 1) n j
    | Some k =>
      let n' := n + k in
      he_pass1 r (i + 1) n' (if n' <=? gen_HTMLEscape_first_bound then i else j)
    end
  end.

(* second loop over s[i:] *)
Fixpoint he_pass2 (s : bytes) (i n j : N) (b : bytes) : option bytes :=
  match s with
  | [] => Some b
  | c :: r =>
    match assoc_get gen_HTMLEscape_rep c with
    | None =>
      match set_at b j c with
      | Some b' => he_pass2 r (i + 1) n (j + 1) b'
      | None => None
      end
    | Some rep =>
      match copy_at b j rep with
      | None => None
      | Some b' =>
        let j' := j + he_adv c in
        if j' =? i + n then copy_at b' j' s   (* copy(b[j:], s[i:]); break *)
        else he_pass2 r (i + 1) n j' b'
      end
    end
  end.

(* None = the Go code would panic (slice or index out of range). *)
Definition HTMLEscape (s : bytes) : option bytes :=
  let '(n, j) := he_pass1 s 0 0 0 in
  if n =? 0 then Some s else
  let b := repeat 0 (length s + N.to_nat n) in
  let b1 := if 0 <? j then
              (* copy(b[:j], s[:j]) *)
              if (nlen b <? j) || (nlen s <? j) then None
              else Some (firstn (N.to_nat j) s ++ skipn (N.to_nat j) b)
            else Some b in
  match b1 with
  | None => None
  | Some b1 => he_pass2 (skipn (N.to_nat j) s) j n j b1
  end.
