(* Specification side of C29, independent of the generated tables and of the
   loops of the code.  Executable; no proofs here. *)
From Verif Require Import Bytes.
Open Scope N_scope.

(* the characters mdescape.go lists as escapable:  \ ` * _ { } [ ] ( ) # + - = . ! | < > ~ & *)
Definition url_escapable (c : N) : bool :=
  mem [92; 96; 42; 95; 123; 125; 91; 93; 40; 41; 35; 43; 45; 61; 46; 33; 124; 60; 62; 126; 38] c.

(* markdownURLEscape: a backslash is doubled when it is the last byte or is
   followed by an escapable character; nothing else changes *)
Fixpoint url_escape (s : bytes) : bytes :=
  match s with
  | [] => []
  | c :: r =>
    if c =? 92 then
      match r with
      | [] => [92; 92]
      | d :: _ => if url_escapable d then 92 :: 92 :: url_escape r else 92 :: url_escape r
      end
    else c :: url_escape r
  end.

(* markdownUnescape: backslash + escapable character gives the character;
   the NBSP pair C2 A0 gives a space; everything else is copied *)
Fixpoint url_unescape (s : bytes) : bytes :=
  match s with
  | [] => []
  | c :: r =>
    match r with
    | [] => [c]
    | d :: r' =>
      if (c =? 92) && url_escapable d then d :: url_unescape r'
      else if (c =? 194) && (d =? 160) then 32 :: url_unescape r'
      else c :: url_unescape r
    end
  end.

(* no C2 A0 pair *)
Fixpoint no_nbsp (s : bytes) : bool :=
  match s with
  | c :: r => match r with d :: _ => negb ((c =? 194) && (d =? 160)) && no_nbsp r | [] => true end
  | [] => true
  end.

(* seg0 ++ mid1 ++ seg1 ++ mid2 ++ seg2 ... ; rest = [(mid1, seg1); (mid2, seg2); ...] *)
Definition weave (first : bytes) (rest : list (bytes * bytes)) : bytes :=
  first ++ flat_map (fun p => fst p ++ snd p) rest.
