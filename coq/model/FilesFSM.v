(* Executable model of files.go (property C23): scriggo.Files as an io/fs file
   system.  No proofs here.

   A Files value is a Go map from names to contents.  It is modelled as an
   association list; the list order stands for the undefined iteration order
   of `for name := range fsys`, and the theorems hold for every list.

   Standard library functions used by the code are modelled from their
   documented behaviour: fs.ValidPath, utf8.ValidString, strings.HasPrefix,
   strings.IndexByte, sort.Strings, path.Base, copy. *)
From Verif Require Import Bytes.
Open Scope N_scope.

Definition slash : N := 47.
Definition dot : N := 46.
Definition is_slash (b : N) : bool := N.eqb b slash.

(* ---- utf8.ValidString: the UTF-8 automaton of the Unicode standard (table 3-7) ---- *)

Inductive u8st := U0 | U1 | U2 | U3 | UE0 | UED | UF0 | UF4.
Definition in_range (lo hi b : N) : bool := (lo <=? b) && (b <=? hi).
Definition u8step (st : u8st) (b : N) : option u8st :=
  match st with
  | U0 =>
    if b <? 128 then Some U0
    else if in_range 194 223 b then Some U1
    else if b =? 224 then Some UE0
    else if in_range 225 236 b || in_range 238 239 b then Some U2
    else if b =? 237 then Some UED
    else if b =? 240 then Some UF0
    else if in_range 241 243 b then Some U3
    else if b =? 244 then Some UF4
    else None
  | U1 => if in_range 128 191 b then Some U0 else None
  | U2 => if in_range 128 191 b then Some U1 else None
  | U3 => if in_range 128 191 b then Some U2 else None
  | UE0 => if in_range 160 191 b then Some U1 else None
  | UED => if in_range 128 159 b then Some U1 else None
  | UF0 => if in_range 144 191 b then Some U2 else None
  | UF4 => if in_range 128 143 b then Some U2 else None
  end.
Fixpoint u8run (st : u8st) (s : bytes) : option u8st :=
  match s with
  | [] => Some st
  | b :: r => match u8step st b with Some st1 => u8run st1 r | None => None end
  end.
Definition utf8_valid (s : bytes) : bool :=
  match u8run U0 s with Some U0 => true | _ => false end.

(* ---- fs.ValidPath ---- *)

(* the slash separated elements of s (strings.Split(s, "/")) *)
Fixpoint split_slash (s : bytes) : list bytes :=
  match s with
  | [] => [[]]
  | b :: r =>
    if is_slash b then [] :: split_slash r
    else match split_slash r with
         | e :: es => (b :: e) :: es
         | [] => [[b]]
         end
  end.

(* elem == "" || elem == "." || elem == ".." is rejected *)
Definition elem_ok (e : bytes) : bool :=
  negb (bytes_eqb e []) && negb (bytes_eqb e [dot]) && negb (bytes_eqb e [dot; dot]).
Definition velems (s : bytes) : bool := forallb elem_ok (split_slash s).

Definition valid_path (name : bytes) : bool :=
  utf8_valid name && (bytes_eqb name [dot] || velems name).

(* ---- strings.HasPrefix, strings.IndexByte, sort.Strings, path.Base ---- *)

Fixpoint has_prefix (p s : bytes) : bool :=
  match p, s with
  | [], _ => true
  | x :: p1, y :: s1 => N.eqb x y && has_prefix p1 s1
  | _ :: _, [] => false
  end.

(* None stands for -1 *)
Fixpoint index_byte (s : bytes) (c : N) : option nat :=
  match s with
  | [] => None
  | b :: r => if N.eqb b c then Some O
              else match index_byte r c with Some i => Some (S i) | None => None end
  end.

(* Go string comparison a < b: bytewise lexicographic *)
Fixpoint bytes_ltb (a b : bytes) : bool :=
  match a, b with
  | _, [] => false
  | [], _ :: _ => true
  | x :: a1, y :: b1 => if x <? y then true else if y <? x then false else bytes_ltb a1 b1
  end.

Fixpoint insert_sorted (x : bytes) (l : list bytes) : list bytes :=
  match l with
  | [] => [x]
  | y :: r => if bytes_ltb y x then y :: insert_sorted x r else x :: l
  end.
(* sort.Strings: the result is the ascending arrangement of the same strings *)
Definition sort_strings (l : list bytes) : list bytes := fold_right insert_sorted [] l.

Fixpoint drop_while (p : N -> bool) (s : bytes) : bytes :=
  match s with
  | [] => []
  | b :: r => if p b then drop_while p r else s
  end.
Fixpoint take_while (p : N -> bool) (s : bytes) : bytes :=
  match s with
  | [] => []
  | b :: r => if p b then b :: take_while p r else []
  end.
(* path.Base: "." for the empty path; trailing slashes removed; the part after
   the last slash; "/" if nothing is left *)
Definition path_base (s : bytes) : bytes :=
  match s with
  | [] => [dot]
  | _ =>
    let e := take_while (fun b => negb (is_slash b)) (drop_while is_slash (rev s)) in
    match e with
    | [] => [slash]
    | _ => rev e
    end
  end.

(* ---- the map ---- *)

Definition files := list (bytes * bytes).

(* data, ok := fsys[name] *)
Fixpoint fs_get (fs : files) (name : bytes) : option bytes :=
  match fs with
  | [] => None
  | (k, v) :: r => if bytes_eqb k name then Some v else fs_get r name
  end.

Fixpoint name_in (n : bytes) (l : list bytes) : bool :=
  match l with
  | [] => false
  | k :: r => if bytes_eqb k n then true else name_in n r
  end.

(* ---- filesFile / filesDir ---- *)

(* fs.ModeDir = 1 << 31 *)
Definition mode_dir : N := 2147483648.

(* h_dir: the value is a *filesDir (it has the ReadDir method); the embedded
   filesFile fields name, data, offset, mode; the cursor n of filesDir *)
Record handle := mkHandle {
  h_dir : bool;
  h_name : bytes;
  h_data : bytes;
  h_offset : Z;
  h_mode : N;
  h_n : nat
}.

Definition new_dir (name : bytes) : handle := mkHandle true name [] 0%Z mode_dir 0.
Definition new_file (name data : bytes) : handle := mkHandle false name data 0%Z 0 0.

(* Files.Open; None is the error &os.PathError{Op: "open", Path: name, Err: os.ErrNotExist} *)
Definition files_open (fs : files) (name : bytes) : option handle :=
  if valid_path name then
    if bytes_eqb name [dot] then Some (new_dir name)
    else match fs_get fs name with
         | Some data => Some (new_file name data)
         | None =>
           if existsb (fun kv => has_prefix (name ++ [slash]) (fst kv)) fs
           then Some (new_dir name) else None
         end
  else None.

(* filesFileInfo *)
Record info := mkInfo { i_name : bytes; i_size : N; i_mode : N; i_isdir : bool }.
Definition mode_isdir (m : N) : bool := N.eqb (N.land m mode_dir) mode_dir.
Definition info_of (name data : bytes) (mode : N) : info :=
  mkInfo (path_base name) (N.of_nat (length data)) mode (mode_isdir mode).
Definition stat (h : handle) : info := info_of (h_name h) (h_data h) (h_mode h).

(* filesFile.Read with a buffer of k bytes *)
Inductive rerr := ENil | EEOF | EInvalid | EPanic.
Definition file_read (h : handle) (k : nat) : bytes * rerr * handle :=
  if (h_offset h <? 0)%Z then ([], EInvalid, h)
  else if (h_offset h =? Z.of_nat (length (h_data h)))%Z then ([], EEOF, h)
  else if (Z.of_nat (length (h_data h)) <? h_offset h)%Z then ([], EPanic, h)   (* f.data[f.offset:] out of range *)
  else
    let chunk := firstn k (skipn (Z.to_nat (h_offset h)) (h_data h)) in           (* copy(p, f.data[f.offset:]) *)
    (chunk, ENil,
     mkHandle (h_dir h) (h_name h) (h_data h) (h_offset h + Z.of_nat (length chunk))%Z (h_mode h) (h_n h)).

(* filesFile.Close *)
Definition file_close (h : handle) : handle :=
  mkHandle (h_dir h) (h_name h) (h_data h) (-1)%Z (h_mode h) (h_n h).

(* the loop of filesDir.ReadDir over the map: names (in append order) and the hasDir set *)
Fixpoint readdir_scan (fs : files) (dir : bytes) (names hasdir : list bytes) : list bytes * list bytes :=
  match fs with
  | [] => (names, hasdir)
  | (name, _) :: rest =>
    if negb (has_prefix dir name) then readdir_scan rest dir names hasdir
    else
      match index_byte (skipn (length dir) name) slash with
      | Some (S i) =>                                          (* i > 0 *)
        let name1 := firstn (length dir + S i) name in          (* name[:len(dir)+i] *)
        if name_in name1 hasdir then readdir_scan rest dir names hasdir
        else readdir_scan rest dir (names ++ [name1]) (name1 :: hasdir)
      | _ => readdir_scan rest dir (names ++ [name]) hasdir
      end
  end.

(* fs.DirEntry as observed: Name, IsDir, Type, and Info *)
Record dirent := mkDirent { de_name : bytes; de_isdir : bool; de_type : N; de_info : info }.

Definition entry_of (fs : files) (hasdir : list bytes) (name : bytes) : dirent :=
  let mode := if name_in name hasdir then mode_dir else 0 in
  let data := if name_in name hasdir then []
              else match fs_get fs name with Some d => d | None => [] end in
  let i := info_of name data mode in
  mkDirent (i_name i) (i_isdir i) (i_mode i) i.

Inductive rderr := RNil | REOF.

Definition dir_prefix (name : bytes) : bytes :=
  if bytes_eqb name [dot] then [] else name ++ [slash].

(* the sorted names and the hasDir set computed by every ReadDir call *)
Definition dir_names (fs : files) (h : handle) : list bytes * list bytes :=
  let '(names, hasdir) := readdir_scan fs (dir_prefix (h_name h)) [] [] in
  (sort_strings names, hasdir).

Definition set_n (h : handle) (n : nat) : handle :=
  mkHandle (h_dir h) (h_name h) (h_data h) (h_offset h) (h_mode h) n.

(* filesDir.ReadDir(n) *)
Definition readdir (fs : files) (h : handle) (n : Z) : list dirent * rderr * handle :=
  let '(names, hasdir) := dir_names fs h in
  if (0 <? n)%Z then
    if (length names <=? h_n h)%nat then ([], REOF, h)
    else
      let names1 := skipn (h_n h) names in
      let names2 := if (n <? Z.of_nat (length names1))%Z then firstn (Z.to_nat n) names1 else names1 in
      (map (entry_of fs hasdir) names2, RNil, set_n h (h_n h + length names2))
  else
    let names1 := if (h_n h <? length names)%nat then skipn (h_n h) names else [] in
    (map (entry_of fs hasdir) names1, RNil, set_n h (h_n h + length names1)).

(* ---- operation histories ---- *)

Inductive op :=
| OpOpen (name : bytes)
| OpStat (h : nat)
| OpRead (h : nat) (k : nat)
| OpReadDir (h : nat) (n : Z)
| OpClose (h : nat).

Inductive out :=
| OutOpened (isdir : bool)        (* a new handle; isdir: it is an fs.ReadDirFile *)
| OutNotExist
| OutStat (i : info)
| OutRead (data : bytes) (e : rerr)
| OutReadDir (ents : list dirent) (e : rderr)
| OutNoReadDir                    (* the file does not implement fs.ReadDirFile *)
| OutClosed
| OutBadHandle.

Fixpoint set_nth {A} (l : list A) (i : nat) (x : A) : list A :=
  match l, i with
  | [], _ => []
  | _ :: r, O => x :: r
  | y :: r, S j => y :: set_nth r j x
  end.

Definition step (fs : files) (hs : list handle) (o : op) : list handle * out :=
  match o with
  | OpOpen name =>
    match files_open fs name with
    | Some h => (hs ++ [h], OutOpened (h_dir h))
    | None => (hs, OutNotExist)
    end
  | OpStat i =>
    match nth_error hs i with
    | Some h => (hs, OutStat (stat h))
    | None => (hs, OutBadHandle)
    end
  | OpRead i k =>
    match nth_error hs i with
    | Some h => let '(d, e, h1) := file_read h k in (set_nth hs i h1, OutRead d e)
    | None => (hs, OutBadHandle)
    end
  | OpReadDir i n =>
    match nth_error hs i with
    | Some h =>
      if h_dir h then let '(l, e, h1) := readdir fs h n in (set_nth hs i h1, OutReadDir l e)
      else (hs, OutNoReadDir)
    | None => (hs, OutBadHandle)
    end
  | OpClose i =>
    match nth_error hs i with
    | Some h => (set_nth hs i (file_close h), OutClosed)
    | None => (hs, OutBadHandle)
    end
  end.

Fixpoint run_history (fs : files) (hs : list handle) (ops : list op) : list out :=
  match ops with
  | [] => []
  | o :: rest => let '(hs1, r) := step fs hs o in r :: run_history fs hs1 rest
  end.

(* ---- validity of a Files value: a boolean ---- *)

Fixpoint nodup_names (l : list bytes) : bool :=
  match l with
  | [] => true
  | k :: r => negb (name_in k r) && nodup_names r
  end.

(* distinct keys (it is a map); every key is a valid path other than "."; no key
   is a directory prefix of another key (a name is not both a file and a directory) *)
Definition valid_files (fs : files) : bool :=
  nodup_names (map fst fs)
  && forallb (fun kv => valid_path (fst kv) && negb (bytes_eqb (fst kv) [dot])) fs
  && forallb (fun kv => negb (existsb (fun kv2 => has_prefix (fst kv ++ [slash]) (fst kv2)) fs)) fs.
