(* Template lexer of scriggo (internal/compiler/lexer.go): state, results,
   checked indexing, emission, the pure helpers standing for the Go standard
   library functions the lexer calls.  No proofs here.

   Conventions.  l.src is the remaining slice (a suffix of the text); l_base is
   len(l.text) - len(l.src).  Every l.src[i] is `idx`, which yields Fault when
   i is out of range; every reslicing l.src[n:] / l.src[0:n] is checked against
   len(l.src) (Go would accept up to the capacity: the model is stricter).
   The two ghost flags l_cdev / l_ldev do not exist in the Go code: the model
   sets them in the branches where the code is known to leave l.column /
   l.line different from the column and line of the current offset (see
   props/C21.v); they influence no other field.  l_tsyn is the field
   templateSyntax: true for scanTemplate, false for scanProgram. *)
From Verif Require Import Bytes Utf8 Facts_lexer.
Open Scope N_scope.

Definition get (s : bytes) (i : N) : option N := nth_error s (N.to_nat i).
Definition drop (n : N) (s : bytes) : bytes := skipn (N.to_nat n) s.
Definition take (n : N) (s : bytes) : bytes := firstn (N.to_nat n) s.

Record token := mkTok {
  t_typ : N; t_start : N; t_end : N; t_len : N; t_line : N; t_col : N; t_lin : N; t_ctx : N;
  t_tag : bytes; t_att : bytes;
  t_cdev : bool; t_ldev : bool (* ghost *) }.

Record lexer := mkL {
  l_src : bytes; l_base : N; l_line : N; l_col : N; l_ctx : N; l_ctxs : list N;
  l_tag : bytes; l_att : bytes; l_tidx : N; l_tctx : N;
  l_raw : option bytes; l_last : N; l_tot : N;
  l_out : list token;            (* emitted tokens, last first *)
  l_cdev : bool; l_ldev : bool;  (* ghost *)
  l_tsyn : bool                  (* templateSyntax *) }.

Definition set_src (v : bytes) (b : N) (l : lexer) : lexer :=
  mkL v b (l_line l) (l_col l) (l_ctx l) (l_ctxs l) (l_tag l) (l_att l) (l_tidx l) (l_tctx l) (l_raw l) (l_last l) (l_tot l) (l_out l) (l_cdev l) (l_ldev l) (l_tsyn l).
Definition set_line (v : N) (l : lexer) : lexer :=
  mkL (l_src l) (l_base l) v (l_col l) (l_ctx l) (l_ctxs l) (l_tag l) (l_att l) (l_tidx l) (l_tctx l) (l_raw l) (l_last l) (l_tot l) (l_out l) (l_cdev l) (l_ldev l) (l_tsyn l).
Definition set_col (v : N) (l : lexer) : lexer :=
  mkL (l_src l) (l_base l) (l_line l) v (l_ctx l) (l_ctxs l) (l_tag l) (l_att l) (l_tidx l) (l_tctx l) (l_raw l) (l_last l) (l_tot l) (l_out l) (l_cdev l) (l_ldev l) (l_tsyn l).
Definition set_ctx (v : N) (l : lexer) : lexer :=
  mkL (l_src l) (l_base l) (l_line l) (l_col l) v (l_ctxs l) (l_tag l) (l_att l) (l_tidx l) (l_tctx l) (l_raw l) (l_last l) (l_tot l) (l_out l) (l_cdev l) (l_ldev l) (l_tsyn l).
Definition set_ctxs (v : list N) (l : lexer) : lexer :=
  mkL (l_src l) (l_base l) (l_line l) (l_col l) (l_ctx l) v (l_tag l) (l_att l) (l_tidx l) (l_tctx l) (l_raw l) (l_last l) (l_tot l) (l_out l) (l_cdev l) (l_ldev l) (l_tsyn l).
Definition set_tag (v : bytes) (l : lexer) : lexer :=
  mkL (l_src l) (l_base l) (l_line l) (l_col l) (l_ctx l) (l_ctxs l) v (l_att l) (l_tidx l) (l_tctx l) (l_raw l) (l_last l) (l_tot l) (l_out l) (l_cdev l) (l_ldev l) (l_tsyn l).
Definition set_att (v : bytes) (l : lexer) : lexer :=
  mkL (l_src l) (l_base l) (l_line l) (l_col l) (l_ctx l) (l_ctxs l) (l_tag l) v (l_tidx l) (l_tctx l) (l_raw l) (l_last l) (l_tot l) (l_out l) (l_cdev l) (l_ldev l) (l_tsyn l).
Definition set_tidx (v : N) (l : lexer) : lexer :=
  mkL (l_src l) (l_base l) (l_line l) (l_col l) (l_ctx l) (l_ctxs l) (l_tag l) (l_att l) v (l_tctx l) (l_raw l) (l_last l) (l_tot l) (l_out l) (l_cdev l) (l_ldev l) (l_tsyn l).
Definition set_tctx (v : N) (l : lexer) : lexer :=
  mkL (l_src l) (l_base l) (l_line l) (l_col l) (l_ctx l) (l_ctxs l) (l_tag l) (l_att l) (l_tidx l) v (l_raw l) (l_last l) (l_tot l) (l_out l) (l_cdev l) (l_ldev l) (l_tsyn l).
Definition set_raw (v : option bytes) (l : lexer) : lexer :=
  mkL (l_src l) (l_base l) (l_line l) (l_col l) (l_ctx l) (l_ctxs l) (l_tag l) (l_att l) (l_tidx l) (l_tctx l) v (l_last l) (l_tot l) (l_out l) (l_cdev l) (l_ldev l) (l_tsyn l).
Definition set_last (v : N) (l : lexer) : lexer :=
  mkL (l_src l) (l_base l) (l_line l) (l_col l) (l_ctx l) (l_ctxs l) (l_tag l) (l_att l) (l_tidx l) (l_tctx l) (l_raw l) v (l_tot l) (l_out l) (l_cdev l) (l_ldev l) (l_tsyn l).
Definition set_tot (v : N) (l : lexer) : lexer :=
  mkL (l_src l) (l_base l) (l_line l) (l_col l) (l_ctx l) (l_ctxs l) (l_tag l) (l_att l) (l_tidx l) (l_tctx l) (l_raw l) (l_last l) v (l_out l) (l_cdev l) (l_ldev l) (l_tsyn l).
Definition set_out (v : list token) (l : lexer) : lexer :=
  mkL (l_src l) (l_base l) (l_line l) (l_col l) (l_ctx l) (l_ctxs l) (l_tag l) (l_att l) (l_tidx l) (l_tctx l) (l_raw l) (l_last l) (l_tot l) v (l_cdev l) (l_ldev l) (l_tsyn l).
Definition set_cdev (v : bool) (l : lexer) : lexer :=
  mkL (l_src l) (l_base l) (l_line l) (l_col l) (l_ctx l) (l_ctxs l) (l_tag l) (l_att l) (l_tidx l) (l_tctx l) (l_raw l) (l_last l) (l_tot l) (l_out l) v (l_ldev l) (l_tsyn l).
Definition set_ldev (v : bool) (l : lexer) : lexer :=
  mkL (l_src l) (l_base l) (l_line l) (l_col l) (l_ctx l) (l_ctxs l) (l_tag l) (l_att l) (l_tidx l) (l_tctx l) (l_raw l) (l_last l) (l_tot l) (l_out l) (l_cdev l) v (l_tsyn l).

(* Outcome of a piece of the lexer.  Err l: the Go code returned
   l.errorf(...) in state l (position: l_line, l_col, l_base).  Fault: an index
   or slice expression out of range (a run-time panic of the lexer goroutine).
   NoFuel: a loop of the model ran out of its fuel. *)
Inductive res (A : Type) : Type :=
| Ok (a : A) | Err (l : lexer) | Fault | NoFuel.
Arguments Ok {A} a. Arguments Err {A} l. Arguments Fault {A}. Arguments NoFuel {A}.

Definition bind {A B} (r : res A) (k : A -> res B) : res B :=
  match r with Ok a => k a | Err l => Err l | Fault => Fault | NoFuel => NoFuel end.
Notation "'let*' x ':=' r 'in' k" := (bind r (fun x => k)) (at level 200, x pattern, r at level 100, k at level 200).

(* a && b with b containing an index expression *)
Definition andm (a : bool) (b : res bool) : res bool := if a then b else Ok false.
Definition orm (a : bool) (b : res bool) : res bool := if a then Ok true else b.
Infix "&&&" := andm (at level 40, left associativity).
Infix "|||" := orm (at level 50, left associativity).

Inductive step (S : Type) : Type := Again (s : S) | Stop (s : S).
Arguments Again {S} s. Arguments Stop {S} s.

(* for { body }: the body says whether to iterate again *)
Fixpoint loop {S : Type} (fuel : nat) (body : S -> res (step S)) (s : S) : res S :=
  match fuel with
  | O => NoFuel
  | Datatypes.S f =>
    match body s with
    | Ok (Again s') => loop f body s'
    | Ok (Stop s') => Ok s'
    | Err l => Err l
    | Fault => Fault
    | NoFuel => NoFuel
    end
  end.

Definition len (l : lexer) : N := nlen (l_src l).
Definition idx (l : lexer) (i : N) : res N :=
  match get (l_src l) i with Some c => Ok c | None => Fault end.
Definition idx_is (l : lexer) (i : N) (c : N) : res bool := let* x := idx l i in Ok (x =? c).
Definition sget (s : bytes) (i : N) : res N :=
  match get s i with Some c => Ok c | None => Fault end.

(* l.src = l.src[n:] *)
Definition advance (n : N) (l : lexer) : res lexer :=
  if len l <? n then Fault else Ok (set_src (drop n (l_src l)) (l_base l + n) l).

Definition newline (l : lexer) : lexer := set_cdev false (set_col 1 (set_line (l_line l + 1) l)).
Definition addcol (n : N) (l : lexer) : lexer := set_col (l_col l + n) l.
Definition mark_cdev (l : lexer) : lexer := set_cdev true l.
Definition mark_ldev (l : lexer) : lexer := set_ldev true l.

(* emitAtLineColumn; cd, ld: ghost flags belonging to (line, col) *)
Definition emit_at (line col : N) (cd ld : bool) (typ length : N) (l : lexer) : res lexer :=
  if len l <? length then Fault else
  let ctx := if typ =? gen_tokenText then gen_ContextText else l_ctx l in
  let start := l_base l in
  let '(start, endp, tot) :=
    if length =? 0 then
      if typ =? gen_tokenSemicolon then (start - 1, start - 1, l_tot l) else (start, start, l_tot l + 1)
    else (start, start + length - 1, l_tot l + 1) in
  let tok := mkTok typ start endp length line col (l_line l) ctx (l_tag l) (l_att l) cd ld in
  let l1 := set_out (tok :: l_out l) (set_tot tot l) in
  let l2 :=
    if l_tsyn l1 then
      if typ =? gen_tokenRaw then
        if l_last l1 =? gen_tokenStartStatement then set_raw (Some []) l1 else l1
      else if typ =? gen_tokenIdentifier then
        match l_raw l1 with
        | Some _ => if l_last l1 =? gen_tokenRaw then set_raw (Some (take length (l_src l1))) l1 else l1
        | None => l1
        end
      else if typ =? gen_tokenEnd then set_raw None l1
      else l1
    else l1 in
  if 0 <? length then
    Ok (set_tidx (l_tidx l2 - length) (set_src (drop length (l_src l2)) (l_base l2 + length) (set_last typ l2)))
  else Ok l2.

Definition emit (typ length : N) (l : lexer) : res lexer :=
  emit_at (l_line l) (l_col l) (l_cdev l) (l_ldev l) typ length l.

(* emit(typ, n); l.column += n *)
Definition emitc (typ n : N) (l : lexer) : res lexer :=
  let* l1 := emit typ n l in Ok (addcol n l1).

(* ---- the delimiters that open and close a block of code, and one step of
   the tiling of the source by the top level tokens (used by the spec side of
   C15, CutSpec.tiles): state = (next offset, inside a block) ---- *)
Definition is_open (ty : N) : bool :=
  (ty =? gen_tokenLeftBraces) || (ty =? gen_tokenStartStatement) || (ty =? gen_tokenStartStatements).
Definition is_close (ty : N) : bool :=
  (ty =? gen_tokenRightBraces) || (ty =? gen_tokenEndStatement) || (ty =? gen_tokenEndStatements).
Definition tstep (st : option (N * bool)) (t : token) : option (N * bool) :=
  match st with
  | None => None
  | Some (pos, inb) =>
    if t_len t =? 0 then Some (pos, inb)
    else if inb then (if is_close (t_typ t) then Some (t_end t + 1, false) else Some (pos, true))
    else if is_open (t_typ t) then (if t_start t =? pos then Some (pos, true) else None)
    else if t_start t =? pos then Some (t_end t + 1, false) else None
  end.

(* ---- byte predicates (generated sets) ---- *)
Definition isSpace (c : N) : bool := mem gen_lex_isSpace c.
Definition isASCIISpace (c : N) : bool := mem gen_lex_isASCIISpace c.
Definition isAlpha (c : N) : bool := mem gen_lex_isAlpha c.
Definition isStartChar (c : N) : bool := mem gen_lex_isStartChar c.
Definition isBinDigit (c : N) : bool := mem gen_lex_isBinDigit c.
Definition isOctDigit (c : N) : bool := mem gen_lex_isOctDigit c.
Definition isDecDigit (c : N) : bool := mem gen_lex_isDecDigit c.
Definition isHexDigit (c : N) : bool := mem gen_lex_isHexDigit c.

(* isEndScript / isEndStyle: length and per-position sets *)
Fixpoint in_sets (sets : list (list N)) (s : bytes) : bool :=
  match sets with
  | [] => true
  | st :: sets' => match s with c :: s' => mem st c && in_sets sets' s' | [] => false end
  end.
Definition isEndScript (s : bytes) : bool := (gen_isEndScript_len <=? nlen s) && in_sets gen_isEndScript_sets s.
Definition isEndStyle (s : bytes) : bool := (gen_isEndStyle_len <=? nlen s) && in_sets gen_isEndStyle_sets s.

(* ---- Unicode predicates enter as a parameter (instantiated with the
   generated tables of Facts_unicode in LexTables.v) ---- *)
Record unitab := mkU {
  u_letter : N -> bool; u_digit : N -> bool; u_graphic : N -> bool; u_space : N -> bool; u_nonchar : N -> bool;
  u_lower_ascii : N -> option N;   (* non-ASCII rune whose lower case is ASCII *)
  u_fold_ascii : N -> option N }.  (* non-ASCII rune that folds to an ASCII letter *)

(* ---- pure list functions standing for the Go library calls ---- *)
Fixpoint has_prefix (s p : bytes) : bool :=
  match p with
  | [] => true
  | c :: p' => match s with d :: s' => N.eqb c d && has_prefix s' p' | [] => false end
  end.

(* bytes.IndexByte *)
Fixpoint index_byte_from (s : bytes) (c : N) (i : N) : option N :=
  match s with
  | [] => None
  | d :: r => if d =? c then Some i else index_byte_from r c (i + 1)
  end.
Definition index_byte (s : bytes) (c : N) : option N := index_byte_from s c 0.

(* bytes.Index *)
Fixpoint index_from (s pat : bytes) (i : N) : option N :=
  if has_prefix s pat then Some i else
  match s with
  | [] => None
  | _ :: r => index_from r pat (i + 1)
  end.
Definition index (s pat : bytes) : option N := index_from s pat 0.

(* bytes.IndexAny(s, "\n﻿"): s is walked rune by rune *)
Fixpoint index_nl_bom_from (fuel : nat) (s : bytes) (i : N) : option N :=
  match fuel with
  | O => None
  | S f =>
    match s with
    | [] => None
    | c :: _ =>
      if c <? 128 then (if c =? 10 then Some i else index_nl_bom_from f (skipn 1 s) (i + 1))
      else let '(r, w) := decode_rune s in
           if (r =? gen_lex_BOM) then Some i else index_nl_bom_from f (skipn w s) (i + N.of_nat w)
    end
  end.
Definition index_nl_bom (s : bytes) : option N := index_nl_bom_from (length s) s 0.

Definition count_nl (s : bytes) : N := nlen (filter (N.eqb 10) s).

Section WithUnicode.
Variable U : unitab.

(* the ASCII view of bytes.ToLower: exact on the result whenever the result is
   ASCII; other runes keep their source bytes *)
Fixpoint to_lower_from (fuel : nat) (s : bytes) : bytes :=
  match fuel with
  | O => s
  | S f =>
    match s with
    | [] => []
    | c :: r =>
      if c <? 128 then (if (65 <=? c) && (c <=? 90) then c + 32 else c) :: to_lower_from f r
      else let '(rn, w) := decode_rune s in
           match u_lower_ascii U rn with
           | Some a => a :: to_lower_from f (skipn w s)
           | None => firstn w s ++ to_lower_from f (skipn w s)
           end
    end
  end.
Definition to_lower (s : bytes) : bytes := to_lower_from (length s) s.

(* bytes.EqualFold(s, t) for an ASCII t: runes of s folded to ASCII lower case *)
Fixpoint fold_ascii_from (fuel : nat) (s : bytes) : bytes :=
  match fuel with
  | O => s
  | S f =>
    match s with
    | [] => []
    | c :: r =>
      if c <? 128 then (if (65 <=? c) && (c <=? 90) then c + 32 else c) :: fold_ascii_from f r
      else let '(rn, w) := decode_rune s in
           match u_fold_ascii U rn with
           | Some a => a :: fold_ascii_from f (skipn w s)
           | None => firstn w s ++ fold_ascii_from f (skipn w s)
           end
    end
  end.
Definition equal_fold (s t : bytes) : bool := bytes_eqb (fold_ascii_from (length s) s) (fold_ascii_from (length t) t).

(* utf8.DecodeLastRune *)
Definition rune_start (b : N) : bool := negb ((128 <=? b) && (b <? 192)).
Definition decode_last_rune (s : bytes) : N * nat :=
  let n := length s in
  match n with
  | O => (rune_error, 0%nat)
  | _ =>
    let last := nth (n - 1) s 0 in
    if last <? 128 then (last, 1%nat) else
    let try := fun k : nat => Nat.leb k n && rune_start (nth (n - k) s 0) in
    let start := if try 2%nat then (n - 2)%nat else if try 3%nat then (n - 3)%nat
                 else if try 4%nat then (n - 4)%nat else (n - 5)%nat in
    let '(r, w) := decode_rune (skipn start s) in
    if Nat.eqb (start + w) n then (r, w) else (rune_error, 1%nat)
  end.

(* bytes.TrimSpace *)
Fixpoint trim_left_from (fuel : nat) (s : bytes) : bytes :=
  match fuel with
  | O => s
  | S f =>
    match s with
    | [] => []
    | _ => let '(r, w) := decode_rune s in if u_space U r then trim_left_from f (skipn w s) else s
    end
  end.
Fixpoint trim_right_from (fuel : nat) (s : bytes) : bytes :=
  match fuel with
  | O => s
  | S f =>
    match s with
    | [] => []
    | _ => let '(r, w) := decode_last_rune s in
           if u_space U r then trim_right_from f (firstn (length s - w) s) else s
    end
  end.
Definition trim_space (s : bytes) : bytes :=
  let a := trim_left_from (length s) s in trim_right_from (length a) a.

(* isMarkdownStartURL / isMarkdownEndURL *)
Definition isMarkdownStartURL (s : bytes) : bool := has_prefix s gen_lex_https || has_prefix s gen_lex_http.
Definition isMarkdownEndURL (s : bytes) : bool :=
  match s with
  | [] => true
  | c :: r =>
    if mem gen_mdEndURL_skip c then match r with [] => true | d :: _ => mem gen_mdEndURL_final d end
    else mem gen_mdEndURL_final c
  end.

(* containsURL *)
Fixpoint bassoc {A} (l : list (bytes * A)) (k : bytes) : option A :=
  match l with
  | [] => None
  | (k', v) :: r => if bytes_eqb k' k then Some v else bassoc r k
  end.
Definition bmem (l : list bytes) (k : bytes) : bool := existsb (bytes_eqb k) l.
Definition contains (s pat : bytes) : bool := match index s pat with Some _ => true | None => false end.
Definition s_xmlns : bytes := [120; 109; 108; 110; 115].
Definition s_data_ : bytes := [100; 97; 116; 97; 45].
Definition s_src : bytes := [115; 114; 99].
Definition s_url : bytes := [117; 114; 108].
Definition s_uri : bytes := [117; 114; 105].
Definition url_table (tag attr : bytes) : bool :=
  match bassoc gen_containsURL_tbl attr with
  | Some (any, tags) => any || bmem tags tag
  | None => false
  end.
Definition containsURL (tag attr : bytes) : bool :=
  match index_byte attr 58 with
  | Some p =>
    if bytes_eqb (take p attr) s_xmlns then true
    else url_table tag (drop (p + 1) attr)
  | None =>
    if has_prefix attr s_data_ then
      let a := drop 5 attr in
      if contains a s_src || contains a s_url || contains a s_uri then true else url_table tag a
    else url_table tag attr
  end.

End WithUnicode.
