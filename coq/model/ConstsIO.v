(* Text protocol of the engine `consts`, written in Coq so that the extracted
   driver and the in-Coq cross-check run the same code: parsing of the
   constants, kinds, operators and expression terms the harness prints, and
   printing of the results.  Executable, no proofs. *)
From Coq Require Import ZArith List Bool String Ascii Decimal DecimalString.
From Verif Require Import Bytes Utf8 Facts_consts ConstsM ConstEvalM.
Import ListNotations.
Open Scope Z_scope.

Fixpoint bs (s : string) : list N :=
  match s with
  | EmptyString => []
  | String a r => N_of_ascii a :: bs r
  end.

Definition beq (a b : list N) : bool := bytes_eqb a b.

(* string literals are turned into byte lists when this file is compiled, so
   that the extracted code does not contain the Coq type of strings *)
Ltac bsl s := let v := eval vm_compute in (bs s) in exact v.
Notation "'#' s" := (ltac:(bsl (s%string))) (at level 0, s at level 0, only parsing).

(* ------------------------------------------------------------------ decimal *)

Fixpoint uint_digits (u : uint) : list N :=
  match u with
  | Nil => []
  | D0 r => 48%N :: uint_digits r | D1 r => 49%N :: uint_digits r | D2 r => 50%N :: uint_digits r
  | D3 r => 51%N :: uint_digits r | D4 r => 52%N :: uint_digits r | D5 r => 53%N :: uint_digits r
  | D6 r => 54%N :: uint_digits r | D7 r => 55%N :: uint_digits r | D8 r => 56%N :: uint_digits r
  | D9 r => 57%N :: uint_digits r
  end.

Definition show_pos (p : positive) : list N := uint_digits (Pos.to_uint p).

Definition show_Z (z : Z) : list N :=
  match z with
  | Z0 => [48%N]
  | Zpos p => show_pos p
  | Zneg p => 45%N :: show_pos p
  end.

Fixpoint digits_value (acc : Z) (l : list N) : option Z :=
  match l with
  | [] => Some acc
  | c :: r =>
    if ((48 <=? c) && (c <=? 57))%N then digits_value (acc * 10 + Z.of_N (c - 48)) r else None
  end.

Definition parse_Z (l : list N) : option Z :=
  match l with
  | [] => None
  | 45%N :: r => match r with [] => None | _ => option_map Z.opp (digits_value 0 r) end
  | _ => digits_value 0 l
  end.

(* split at the first occurrence of c *)
Fixpoint split_at (c : N) (l : list N) : option (list N * list N) :=
  match l with
  | [] => None
  | x :: r =>
    if (x =? c)%N then Some ([], r)
    else match split_at c r with Some (a, b) => Some (x :: a, b) | None => None end
  end.

Fixpoint split_all (c : N) (l : list N) : list (list N) :=
  match l with
  | [] => [[]]
  | x :: r =>
    match split_all c r with
    | [] => [[x]]   (* unreachable *)
    | h :: t => if (x =? c)%N then [] :: h :: t else (x :: h) :: t
    end
  end.

Definition hexval (c : N) : option N :=
  if ((48 <=? c) && (c <=? 57))%N then Some (c - 48)%N
  else if ((97 <=? c) && (c <=? 102))%N then Some (c - 87)%N
  else None.

Fixpoint unhex (l : list N) : option (list N) :=
  match l with
  | [] => Some []
  | a :: b :: r =>
    match hexval a, hexval b, unhex r with
    | Some x, Some y, Some t => Some ((x * 16 + y)%N :: t)
    | _, _, _ => None
    end
  | _ => None
  end.

Definition hexdigit (n : N) : N := if (n <? 10)%N then (48 + n)%N else (87 + n)%N.
Definition hex (l : list N) : list N := flat_map (fun c => [hexdigit (c / 16); hexdigit (c mod 16)]) l.

(* ------------------------------------------------------------------ constants *)

Definition show_fl (f : fl) : list N :=
  match f with
  | FZero false => # "0p0"
  | FZero true => # "-0"
  | FFin n m e => (if n then [45%N] else []) ++ show_pos m ++ [112%N] ++ show_Z e
  end.

Definition parse_fl (l : list N) : option fl :=
  if beq l (# "-0") then Some (FZero true)
  else match split_at 112 l with
       | Some (m, e) =>
         match parse_Z m, parse_Z e with
         | Some m, Some e => Some (mkfl (m <? 0) (Z.abs m) e)
         | _, _ => None
         end
       | None => None
       end.

Definition show_rc (c : rc) : list N :=
  match c with
  | I64 z => # "I64:" ++ show_Z z
  | Big z => # "Big:" ++ show_Z z
  | F64 f => # "F64:" ++ show_fl f
  | BigF f => # "BigF:" ++ show_fl f
  | Rat n d => # "Rat:" ++ show_Z n ++ [47%N] ++ show_pos d
  end.

Definition show_cst (c : cst) : list N :=
  match c with
  | Num r => show_rc r
  | Cplx re im => # "Cplx:" ++ show_rc re ++ [44%N] ++ show_rc im
  | Str s => # "Str:" ++ hex s
  | Bool true => # "Bool:t"
  | Bool false => # "Bool:f"
  end.

Definition parse_rat (v : list N) : option (Z * positive) :=
  match split_at 47 v with
  | Some (n, d) =>
    match parse_Z n, parse_Z d with
    | Some n, Some (Zpos d) => Some (mkrat n (Zpos d))
    | _, _ => None
    end
  | None => None
  end.

Definition parse_rc (l : list N) : option rc :=
  match split_at 58 l with
  | Some (tag, v) =>
    if beq tag (# "I64") then option_map I64 (parse_Z v)
    else if beq tag (# "Big") then option_map Big (parse_Z v)
    else if beq tag (# "F64") then option_map F64 (parse_fl v)
    else if beq tag (# "BigF") then option_map BigF (parse_fl v)
    else if beq tag (# "Rat") then
      match parse_rat v with Some (n, d) => Some (Rat n d) | None => None end
    else None
  | None => None
  end.

Definition parse_cst (l : list N) : option cst :=
  match split_at 58 l with
  | Some (tag, v) =>
    if beq tag (# "Cplx") then
      match split_at 44 v with
      | Some (a, b) =>
        match parse_rc a, parse_rc b with
        | Some re, Some im => Some (Cplx re im)
        | _, _ => None
        end
      | None => None
      end
    else if beq tag (# "Str") then option_map Str (unhex v)
    else if beq tag (# "Bool") then
      if beq v (# "t") then Some (Bool true) else if beq v (# "f") then Some (Bool false) else None
    else option_map Num (parse_rc l)
  | None => None
  end.

Definition all_kinds : list (list N * kind) :=
  [(# "bool", KBool); (# "string", KString); (# "int", KInt); (# "int8", KInt8); (# "int16", KInt16);
   (# "int32", KInt32); (# "int64", KInt64); (# "uint", KUint); (# "uint8", KUint8); (# "uint16", KUint16);
   (# "uint32", KUint32); (# "uint64", KUint64); (# "uintptr", KUintptr); (# "float32", KFloat32);
   (# "float64", KFloat64); (# "complex64", KComplex64); (# "complex128", KComplex128)].

Fixpoint lookup {A} (l : list (list N * A)) (t : list N) : option A :=
  match l with
  | [] => None
  | (s, a) :: r => if beq s t then Some a else lookup r t
  end.

Definition parse_kind (t : list N) : option kind := lookup all_kinds t.

Fixpoint kind_name (l : list (list N * kind)) (k : kind) : list N :=
  match l with
  | [] => []
  | (s, k') :: r => if kind_eqb k k' then s else kind_name r k
  end.

Definition all_ops : list (list N * op) :=
  [(# "==", OEq); (# "!=", ONe); (# "<", OLt); (# "<=", OLe); (# ">", OGt); (# ">=", OGe); (# "!", ONot);
   (# "&", OBitAnd); (# "|", OBitOr); (# "&&", OAnd); (# "||", OOr); (# "+", OAdd); (# "-", OSub);
   (# "*", OMul); (# "/", ODiv); (# "%", OMod); (# "^", OXor); (# "&^", OAndNot); (# "<<", OShl); (# ">>", OShr)].

Definition parse_op (t : list N) : option op := lookup all_ops t.

Definition err_name (e : err) : list N :=
  match e with
  | ENotRepr => # "notrepr" | EInvalid => # "invalid" | EDiv0 => # "div0" | ECDiv0 => # "cdiv0"
  | EShiftNeg => # "shift-neg" | EShiftLarge => # "shift-large" | EShiftTrunc => # "shift-trunc"
  | EShiftOvfUint => # "shift-ovf-uint" | EShlOverflow => # "shl-overflow"
  | EAddOverflow => # "add-overflow" | ESubOverflow => # "sub-overflow" | EMulOverflow => # "mul-overflow"
  | ETruncInt => # "trunc-int" | ETruncReal => # "trunc-real" | EOverflows => # "overflows"
  | ETooLarge => # "too-large"
  end.

Definition show_res (r : res cst) : list N :=
  match r with
  | Ok c => # "ok:" ++ show_cst c
  | Err e => # "err:" ++ err_name e
  | Fault => # "fault"
  end.

Definition show_bool (b : bool) : list N := if b then # "ok:Bool:t" else # "ok:Bool:f".

Definition cerr_name (e : cerr) : list N :=
  match e with
  | CDiv0 => # "div0" | CBigOverflow => # "bigoverflow" | CShiftCount => # "shiftcount"
  | COverflow => # "overflow" | CTrunc => # "trunc" | CTooLarge => # "toolarge"
  | CInvalidOp => # "invalidop" | CMismatch => # "mismatch" | CConvert => # "convert" | CFault => # "fault"
  end.

Definition show_eres (r : eres) : list N :=
  match r with
  | EOk t =>
    # "ok:" ++ kind_name all_kinds (ti_kind t) ++ (if ti_untyped t then # ":u:" else # ":t:") ++ show_cst (ti_c t)
  | EErr CFault => # "fault"
  | EErr e => # "err:" ++ cerr_name e
  end.

(* ------------------------------------------------------------------ expression terms *)

Definition tok := list N.

Definition parse_strlit (t : tok) : option (list N) :=
  (* hex followed by a dot *)
  match split_at 46 t with
  | Some (h, []) => unhex h
  | _ => None
  end.

Fixpoint parse_expr (fuel : nat) (ts : list tok) : option (cexpr * list tok) :=
  match fuel with
  | O => None
  | S fuel =>
    match ts with
    | [] => None
    | t :: r =>
      if beq t (# "V") then Some (ERef, r)
      else if beq t (# "Li") then
        match r with a :: r' => option_map (fun z => (ELitInt z, r')) (parse_Z a) | [] => None end
      else if beq t (# "Lr") then
        match r with a :: r' => option_map (fun z => (ELitRune z, r')) (parse_Z a) | [] => None end
      else if beq t (# "Lii") then
        match r with a :: r' => option_map (fun z => (ELitImagInt z, r')) (parse_Z a) | [] => None end
      else if beq t (# "Lf") then
        match r with a :: r' => option_map (fun q => (ELitFloat (fst q) (snd q), r')) (parse_rat a) | [] => None end
      else if beq t (# "Lif") then
        match r with a :: r' => option_map (fun q => (ELitImagFloat (fst q) (snd q), r')) (parse_rat a) | [] => None end
      else if beq t (# "Ls") then
        match r with a :: r' => option_map (fun s => (ELitStr s, r')) (parse_strlit a) | [] => None end
      else if beq t (# "Lb") then
        match r with
        | a :: r' => if beq a (# "t") then Some (ELitBool true, r') else Some (ELitBool false, r')
        | [] => None
        end
      else if beq t (# "U") then
        match r with
        | o :: r' =>
          match parse_op o, parse_expr fuel r' with
          | Some o, Some (e, r'') => Some (EUn o e, r'')
          | _, _ => None
          end
        | [] => None
        end
      else if beq t (# "B") then
        match r with
        | o :: r' =>
          match parse_op o, parse_expr fuel r' with
          | Some o, Some (e1, r'') =>
            match parse_expr fuel r'' with
            | Some (e2, r3) => Some (EBin o e1 e2, r3)
            | None => None
            end
          | _, _ => None
          end
        | [] => None
        end
      else if beq t (# "C") then
        match r with
        | k :: r' =>
          match parse_kind k, parse_expr fuel r' with
          | Some k, Some (e, r'') => Some (EConv k e, r'')
          | _, _ => None
          end
        | [] => None
        end
      else None
    end
  end.

Definition parse_opt_kind (t : tok) : option (option kind) :=
  if beq t (# "-") then Some None else option_map Some (parse_kind t).

Definition run_decl (term : list N) : list N :=
  let ts := split_all 32 term in
  let fuel := S (length ts) in
  match ts with
  | d :: ty :: r =>
    if beq d (# "D") then
      match parse_opt_kind ty, parse_expr fuel r with
      | Some ty, Some (e, []) => show_eres (check_decl None ty e)
      | _, _ => # "driver-error:decl"
      end
    else if beq d (# "G") then
      match parse_opt_kind ty, parse_expr fuel r with
      | Some ta, Some (a, ty2 :: r2) =>
        match parse_opt_kind ty2, parse_expr fuel r2 with
        | Some ty2, Some (e, []) => show_eres (check_group ta a ty2 e)
        | _, _ => # "driver-error:group"
        end
      | _, _ => # "driver-error:group"
      end
    else # "driver-error:decl"
  | _ => # "driver-error:decl"
  end.

(* ------------------------------------------------------------------ one case *)

Definition consts_handle (fields : list (list N)) : list N :=
  match fields with
  | [fn; a; b; c] =>
    if beq fn (# "un") then
      match parse_op a, (if beq b (# "-") then Some None else option_map Some (parse_kind b)), parse_cst c with
      | Some o, Some k, Some x => show_res (unary_op o k x)
      | _, _, _ => # "driver-error:un"
      end
    else if beq fn (# "bin") then
      match parse_op a, parse_cst b, parse_cst c with
      | Some o, Some x, Some y => show_res (binary_op o x y)
      | _, _, _ => # "driver-error:bin"
      end
    else if beq fn (# "shifterr") then
      match parse_op a, parse_cst b, parse_cst c with
      | Some o, Some x1, Some x =>
        match shift_const_error o (cst_zero x1) x with
        | None => # "ok:"
        | Some e => # "err:" ++ err_name e
        end
      | _, _, _ => # "driver-error:shifterr"
      end
    else # "driver-error:unknown"
  | [fn; a; b] =>
    if beq fn (# "repr") then
      match parse_kind a, parse_cst b with
      | Some k, Some x => show_res (repr k x)
      | _, _ => # "driver-error:repr"
      end
    else if beq fn (# "eq") then
      match parse_cst a, parse_cst b with
      | Some x, Some y => show_bool (equals x y)
      | _, _ => # "driver-error:eq"
      end
    else if beq fn (# "same") then
      match parse_cst a, parse_cst b with
      | Some (Num x), Some (Num y) =>
        let (d1, d2) := to_same x y in # "ok:" ++ show_rc d1 ++ [32%N] ++ show_rc d2
      | Some (Num x), Some (Cplx c d) => # "ok:" ++ show_cst (Cplx x (I64 0)) ++ [32%N] ++ show_cst (Cplx c d)
      | Some (Cplx c d), Some (Num y) => # "ok:" ++ show_cst (Cplx c d) ++ [32%N] ++ show_cst (Cplx y (I64 0))
      | _, _ => # "driver-error:same"
      end
    else # "driver-error:unknown"
  | [fn; a] =>
    if beq fn (# "zero") then
      match parse_cst a with
      | Some x => show_bool (cst_zero x)
      | None => # "driver-error:zero"
      end
    else if beq fn (# "decl") then run_decl a
    else # "driver-error:unknown"
  | _ => # "driver-error:fields"
  end.

(* a whole line: fields separated by TAB *)
Definition consts_line (l : list N) : option (list N) := Some (consts_handle (split_all 9 l)).
