(* VmExecM: an executable model of the register VM (internal/runtime/run.go)
   running emitted code, for the instruction subset that MiniGo programs over
   the integer kinds, bool and string compile to.

   From the source on every run (T1): opcode, kind, condition and register-type
   numbering; every arithmetic, comparison and conversion instruction
   (gen_alu, gen_ifint, gen_alu_OpConvert* of Facts_alu: the step function only
   reads the operands and writes the result); OpMove, OpLoad, OpConcat, OpLen,
   OpIndexString, OpGoto translated whole (gen_x_* of Facts_vmexec, with the
   decoders decodeUint24 / decodeValueIndex inlined); the frame pointer
   arithmetic, growth tests and return address of OpCallFunc.
   By hand from run.go / vm.go: the fetch and dispatch, the call stack
   (OpCallFunc push, OpReturn pop), OpIfString, OpTypify, OpCallNative with
   callNative for the one native function t.P, the register accessors
   (VmBase.v).  No proofs here. *)
From Coq Require Import FMapPositive.
From Verif Require Import GoInt Facts_alu Facts_limits VmBase Facts_vmexec AluM.
Open Scope Z_scope.

Inductive sres :=
  | SNext (s : state)
  | SDone (s : state)                  (* OpReturn with an empty call stack *)
  | SPanic (c : pclass) (s : state)    (* a run-time panic of the program (nothing recovers in the subset) *)
  | SFault (f : fault).

Definition of_xres (s0 : state) (r : xres state) : sres :=
  match r with XOk s => SNext s | XFault f => SFault f | XPanic c => SPanic c s0 end.

Definition cur_func (p : program) (s : state) : option func := nthZ p (s_fn s).

(* ---- arithmetic instructions: which operand registers the generated term
   reads.  Every generated term is strict in the operands it mentions, so an
   operand is read iff the term is undefined when that operand alone is. ---- *)
Definition alu_reads (opc k : Z) : bool * bool * bool :=
  let one := Some 1 in
  let used (r : option (option Z)) := match r with Some None => true | _ => false end in
  (used (gen_alu opc k None one one), used (gen_alu opc k one None one), used (gen_alu opc k one one None)).

(* an operand as the generated terms take it: None when the register cannot be read *)
Definition rd_opt (s : state) (r : Z) (k : bool) : option Z :=
  match rd_intk s r k with XOk v => Some v | _ => None end.
(* the fault of reading an operand the term uses *)
Definition need (s : state) (used : bool) (r : Z) (k : bool) : xres unit :=
  if used then xbind (rd_intk s r k) (fun _ => XOk tt) else XOk tt.

(* case OpAdd, -OpAdd ... OpXor: ra = vm.int(a), rb = vm.intk(b, op < 0), rc = vm.int(c); vm.setInt(c, term).
   An undefined term is a division by zero unless an operand it reads is unreadable. *)
Definition step_alu (s : state) (i : instr) (opc : Z) : xres state :=
  match gen_alu opc (i_a i) (rd_opt s (i_a i) false) (rd_opt s (i_b i) (kneg i)) (rd_opt s (i_c i) false) with
  | Some (Some v) => wr_int s (i_c i) v
  | Some None =>
    let '(ua, ub, uc) := alu_reads opc (i_a i) in
    xbind (need s ua (i_a i) false) (fun _ =>
    xbind (need s ub (i_b i) (kneg i)) (fun _ =>
    xbind (need s uc (i_c i) false) (fun _ => XPanic PDivide)))
  | None => XFault (FUnsupported (i_op i))
  end.

(* case OpConvertInt / OpConvertUint: t := vm.fn.Types[uint8(b)]; vm.setInt(c, T(vm.int(a))) *)
Definition step_convert (f : func) (s : state) (i : instr) (opc : Z) : xres state :=
  match nthZ (f_types f) (u8 (i_b i)) with
  | None => XFault FBadType
  | Some kd =>
    xbind (rd_int s (i_a i)) (fun v =>
      match (if opc =? gen_OpConvertInt then gen_alu_OpConvertInt kd (Some v) else gen_alu_OpConvertUint kd (Some v)) with
      | Some (Some r) => wr_int s (i_c i) r
      | _ => XFault (FUnsupported (i_op i))
      end)
  end.

(* case OpIfInt, -OpIfInt: the integer conditions (the others read general
   registers or strings and are outside the subset); if cond { vm.pc++ } *)
Definition ifint_reads (cnd : Z) : bool * bool :=
  let one := Some 1 in
  let used (r : option (option bool)) := match r with Some None => true | _ => false end in
  (used (gen_ifint cnd None one), used (gen_ifint cnd one None)).

Definition step_ifint (s : state) (i : instr) : xres state :=
  match gen_ifint (i_b i) (rd_opt s (i_a i) false) (rd_opt s (i_c i) (kneg i)) with
  | Some (Some true) => XOk (set_pc s (s_pc s + 1))
  | Some (Some false) => XOk s
  | Some None =>
    let '(ua, uc) := ifint_reads (i_b i) in
    xbind (need s ua (i_a i) false) (fun _ =>
    xbind (need s uc (i_c i) (kneg i)) (fun _ => XFault FTerm))
  | None => XFault (FUnsupported (i_op i))
  end.

(* Go's comparison of strings: bytewise lexicographic *)
Fixpoint str_cmp (x y : str) : comparison :=
  match x, y with
  | [], [] => Eq
  | [], _ => Lt
  | _, [] => Gt
  | a :: x', b :: y' => match a ?= b with Eq => str_cmp x' y' | c => c end
  end.
Definition cmp_holds (c : comparison) (cnd : Z) : option bool :=
  if cnd =? gen_x_ConditionEqual then Some (match c with Eq => true | _ => false end) else
  if cnd =? gen_x_ConditionNotEqual then Some (match c with Eq => false | _ => true end) else
  if cnd =? gen_x_ConditionLess then Some (match c with Lt => true | _ => false end) else
  if cnd =? gen_x_ConditionLessEqual then Some (match c with Gt => false | _ => true end) else
  if cnd =? gen_x_ConditionGreater then Some (match c with Gt => true | _ => false end) else
  if cnd =? gen_x_ConditionGreaterEqual then Some (match c with Lt => false | _ => true end) else None.
Definition len_cond (cnd : Z) : option Z :=
  if cnd =? gen_x_ConditionLenEqual then Some gen_x_ConditionEqual else
  if cnd =? gen_x_ConditionLenNotEqual then Some gen_x_ConditionNotEqual else
  if cnd =? gen_x_ConditionLenLess then Some gen_x_ConditionLess else
  if cnd =? gen_x_ConditionLenLessEqual then Some gen_x_ConditionLessEqual else
  if cnd =? gen_x_ConditionLenGreater then Some gen_x_ConditionGreater else
  if cnd =? gen_x_ConditionLenGreaterEqual then Some gen_x_ConditionGreaterEqual else None.

(* case OpIfString, -OpIfString (hand-written): bb <= ConditionGreaterEqual
   compares vm.string(a) with vm.stringk(c, op < 0); bb <= ConditionLenGreaterEqual
   compares len(vm.string(a)) with int(vm.intk(c, op < 0)); the contains
   conditions are outside the subset *)
Definition step_ifstring (f : func) (s : state) (i : instr) : xres state :=
  let bb := i_b i in
  let jump (b : bool) := if b then XOk (set_pc s (s_pc s + 1)) else XOk s in
  if bb <=? gen_x_ConditionGreaterEqual then
    xbind (rd_str s (i_a i)) (fun v1 =>
    xbind (rd_strk f s (i_c i) (kneg i)) (fun v2 =>
      match cmp_holds (str_cmp v1 v2) bb with
      | Some b => jump b
      | None => jump false   (* no case of the inner switch matches: cond stays false *)
      end))
  else if bb <=? gen_x_ConditionLenGreaterEqual then
    xbind (rd_str s (i_a i)) (fun v1 =>
    xbind (rd_intk s (i_c i) (kneg i)) (fun v2 =>
      match len_cond bb with
      | Some c => match cmp_holds (str_len v1 ?= wrap I64 v2) c with Some b => jump b | None => jump false end
      | None => jump false
      end))
  else XFault (FUnsupported (i_op i)).

(* case OpTypify, -OpTypify (hand-written): v := reflect.New(vm.fn.Types[uint8(a)]).Elem();
   vm.getIntoReflectValue(b, v, op < 0); vm.setGeneral(c, v).  reflect's
   SetInt/SetUint store the low bits of the register at the width of the kind. *)
Definition step_typify (f : func) (s : state) (i : instr) : xres state :=
  match nthZ (f_types f) (u8 (i_a i)) with
  | None => XFault FBadType
  | Some k =>
    if k =? gen_kind_Bool then
      (* vm.boolk(r, k): k -> r > 0; else regs.int[..] > 0 *)
      xbind (rd_intk s (i_b i) (kneg i)) (fun v => wr_gen s (i_c i) (GBool (0 <? v)))
    else if k =? gen_x_kind_String then
      xbind (rd_strk f s (i_b i) (kneg i)) (fun v => wr_gen s (i_c i) (GStr v))
    else match kind_ity k with
      | Some t => xbind (rd_intk s (i_b i) (kneg i)) (fun v => wr_gen s (i_c i) (GInt k (wrap t v)))
      | None => XFault (FUnsupported (i_op i))
      end
  end.

(* the instruction after a call instruction holds the stack shift in its four fields *)
Definition shift_field (off : instr) (n : Z) : Z :=
  if n =? 0 then i_op off else if n =? 1 then i_a off else if n =? 2 then i_b off else i_c off.

Definition shifted (fp : quad) (off : instr) : option quad :=
  match gen_x_callfunc_fp0 (Some (q0 fp)) (Some (shift_field off gen_x_callfunc_field0)),
        gen_x_callfunc_fp1 (Some (q1 fp)) (Some (shift_field off gen_x_callfunc_field1)),
        gen_x_callfunc_fp2 (Some (q2 fp)) (Some (shift_field off gen_x_callfunc_field2)),
        gen_x_callfunc_fp3 (Some (q3 fp)) (Some (shift_field off gen_x_callfunc_field3)) with
  | Some a, Some b, Some c, Some d => Some (mkQ a b c d)
  | _, _, _, _ => None
  end.

Definition grow1 (test : option Z -> option Z -> option Z -> option bool) (more : option Z -> option Z) (fp nr st : Z) : option Z :=
  match test (Some fp) (Some nr) (Some st) with
  | Some true => more (Some st)
  | Some false => Some st
  | None => None
  end.

(* the stack tops after the growth tests of OpCallFunc for the callee's NumReg *)
Definition grown (fp nr st : quad) : option quad :=
  match grow1 gen_x_callfunc_grow0 gen_x_morestack0 (q0 fp) (q0 nr) (q0 st),
        grow1 gen_x_callfunc_grow1 gen_x_morestack1 (q1 fp) (q1 nr) (q1 st),
        grow1 gen_x_callfunc_grow2 gen_x_morestack2 (q2 fp) (q2 nr) (q2 st),
        grow1 gen_x_callfunc_grow3 gen_x_morestack3 (q3 fp) (q3 nr) (q3 st) with
  | Some a, Some b, Some c, Some d => Some (mkQ a b c d)
  | _, _, _, _ => None
  end.

(* case OpCallFunc (the frame push is hand-written; the arithmetic is generated):
   call := callFrame{fn: vm.fn, fp: vm.fp, pc: vm.pc + 1}; fn := vm.fn.Functions[uint8(a)];
   off := vm.fn.Body[vm.pc]; vm.fp[k] += Addr(off.X); grow; vm.fn = fn; push; vm.pc = 0 *)
Definition step_callfunc (p : program) (f : func) (s : state) (i : instr) : sres :=
  match nthZ (f_funcs f) (u8 (i_a i)) with
  | None => SFault FBadFunc
  | Some gi =>
    match nthZ p gi, nthZ (f_body f) (s_pc s) with
    | Some g, Some off =>
      match shifted (s_fp s) off, gen_x_callfunc_retpc (Some (s_pc s)) with
      | Some fp', Some ret =>
        match grown fp' (f_numreg g) (s_st s) with
        | Some st' =>
          SNext (mkS gi gen_x_callfunc_pc fp' st' (s_ok s) (s_int s) (s_str s) (s_gen s)
                     (mkFr (s_fn s) (s_fp s) ret :: s_calls s) (s_out s))
        | None => SFault FTerm
        end
      | _, _ => SFault FTerm
      end
    | None, _ => SFault FBadFunc
    | _, None => SFault FBadPc
    end
  end.

(* case OpReturn (hand-written): with an empty call stack the run ends;
   otherwise (status started, no macro, no FinalRegs in the subset) the frame
   is popped: vm.fp = call.fp; vm.fn = call.cl.fn; vm.pc = call.pc *)
Definition step_return (s : state) : sres :=
  match s_calls s with
  | [] => SDone s
  | fr :: rest =>
    SNext (mkS (fr_fn fr) (fr_pc fr) (fr_fp fr) (s_st s) (s_ok s) (s_int s) (s_str s) (s_gen s) rest (s_out s))
  end.

(* the arguments of a variadic native call: vm.general(int8(j+1)) for j < n,
   read at the shifted frame pointer *)
Fixpoint read_args (s : state) (n : nat) (j : Z) : xres (list gval) :=
  match n with
  | O => XOk []
  | S m => xbind (rd_gen s (j + 1)) (fun v =>
           match v with
           | GInvalid => XFault FNative     (* a nil interface argument: not printed by the model *)
           | _ => xbind (read_args s m (j + 1)) (fun r => XOk (v :: r))
           end)
  end.

(* case OpCallNative with VM.callNative (hand-written) for t.P(args ...interface{}):
   fn := vm.fn.NativeFunctions[uint8(a)]; off := vm.fn.Body[vm.pc];
   callNative(fn, c, StackShift{int8(off.Op), off.A, off.B, off.C}): the frame
   pointers are shifted (the out offset of P is zero), the c variadic arguments
   are read from the general registers 1..c, P is called, vm.fp is restored;
   then vm.pc++ *)
Definition step_callnative (f : func) (s : state) (i : instr) : sres :=
  match nthZ (f_natives f) (u8 (i_a i)), nthZ (f_body f) (s_pc s) with
  | Some nf, Some off =>
    if (n_code nf =? 1) && n_variadic nf && (n_numin nf =? 1) && (0 <=? i_c i) then
      match shifted (s_fp s) off with
      | Some fp' =>
        match read_args (set_fp s fp') (Z.to_nat (i_c i)) 0 with
        | XOk args => SNext (set_pc (set_out s (args :: s_out s)) (s_pc s + 1))
        | XFault e => SFault e
        | XPanic c => SPanic c s
        end
      | None => SFault FTerm
      end
    else SFault FNative
  | None, _ => SFault FNative
  | _, None => SFault FBadPc
  end.

Definition is_alu_op (opc : Z) : bool :=
  existsb (Z.eqb opc)
    [gen_OpAdd; gen_OpAddInt; gen_OpSub; gen_OpSubInt; gen_OpSubInv; gen_OpSubInvInt; gen_OpMul; gen_OpMulInt;
     gen_OpDiv; gen_OpDivInt; gen_OpRem; gen_OpRemInt; gen_OpNeg; gen_OpAnd; gen_OpAndNot; gen_OpOr; gen_OpXor;
     gen_OpShl; gen_OpShlInt; gen_OpShr; gen_OpShrInt].

(* the `switch op` of VM.run for the fetched instruction i; s is the state after vm.pc++ *)
Definition exec_instr (p : program) (f : func) (s : state) (i : instr) : sres :=
  let opc := Z.abs (i_op i) in
  if (i_op i <? 0) && negb (existsb (Z.eqb opc) gen_x_neg_ops) then
    (* a negative operation without a `case -Op`: no case of the switch matches
       (the switch has no default clause), nothing happens *)
    if gen_x_has_default then SFault (FUnsupported (i_op i)) else SNext s
  else if is_alu_op opc then of_xres s (step_alu s i opc)
  else if (opc =? gen_OpConvertInt) || (opc =? gen_OpConvertUint) then of_xres s (step_convert f s i opc)
  else if opc =? gen_OpMove then of_xres s (gen_x_OpMove f s i)
  else if opc =? gen_OpIfInt then of_xres s (step_ifint s i)
  else if opc =? gen_OpIfString then of_xres s (step_ifstring f s i)
  else if opc =? gen_OpIndexString then of_xres s (gen_x_OpIndexString f s i)
  else if opc =? gen_OpTypify then of_xres s (step_typify f s i)
  else if opc =? gen_OpNone then SNext s
  else if opc =? gen_OpLoad then of_xres s (gen_x_OpLoad f s i)
  else if opc =? gen_OpGoto then of_xres s (gen_x_OpGoto f s i)
  else if opc =? gen_OpConcat then of_xres s (gen_x_OpConcat f s i)
  else if opc =? gen_OpLen then of_xres s (gen_x_OpLen f s i)
  else if opc =? gen_OpCallFunc then step_callfunc p f s i
  else if opc =? gen_OpCallNative then step_callnative f s i
  else if opc =? gen_OpReturn then step_return s
  else SFault (FUnsupported (i_op i)).

(* one iteration of the loop of VM.run: in := vm.fn.Body[vm.pc]; vm.pc++; switch op *)
Definition vm_step (p : program) (s0 : state) : sres :=
  match cur_func p s0 with
  | None => SFault FBadFunc
  | Some f =>
    match nthZ (f_body f) (s_pc s0) with
    | None => SFault FBadPc
    | Some i => exec_instr p f (set_pc s0 (s_pc s0 + 1)) i
    end
  end.

Inductive outcome :=
  | ODone (s : state)
  | OPanic (c : pclass) (s : state)
  | OFault (f : fault) (s : state)
  | OOutOfFuel (s : state).

Fixpoint vm_run (p : program) (fuel : nat) (s : state) : outcome :=
  match fuel with
  | O => OOutOfFuel s
  | S n =>
    match vm_step p s with
    | SNext s' => vm_run p n s'
    | SDone s' => ODone s'
    | SPanic c s' => OPanic c s'
    | SFault f => OFault f s
    end
  end.

(* VM.Run on a fresh VM (create): fp = 0, st = stackSize, empty registers, fn = the main function (index 0) *)
Definition init_state : state :=
  mkS 0 0 (mkQ 0 0 0 0) (mkQ gen_x_stackSize gen_x_stackSize gen_x_stackSize gen_x_stackSize) false
      (PositiveMap.empty Z) (PositiveMap.empty str) (PositiveMap.empty gval) [] [].

Definition out_of (o : outcome) : list (list gval) :=
  rev (s_out (match o with ODone s | OPanic _ s | OFault _ s | OOutOfFuel s => s end)).

Definition vm_exec (p : program) (fuel : nat) : outcome := vm_run p fuel init_state.
