(* C27: the expressions whose String form is source text that parses back to
   them (boolean predicate, executable; no proofs here).

   ok ty el e nxt: e is printed where the parser reads it in type mode
   (mustBeType, ty) or expression mode, with canElideType = el, and the token
   that follows the printed form is nxt (None: the end of the source).  The
   shapes it rejects are listed with their reason:

   [F1] string-drops-parens-of-operator-operand (known finding): an operator
        expression as the operand of a call, index, slicing, selector, type
        assertion or as the type of a composite literal is printed without
        parentheses, except a pointer or receive callee (Call.String).
   [F2] string-drops-parens-of-default-operand (known finding): a default
        expression as operand of an operator or of a postfix form is printed
        without parentheses and takes everything on its right.  (As the right
        operand of an operator at the very end of the expression the printed
        form does parse back; it is excluded all the same.)
   [F3] string-chan-of-chan-ambiguous (known finding): chan (<-chan T) is
        printed as chan <-chan T.
   [F4] string-number-literal-before-dot-ambiguous (known finding): an integer
        literal printed directly before a period or an ellipsis (lex_stable on
        the printed form).
   [N1] a result type written without parentheses must start with a token of
        the generated list gen_result_start (the case list of
        parseFuncParameters): func() (<-chan T) is printed func() <-chan T,
        which did not parse back before the arrow was added to that list
        (repaired in the implementation; the condition follows the list).
   [N2] string-conversion-to-type-ending-in-func-ambiguous (new finding): a
        function type without result followed by ( or by a token that starts
        a result: ([]func())(f) is printed []func()(f).  The same rule rejects
        a type-mode identifier followed by a period, ([]T).m printed []T.m
        (never valid source).
   [N3] string-struct-tag-with-backquote-ambiguous (new finding): a struct
        tag is printed between backquotes whatever it contains (lex_stable).
   [D]  String is not source text by design: function literals, composite
        literals with elements unless ast.expandedPrint is set, x.(type)
        elsewhere than as the whole guard of a type switch, identifiers
        renamed $itea..., an elided composite literal type outside a
        composite literal.
   [P]  trees that the parser does not build: unknown operators and channel
        directions, a slicing whose IsFull differs from the presence of Max
        (a[::] is accepted by the parser and printed a[:]), parameter lists
        mixing named and unnamed parameters, and so on. *)
From Coq Require Import List NArith Bool.
From Verif Require Import Bytes ExprFullM.
Import ListNotations.
Open Scope N_scope.

Definition tk_eqb (a b : tk) : bool :=
  match a, b with
  | KIdent s, KIdent t | KSym s, KSym t => bytes_eqb s t
  | KLit k s, KLit j t => (k =? j) && bytes_eqb s t
  | KKw v, KKw w =>
    match v, w with
    | WMap, WMap | WStruct, WStruct | WInterface, WInterface | WFunc, WFunc | WMacro, WMacro
    | WChan, WChan | WType, WType | WDefault, WDefault | WRender, WRender => true
    | _, _ => false
    end
  | KLP, KLP | KRP, KRP | KLBrack, KLBrack | KRBrack, KRBrack | KLBrace, KLBrace | KRBrace, KRBrace
  | KPeriod, KPeriod | KComma, KComma | KColon, KColon | KSemi, KSemi | KEllipsis, KEllipsis => true
  | _, _ => false
  end.

Fixpoint tks_eqb (a b : list tk) : bool :=
  match a, b with
  | [], [] => true
  | x :: a', y :: b' => tk_eqb x y && tks_eqb a' b'
  | _, _ => false
  end.

Definition is_tok (t : tk) (o : option tk) : bool :=
  match o with Some u => tk_eqb t u | None => false end.

Definition is_default (e : ex) : bool := match e with XDefault _ _ _ => true | _ => false end.
Definition is_nil {A} (l : list A) : bool := match l with [] => true | _ :: _ => false end.
Definition is_some {A} (o : option A) : bool := match o with Some _ => true | None => false end.
Definition itea : bytes := [36; 105; 116; 101; 97].
Definition no_byte (c : N) (s : bytes) : bool := negb (existsb (N.eqb c) s).

(* a path that strconv.Quote only surrounds with quotes and that unquoteString gives back *)
Definition plain_path (s : bytes) : bool :=
  forallb (fun c => (32 <=? c) && (c <? 127) && negb (c =? 34) && negb (c =? 92)) s.

Definition base_ok (b : ex) : bool :=
  match b with
  | XIdent _ a => negb (has_prefix itea a)
  | XSel _ (XIdent _ a) _ => negb (has_prefix itea a)
  | _ => false
  end.

Section Ok.
Variable op_string : list (N * bytes).
Variable bin_prec : list (N * N).
Variable un_prec : N.
Variable unary_tokens : list (bytes * N).
Variable binary_tokens : list (bytes * N).
Variable op_receive op_pointer op_extended_not op_not_contains : N.
Variable lit_string lit_int lit_float : N.
Variable dir_none dir_recv dir_send : N.
Variable sym_arrow sym_mul sym_not sym_contains : bytes.
Variable name_ident name_lbrack : bytes.
Variable kw_text : kwd -> bytes.
Variable result_start : list bytes.
Variable macro_results : list bytes.
Variable keywords tmpl_keywords : list (bytes * bytes).
Variable quote : bytes -> bytes.
Variable valid_path : bytes -> bool.
Variable expanded : bool.
Variable tmpl : bool.

Notation pp := (pp op_string bin_prec un_prec op_receive op_pointer op_extended_not lit_string dir_recv dir_send sym_arrow quote expanded).
Notation np_un := (np_un bin_prec un_prec op_receive).
Notation np_bin := (np_bin bin_prec un_prec).
Notation np_call := (np_call op_receive op_pointer).
Notation starts_result := (starts_result kw_text name_ident name_lbrack result_start).

Notation relex := (relex lit_string lit_int lit_float kw_text keywords tmpl_keywords tmpl).

(* the lexer reads the printed form as the printed tokens: no integer literal
   directly before a period or an ellipsis [F4], no identifier that is a
   keyword of the syntax, no keyword or operator of the template syntax in a
   program *)
Definition lex_stable (ps : list pc) : bool :=
  match relex ps with LexOk ts => tks_eqb ts (toks ps) | _ => false end.

(* the tokens at which an expression in a delimited position ends: the end of
   the source, a closing or separating token, any token that is not an
   operator (the semicolon that the lexer adds, the closing braces of a
   template) *)
Definition stop_tok (o : option tk) : bool :=
  match o with
  | None => true
  | Some (KRP | KRBrack | KRBrace | KComma | KColon | KSemi | KEllipsis) => true
  | Some (KSym s) => negb (bytes_eqb s sym_not) && negb (is_some (klookup binary_tokens s))
  | Some _ => false
  end.

Definition first_tok (e : ex) : option tk :=
  match pp e with Some ps => hd_error (toks ps) | None => None end.

(* a unary operator is printed with a spelling that parseExpr maps back to it *)
Definition xun_ok (op : N) : bool :=
  match spell op_string op with
  | Some s =>
    negb (is_nil s) && no_byte 32 s &&
    (if bytes_eqb s sym_arrow then op =? op_receive
     else match klookup unary_tokens s with Some u => u =? op | None => false end)
  | None => false
  end.

(* a binary operator: one token of the binary table, or `not` `contains` *)
Definition xbin_ok (op : N) : bool :=
  match spell op_string op, bprec bin_prec op with
  | Some s, Some _ =>
    match split_sp s with
    | [w] => negb (is_nil w) && negb (bytes_eqb w sym_not) &&
             match klookup binary_tokens w with Some b => b =? op | None => false end
    | [w1; w2] => bytes_eqb w1 sym_not && bytes_eqb w2 sym_contains && (op =? op_not_contains)
    | _ => false
    end
  | _, _ => false
  end.

(* the operator is spelled with the token that a type may start with (tokenMultiplication) *)
Definition spelled_mul (op : N) : bool :=
  match spell op_string op with Some s => bytes_eqb s sym_mul | None => false end.

(* the type of an embedded field as parseField reads it: T, p.T, *T, *p.T *)
Definition embedded_ok (t : ex) : bool :=
  match t with
  | XUn _ op b => (op =? op_pointer) && spelled_mul op && base_ok b
  | _ => base_ok t
  end.

Definition op_first (op : N) : option tk :=
  match spell op_string op with
  | Some s => match split_sp s with w :: _ => Some (KSym w) | [] => None end
  | None => None
  end.

Definition starts_result_o (o : option tk) : bool :=
  match o with Some t => starts_result t | None => false end.

(* the token after each element of a list printed with separators *)
Definition sep_next (last : bool) (sep fin : tk) : option tk := Some (if last then fin else sep).

Fixpoint ok (ty el : bool) (e : ex) (nxt : option tk) {struct e} : bool :=
  (* the operand of a postfix form followed by t: not an operator [F1], not a default [F2] *)
  let post (x : ex) (t : tk) : bool :=
    negb (is_operator x) && negb (is_default x) && ok false el x (Some t) in
  (* a parameter list between parentheses: all named or all unnamed, the last one typed *)
  let plist (v : bool) (l : list param) : bool :=
    let named := match last l (None, None) with (Some _, _) => true | _ => false end in
    (fix go (l : list param) : bool :=
       match l with
       | [] => true
       | (name, t) :: r =>
         (if named then is_some name else negb (is_some name) && is_some t) &&
         (match t with
          | Some t' => ok true false t' (sep_next (is_nil r) KComma KRP)
          | None => negb (is_nil r)
          end) &&
         (* `...` only after the last of the parameters that share a type *)
         (match r with
          | [_] => if v then is_some t else true
          | _ => true
          end) &&
         go r
       end) l in
  match e with
  | XIdent _ a => negb (has_prefix itea a) && (if ty then negb (is_tok KPeriod nxt) else true)
  | XLit _ _ _ => negb ty
  | XUn _ op x =>
    xun_ok op && negb (is_default x) && (if ty then spelled_mul op else true) &&
    match np_un op x with
    | Some true => ok ty false x (Some KRP)
    | Some false =>
      negb ((op =? op_receive) && match first_tok x with Some (KKw WChan) => true | _ => false end) &&
      ok ty el x nxt
    | None => false
    end
  | XBin _ op l r =>
    negb ty && xbin_ok op && negb (is_default l) && negb (is_default r) &&
    match np_bin op l, np_bin op r with
    | Some bl, Some br =>
      (if bl then ok false false l (Some KRP) else ok false el l (op_first op)) &&
      (if br then ok false false r (Some KRP) else ok false el r nxt)
    | _, _ => false
    end
  | XCall _ f args v =>
    negb ty &&
    (if np_call f then ok false false f (Some KRP) else post f KLP) &&
    (if v then negb (is_nil args) else true) &&
    (fix go (l : list ex) : bool :=
       match l with
       | [] => true
       | a :: r => ok false false a (sep_next (is_nil r) KComma (if v then KEllipsis else KRP)) && go r
       end) args
  | XIndex _ x i => negb ty && post x KLBrack && ok false false i (Some KRBrack)
  | XSlicing _ x lo hi mx full =>
    negb ty && post x KLBrack && Bool.eqb full (is_some mx) &&
    (match lo with Some a => ok false false a (Some KColon) | None => true end) &&
    (match hi with Some a => ok false false a (Some (if is_some mx then KColon else KRBrack)) | None => true end) &&
    (match mx with Some a => ok false false a (Some KRBrack) | None => true end)
  | XSel _ x _ =>
    if ty then match x with XIdent _ a => negb (has_prefix itea a) | _ => false end
    else post x KPeriod
  | XTypeAssert _ x t =>
    negb ty && post x KPeriod &&
    match t with
    | None => false
    | Some t' => ok true false t' (Some KRP) &&
                 match first_tok t' with Some (KIdent a) => negb (bytes_eqb a [95]) | Some (KKw WType) => false | _ => true end
    end
  | XCompLit _ t kvs =>
    negb ty && (expanded || is_nil kvs) &&
    (match t with None => el | Some t' => post t' KLBrace end) &&
    (fix go (l : list (option ex * ex)) : bool :=
       match l with
       | [] => true
       | (k, v) :: r =>
         (match k with Some k' => ok false true k' (Some KColon) | None => true end) &&
         ok false true v (sep_next (is_nil r) KComma KRBrace) && go r
       end) kvs
  | XMap _ k v =>
    match k with
    | Some k' => ok true false k' (Some KRBrack) && ok true false v nxt
    | None => false
    end
  | XSlice _ e' => ok true false e' nxt
  | XArray _ len e' =>
    (match len with Some l => ok false false l (Some KRBrack) | None => true end) && ok true false e' nxt
  | XChan _ dir e' =>
    ((dir =? dir_none) || (dir =? dir_recv) || (dir =? dir_send)) &&
    negb ((dir =? dir_none) && match first_tok e' with Some (KSym s) => bytes_eqb s sym_arrow | _ => false end) &&   (* [F3] *)
    ok true false e' nxt
  | XFunc _ macro params results v =>
    (ty || macro || negb (is_tok KLBrace nxt)) &&
    (if v then match last params (None, None) with (_, Some _) => negb (is_nil params) | _ => false end else true) &&
    plist v params &&
    (if macro then
       match results with
       | [(None, Some (XIdent _ a))] => memb macro_results a && negb (has_prefix itea a)
       | _ => false
       end
     else
       match results with
       | [] => negb (starts_result_o nxt) && negb (is_tok KLP nxt)                       (* [N2] *)
       | [(None, Some t)] => starts_result_o (first_tok t) && ok true false t nxt          (* [N1] *)
       | [(None, None)] => false
       | _ => plist false results
       end)
  | XStruct _ fields =>
    (fix go (l : list field) : bool :=
       match l with
       | [] => true
       | (names, t, tag) :: r =>
         let after := if is_nil tag then (if is_nil r then KRBrace else KSemi)
                      else KLit lit_string (backquote tag) in
         forallb (fun a => negb (has_prefix itea a)) names &&
         (match names with
          | [] => embedded_ok t
          | _ :: _ => ok true false t (Some after)
          end) && go r
       end) fields
  | XInterface _ => true
  | XDefault _ l r =>
    negb ty && tmpl && default_left_ok l && ok false el l (Some (KKw WDefault)) && ok false false r nxt && stop_tok nxt
  | XRender _ path => negb ty && plain_path path && valid_path path
  | XFuncLit _ => false
  end.

(* the expressions of the theorem: the source is the printed form followed by
   a token nxt at which an expression ends (None: nothing follows), the
   parser is called as the statement parser calls it (canBeSwitchGuard =
   guard) *)
Definition printable (guard : bool) (nxt : option tk) (e : ex) : bool :=
  match pp e with
  | Some ps =>
    stop_tok nxt &&
    lex_stable ps &&                                                                       (* [F4] *)
    match e with
    | XTypeAssert _ x None =>
      guard && negb (is_operator x) && negb (is_default x) && ok false false x (Some KPeriod)
    | _ => ok false false e nxt
    end
  | None => false
  end.

(* the same for a type read with mustBeType *)
Definition printable_type (nxt : option tk) (e : ex) : bool :=
  match pp e with
  | Some ps => lex_stable ps && ok true false e nxt
  | None => false
  end.

End Ok.
