(* C20: the builder's add-if-absent pools with their limits, and operand
   encodings.  The encodings themselves are generated terms (Facts_limits);
   this file holds the hand-written pool model.  No proofs here. *)
From Verif Require Import GoInt Facts_limits.
Open Scope Z_scope.

Section Pool.
  Variable A : Type.
  Variable eqb : A -> A -> bool.

  Fixpoint index_of (v : A) (pool : list A) (i : Z) : option Z :=
    match pool with
    | [] => None
    | x :: r => if eqb v x then Some i else index_of v r (i + 1)
    end.

  (* makeStringValue / makeIntValue / makeFloatValue / addType / makeFieldIndex:
     return the index of an equal element if there is one; otherwise append,
     unless the pool already holds `max` elements: None = panic(LimitExceededError).
     addFunction / addNativeFunction always append (dedup = false). *)
  Definition pool_add (dedup : bool) (max : Z) (pool : list A) (v : A) : option (Z * list A) :=
    match (if dedup then index_of v pool 0 else None) with
    | Some i => Some (i, pool)
    | None =>
      let r := Z.of_nat (length pool) in
      if r =? max then None else Some (r, pool ++ [v])
    end.

  (* a history of adds; stops at the first limit error *)
  Fixpoint pool_adds (dedup : bool) (max : Z) (pool : list A) (vs : list A) : option (list Z * list A) :=
    match vs with
    | [] => Some ([], pool)
    | v :: r =>
      match pool_add dedup max pool v with
      | None => None
      | Some (i, pool') =>
        match pool_adds dedup max pool' r with
        | None => None
        | Some (is, pool'') => Some (i :: is, pool'')
        end
      end
    end.
End Pool.

(* newRegister: num == limit panics, otherwise the register is num+1 (stored as int8) *)
Definition new_register (limit num : Z) : option Z :=
  if num =? limit then None else Some (wrap I8 (num + 1)).

Definition hd1 (l : list (option Z)) : option Z := match l with x :: _ => x | [] => None end.
Definition nth1 (n : nat) (l : list (option Z)) : option Z := match nth_error l n with Some x => x | None => None end.
