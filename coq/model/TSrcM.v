(* The template calculus, source level: files with a format, extends, imports
   (alias, for list), macros (parameters, result format, defer/recover flag)
   and bodies of Text, Show and the value form {% var v = e %}{{ v }}, where
   an expression is a value of the expression language (abstract: an
   identifier whose rendering in each context is a parameter), a macro
   parameter, a macro call or render path.
   `lower` is what the compiler does: extends swapped into a dummy import of
   the extending file (checker.go), render lowered to the call of a dummy
   macro whose body is the rendered file (checkRender), the Show fast paths of
   emitter_statements.go (canOptimizeShowMacro, the render fast path), every
   other call rendered into a string and shown.  The result is a tree of the
   runtime calculus TCalcM.  No proofs here. *)
From Verif Require Import Bytes Facts_render Facts_escapers RendererM TCalcM.
Open Scope N_scope.

Inductive sarg := AVal (id : N) | AParam (i : nat).

Inductive sexp :=
| EVal (id : N)
| EParam (i : nat)
| ECall (alias : option N) (name : N) (args : list sarg)
| ERender (path : N).

Inductive snode :=
| SText (txt : bytes) (u isSet : bool)
| SShow (c : N) (e : sexp)
| SVarShow (c : N) (e : sexp).

Record smacro := mkMacro { m_name : N; m_fmt : N; m_nparams : nat; m_rec : bool; m_body : list snode }.
Record simport := mkImport { i_path : N; i_alias : option N; i_for : option (list N) }.
Record sfile := mkFile { f_fmt : N; f_extends : option N; f_imports : list simport;
                         f_macros : list smacro; f_rec : bool; f_body : list snode }.
Definition fileset := list (N * sfile).

Definition get_file (fs : fileset) (p : N) : option sfile := assoc_get fs p.

(* a scope entry: the name under which a macro is visible, and the file that declares it *)
(* e_local: the macro is declared in the body of a function (the main file, a
   layout, a rendered file: their macros are function literals held in
   variables), not at package level (imported files, the file that extends) *)
Record sentry := mkEntry { e_alias : option N; e_name : N; e_file : N; e_local : bool; e_macro : smacro }.

Definition own_entries (p : N) (f : sfile) (imported : bool) : list sentry :=
  map (fun m => mkEntry None (m_name m) p (negb imported) m) (f_macros f).

(* the macro called name is referred to in the body ns (a call without alias) *)
Definition mentions (name : N) (ns : list snode) : bool :=
  existsb (fun n => match n with
                    | SShow _ (ECall None x _) | SVarShow _ (ECall None x _) => x =? name
                    | _ => false
                    end) ns.

(* A macro held in a variable that another macro of the file refers to is
   captured by a closure: the variable is indirect (or non local) and
   canOptimizeShowMacro refuses the fast path for every call of it. *)
Definition captured (f : sfile) (name : N) : bool :=
  existsb (fun m => mentions name (m_body m)) (f_macros f).

Definition import_entries (fs : fileset) (i : simport) : list sentry :=
  match get_file fs (i_path i) with
  | None => []
  | Some g =>
    let ms := match i_for i with
              | None => f_macros g
              | Some names => filter (fun m => mem names (m_name m)) (f_macros g)
              end in
    map (fun m => mkEntry (i_alias i) (m_name m) (i_path i) false m) ms
  end.

(* the scope of the file at path p: its own macros, then what its imports make visible, in order *)
Definition scope_of (fs : fileset) (p : N) (imported : bool) : list sentry :=
  match get_file fs p with
  | None => []
  | Some f => own_entries p f imported ++ flat_map (import_entries fs) (f_imports f)
  end.

(* checker.go, typecheck: a file that extends a layout is transformed by
   swapping the files: the layout becomes the file that is compiled and gets,
   in front, a dummy import of the extending file with the identifier .
   (all its declarations, unqualified) *)
Fixpoint set_file (fs : fileset) (p : N) (f : sfile) : fileset :=
  match fs with
  | [] => []
  | (q, g) :: r => if q =? p then (q, f) :: r else (q, g) :: set_file r p f
  end.

Definition swap_extends (fs : fileset) (p l : N) : option fileset :=
  match get_file fs p, get_file fs l with
  | Some f, Some lf =>
    match f_extends lf, f_body f with
    | None, [] =>
      let f' := mkFile (f_fmt f) None (f_imports f) (f_macros f) (f_rec f) [] in
      let lf' := mkFile (f_fmt lf) None (mkImport p None None :: f_imports lf) (f_macros lf) (f_rec lf) (f_body lf) in
      Some (set_file (set_file fs p f') l lf')
    | _, _ => None      (* chains of extends and text in an extending file are outside the calculus *)
    end
  | _, _ => None
  end.

Definition opt_eqb (a b : option N) : bool :=
  match a, b with
  | None, None => true
  | Some x, Some y => x =? y
  | _, _ => false
  end.

Definition lookup (sc : list sentry) (alias : option N) (name : N) : option sentry :=
  find (fun e => opt_eqb (e_alias e) alias && (e_name e =? name)) sc.

(* the context of a context byte and whether it is inside a URL *)
Definition ctx_of (c : N) : N := match decode_ctx c with Some (ctx, _, _) => ctx | None => 15 end.

(* the fast path condition of the emitter (canOptimizeShowMacro, and the render
   fast path since its repair), as a formula; the generated tables
   gen_macro_fastpath and gen_render_fastpath are proved equal to it *)
Definition fast_path (from ctx : N) : bool :=
  (ctx <=? gen_ContextMarkdown) && ((from =? ctx) || ((from =? gen_FormatMarkdown) && (ctx =? gen_ContextHTML))).

(* lookup in a generated (format, context, taken) table *)
Definition tbl_fast (tbl : list (N * N * bool)) (from ctx : N) : bool :=
  existsb (fun t => match t with (f, c, b) => (f =? from) && (c =? ctx) && b end) tbl.

Section Lower.
  Variable vals : N -> N -> shown.      (* value identifier -> context byte -> what Show does with it *)
  Variable fs : fileset.
  (* the fast paths of the Show statement: for a macro call and for render, by (format, context) *)
  Variable mfast rfast : N -> N -> bool.

  Definition arg_id (params : list N) (a : sarg) : option N :=
    match a with
    | AVal id => Some id
    | AParam i => nth_error params i
    end.

  Fixpoint args_ids (params : list N) (args : list sarg) : option (list N) :=
    match args with
    | [] => Some []
    | a :: r =>
      match arg_id params a, args_ids params r with
      | Some x, Some xs => Some (x :: xs)
      | _, _ => None
      end
    end.

  (* None = out of fuel or a reference that does not resolve (such a file set does not build) *)
  Fixpoint lower_nodes (fuel : nat) (sc : list sentry) (params : list N) (ns : list snode) {struct fuel}
    : option (list tnode) :=
    match fuel with
    | O => None
    | S fuel' =>
      (* Some None = not a call; else the function, whether {{ e }} in the context byte c takes the
         fast path, and whether the macro is run as a native function value *)
      let callee (c : N) (e : sexp) : option (option (tfunc * bool * bool)) :=
        match e with
        | EVal _ | EParam _ => Some None
        | ECall alias name args =>
          match lookup sc alias name, args_ids params args with
          | Some en, Some ids =>
            if Nat.eqb (length ids) (m_nparams (e_macro en)) then
              match lower_nodes fuel' (scope_of fs (e_file en) (negb (e_local en))) ids (m_body (e_macro en)) with
              | Some body =>
                let cap := e_local en && match get_file fs (e_file en) with
                                         | Some g => captured g (e_name en)
                                         | None => false
                                         end in
                Some (Some (TFunc (m_fmt (e_macro en)) (m_rec (e_macro en)) body,
                            mfast (m_fmt (e_macro en)) (ctx_of c) && negb cap, cap))
              | None => None
              end
            else None
          | _, _ => None
          end
        | ERender p =>
          match get_file fs p with
          | Some f =>
            match f_extends f with
            | Some _ => None
            | None =>
              match lower_nodes fuel' (scope_of fs p false) [] (f_body f) with
              | Some body => Some (Some (TFunc (f_fmt f) (f_rec f) body, rfast (f_fmt f) (ctx_of c), false))
              | None => None
              end
            end
          | None => None
          end
        end in
      let value (e : sexp) : option N :=
        match e with
        | EVal id => Some id
        | EParam i => nth_error params i
        | _ => None
        end in
      match ns with
      | [] => Some []
      | n :: r =>
        let first : option tnode :=
          match n with
          | SText txt u s => Some (TText txt u s)
          | SShow c e =>
            match callee c e with
            | None => None
            | Some None =>
              match value e with Some id => Some (TShow c (vals id c)) | None => None end
            | Some (Some (TFunc fmt rec body, fast, native)) =>
              if fast then Some (TCall (TFunc fmt rec body) (ctx_of c))
              else Some (TCallShow (TFunc fmt rec body) c fmt native)
            end
          | SVarShow c e =>
            match callee c e with
            | None => None
            | Some None =>
              match value e with Some id => Some (TShow c (vals id c)) | None => None end
            | Some (Some (TFunc fmt rec body, _, native)) => Some (TCallShow (TFunc fmt rec body) c fmt native)
            end
          end in
        match first, lower_nodes fuel' sc params r with
        | Some x, Some xs => Some (x :: xs)
        | _, _ => None
        end
      end
    end.

  (* the main function of the template built from a file without extends *)
  Definition lower_plain (fuel : nat) (p : N) : option tfunc :=
    match get_file fs p with
    | None => None
    | Some f =>
      match f_extends f with
      | None =>
        match lower_nodes fuel (scope_of fs p false) [] (f_body f) with
        | Some body => Some (TFunc (f_fmt f) (f_rec f) body)
        | None => None
        end
      | Some _ => None
      end
    end.
End Lower.

(* the main function of the template built from the file at path p *)
Definition lower_main (vals : N -> N -> shown) (mfast rfast : N -> N -> bool) (fs : fileset) (fuel : nat) (p : N) : option tfunc :=
  match get_file fs p with
  | None => None
  | Some f =>
    match f_extends f with
    | None => lower_plain vals fs mfast rfast fuel p
    | Some l =>
      match swap_extends fs p l with
      | Some fs' => lower_plain vals fs' mfast rfast fuel l
      | None => None
      end
    end
  end.

(* ---------------------------------------------------------------- showing a rendered string *)

(* the write loop shared by htmlEscape and the other table driven escapers *)
Fixpoint esc_loop (tbl : list (N * bytes)) (s : bytes) (pend : bytes) : list bytes :=
  match s with
  | [] => match pend with [] => [] | _ => [pend] end
  | c :: r =>
    match assoc_get tbl c with
    | None => esc_loop tbl r (pend ++ [c])
    | Some rep => (match pend with [] => [] | _ => [pend] end) ++ rep :: esc_loop tbl r []
    end
  end.

(* Show of a string that has the format type ty (0 = string) in the context
   byte c, for the combinations the calculus covers: the context of the same
   format (the value is written as it is), Markdown in HTML (converted), any
   other format in HTML (escaped as a string) and in Text (written as it is).
   Anything else is outside the calculus: error 999. *)
Definition showf_model (conv : option (bytes -> list bytes)) (c ty : N) (s : bytes) : shown :=
  match decode_ctx c with
  | Some (ctx, false, _) =>
    if ctx =? ty then mkShown [s] None None
    else if (ctx =? gen_ContextHTML) && (ty =? gen_FormatMarkdown) then
      match conv with
      | Some cv => mkShown (cv s) None None
      | None => mkShown (esc_loop gen_htmlEscape_tbl s []) None None
      end
    else if ctx =? gen_ContextHTML then mkShown (esc_loop gen_htmlEscape_tbl s []) None None
    else if ctx =? gen_ContextText then mkShown [s] None None
    else mkShown [] (Some 999) None
  | _ => mkShown [] (Some 999) None
  end.

(* the converter configured by the harness: three Write calls *)
Definition harness_conv (s : bytes) : list bytes := [[60; 109; 100; 62]; s; [60; 47; 109; 100; 62]].

(* build and run: lower the file set and run the main function with the writer w *)
Definition build_and_run (vals : N -> N -> shown) (fs : fileset) (conv : option (bytes -> list bytes))
           (fuel : nat) (main : N) (w : writer) : option (wst * run_result) :=
  match lower_main vals (tbl_fast gen_macro_fastpath) (tbl_fast gen_render_fastpath) fs fuel main with
  | None => None
  | Some f => Some (run_main (showf_model conv) conv gen_conv_error_is_fatal w f)
  end.
