(* Checked indexing and slicing of byte strings, shared by the models of the
   md engine: s[i] and s[a:b] yield None where Go would panic. *)
From Verif Require Import Bytes.
Open Scope N_scope.

(* s[i] *)
Definition get (s : bytes) (i : N) : option N := nth_error s (N.to_nat i).

(* s[a:b]; None when not a <= b <= len s *)
Definition slice (s : bytes) (a b : N) : option bytes :=
  if (a <=? b) && (b <=? nlen s)
  then Some (firstn (N.to_nat (b - a)) (skipn (N.to_nat a) s))
  else None.

Definition assoc_list (l : list (N * list N)) (c : N) : list N :=
  match assoc_get l c with Some x => x | None => [] end.
