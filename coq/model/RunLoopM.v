(* Model of the outcome algebra of internal/runtime: runFunc / runRecoverable
   (run.go), convertPanic (errors.go) and VM.Run (vm.go).  The interpreter
   loop itself is abstract: an execution is a stream of segments, one per call
   of runRecoverable, each saying how vm.run ended (returned, context done, or
   a raw Go panic raised by an instruction, with its payload).  The message
   rules of convertPanic are the generated table gen_convertPanic_rules; the
   structural cases (stopError, outError, OpCallNative, OpCallIndirect of a
   native function, OpGo, OpPanic, the final runtimeError test) are written
   from the code.  No proofs here. *)
From Verif Require Import Bytes Facts_render.
Open Scope N_scope.

(* dynamic type of the value passed to panic *)
Inductive pkind :=
| KStop            (* stopError (env.Stop) *)
| KOut             (* outError (failed write or show) *)
| KFatal           (* *fatalError (env.Fatal, missing converter) *)
| KPanicError      (* *PanicError: the panics of a Scriggo function called back by native code *)
| KScriggoRuntime  (* runtimeError, the type of the runtime errors raised by the VM itself *)
| KGoRuntime       (* a runtime.Error of the Go runtime *)
| KString          (* a string (the panics of package reflect) *)
| KError           (* any other error value *)
| KOther.          (* any other value *)

Record payload := mkP { p_kind : pkind; p_msg : bytes; p_id : N }.

(* what convertPanic returns, or that it faults itself *)
Inductive conv :=
| CStop (e : N)                  (* the stopError, returned as it is *)
| CPanic (out : option N)        (* a *PanicError; Some e when its message is outError{e} *)
| CFatal (wrapped : bool)        (* a *fatalError: the payload itself (false) or a new one around the payload (true) *)
| CError (e : N)                 (* OpGo: the error is returned as it is *)
| CFault.                        (* nil pointer dereference inside convertPanic (vm.fn == nil): before fix 6756254 *)

Fixpoint prefixb (p s : bytes) : bool :=
  match p, s with
  | [], _ => true
  | x :: p', y :: s' => (x =? y) && prefixb p' s'
  | _, [] => false
  end.

Definition kind_code (k : pkind) : option N :=
  match k with KGoRuntime => Some 0 | KString => Some 1 | _ => None end.

(* one of the generated message rules applies to the operation and the payload *)
Definition rule_matches (op : Z) (p : payload) : bool :=
  existsb (fun r : list Z * N * bool * list N => match r with
    | (ops, k, pre, lit) =>
      existsb (Z.eqb op) ops &&
      match kind_code (p_kind p) with
      | Some c => (c =? k) && (if pre then prefixb lit (p_msg p) else bytes_eqb lit (p_msg p))
      | None => false
      end
    end) gen_convertPanic_rules.

(* callee_native: for OpCallIndirect, the called value is a native function (f.fn == nil).
   fn_nil (vm.fn == nil) or the Return as current instruction: the panic comes
   from a deferred native function called by nextCall and is converted as the
   panic of a native function called by an instruction; vm.newPanic gives it no
   position.  The result CFault (a nil pointer dereference inside convertPanic)
   is no longer produced. *)
Definition convert (fn_nil : bool) (op : Z) (callee_native : bool) (p : payload) : conv :=
  match p_kind p with
  | KStop => CStop (p_id p)
  | KOut => CPanic (Some (p_id p))
  | KPanicError => CPanic None          (* returned as it is: runFunc links vm.panic after its last record *)
  | k =>
    let op := if fn_nil || Z.eqb op gen_OpReturn then gen_OpCallNative else op in
    if rule_matches op p then CPanic None
    else
      let bottom := match k with KScriggoRuntime => CPanic None | _ => CFatal true end in
      if (Z.eqb op gen_OpCallNative) || (Z.eqb op gen_OpCallIndirect && callee_native) then
        match k with
        | KScriggoRuntime => bottom
        | KFatal => CFatal false
        | KGoRuntime => bottom
        | _ => CPanic None
        end
      else if Z.eqb op gen_OpGo then
        match k with
        | KFatal => CFatal false             (* returned as an error; VM.Run panics with its message *)
        | KScriggoRuntime | KGoRuntime | KError => CError (p_id p)
        | _ => bottom
        end
      else if Z.eqb op gen_OpPanic then CPanic None
      else bottom
  end.

(* how one call of runRecoverable ends *)
Inductive seg :=
| SgReturn (recovered : nat)      (* vm.run returned; nextCall removed `recovered` panics from the chain *)
| SgDone                          (* the context is done: vm.stop() *)
| SgRaise (in_nextcall : bool)    (* raised by a deferred native call run by nextCall before vm.run *)
          (op : Z) (callee_native : bool) (p : payload)
          (frames : nat).         (* len(vm.calls) when the panic is caught *)

(* the error runFunc returns *)
Inductive ferr :=
| FNil
| FPanicError (head_out : option N)   (* vm.panic; Some e when the message of the head is outError{e} *)
| FCtx                                (* vm.env.ctx.Err() *)
| FStop (e : N)
| FFatal (wrapped : bool)
| FError (e : N)
| FConvertFault                       (* the deferred function of runRecoverable panicked: leaves Run as a Go runtime panic *)
| FOutOfSegments.                     (* the stream ended: excluded by the theorems *)

(* chain: the messages of vm.panic, head first (Some e = outError e) *)
Definition finish (has_ctx done : bool) (chain : list (option N)) : ferr :=
  if has_ctx && done then FCtx
  else match chain with
       | [] => FNil
       | h :: _ => FPanicError h
       end.

(* runFunc: fn_nil = vm.fn == nil (set after a PanicError when frames remain) *)
Fixpoint run_func (has_ctx done_at_end : bool) (fn_nil : bool) (chain : list (option N)) (segs : list seg) : ferr :=
  match segs with
  | [] => FOutOfSegments
  | SgReturn rec :: _ => finish has_ctx done_at_end (skipn rec chain)
  | SgDone :: _ => finish has_ctx true chain
  | SgRaise in_next op cn p frames :: r =>
    match convert (fn_nil && in_next) op cn p with
    | CPanic out =>
      let chain' := out :: chain in
      if Nat.eqb frames 0 then finish has_ctx done_at_end chain'
      else run_func has_ctx done_at_end true chain' r
    | CStop e => FStop e
    | CFatal wr => FFatal wr
    | CError e => FError e
    | CFault => FConvertFault
    end
  end.

(* VM.Run *)
Inductive run_res :=
| RRNil
| RRPanicError                    (* a *PanicError (wrapped by Program.Run / Template.Run) *)
| RROutError (e : N)              (* the error of the writer or of Show *)
| RRCtx
| RRStop (e : N)                  (* the argument of env.Stop *)
| RRError (e : N)                 (* an error returned as it is (go of a nil function) *)
| RRHostPanicFatal (wrapped : bool)   (* Run panics with the message of a fatalError *)
| RRHostPanicGo                   (* Run panics with a Go runtime error *)
| RRStuck.

Definition vm_run (has_ctx done_at_end : bool) (segs : list seg) : run_res :=
  match run_func has_ctx done_at_end false [] segs with
  | FNil => RRNil
  | FPanicError (Some e) => RROutError e
  | FPanicError None => RRPanicError
  | FCtx => RRCtx
  | FStop e => RRStop e
  | FFatal wr => RRHostPanicFatal wr
  | FError e => RRError e
  | FConvertFault => RRHostPanicGo
  | FOutOfSegments => RRStuck
  end.

(* no raw panic is raised by a deferred native call while vm.fn is nil,
   except env.Stop: the case convertPanic did not survive before fix 6756254
   (kept for the record: the theorems no longer need it) *)
Definition seg_ok (s : seg) : bool :=
  match s with
  | SgRaise true _ _ p _ => match p_kind p with KStop => true | _ => false end
  | _ => true
  end.

Fixpoint ends (segs : list seg) : bool :=   (* the stream contains a segment that ends the loop for sure *)
  match segs with
  | [] => false
  | SgReturn _ :: _ | SgDone :: _ => true
  | SgRaise _ _ _ _ frames :: r => Nat.eqb frames 0 || ends r
  end.
