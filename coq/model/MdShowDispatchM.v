(* Model of renderer.Show in the three Markdown contexts (not in a URL):
   the routing context -> show function and the type dispatch of
   showInMarkdown / showInMarkdownCodeBlock are the tables generated from
   renderer.go (Facts_mdshow); the escapers are the models of MarkdownM.
   What a method of the shown value returns (String, Error, Markdown, HTML) and
   what toString formats are external: they enter as the function v_text.
   No proofs here. *)
From Verif Require Import Bytes ShowTree MdShowM Facts_mdshow Facts_md MarkdownM.
Open Scope N_scope.

Inductive showres :=
| ROk (out : bytes)        (* the bytes written *)
| RCannotShow              (* cannot show value of type ...: nothing written *)
| REscErr (code : N)       (* error of markdownEscape in HTML mode: 1 comment, 2 CDATA not closed *)
| RFault
| RFuel
| RStuck.

Definition of_mres (r : mres) : showres :=
  match r with
  | MOk o => ROk o
  | MErr c => REscErr c
  | MFault => RFault
  | MFuel => RFuel
  end.

Definition md_apply (text : mdsrc -> bytes) (o : mdout) : showres :=
  match o with
  | MWrite s => ROk (text s)
  | MEscape s h => of_mres (markdownEscape (text s) h)
  | MCode s sp => of_mres (markdownCodeBlockEscape (text s) sp)
  | MCannot => RCannotShow
  | MPanic => RFault
  | MStuck => RStuck
  end.

Definition md_table (r : mdroute) : list (N * mdtree) :=
  match r with
  | RParagraph => gen_showInMarkdown_tbl
  | RCodeBlock false => gen_showInMarkdownCodeBlock_tab_tbl
  | RCodeBlock true => gen_showInMarkdownCodeBlock_spaces_tbl
  end.

Definition md_dispatch (val : atom -> bool) (kind : N) (r : mdroute) : mdout :=
  md_eval val (md_assoc (md_table r) kind).

Definition md_show_with (val : atom -> bool) (text : mdsrc -> bytes) (kind : N) (r : mdroute) : showres :=
  md_apply text (md_dispatch val kind r).

(* a shown value as the dispatch sees it: its reflect.Kind, one flag bit per
   interface / well known type (numbering of ShowTree), and its strings *)
Record mdvalue := { v_kind : N; v_flags : N; v_text : mdsrc -> bytes }.

Definition md_val (kind flags : N) (a : atom) : bool :=
  match a with
  | AImpl PSelf i => N.testbit flags i
  | AIs PSelf w => N.testbit flags w
  | ANilValue => kind =? 0
  | _ => false
  end.

(* renderer.Show(env, v, ctx) with inURL = false, ctx one of the Markdown contexts *)
Definition md_show (ctx : N) (v : mdvalue) : showres :=
  match route_assoc gen_md_route ctx with
  | None => RStuck
  | Some r => md_show_with (md_val (v_kind v) (v_flags v)) (v_text v) (v_kind v) r
  end.

(* for the extracted driver and the in-Coq cross-check: one text per source *)
Definition md_texts (tv tt ts tse te tm tme th the : bytes) (s : mdsrc) : bytes :=
  match s with
  | SValue => tv
  | SToString => tt
  | SString false => ts
  | SString true => tse
  | SError => te
  | SMarkdown false => tm
  | SMarkdown true => tme
  | SHTML false => th
  | SHTML true => the
  end.

Definition md_show_flat (ctx kind flags : N) (tv tt ts tse te tm tme th the : bytes) : showres :=
  md_show ctx {| v_kind := kind; v_flags := flags; v_text := md_texts tv tt ts tse te tm tme th the |}.
