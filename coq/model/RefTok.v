(* A small reference tokenizer for the fragment "text, tags with quoted
   attributes, script and style elements with the end tag rule", written from
   the HTML standard's tokenizer states (data, tag open, tag name, before
   attribute name, attribute name, before attribute value, attribute value
   double/single quoted, script data / raw text with the end tag test) and the
   string literals of JavaScript and CSS, run over a TEMPLATE source: a show
   {{ ... }} is one opaque placeholder that stands for character data of the
   state it is met in.  It records the state at every show.  Spec side of C06
   layer (B): independent of the lexer model (it shares only the generated
   token and context numbers).  No proofs here. *)
From Verif Require Import Bytes Utf8 Facts_lexer LexBase LexCodeM LexerM LexTables.
Open Scope N_scope.

Inductive rstate : Type :=
| RData
| RTagName (name : bytes)                         (* after "<" and a letter *)
| RInTag (tag : bytes)                            (* before an attribute name *)
| RAttrName (tag attr : bytes)
| RAfterName (tag attr : bytes)                   (* after the name, before "=" *)
| RBeforeValue (tag attr : bytes)
| RValue (tag attr : bytes) (quote : N)           (* 34 or 39 *)
| RRaw (elem : bytes) (quote : N)                 (* script or style body; quote: 0 code, 34/39 inside a string *)
| ROutside.                                       (* left the fragment *)

Definition lower (c : N) : N := if (65 <=? c) && (c <=? 90) then c + 32 else c.
Definition is_letter (c : N) : bool := let d := lower c in (97 <=? d) && (d <=? 122).
Definition is_ws (c : N) : bool := (c =? 9) || (c =? 10) || (c =? 12) || (c =? 13) || (c =? 32).

(* the end tag of a raw text element in front: "</", the name, a terminator *)
Definition end_tag_here (elem : bytes) (s : bytes) : bool :=
  match s with
  | 60 :: 47 :: r =>
    bytes_eqb (map lower (firstn (length elem) r)) elem &&
    match nth_error r (length elem) with Some c => is_ws c || (c =? 47) || (c =? 62) | None => false end
  | _ => false
  end.

(* the context the lexer should give to a show met in state st *)
Definition ctx_of (st : rstate) : option N :=
  match st with
  | RData => Some gen_ContextHTML
  | RValue _ _ _ => Some gen_ContextQuotedAttr
  | RRaw elem q =>
    if bytes_eqb elem s_script then Some (if q =? 0 then gen_ContextJS else gen_ContextJSString)
    else Some (if q =? 0 then gen_ContextCSS else gen_ContextCSSString)
  | _ => None
  end.

(* one step on the byte c with the rest of the source r after it; returns the
   new state and how many further bytes are consumed *)
Definition rstep (st : rstate) (c : N) (r : bytes) : rstate * nat :=
  match st with
  | RData =>
    if c =? 60 then
      match r with
      | d :: _ => if is_letter d then (RTagName [], 0%nat)
                  else if (d =? 47) || (d =? 33) || (d =? 63) then (ROutside, 0%nat)   (* end tags, comments, declarations: outside *)
                  else (RData, 0%nat)
      | [] => (RData, 0%nat)
      end
    else (RData, 0%nat)
  | RTagName name =>
    if is_ws c then (RInTag name, 0%nat)
    else if c =? 62 then
      (if bytes_eqb name s_script || bytes_eqb name s_style then RRaw name 0 else RData, 0%nat)
    else if is_letter c || ((48 <=? c) && (c <=? 57)) || (c =? 45) then (RTagName (name ++ [lower c]), 0%nat)
    else (ROutside, 0%nat)
  | RInTag tag =>
    if is_ws c then (RInTag tag, 0%nat)
    else if c =? 62 then (if bytes_eqb tag s_script || bytes_eqb tag s_style then RRaw tag 0 else RData, 0%nat)
    else if is_letter c then (RAttrName tag [lower c], 0%nat)
    else (ROutside, 0%nat)
  | RAttrName tag attr =>
    if (bytes_eqb tag s_script || bytes_eqb tag s_style) && bytes_eqb attr s_type then (ROutside, 0%nat)   (* typed script and style elements: outside *)
    else if c =? 61 then (RBeforeValue tag attr, 0%nat)
    else if is_ws c then (RAfterName tag attr, 0%nat)
    else if c =? 62 then (if bytes_eqb tag s_script || bytes_eqb tag s_style then RRaw tag 0 else RData, 0%nat)
    else if is_letter c || (c =? 45) then (RAttrName tag (attr ++ [lower c]), 0%nat)
    else (ROutside, 0%nat)
  | RAfterName tag attr =>
    if is_ws c then (RAfterName tag attr, 0%nat)
    else if c =? 61 then (RBeforeValue tag attr, 0%nat)
    else (ROutside, 0%nat)                       (* attributes without value followed by others: outside *)
  | RBeforeValue tag attr =>
    if is_ws c then (RBeforeValue tag attr, 0%nat)
    else if (c =? 34) || (c =? 39) then (RValue tag attr c, 0%nat)
    else (ROutside, 0%nat)                       (* unquoted values: outside *)
  | RValue tag attr q =>
    if c =? q then (RInTag tag, 0%nat) else (RValue tag attr q, 0%nat)
  | RRaw elem q =>
    if (c =? 60) && end_tag_here elem (c :: r) then (ROutside, 0%nat)   (* after the end tag: stop (one element per document in the fragment) *)
    else if q =? 0 then
      if (c =? 34) || (c =? 39) then (RRaw elem c, 0%nat)
      else if (c =? 47) || (c =? 92) || (c =? 96) then (ROutside, 0%nat)   (* comments, regular expressions, escapes in code, template literals: outside *)
      else (RRaw elem 0, 0%nat)
    else
      if c =? 92 then
        match r with
        | d :: _ => if (d =? 10) || (d =? 13) || (d =? 123) then (ROutside, 0%nat) else (RRaw elem q, 1%nat)
        | [] => (ROutside, 0%nat)
        end
      else if c =? q then (RRaw elem 0, 0%nat)
      else if (c =? 10) || (c =? 13) then (ROutside, 0%nat)
      else (RRaw elem q, 0%nat)
  | ROutside => (ROutside, 0%nat)
  end.

(* skips a show: the bytes up to and including the first "}}" *)
Fixpoint skip_show (s : bytes) : option bytes :=
  match s with
  | 125 :: 125 :: r => Some r
  | c :: r => if (c =? 123) || (c =? 34) || (c =? 96) || (c =? 39) then None else skip_show r
  | [] => None
  end.

(* runs over the source; (offset of "{{", expected context) for every show met
   while inside the fragment; None as soon as the fragment is left *)
Fixpoint ref_run (fuel : nat) (st : rstate) (off : N) (s : bytes) (acc : list (N * N)) : option (list (N * N)) :=
  match fuel with
  | O => None
  | S f =>
    match s with
    | [] => match st with ROutside => None | _ => Some (rev acc) end
    | c :: r =>
      match st with
      | ROutside => None
      | _ =>
        if (c =? 123) && match r with 123 :: _ => true | _ => false end then
          match ctx_of st, skip_show (skipn 1 r) with
          | Some cx, Some r' => ref_run f st (off + (nlen s - nlen r')) r' ((off, cx) :: acc)
          | _, _ => None
          end
        else if (c =? 123) && match r with 37 :: _ | 35 :: _ => true | _ => false end then None
        else
          let '(st', k) := rstep st c r in
          match st' with
          | ROutside =>
            (* the end of a raw text element ends the fragment successfully when nothing but text follows *)
            match st with
            | RRaw elem _ =>
              (* the end tag: skip to its ">" and go on in the data state *)
              if (c =? 60) && end_tag_here elem (c :: r) then
                (* "/" or FF after the name end the tag for a browser and not for the lexer
                   (known finding end-tag-slash-or-formfeed): outside the fragment *)
                if match nth_error r (S (length elem)) with Some t => (t =? 47) || (t =? 12) | None => false end then None else
                match index_byte r 62 with
                | Some k => ref_run f RData (off + 1 + k + 1) (drop (k + 1) r) acc
                | None => Some (rev acc)
                end
              else None
            | _ => None
            end
          | _ => ref_run f st' (off + 1 + N.of_nat k) (skipn k r) acc
          end
      end
    end
  end.

Definition ref_contexts (src : bytes) : option (list (N * N)) := ref_run (S (length src)) RData 0 src [].

(* the contexts the lexer model gives to the shows: (start of "{{", context) *)
Definition lexer_contexts (toks : list token) : list (N * N) :=
  map (fun t => (t_start t, t_ctx t)) (filter (fun t => t_typ t =? gen_tokenLeftBraces) toks).

Fixpoint same_pairs (a b : list (N * N)) : bool :=
  match a, b with
  | [], _ => true
  | (o, c) :: a', (o', c') :: b' => (o =? o') && (c =? c') && same_pairs a' b'
  | _ :: _, [] => false
  end.

(* lexer_ctx_sim on one source: inside the fragment the contexts agree *)
Definition ctx_sim_ok (src : bytes) : bool :=
  match ref_contexts src with
  | None => true
  | Some want =>
    match scan_template go_unicode false gen_ContextHTML src with
    | Done toks None => same_pairs want (lexer_contexts toks)
    | Done _ (Some _) => true     (* the lexer rejects the template *)
    | _ => false
    end
  end.

(* for the driver: "1" agree or outside the fragment, "0" disagree *)
Definition ctx_sim_case (src : bytes) : option bytes := Some [if ctx_sim_ok src then 49 else 48].
(* "1" when the source is inside the fragment and has a show *)
Definition ctx_frag_case (src : bytes) : option bytes :=
  Some [match ref_contexts src with Some (_ :: _) => 49 | _ => 48 end].
