(* Extraction of the syntax tree engine (ExtrOcamlBasic only). *)
Require Extraction.
Require Import ExtrOcamlBasic.
From Verif Require Import Bytes AstSchema Facts_Ast AstTreeM AstTreeSpec AstTreeInst Facts_AstOps ExprPrintParseM ExprPrintParseInst Facts_AstPrim ExprFullM ExprFullOk ExprFullInst.
Extraction "ast_model.ml" ast_clone ast_walk kind_by_name field_by_name ast_decl_of ast_field_of max_id ids erase ast_hyp ast_no_clone_exception c27_wf c27_print_string c27_roundtrip c27_parse x_show x_pp x_relex x_pexpr x_parse_top x_roundtrip x_printable x_printable_type fuel_of.
