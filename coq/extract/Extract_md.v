(* Extraction of the Markdown engine (ExtrOcamlBasic only; N, positive, nat and Z stay Coq datatypes). *)
Require Extraction.
Require Import ExtrOcamlBasic.
From Verif Require Import Bytes IndexM MarkdownM MarkdownSpec LinkDestM LinkDestSpec.
Extraction "md_model.ml" markdownEscape markdownCodeBlockEscape esc_doc md_unescape nbsp_norm cb_spec
  applyReplacements markdownURLEscape markdownUnescape url_escape url_unescape.
