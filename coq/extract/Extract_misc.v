(* Extraction of the engine `misc` (ExtrOcamlBasic only; N, positive, nat and Z stay Coq datatypes). *)
Require Extraction.
Require Import ExtrOcamlBasic.
From Verif Require Import Bytes Utf8 MiscRunes BuiltinM ScopeM ScopeHistM.
Extraction "misc_model.ml" QueryEscape only_json_ws trim_json_space Abbreviate Capitalize
  CapitalizeAll_runes ToKebab_runes rune_count decode_all check combined run.
