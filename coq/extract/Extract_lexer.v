(* Extraction of the template lexer engine (ExtrOcamlBasic only). *)
Require Extraction.
Require Import ExtrOcamlBasic.
From Verif Require Import Bytes Utf8 LexBase LexCodeM LexerM LexTables LexPos CutM CutSpec RefTok RefTok2.
Extraction "lexer_model.ml" lex_case lexprog_case lex_devs pos_case posprog_case cut_case tiles_case ctx_sim_case ctx_frag_case ctx_sim2_case.
