(* Extraction of the engine `paths` (ExtrOcamlBasic only; N, positive and nat stay Coq datatypes). *)
Require Extraction.
Require Import ExtrOcamlBasic.
From Verif Require Import Bytes PathsM ExpandM VarsM.
Extraction "paths_model.ml" clean path_join path_dir is_abs fs_valid valid_template_path rooted
  parse_template cycle_message run_model emit_prog used_vars.
