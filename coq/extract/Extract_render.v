(* Extraction of the render engine (ExtrOcamlBasic only; N, positive, nat and Z stay Coq datatypes). *)
Require Extraction.
Require Import ExtrOcamlBasic.
From Verif Require Import Bytes RendererM TCalcM TSrcM.
Extraction "render_model.ml" r_op r0 w0 mkShown is_fault op_ok pathEscape queryEscape path_escape_quoted_bytes path_escape_unquoted_bytes query_escape_bytes build_and_run harness_conv mkMacro mkImport mkFile.
