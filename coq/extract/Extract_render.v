(* Extraction of the render engine (ExtrOcamlBasic only; N, positive, nat and Z stay Coq datatypes). *)
Require Extraction.
Require Import ExtrOcamlBasic.
From Coq Require Import NArith ZArith.
From Verif Require Import Bytes Facts_render RendererM TCalcM TSrcM RunLoopM.
(* the show functions (C05): imported after the renderer models so that their names keep their spelling *)
From Verif Require Import ShowTree Facts_show ShowTypesM ShowJsonM ShowClassM.
(* the show functions as write programs (C13) *)
From Verif Require Import WriteProgM.
(* the reference decoder of URL attributes and the query position rule (C07) *)
From Verif Require Import UrlRefM.
Extraction "render_model.ml" r_op r0 w0 mkShown is_fault op_ok pathEscape queryEscape path_escape_quoted_bytes path_escape_unquoted_bytes query_escape_bytes build_and_run harness_conv mkMacro mkImport mkFile vm_run mkP gen_OpAdd gen_OpAddr gen_OpIndex gen_OpIndexRef gen_OpSetSlice gen_OpAppendSlice gen_OpCallIndirect gen_OpCallNative gen_OpClose gen_OpConvert gen_OpDelete gen_OpMapIndex gen_OpMapIndexAny gen_OpDivInt gen_OpDiv gen_OpRemInt gen_OpRem gen_OpGo gen_OpIf gen_OpIndexString gen_OpMakeChan gen_OpMakeSlice gen_OpPanic gen_OpSend gen_OpSetMap gen_OpSlice gen_OpStringSlice gen_OpReturn gen_OpCallMacro gen_OpShow gen_OpText
  show_class N.add N.mul Z.of_N Z.opp
  show_prog show_view run_shown
  url_ref_decode query_position.
