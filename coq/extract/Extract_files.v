(* Extraction of engine `files` (C22 native package lookups, C23 Files as io/fs).
   ExtrOcamlBasic only; N, positive, nat and Z stay Coq datatypes. *)
Require Extraction.
Require Import ExtrOcamlBasic.
From Verif Require Import Bytes WireM LookupM LookupWireM FilesFSM FilesWireM.
Extraction "files_model.ml" c22_lookupfunc c22_lookup c22_import c23_history c23_valid.
