(* Extraction of the vmexec engine (ExtrOcamlBasic only; Z, N, positive, nat stay Coq datatypes). *)
Require Extraction.
Require Import ExtrOcamlBasic.
From Coq Require Import ZArith.
From Verif Require Import GoInt Facts_alu VmBase Facts_vmexec AluM VmExecM MiniGoSem EmitExprM.
Extraction "vmexec_model.ml" compile_func run_prog vm_exec out_of vm_step init_state kind_ity wrap
  gen_kind_Bool gen_kind_Int gen_kind_Int8 gen_kind_Int16 gen_kind_Int32 gen_kind_Int64
  gen_kind_Uint gen_kind_Uint8 gen_kind_Uint16 gen_kind_Uint32 gen_kind_Uint64 gen_kind_Uintptr gen_x_kind_String
  Z.add Z.mul Z.opp Z.quotrem Z.ltb Z.eqb Z.of_N N.add Nat.add.
