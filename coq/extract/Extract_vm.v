(* Extraction of the vm engine (ExtrOcamlBasic only; N, positive, nat stay Coq datatypes). *)
Require Extraction.
Require Import ExtrOcamlBasic.
From Verif Require Import FramesM FramesCodec CancelM RegsM.
Extraction "vm_model.ml" frames_case gospec_case cancel_case spawn_case.
