(* Extraction of the constant arithmetic engine (ExtrOcamlBasic only; N, positive, nat and Z stay Coq datatypes;
   the text protocol, including decimal printing, is the Coq function consts_handle). *)
Require Extraction.
Require Import ExtrOcamlBasic.
From Verif Require Import Bytes ConstsM ConstEvalM ConstsIO.
Extraction "consts_model.ml" consts_handle consts_line.
