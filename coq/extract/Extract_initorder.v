Require Extraction.
Require Import ExtrOcamlBasic.
From Coq Require Import NArith.
From Verif Require Import Bytes InitOrderM.
Extraction "initorder_model.ml" sc_order go_order fdeps N.add Nat.add.
