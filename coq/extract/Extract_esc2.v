(* Extraction of the engine esc2: the URL attribute machine and the Tag context
   (ExtrOcamlBasic only; N, positive, nat stay Coq datatypes). *)
Require Extraction.
Require Import ExtrOcamlBasic.
From Verif Require Import Bytes Utf8 HtmlDecode RendererM UrlStepM TagM.
Extraction "esc2_model.ml"
  url_step url_run url_attr_out enc_step query_pos shown_text u0 mkA mkU
  showInTag_text trun bad_ranges tag_bad_rune.
