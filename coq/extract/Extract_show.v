(* Extraction of the show engine (ExtrOcamlBasic only; N, positive, nat and Z stay Coq datatypes). *)
Require Extraction.
Require Import ExtrOcamlBasic.
From Coq Require Import NArith ZArith.
From Verif Require Import Bytes ShowTree Facts_show ShowTypesM ShowJsonM.
Extraction "show_model.ml" static_ok static_rec show_any show_top has_typeb boxed_okb closedb N.add N.mul Z.of_N Z.opp.
