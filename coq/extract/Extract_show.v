(* Extraction of the show engine (ExtrOcamlBasic only; N, positive, nat and Z stay Coq datatypes). *)
Require Extraction.
Require Import ExtrOcamlBasic.
From Coq Require Import NArith ZArith.
From Verif Require Import Bytes ShowTree Facts_show Facts_escapers ShowTypesM ShowJsonM ShowLeavesM Json ShowSpecM.
Extraction "show_model.ml" static_ok static_rec show_any show_top has_typeb boxed_okb closedb wf_tyb concrete json_of_top json_print json_parse js_parse N.div_eucl N.add N.mul Z.of_N Z.opp.
