(* Extraction of the limits engine (ExtrOcamlBasic only). *)
Require Extraction.
Require Import ExtrOcamlBasic.
From Coq Require Import ZArith.
From Verif Require Import GoInt Facts_limits LimitsM.
Definition pool_add_Z := pool_add Z Z.eqb.
Extraction "limits_model.ml" pool_add_Z new_register
  gen_pool_Type gen_pool_NativeFunction gen_pool_Function gen_pool_StringValue gen_pool_GeneralValue
  gen_pool_FloatValue gen_pool_IntValue gen_pool_FieldIndex gen_newRegister_limit
  gen_c_encodeInt16 gen_r_decodeInt16 gen_c_encodeUint16 gen_r_decodeUint16 gen_c_encodeUint24 gen_r_decodeUint24
  gen_c_encodeValueIndex gen_r_decodeValueIndex
  Z.add Z.mul Z.opp Z.quotrem Z.ltb Z.eqb Z.of_N N.add Nat.add.
