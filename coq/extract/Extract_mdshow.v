(* Extraction of the Markdown show dispatch engine (ExtrOcamlBasic only; N, positive, nat and Z stay Coq datatypes). *)
Require Extraction.
Require Import ExtrOcamlBasic.
From Verif Require Import Bytes ShowTree MdShowM Facts_mdshow MarkdownM MdShowDispatchM.
Extraction "mdshow_model.ml" md_show_flat.
