(* Extraction of the ALU engine (ExtrOcamlBasic only; Z stays the Coq datatype). *)
Require Extraction.
Require Import ExtrOcamlBasic.
From Coq Require Import ZArith.
From Verif Require Import GoInt Facts_alu AluM.
Extraction "alu_model.ml" vm_binop vm_neg vm_subinv vm_convert vm_cmp cmp kind_ity wrap canon bin un
  Z.add Z.mul Z.opp Z.quotrem Z.ltb Z.eqb Z.of_N N.add Nat.add.
