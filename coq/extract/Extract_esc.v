(* Extraction of the escaper engine (ExtrOcamlBasic only; N, positive, nat stay Coq datatypes). *)
Require Extraction.
Require Import ExtrOcamlBasic.
From Verif Require Import Bytes Utf8 HtmlDecode Decoders EscapersM RefScanners.
Extraction "esc_model.ml"
  htmlEscape htmlNoEntitiesEscape attributeEscape cssStringEscape jsStringEscape jsonStringEscape
  queryEscape pathEscape enc_chunks
  html_decode js_decode json_decode css_decode pct_decode query_decode
  html_text_ok attr_dq_ok attr_sq_ok attr_unq_ok attr_unq_first_ok js_string_ok json_string_ok css_string_ok query_ok.
