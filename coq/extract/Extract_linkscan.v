(* Extraction of the link scanner engine (ExtrOcamlBasic only; N, positive, nat and Z stay Coq datatypes). *)
Require Extraction.
Require Import ExtrOcamlBasic.
From Verif Require Import Bytes IndexM LinkDestM LinkScanM LinkScanWire.
Extraction "linkscan_model.ml" linkscan_wire linkcands_wire.
