(* Extraction of the byte-string engine (ExtrOcamlBasic only; N, positive, nat and Z stay Coq datatypes). *)
Require Extraction.
Require Import ExtrOcamlBasic.
From Verif Require Import Bytes Utf8 HTMLEscapeM HtmlDecode.
Extraction "bytes_model.ml" HTMLEscape html_decode.
