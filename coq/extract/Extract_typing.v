(* Extraction of the MiniGo typing engine (ExtrOcamlBasic only; N, positive, Z and Q stay Coq datatypes). *)
Require Extraction.
Require Import ExtrOcamlBasic.
From Verif Require Import MiniGoM.
Extraction "typing_model.ml" tc tc_expr Z.add Z.mul Z.opp.
