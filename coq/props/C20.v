(* C20 — exceeding an implementation limit is an error, never wrong code.
   Proved part: the builder's pools and operand encodings.  Only statements,
   `exact` and Print Assumptions live here. *)
From Verif Require Import GoInt Facts_limits LimitsM Limits_proofs Limits_sweeps.
Open Scope Z_scope.

(* Every history of adds to a pool (types, functions, string/general/int/float
   values, field indexes) either stops with the limit error exactly when the
   pool holds `max` elements, or returns for every add an index below `max`
   that designates the added value in the final pool. *)
Definition C20_pools_statement : Prop :=
  forall (A : Type) (eqb : A -> A -> bool), (forall a b, eqb a b = true -> a = b) ->
  forall dedup max, 0 <= max -> forall vs pool,
    Z.of_nat (length pool) <= max ->
    match pool_adds A eqb dedup max pool vs with
    | Some (is, pool') =>
        length is = length vs /\ Z.of_nat (length pool') <= max /\
        Forall2 (fun i v => 0 <= i < max /\ nth_error pool' (Z.to_nat i) = Some v) is vs
    | None => True
    end.

Theorem C20_pools_partial : C20_pools_statement.
Proof.
  intros A eqb Heq dedup max Hmax vs pool Hlen.
  destruct (pool_adds A eqb dedup max pool vs) as [[is pool']|] eqn:E; [|exact I].
  exact (pool_adds_spec A eqb Heq dedup max Hmax vs pool is pool' Hlen E).
Qed.
Print Assumptions C20_pools_partial.

(* the limit error is raised only when the pool is full *)
Theorem C20_limit_only_when_full : forall (A : Type) (eqb : A -> A -> bool) dedup max pool v,
  pool_add A eqb dedup max pool v = None -> Z.of_nat (length pool) = max.
Proof. exact pool_add_limit. Qed.

(* the generated limits fit the operand widths they travel in: 8-bit pools
   <= 256, int/float value pools <= 2^14, registers <= 127 (int8), and the
   compiler and runtime agree on the register-type numbering *)
Theorem C20_limits_fit : limits_fit = true.
Proof. exact limits_fit_ok. Qed.

Theorem C20_index_through_int8 : forall r, 0 <= r < 256 -> wrap U8 (wrap I8 r) = r.
Proof. exact int8_uint8_roundtrip. Qed.

Theorem C20_register_fits : forall num r, 0 <= num -> new_register gen_newRegister_limit num = Some r ->
  num < gen_newRegister_limit -> r = num + 1 /\ 1 <= r <= 127.
Proof. exact new_register_fits. Qed.

(* operand encodings are inverted by the runtime's decoders, on their whole domain *)
Theorem C20_int16_roundtrip : forall v, in_range I16 v -> int16_rt v = true.
Proof. exact int16_roundtrip. Qed.
Theorem C20_uint16_roundtrip : forall v, in_range U16 v -> uint16_rt v = true.
Proof. exact uint16_roundtrip. Qed.
Theorem C20_valueindex_roundtrip : forall t i, 0 <= t < 4 -> 0 <= i < 16384 -> valueindex_rt t i = true.
Proof. exact valueindex_roundtrip. Qed.
Theorem C20_uint24_roundtrip : forall v, 0 <= v < 16777216 ->
  match gen_c_encodeUint24 (Some v) with
  | [a; b; c] => gen_r_decodeUint24 a b c = [Some v]
  | _ => False
  end.
Proof. exact uint24_roundtrip. Qed.
Print Assumptions C20_uint24_roundtrip.

Theorem C20_decoders_agree :
  (forall a b, gen_r_decodeInt16 a b = gen_c_decodeInt16 a b) /\
  (forall a b, gen_r_decodeUint16 a b = gen_c_decodeUint16 a b) /\
  (forall a b c, gen_r_decodeUint24 a b c = gen_c_decodeUint24 a b c) /\
  (forall a b, gen_r_decodeValueIndex a b = gen_c_decodeValueIndex a b).
Proof. exact decoders_agree. Qed.

(* non-vacuity: a history that reaches the limit and one that does not *)
Example C20_example :
  pool_adds Z Z.eqb true 3 [] [7; 8; 7; 9] = Some ([0; 1; 0; 2], [7; 8; 9]) /\
  pool_adds Z Z.eqb true 3 [] [7; 8; 9; 10] = None /\
  valueindex_rt 3 16383 = true.
Proof. vm_compute. repeat split. Qed.
