(* C03 - Build accepts a program exactly when the Go type checker does; a
   rejection is always a *BuildError.  Only statements, exact, Print
   Assumptions and examples live here. *)
From Verif Require Import MiniGoM MiniGoSpec MiniGo_proofs Facts_checker BuildWrapM BuildWrap_proofs.

(* Full statement over the model: (1) the executable checker tc of the MiniGo
   fragment accepts a program exactly when the declarative typing rules
   written from the Go specification derive it, for every program of the
   fragment; (2) every panic raised with a CheckingError, SyntaxError or
   LimitExceededError leaves Build as a *BuildError, and the classification of
   all panic sites of the checker, parser and emitter is the committed one
   (no unlisted raw panic). *)
Definition C03_statement : Prop :=
  (forall p : program, tc p = true <-> prog_ok p)
  /\ (forall s, In s gen_panic_sites -> rejection_class (snd s) = true -> panic_outcome (snd s) = OBuildError)
  /\ gen_panic_sites = committed_panic_sites.

(* proved part: expressions *)
Theorem C03_expr_sound : forall G E e te, tc_expr G E e = Some te -> has_type G E e te.
Proof. intros G E. exact (proj1 (tc_expr_sound G E)). Qed.
Print Assumptions C03_expr_sound.

Theorem C03_expr_complete : forall G E e te, has_type G E e te -> tc_expr G E e = Some te.
Proof. intros G E. exact (proj1 (tc_expr_complete G E)). Qed.
Print Assumptions C03_expr_complete.

Theorem C03_rejection_is_builderror :
  forall s, In s gen_panic_sites -> rejection_class (snd s) = true -> panic_outcome (snd s) = OBuildError.
Proof. exact classified_sites_are_builderrors. Qed.
Print Assumptions C03_rejection_is_builderror.

Theorem C03_panic_sites_classified : gen_panic_sites = committed_panic_sites.
Proof. exact panic_sites_match. Qed.

Example C03_example_sites : existsb (fun s => rejection_class (snd s)) gen_panic_sites = true.
Proof. exact some_checking_site. Qed.
