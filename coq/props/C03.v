(* C03 - Build accepts a program exactly when the Go type checker does; a
   rejection is always a *BuildError.  Only statements, exact, Print
   Assumptions and examples live here. *)
From Verif Require Import MiniGoM MiniGoSpec MiniGo_proofs Facts_checker BuildWrapM BuildWrap_proofs.

(* Full statement over the model: (1) the executable checker tc of the MiniGo
   fragment accepts a program exactly when the declarative typing rules
   written from the Go specification derive it, for every program of the
   fragment (any size, any nesting); (2) every panic raised with a
   CheckingError, SyntaxError or LimitExceededError leaves Build as a
   *BuildError; (3) the classification of all panic sites of the checker,
   parser and emitter is the committed one (no unlisted raw panic). *)
Definition C03_statement : Prop :=
  (forall p : program, tc p = true <-> prog_ok p)
  /\ (forall s, In s gen_panic_sites -> rejection_class (snd s) = true -> panic_outcome (snd s) = OBuildError)
  /\ gen_panic_sites = committed_panic_sites.

Theorem C03_holds : C03_statement.
Proof. exact (conj tc_iff (conj classified_sites_are_builderrors panic_sites_match)). Qed.
Print Assumptions C03_holds.

(* the parts, usable separately *)
Theorem C03_tc_sound : forall p, tc p = true -> prog_ok p.
Proof. exact tc_sound. Qed.
Print Assumptions C03_tc_sound.

Theorem C03_tc_complete : forall p, prog_ok p -> tc p = true.
Proof. exact tc_complete. Qed.
Print Assumptions C03_tc_complete.

Theorem C03_expr_sound : forall G E e te, tc_expr G E e = Some te -> has_type G E e te.
Proof. intros G E. exact (proj1 (tc_expr_sound G E)). Qed.
Print Assumptions C03_expr_sound.

Theorem C03_expr_complete : forall G E e te, has_type G E e te -> tc_expr G E e = Some te.
Proof. intros G E. exact (proj1 (tc_expr_complete G E)). Qed.

Theorem C03_stmt_iff : forall G cx E s E', tc_stmt G cx E s = Some E' <-> stmt_ok G cx E s E'.
Proof. exact tc_stmt_iff. Qed.

(* non vacuity: a program with a function of two results, a short declaration
   redeclaring a variable, a loop with break, a switch; it is well typed *)
Definition ex_prog_with (arg : expr) : program :=
  {| p_imports := [0%N];
     p_globals := [GConst 1%N (Some (TBasic BUint8)) (ELitI 200)];
     p_funcs := [{| fn_name := 2%N; fn_params := [(3%N, TBasic BInt)]; fn_results := [TBasic BInt; TBasic BString];
                    fn_body := BCons (SIf (EBin OLt (EVar 3%N) (ELitI 0))
                                          (BCons (SReturn (ECons (EUn UNeg (EVar 3%N)) (ECons (ELitS 1%N) ENone))) BNil) BNil)
                               (BCons (SReturn (ECons (EBin OShl (EVar 3%N) (ELitI 2))
                                                (ECons (EPkg 0%N 0%N (ECons (ELitS 2%N) ENone)) ENone))) BNil) |}];
     p_main := BCons (SShort [4%N; 5%N] (ECons (ECall 2%N (ECons arg ENone)) ENone))
               (BCons (SShort [4%N; 6%N] (ECons (EBin OAdd (EVar 4%N) (EConv (TBasic BInt) (EVar 1%N))) (ECons (ELitB true) ENone)))
               (BCons (SLoop (BCons (SIf (EVar 6%N) (BCons SBreak BNil) BNil) BNil))
               (BCons (SSwitch (EVar 5%N) (CCons (ECons (ELitS 3%N) ENone) (BCons (SIncDec 4%N) BNil) CNil) BNil)
               BNil))) |}.

(* the argument 2.0 is an untyped float constant representable as int *)
Example C03_example_accept : prog_ok (ex_prog_with (ELitF 4 2)).
Proof. apply tc_sound. vm_compute. reflexivity. Qed.

(* a single point mutant is not derivable: 1.5 is not representable as int *)
Example C03_example_reject : ~ prog_ok (ex_prog_with (ELitF 3 2)).
Proof. intros H. apply tc_complete in H. vm_compute in H. discriminate. Qed.

(* non vacuity for the composite part of the fragment: a defined struct type,
   a composite literal with field names, the address of a literal, selection
   through the pointer, a slice literal with an index key, append, a range
   clause with two variables, a map literal, an index expression with the
   comma free form, a comparison of a slice with nil, a type assertion on the
   empty interface; idx is the constant index into the array [3]int *)
Definition T8 : ty := TDef 8%N (TStruct [TBasic BInt; TBasic BString]).
Definition ex_comp_with (idx : Z) : program :=
  {| p_imports := []; p_globals := []; p_funcs := [];
     p_main :=
       BCons (SShort [1%N] (ECons (EAddr (ECompLit T8 (LIdx 1 (ELitS 1%N) (LIdx 0 (ELitI 4) LNil)))) ENone))
      (BCons (SShort [2%N] (ECons (ECompLit (TSlice (TBasic BInt)) (LPos (ESel (EVar 1%N) 0%N) (LIdx 3 (ELitI 7) LNil))) ENone))
      (BCons (SAssign [2%N] (ECons (EAppend (EVar 2%N) (ECons (ELen (EVar 2%N)) ENone)) ENone))
      (BCons (SVar [3%N] (Some (TArray 3 (TBasic BInt))) ENone)
      (BCons (SRange 4%N 5%N true (EVar 2%N)
                (BCons (SSet (EIndex (EVar 3%N) (ELitI idx)) (EBin OAdd (EVar 4%N) (EVar 5%N))) BNil))
      (BCons (SShort [6%N] (ECons (ECompLit (TMap (TBasic BString) (TBasic BInt))
                                      (LKey (ELitS 1%N) (EIndex (EVar 3%N) (ELitI 0)) LNil)) ENone))
      (BCons (SVar [7%N] (Some TAny) (ECons (EIndex (EVar 6%N) (ELitS 2%N)) ENone))
      (BCons (SIf (EBin OLAnd (EBin ONe (EVar 2%N) ENilE) (EBin OEq (EAssert (EVar 7%N) (TBasic BInt)) (ELitI 0)))
                  (BCons (SExpr (EDelete (EVar 6%N) (ELitS 1%N))) BNil) BNil)
       BNil))))))) |}.

Example C03_example_composite_accept : prog_ok (ex_comp_with 2).
Proof. apply tc_sound. vm_compute. reflexivity. Qed.

(* the single point mutant with the constant index 3 is not derivable: the
   index is out of range for [3]int *)
Example C03_example_composite_reject : ~ prog_ok (ex_comp_with 3).
Proof. intros H. apply tc_complete in H. vm_compute in H. discriminate. Qed.

(* addressability is decided by the rules exactly as by the checker *)
Theorem C03_addressable_iff : forall G E e, addressable G E e = true <-> Addressable G E e.
Proof. exact addressable_iff. Qed.

Example C03_example_sites : existsb (fun s => rejection_class (snd s)) gen_panic_sites = true.
Proof. exact some_checking_site. Qed.
