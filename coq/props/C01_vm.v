(* C01, second part: execution of emitted code (engine vmexec).  Placeholder
   until the proofs are in place. *)
From Verif Require Import GoInt Facts_alu VmBase Facts_vmexec AluM VmExecM MiniGoSem EmitExprM.
Open Scope Z_scope.
