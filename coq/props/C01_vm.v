(* C01, second part (engine vmexec): execution of emitted code by the VM model
   VmExecM (tied to internal/runtime/run.go by generated register transfers and
   by running the model on the dump of every generated and corpus program), the
   reference semantics MiniGoSem (tied to gc), and the emitter model EmitExprM
   (tied to the real emitter's output).  Only statements, `exact` and Print
   Assumptions live here; the proofs are in proofs/VmAlu_proofs.v,
   VmFrame_proofs.v, VmCompile_proofs.v. *)
From Coq Require Import FMapPositive.
From Verif Require Import GoInt Facts_alu Facts_limits VmBase Facts_vmexec AluM VmExecM MiniGoSem EmitExprM.
From Verif Require Import VmAlu_proofs VmFrame_proofs VmCompile_proofs.
Open Scope Z_scope.

(* ---- (i) the register-window discipline of OpCallFunc / OpReturn ---- *)

(* s0 executes OpCallFunc and becomes s1; the callee and everything it calls
   run from s1 to s2 without the call stack dropping below that of s1 and
   without a frame pointer overflowing uint32; the next step returns (the call
   stack becomes shorter than in s1).  Then the caller is back in its own
   frame at the saved return address, and every int, string and general
   register at or below the shifted frame pointer -- the caller's registers
   1 .. shift -- holds what it held when the call was made; the registers above
   are the callee's window (results and arguments).  The hypothesis the code
   relies on is wf_shifts: the stack shifts stored after call instructions are
   not negative. *)
Definition C01_frame_isolation_statement : Prop :=
  forall (p : program) (s0 s1 s2 s3 : state) (f : func) (i : instr),
    wf_shifts p -> quad_nonneg (s_fp s0) -> fp_small s0 ->
    cur_func p s0 = Some f -> nthZ (f_body f) (s_pc s0) = Some i -> i_op i = gen_OpCallFunc ->
    vm_step p s0 = SNext s1 ->
    run_above p (length (s_calls s1)) s1 s2 ->
    fp_small s2 -> vm_step p s2 = SNext s3 -> (length (s_calls s3) < length (s_calls s1))%nat ->
    s_fn s3 = s_fn s0 /\ s_fp s3 = s_fp s0 /\ s_calls s3 = s_calls s0 /\
    gen_x_callfunc_retpc (Some (s_pc s0 + 1)) = Some (s_pc s3) /\
    same_below (s_fp s1) s0 s3 /\ same_below (s_fp s1) s0 s2.

Theorem C01_frame_isolation : C01_frame_isolation_statement.
Proof. exact frame_isolation. Qed.
Print Assumptions C01_frame_isolation.

(* every step of the model is a local step, a call or a return (the invariant behind the theorem) *)
Theorem C01_step_classify : forall p s s',
  wf_shifts p -> quad_nonneg (s_fp s) -> fp_small s -> vm_step p s = SNext s' -> step_kind s s'.
Proof. exact step_classify. Qed.
Print Assumptions C01_step_classify.

(* ---- (ii) the ALU theorems lifted to machine states ---- *)

(* the instruction the builder selects for x op y at kind k, in either form
   (register operand or int8 immediate), executed by one vm_step from a state
   whose operand registers hold the canonical forms of x and y: the destination
   register receives the canonical form of Go's result and nothing else changes
   but the pc; a division by zero is a panic in both *)
Definition C01_alu_step_statement : Prop :=
  forall p s f i op k t x y opc a,
    kind_ity k = Some t -> in_range t x -> (if is_shift op then in_range U64 y else in_range t y) ->
    zassoc (select_tbl op) k = Some (opc, a) ->
    cur_func p s = Some f -> nthZ (f_body f) (s_pc s) = Some i ->
    (i_op i = opc \/ i_op i = - opc) ->
    rd_intk s (i_b i) (kneg i) = XOk (canon y) ->
    (if a =? gen_select_reg_x then rd_int s (i_a i) = XOk (canon x)
     else i_a i = a /\ rd_int s (i_c i) = XOk (canon x)) ->
    valid_ireg s (i_c i) ->
    vm_step p s =
      match bin op t x y with
      | Some v => SNext (upd_int (set_pc s (s_pc s + 1)) (i_c i) (canon v))
      | None => SPanic PDivide (set_pc s (s_pc s + 1))
      end.

Theorem C01_alu_step_sound : C01_alu_step_statement.
Proof. exact alu_step_sound. Qed.
Print Assumptions C01_alu_step_sound.

Theorem C01_neg_step_sound : forall p s f i k t y opc a,
  kind_ity k = Some t -> in_range t y -> zassoc gen_select_Neg k = Some (opc, a) ->
  cur_func p s = Some f -> nthZ (f_body f) (s_pc s) = Some i ->
  i_op i = opc -> i_a i = a -> rd_int s (i_b i) = XOk (canon y) -> valid_ireg s (i_c i) ->
  vm_step p s = SNext (upd_int (set_pc s (s_pc s + 1)) (i_c i) (canon (un Neg t y))).
Proof. exact neg_step_sound. Qed.
Print Assumptions C01_neg_step_sound.

Theorem C01_convert_step_sound : forall p s f i ks ts kd td x opc,
  kind_ity ks = Some ts -> kind_ity kd = Some td -> in_range ts x ->
  zassoc gen_select_Convert ks = Some opc ->
  cur_func p s = Some f -> nthZ (f_body f) (s_pc s) = Some i ->
  i_op i = opc -> nthZ (f_types f) (u8 (i_b i)) = Some kd ->
  rd_int s (i_a i) = XOk (canon x) -> valid_ireg s (i_c i) ->
  vm_step p s = SNext (upd_int (set_pc s (s_pc s + 1)) (i_c i) (canon (wrap td x))).
Proof. exact convert_step_sound. Qed.
Print Assumptions C01_convert_step_sound.

(* a comparison used as a condition: OpIfInt skips the next instruction exactly when Go's comparison holds *)
Theorem C01_cmp_step_sound : forall p s f i c k t x y cnd,
  kind_ity k = Some t -> in_range t x -> in_range t y ->
  zassoc (select_cmp_tbl c) k = Some cnd ->
  cur_func p s = Some f -> nthZ (f_body f) (s_pc s) = Some i ->
  (i_op i = gen_OpIfInt \/ i_op i = - gen_OpIfInt) -> i_b i = cnd ->
  rd_int s (i_a i) = XOk (canon x) -> rd_intk s (i_c i) (kneg i) = XOk (canon y) ->
  vm_step p s = SNext (set_pc s (if cmp c x y then s_pc s + 2 else s_pc s + 1)).
Proof. exact cmp_step_sound. Qed.
Print Assumptions C01_cmp_step_sound.

(* ---- (iii) the emitter model compiles integer expressions correctly ---- *)

(* For every expression e of one integer type built from constants, variables
   and the eleven binary operators, compiled by the emitter model into the
   register reg: the code has at most 3|e| instructions; run by the VM model
   from a state whose registers 1 .. n hold the canonical forms of the
   environment's variables, it ends after exactly its length in steps with the
   canonical form of MiniGoSem's value of e in reg, every other register 1 .. n
   and the rest of the machine unchanged; when the expression divides by zero
   the run stops with the division panic.  Nothing is claimed when the
   reference semantics panics on a negative shift count (the VM does not:
   known finding shl-negative-count) or does not produce a result. *)
Definition C01_expr_compile_statement : Prop :=
  forall e k t kk reg st0 st1,
    kind_ity k = Some t -> ik_ity kk = t -> compile_into k e reg st0 = Some st1 ->
    exists code,
      c_code st1 = c_code st0 ++ code /\ Z.of_nat (length code) <= 3 * isize e /\
      forall P env p f s fuel out,
        cur_func p s = Some f -> code_at f (s_pc s) code -> pool_sub f (c_pool st1) ->
        vars_le e (c_n st0) -> 0 < reg <= c_n st0 ->
        0 <= q0 (s_fp s) -> q0 (s_fp s) + c_n st0 + 2 * isize e < q0 (s_st s) ->
        env_regs kk env (c_n st0) s ->
        match eval P fuel env out (to_expr kk e) with
        | ROk (v, out') =>
            exists x, v = VI kk x /\ in_range t x /\ out' = out /\ exists s', exec_ok p s code reg x (c_n st0) s'
        | RPanic PanDivide out' =>
            out' = out /\ exists m s', (m <= length code)%nat /\ steps p m s = SPanic PDivide s'
        | _ => True
        end.

Theorem C01_expr_compile_partial : C01_expr_compile_statement.
Proof. exact expr_compile_correct. Qed.
Print Assumptions C01_expr_compile_partial.

(* the reference semantics is defined on these expressions (the match above is not vacuous) *)
Theorem C01_expr_eval_defined : forall P kk env out e fuel,
  consts_ok (ik_ity kk) e ->
  (forall r, In r (ivars e) -> exists x, lookup env r = Some (VI kk x) /\ in_range (ik_ity kk) x) ->
  (idepth e <= fuel)%nat ->
  (exists x, eval P fuel env out (to_expr kk e) = ROk (VI kk x, out) /\ in_range (ik_ity kk) x) \/
  (exists c, eval P fuel env out (to_expr kk e) = RPanic c out).
Proof. exact eval_defined. Qed.
Print Assumptions C01_expr_eval_defined.

(* a run with fuel goes through the states of the straight-line execution *)
Theorem C01_run_steps : forall p n s s' fuel, steps p n s = SNext s' -> vm_run p (n + fuel) s = vm_run p fuel s'.
Proof. exact vm_run_steps. Qed.

(* ---- non-vacuity: the hypotheses are satisfiable and the objects compute ---- *)

(* int8: return (v2 + 100) * v3 with v2 = 100, v3 = 3: the code the emitter
   model produces, run by the VM model, leaves int8((100+100)*3) = 88 in register 1 *)
Definition ex_e : iexpr := IBin Mul (IBin Add (IVar 2) (IConst 100)) (IVar 3).
Definition ex_func : func :=
  match compile_func gen_kind_Int8 2 ex_e with
  | Some (code, pool) => mkF (mkQ 20 0 0 0) code pool [] [] [] [] []
  | None => mkF (mkQ 0 0 0 0) [] [] [] [] [] [] []
  end.
Definition ex_state : state :=
  set_int_rf init_state (rf_set (rf_set (PositiveMap.empty Z) 2 100) 3 3).

Example C01_vm_example :
  length (f_body ex_func) = 8%nat /\
  (match steps [ex_func] 6 ex_state with SNext s' => rd_int s' 1 | _ => XFault FTerm end) = XOk 88 /\
  eval [] 5 [(2, VI KInt8 100); (3, VI KInt8 3)] [] (to_expr KInt8 ex_e) = ROk (VI KInt8 88, []) /\
  wrap I8 ((100 + 100) * 3) = 88.
Proof. vm_compute. repeat split; reflexivity. Qed.

(* a call and its return on a two-function program: the caller's register 1
   survives the callee writing its own register 1 *)
Definition ex_callee : func := mkF (mkQ 2 0 0 0) [mkI (- gen_OpMove) 0 (-7) 1; mkI gen_OpReturn 0 0 0] [] [] [] [] [] [].
Definition ex_caller : func :=
  mkF (mkQ 4 0 0 0) [mkI (- gen_OpMove) 0 5 1; mkI gen_OpCallFunc 1 0 0; mkI 2 0 0 0; mkI gen_OpReturn 0 0 0] [] [] [] [0; 1] [] [].
Example C01_frame_example :
  (match steps [ex_caller; ex_callee] 4 init_state with
   | SNext s' => (rd_int s' 1, s_pc s', s_fn s', length (s_calls s'))
   | _ => (XFault FTerm, 0, 0, 0%nat)
   end) = (XOk 5, 3, 0, 0%nat).
Proof. vm_compute. reflexivity. Qed.
