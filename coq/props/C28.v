(* C28 — cloning a tree gives an independent equal copy; walking visits every
   node.  Only statements, `exact`, and Print Assumptions live here.

   Trees are generic records (identity, kind, scalar fields, child fields).
   ast_hyp t: every record of t is an instance of its kind in the schema that
   gofacts generates from the struct types of package ast (fields in order,
   children of the kinds the Go types allow, the hand-listed never-nil fields
   present).  ast_clone / ast_walk: the model of CloneNode and Walk driven by
   the selectors that gofacts extracts from the case clauses of clone.go and
   walk.go. *)
From Coq Require Import List NArith Bool String.
From Verif Require Import Bytes AstSchema Facts_Ast AstTreeM AstTreeSpec AstTreeInst AstTree_inst_proofs.
Import ListNotations.
Open Scope N_scope.

(* Full statement: for every tree rooted at a node, CloneNode returns without
   panic a structurally equal tree whose identities are pairwise distinct and
   none of which occurs in the original (so no mutation of one can show in the
   other), and Walk visits exactly the nodes of the tree, each once, in
   pre-order. *)
Definition C28_statement : Prop :=
  forall t, ast_hyp t = true -> is_node ast_schema (t_kind t) = true -> clone_ok t /\ walk_ok t.

(* The full statement is false of the code as it is: Walk never visits
   Call.Func (witness: the tree of f(x); the callee identifier is not visited). *)
Theorem C28_refuted : exists t, ast_hyp t = true /\ is_node ast_schema (t_kind t) = true /\ ~ walk_ok t.
Proof. exact C28_refuted_lemma. Qed.
Print Assumptions C28_refuted.

Theorem walk_call_func_refuted :
  ast_hyp tree_call_fx = true /\ is_node ast_schema (t_kind tree_call_fx) = true /\
  exists evs, ast_walk [] tree_call_fx = Ok evs /\
    In 4 (node_ids ast_schema tree_call_fx) /\ ~ In 4 (enters evs).
Proof. exact walk_call_func_refuted_w. Qed.
Print Assumptions walk_call_func_refuted.

(* What is proved, for every tree of any size:
   - clone_equal, clone_disjoint: for trees without the kind Placeholder (which
     only the type checker creates and CloneExpression has no case for);
   - walk_once: for trees in which none of the listed deviations is populated
     (Call.Func, Func.Ident, Func.Type, Func.Body, and the expanded Tree of
     Extends, Import and Render);
   - for ALL trees, Walk produces exactly the structural pre-order in which the
     listed fields are skipped and the body block of a Func is entered without
     being visited (ast_events), whatever kinds the visitor prunes. *)
Theorem C28_partial : forall t,
  ast_hyp t = true -> is_node ast_schema (t_kind t) = true ->
  (ast_no_clone_exception t = true -> clone_ok t) /\
  (ast_no_dev t = true -> walk_ok t) /\
  (forall prune, ast_walk prune t = Ok (ast_events prune t)).
Proof. exact C28_partial_lemma. Qed.
Print Assumptions C28_partial.

(* Generated-fact obligations (the proviso of the theorems, checked by
   computation on the tables extracted from the current sources): per kind,
   the fields that clone.go clones and walk.go walks are the child fields of
   the struct type, in the right slots and in order. *)
Theorem C28_clone_selectors_match_schema : ast_clone_good = true.
Proof. exact ast_clone_good_true. Qed.
Theorem C28_walk_selectors_match_schema : ast_walk_good = true.
Proof. exact ast_walk_good_true. Qed.
Theorem C28_names_resolved : names_resolved = true.
Proof. exact names_resolved_true. Qed.

(* the listed exceptions are exactly the deviations: none can be dropped *)
Theorem C28_walk_skip_entries_needed :
  forallb (fun n => negb (walk_good_with (drop_nth n ast_walk_skip) ast_walk_transparent))
          (seq 0 (length ast_walk_skip)) = true.
Proof. exact walk_skip_entries_needed. Qed.
Theorem C28_walk_transparent_entries_needed :
  forallb (fun n => negb (walk_good_with ast_walk_skip (drop_nth n ast_walk_transparent)))
          (seq 0 (length ast_walk_transparent)) = true.
Proof. exact walk_transparent_entries_needed. Qed.
Theorem C28_clone_exceptions_needed :
  forallb (fun n => negb (clone_good_with (drop_nth n ast_clone_exceptions)))
          (seq 0 (length ast_clone_exceptions)) = true.
Proof. exact clone_exceptions_needed. Qed.

(* non-vacuity: the tree of a = b satisfies every hypothesis; its clone and its walk *)
Example C28_example_assign :
  ast_hyp tree_assign_ab = true /\ is_node ast_schema (t_kind tree_assign_ab) = true /\
  ast_no_clone_exception tree_assign_ab = true /\ ast_no_dev tree_assign_ab = true /\
  ast_clone 0 tree_assign_ab =
    Ok (13, T 7 (kid "Assignment") [(fid "Assignment" "Type", bs "0")]
              [(fid "Assignment" "Position", [mk_pos 8]);
               (fid "Assignment" "Lhs", [mk_ident 9 "a"]); (fid "Assignment" "Rhs", [mk_ident 11 "b"])]) /\
  ast_walk [] tree_assign_ab = Ok [Enter 1; Enter 3; Leave; Enter 5; Leave; Leave].
Proof. exact example_assign_ab. Qed.
