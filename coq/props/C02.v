(* C02 - compile-time constant arithmetic is exact and matches the Go specification.
   Only statements, `exact`, and Print Assumptions live here. *)
From Coq Require Import ZArith List Bool QArith Qabs.
From Verif Require Import Facts_consts ConstsM ConstEvalM Consts_proofs Consts_proofs2 Consts_proofs3 Consts_proofs4 Round_core Round_proofs Round_spec Round_arith Round_det.
Open Scope Z_scope.

(* ---- the full statement, over the model of constant.go: every arithmetic
   operation on number constants of any representation class that yields a
   constant yields the exact result (integer division truncates), and the
   complex operations never fault on operands below 512 bits.  The first half
   is FALSE of the code as it is (C02_statement_refuted): floatConst
   arithmetic rounds to 512 bits.  The second half holds since the repair of
   complexConst.binaryOp (C02_complex_total, for operands of every class and
   size).  The theorems after it are the proved part. *)
Definition rcQ (c : rc) : Q :=
  match c with
  | I64 z | Big z => inject_Z z
  | F64 f | BigF f => flQ f
  | Rat n d => n # d
  end.

Definition exact_result (o : op) (x y : rc) : Q :=
  match rc_int x, rc_int y, o with
  | Some a, Some b, ODiv => inject_Z (Z.quot a b)
  | _, _, _ => qop o (rcQ x) (rcQ y)
  end.

Definition C02_statement : Prop :=
  (forall o x y r, is_field_op o = true ->
     bin_arith o x y = Ok (Num r) -> (rcQ r == exact_result o x y)%Q) /\
  (forall o a b c d, is_field_op o = true ->
     Z.abs a < 2 ^ 512 -> Z.abs b < 2 ^ 512 -> Z.abs c < 2 ^ 512 -> Z.abs d < 2 ^ 512 ->
     bin_cplx o (Big a) (Big b) (Big c) (Big d) <> Fault).

Theorem C02_statement_refuted : ~ C02_statement.
Proof.
  intros [H _].
  specialize (H OAdd (F64 (FFin false 1 1)) (F64 (FFin false 1 (-1074))) (BigF (FFin false 1 1)) eq_refl eq_refl).
  apply Qeq_bool_iff in H. vm_compute in H. discriminate.
Qed.
Print Assumptions C02_statement_refuted.

(* ---- the complex operations never fault: for parts of every representation
   class and every size each operation yields a constant or an error (the
   error of the first failing operation on the parts, e.g. the 512 bit
   overflow of a product).  Before the fix commit the witnesses below were
   faults (nil dereference in Build). *)
Theorem C02_complex_total : forall o a b c d, bin_cplx o a b c d <> Fault.
Proof. exact cplx_no_fault. Qed.
Print Assumptions C02_complex_total.

Theorem C02_statement_second_half : forall o a b c d, is_field_op o = true ->
  Z.abs a < 2 ^ 512 -> Z.abs b < 2 ^ 512 -> Z.abs c < 2 ^ 512 -> Z.abs d < 2 ^ 512 ->
  bin_cplx o (Big a) (Big b) (Big c) (Big d) <> Fault.
Proof. exact cplx_no_fault_big. Qed.

Example C02_complex_overflow_rejected :
  bin_cplx OMul (Big (2 ^ 511)) (I64 0) (Big (2 ^ 511)) (I64 0) = Err EMulOverflow /\
  bin_cplx ODiv (I64 0) (I64 1000) (Big (2 ^ 256 + 1)) (I64 0) = Err EMulOverflow.
Proof. split; [exact cplx_mul_overflow_witness|exact cplx_div_overflow_witness]. Qed.

(* ---- the int64 fast path: for all int64 operands the overflow tests of the
   code are exact: the result denotes a+b (a-b, a*b) and is an int64Const
   exactly when the value fits, otherwise the operation was delegated to the
   big representation (int_norm z = I64 z if z fits int64, Big z otherwise) *)
Theorem C02_i64_fast_path :
  (forall a b, in64 a -> in64 b ->
  bin_i64 OAdd a b = Ok (Num (int_norm (a + b)))) /\
  (forall a b, in64 a -> in64 b ->
  bin_i64 OSub a b = Ok (Num (int_norm (a - b)))) /\
  (forall a b, in64 a -> in64 b ->
  bin_i64 OMul a b = Ok (Num (int_norm (a * b)))) /\
  (forall a b, in64 a -> in64 b -> b <> 0 ->
  bin_i64 ODiv a b = Ok (Num (int_norm (Z.quot a b)))) /\
  (forall a b, in64 a -> in64 b -> b <> 0 ->
  bin_i64 OMod a b = Ok (Num (I64 (Z.rem a b))) /\ in64 (Z.rem a b)).
Proof. split; [exact i64_add_exact|split; [exact i64_sub_exact|split; [exact i64_mul_exact|split; [exact i64_div_exact|exact i64_rem_exact]]]]. Qed.
Print Assumptions C02_i64_fast_path.



(* division truncates toward zero (Z.quot, Z.rem: trunc_div_spec), MinInt64 / -1 is 2^63 *)


Theorem C02_trunc_div_spec : forall a b, b <> 0 ->
  a = b * Z.quot a b + Z.rem a b /\ Z.abs (Z.rem a b) < Z.abs b /\ 0 <= Z.rem a b * a.
Proof. exact trunc_div_spec. Qed.

Theorem C02_div_by_zero : forall a o, (o = ODiv \/ o = OMod) ->
  bin_i64 o a 0 = Err EDiv0 /\ bin_big o a 0 = Err EDiv0.
Proof. intros a o H. split; [exact (i64_div_by_zero a o H) | exact (big_div_by_zero a o H)]. Qed.
Print Assumptions C02_div_by_zero.

(* ---- the big representation: exact, rejected exactly beyond 512 bits *)
Theorem C02_big_exact :
  (forall a b,
  bin_big OAdd a b = if Z.abs (a + b) <? 2 ^ 512 then Ok (Num (Big (a + b))) else Err EAddOverflow) /\
  (forall a b,
  bin_big OSub a b = if Z.abs (a - b) <? 2 ^ 512 then Ok (Num (Big (a - b))) else Err ESubOverflow) /\
  (forall a b,
  bin_big OMul a b = if Z.abs (a * b) <? 2 ^ 512 then Ok (Num (Big (a * b))) else Err EMulOverflow) /\
  (forall a b, b <> 0 ->
  bin_big ODiv a b = Ok (Num (Big (Z.quot a b))) /\ bin_big OMod a b = Ok (Num (Big (Z.rem a b)))).
Proof. split; [exact big_add_exact|split; [exact big_sub_exact|split; [exact big_mul_exact|exact big_div_exact]]]. Qed.
Print Assumptions C02_big_exact.




(* ---- negation and bitwise complement *)
Theorem C02_neg :
  (forall z k, in64 z -> unary_rc OSub k (I64 z) = Ok (int_norm (- z))) /\
  (forall k, unary_rc OSub k (I64 min64) = Ok (Big (2 ^ 63))).
Proof. split; [exact neg_i64|exact neg_min64]. Qed.
Print Assumptions C02_neg.


Theorem C02_xor_signed : forall z k, is_signed_kind k = true ->
  unary_rc OXor (Some k) (I64 z) = Ok (I64 (- z - 1)) /\
  unary_rc OXor (Some k) (Big z) = Ok (Big (- z - 1)).
Proof. exact xor_signed. Qed.
Print Assumptions C02_xor_signed.

(* for an unsigned kind (uint8 ... uint64, uint, uintptr) ^x = max - x, through the generated tables *)
Theorem C02_xor_unsigned : forall z k, is_unsigned_kind k = true -> 0 <= z <= kind_max k ->
  (in64 z -> unary_rc OXor (Some k) (I64 z) = Ok (int_norm (kind_max k - z))) /\
  unary_rc OXor (Some k) (Big z) = Ok (Big (kind_max k - z)).
Proof. exact xor_unsigned. Qed.
Print Assumptions C02_xor_unsigned.

(* ---- shifts: x << n is x * 2^n, rejected beyond 512 bits; for a non-zero x
   a count >= 512 is rejected; zero can be shifted by every count up to 1074
   (0 << 512 was rejected before fix d3683c7); for both shifts a count above
   1074 (the limit of gc) is rejected (1 >> 2000 was accepted before the fix);
   a negative count is rejected;
   x >> n is the floor of x / 2^n for every count up to 1074, rejected
   when the result is beyond 512 bits (0x1p1000 >> 65, accepted before fix
   c78e043), which never happens for an operand below 512 bits *)
Theorem C02_shl :
  (forall small z n, 0 <= n < 512 ->
  shift_int OShl small z (Num (I64 n)) =
    if Z.abs (z * 2 ^ n) <? 2 ^ 512 then Ok (Num (Big (z * 2 ^ n))) else Err EShlOverflow) /\
  (forall small z n, z <> 0 -> 512 <= n -> in64 n ->
  shift_int OShl small z (Num (I64 n)) = Err EShiftLarge) /\
  (forall small n, 0 <= n -> in64 n ->
  shift_int OShl small 0 (Num (I64 n)) = if n <=? 1074 then Ok (Num (Big 0)) else Err EShiftLarge) /\
  (forall o small z n, is_shift o = true -> 1074 < n -> in64 n ->
  shift_int o small z (Num (I64 n)) = Err EShiftLarge) /\
  (forall o small z n, is_shift o = true -> n < 0 -> in64 n ->
  shift_int o small z (Num (I64 n)) = Err EShiftNeg) /\
  (forall o zero1 n,
  shift_const_error o zero1 (Num (Big n)) =
    if n <? 0 then Some EShiftNeg
    else if maxu64 <? n then Some EShiftOvfUint
    else count_error o zero1 n).
Proof. split; [exact shl_exact|split; [exact shl_count_limit|split; [exact shl_zero|split; [exact shift_count_max|split; [exact shift_negative_count|exact shift_count_big]]]]]. Qed.
Print Assumptions C02_shl.



Theorem C02_shr_exact :
  (forall small z n, 0 <= n <= 1074 ->
  shift_int OShr small z (Num (I64 n)) =
    if small then Ok (Num (I64 (z / 2 ^ n)))
    else if Z.abs (z / 2 ^ n) <? 2 ^ 512 then Ok (Num (Big (z / 2 ^ n))) else Err EShlOverflow) /\
  (forall z n, 0 <= n <= 1074 -> Z.abs z < 2 ^ 512 ->
  shift_int OShr false z (Num (I64 n)) = Ok (Num (Big (z / 2 ^ n)))).
Proof. split; [exact shr_exact|exact shr_no_overflow]. Qed.
Print Assumptions C02_shr_exact.


(* ---- representedBy: for every integer kind (int8 ... int64, int, uint8 ...
   uint64, uint, uintptr) a value is accepted iff min k <= z <= max k, where
   min/max are computed from the width; the accepted constant denotes z *)
Theorem C02_repr_int :
  (forall k z, is_integer_kind k = true -> in64 z ->
  repr_i64 k z = if fits k z then Ok (I64 z) else Err EOverflows) /\
  (forall k z, is_integer_kind k = true ->
  repr_big k z = if fits k z then Ok (int_norm z) else Err EOverflows) /\
  (forall k z, is_integer_kind k = true ->
  (exists c, repr_rc k (Big z) = Ok c) <-> kind_min k <= z <= kind_max k).
Proof. split; [exact repr_i64_int|split; [exact repr_big_int|exact representedBy_int_iff]]. Qed.
Print Assumptions C02_repr_int.



(* ---- integer arithmetic across both integer classes (int64Const meets intConst) *)
Theorem C02_int_arith :
  (forall o x y a b c,
  rc_int x = Some a -> rc_int y = Some b -> wf_int x -> wf_int y ->
  bin_arith o x y = Ok (Num c) ->
  forall v, arith_spec o a b = Some v -> rc_int c = Some v /\ wf_int c) /\
  (forall o x y a b v,
  rc_int x = Some a -> rc_int y = Some b -> wf_int x -> wf_int y ->
  arith_spec o a b = Some v -> Z.abs v < 2 ^ 512 ->
  exists c, bin_arith o x y = Ok (Num c)) /\
  (forall o x y a b, is_cmp_op o = true ->
  rc_int x = Some a -> rc_int y = Some b ->
  bin_arith o x y = Ok (Bool (cmp_result o (Z.compare a b)))).
Proof. split; [exact int_arith_exact|split; [exact int_arith_total|exact int_cmp_exact]]. Qed.
Print Assumptions C02_int_arith.



(* ---- float and rational constants converted to an integer kind: "truncated"
   iff not an integer (of the 64 bit range), otherwise the range check *)
Theorem C02_to_int :
  (forall k f, is_integer_kind k = true -> fl_minprec f <= 53 ->
  repr_f64 k f =
    if f64_int_ok k f then (if fits k (fl_to_Z f) then Ok (int_norm (fl_to_Z f)) else Err EOverflows)
    else Err ETruncInt) /\
  (forall k f, is_integer_kind k = true ->
  repr_bigf k f =
    if fl_is_int f then
      (if fits k (fl_to_Z f) then Ok (int_norm (fl_to_Z f))
       else if (if is_signed_kind k then is_int64 (fl_to_Z f) else is_uint64 (fl_to_Z f)) then Err EOverflows
       else Err ETruncInt)
    else Err ETruncInt) /\
  (forall k n d, is_integer_kind k = true ->
  repr_rat k n d =
    if (d =? 1)%positive then (if fits k n then Ok (int_norm n) else Err EOverflows) else Err ETruncInt).
Proof. split; [exact repr_f64_int|split; [exact repr_bigf_int|exact repr_rat_int]]. Qed.
Print Assumptions C02_to_int.



(* ---- rationals: + - * / are exact and in lowest terms; comparison is exact *)
Theorem C02_rat :
  (forall o n1 d1 n2 d2, is_field_op o = true -> (o = ODiv -> n2 <> 0) ->
  exists n d, bin_rat o n1 d1 n2 d2 = Ok (Num (Rat n d)) /\
              (n # d == qop o (n1 # d1) (n2 # d2))%Q /\ Z.gcd n (Zpos d) = 1) /\
  (forall n1 d1 d2, bin_rat ODiv n1 d1 0 d2 = Err EDiv0) /\
  (forall o n1 d1 n2 d2, is_cmp_op o = true ->
  bin_rat o n1 d1 n2 d2 = Ok (Bool (cmp_result o ((n1 # d1) ?= (n2 # d2))%Q))).
Proof. split; [exact rat_arith_exact|split; [exact rat_div_by_zero|exact rat_cmp_exact]]. Qed.
Print Assumptions C02_rat.



(* ---- complex constants with integer parts: whenever the operation yields a constant it is exact *)
Theorem C02_cplx_exact :
  (forall a b c d va vb vc vd,
  rc_int a = Some va -> rc_int b = Some vb -> rc_int c = Some vc -> rc_int d = Some vd ->
  wf_int a -> wf_int b -> wf_int c -> wf_int d ->
  forall re im, bin_cplx OMul a b c d = Ok (Cplx re im) ->
  rc_int re = Some (va * vc - vb * vd) /\ rc_int im = Some (vb * vc + va * vd)) /\
  (forall a b c d va vb vc vd,
  rc_int a = Some va -> rc_int b = Some vb -> rc_int c = Some vc -> rc_int d = Some vd ->
  wf_int a -> wf_int b -> wf_int c -> wf_int d ->
  forall re im, bin_cplx OAdd a b c d = Ok (Cplx re im) ->
  rc_int re = Some (va + vc) /\ rc_int im = Some (vb + vd)) /\
  (forall a b c d va vb vc vd,
  rc_int a = Some va -> rc_int b = Some vb -> rc_int c = Some vc -> rc_int d = Some vd ->
  wf_int a -> wf_int b -> wf_int c -> wf_int d ->
  forall re im, bin_cplx OSub a b c d = Ok (Cplx re im) ->
  rc_int re = Some (va - vc) /\ rc_int im = Some (vb - vd)).
Proof. split; [exact cplx_mul_exact|split; [exact cplx_add_exact|exact cplx_sub_exact]]. Qed.
Print Assumptions C02_cplx_exact.



(* ---- 512 bit floats: + - * are exact whenever the exact result fits the precision;
   the float64 shortcuts (x+0, x*1, x/1, x*0) are exact *)
Theorem C02_bigf_exact :
  (forall x y,
  bitlen (fst (fl_sum_mz x y false)) <= gen_bigfloat_prec ->
  fl_is_zero x = false -> fl_is_zero y = false ->
  (flQ (fl_add x y) == flQ x + flQ y)%Q) /\
  (forall x y,
  bitlen (fst (fl_sum_mz x y true)) <= gen_bigfloat_prec ->
  fl_is_zero x = false -> fl_is_zero y = false ->
  (flQ (fl_sub x y) == flQ x - flQ y)%Q) /\
  (forall x y,
  bitlen (fl_m x * fl_m y) <= gen_bigfloat_prec ->
  (flQ (fl_mul x y) == flQ x * flQ y)%Q).
Proof. split; [exact bigf_add_exact|split; [exact bigf_sub_exact|exact bigf_mul_exact]]. Qed.
Print Assumptions C02_bigf_exact.



Theorem C02_f64_shortcuts : forall x y,
  (fl_is_zero y = true -> exists r, bin_f64 OAdd x y = Ok (Num (F64 r)) /\ (flQ r == flQ x + flQ y)%Q) /\
  (fl_is_zero x = true -> exists r, bin_f64 OAdd x y = Ok (Num (F64 r)) /\ (flQ r == flQ x + flQ y)%Q) /\
  (fl_is_zero y = true -> exists r, bin_f64 OSub x y = Ok (Num (F64 r)) /\ (flQ r == flQ x - flQ y)%Q) /\
  (fl_is_zero x || fl_is_zero y = true -> exists r, bin_f64 OMul x y = Ok (Num (F64 r)) /\ (flQ r == flQ x * flQ y)%Q) /\
  (fl_is_one y = true -> exists r, bin_f64 OMul x y = Ok (Num (F64 r)) /\ (flQ r == flQ x * flQ y)%Q) /\
  (fl_is_one x = true -> exists r, bin_f64 OMul x y = Ok (Num (F64 r)) /\ (flQ r == flQ x * flQ y)%Q) /\
  (fl_is_one y = true -> exists r, bin_f64 ODiv x y = Ok (Num (F64 r)) /\ (flQ r == flQ x / flQ y)%Q) /\
  (fl_is_zero y = true -> bin_f64 ODiv x y = Err EDiv0).
Proof. exact f64_shortcuts. Qed.
Print Assumptions C02_f64_shortcuts.

(* ---- the checker glue: < <= > >= are rejected on complex types whatever
   the representation class of the constants is (complex128(1) < 2 was
   accepted before fix 01e9b06); the kinds are those after the implicit
   conversion of the untyped operand to the type of the typed one *)
Theorem C02_ordered_cmp_complex : forall o t1 t2, is_ordered_op o = true ->
  is_complex_kind (eff_kind1 t1 t2) || is_complex_kind (eff_kind2 t1 t2) = true ->
  exists e, check_binary o t1 t2 = EErr e.
Proof. exact ordered_cmp_complex_rejected. Qed.
Print Assumptions C02_ordered_cmp_complex.

Example C02_example_ordered_cmp_complex :
  check_binary OLt {| ti_kind := KComplex128; ti_untyped := false; ti_c := Num (F64 (FFin false 1 0)) |}
                   {| ti_kind := KInt; ti_untyped := true; ti_c := Num (I64 2) |} = EErr CInvalidOp.
Proof. exact ordered_cmp_complex_example. Qed.

(* ==== correct rounding (for all inputs, unbounded Z and Q) ====
   T k is 2^k in Q.  in_format prec emin y: y = k * 2^c with |k| < 2^prec and
   emin <= c.  rounds_to prec emin x r (Round_spec.v): r belongs to the
   format, no element of the format is nearer to x than r, and r = q' * 2^e'
   with |x - r| <= 2^e' / 2 and q' even in the case of equality (ties to even).
   pairQ (q', e') = q' * 2^e'. *)

(* ---- round_mag: the magnitude (a # d) * 2^e, given as its integer part
   m = a / d > 0 and the sticky flag (a mod d <> 0; then m has more than prec
   bits), is rounded to the nearest element of the format, ties to even; the
   exponent of the result is explicit *)
Theorem C02_round_mag :
  (forall prec emin a d e, 0 < prec -> 0 < a / Zpos d ->
     negb (a mod Zpos d =? 0) = false \/ prec < bitlen (a / Zpos d) ->
     rounds_to prec emin ((a # d) * T e)
       (pairQ (round_mag prec emin (Z.to_pos (a / Zpos d)) e (negb (a mod Zpos d =? 0))))) /\
  (forall prec emin m e st, 0 < prec ->
     snd (round_mag prec emin m e st) =
       Z.max e (match emin with
                | Some em => Z.max (bitlen (Zpos m) + e - prec) em
                | None => bitlen (Zpos m) + e - prec
                end) /\
     0 <= fst (round_mag prec emin m e st) <= 2 ^ prec).
Proof. exact (conj round_mag_rounds round_mag_exponent). Qed.
Print Assumptions C02_round_mag.

(* ---- properties of every rounding that satisfies rounds_to: monotone,
   exact on the elements of the format, idempotent *)
Theorem C02_rounding_laws :
  (forall prec emin x1 x2 r1 r2,
     rounds_to prec emin x1 r1 -> rounds_to prec emin x2 r2 -> (x1 < x2)%Q -> (r1 <= r2)%Q) /\
  (forall prec emin x r, rounds_to prec emin x r -> in_format prec emin x -> (r == x)%Q) /\
  (forall prec emin x r r', rounds_to prec emin x r -> rounds_to prec emin r r' -> (r' == r)%Q).
Proof. exact (conj rounds_to_monotone (conj rounds_to_exact rounds_to_idempotent)). Qed.
Print Assumptions C02_rounding_laws.

(* ---- round_fl, round_Z, round_rat (through quo_bits): floats, integers and
   rationals n / d rounded to a format, once; rounding of floats is monotone
   and depends on the value only, not on the representation m * 2^e *)
Theorem C02_round_functions :
  (forall f x r, 0 < f_prec f -> round_fl f x = Some r ->
     rounds_to (f_prec f) (f_emin f) (flQ x) (flQ r)) /\
  (forall f z r, 0 < f_prec f -> round_Z f z = Some r ->
     rounds_to (f_prec f) (f_emin f) (inject_Z z) (flQ r)) /\
  (forall f n d r, 0 < f_prec f -> round_rat f n d = Some r ->
     rounds_to (f_prec f) (f_emin f) (n # d) (flQ r)) /\
  (forall f x1 x2 r1 r2, 0 < f_prec f ->
     round_fl f x1 = Some r1 -> round_fl f x2 = Some r2 -> (flQ x1 <= flQ x2)%Q -> (flQ r1 <= flQ r2)%Q) /\
  (forall f x1 x2 r1 r2, 0 < f_prec f ->
     round_fl f x1 = Some r1 -> round_fl f x2 = Some r2 -> (flQ x1 == flQ x2)%Q -> (flQ r1 == flQ r2)%Q) /\
  (forall f n1 d1 n2 d2 r1 r2, 0 < f_prec f ->
     round_rat f n1 d1 = Some r1 -> round_rat f n2 d2 = Some r2 -> (n1 # d1 < n2 # d2)%Q -> (flQ r1 <= flQ r2)%Q) /\
  (forall f x r r', 0 < f_prec f -> round_fl f x = Some r -> round_fl f r = Some r' -> (flQ r' == flQ r)%Q).
Proof.
  exact (conj round_fl_rounds (conj round_Z_rounds (conj round_rat_rounds
        (conj round_fl_monotone_le (conj round_fl_value_det (conj round_rat_monotone round_fl_idempotent)))))).
Qed.
Print Assumptions C02_round_functions.

(* ---- overflow to an error: for a format with a maximal exponent mx (and
   emin + prec <= mx) rounding fails exactly when the magnitude is at least
   2^mx - 2^(mx - prec - 1), the midpoint between the largest element and
   2^mx, which is a tie rounded to the even neighbour 2^mx *)
Theorem C02_round_overflow :
  (forall f mx x, fmt_ok f mx ->
     (round_fl f x = None <-> (T mx - T (mx - f_prec f - 1) <= Qabs (flQ x))%Q)) /\
  (forall f mx n d, fmt_ok f mx ->
     (round_rat f n d = None <-> (T mx - T (mx - f_prec f - 1) <= Qabs (n # d))%Q)) /\
  fmt_ok fmt64 1024 /\ fmt_ok fmt32 128.
Proof. exact (conj round_fl_overflow (conj round_rat_overflow (conj fmt64_ok fmt32_ok))). Qed.
Print Assumptions C02_round_overflow.

(* ---- big.Float Add, Sub, Mul, Quo, SetInt, SetRat at the precision of
   floatConst (the generated gen_bigfloat_prec, no exponent limits): the
   exact result rounded once; big_rounds x r = rounds_to gen_bigfloat_prec None x (flQ r) *)
Theorem C02_bigfloat_arith :
  (forall x y, big_rounds (flQ x + flQ y) (fl_add x y)) /\
  (forall x y, big_rounds (flQ x - flQ y) (fl_sub x y)) /\
  (forall x y, big_rounds (flQ x * flQ y) (fl_mul x y)) /\
  (forall x y, fl_is_zero y = false -> big_rounds (flQ x / flQ y) (fl_quo x y)) /\
  (forall z, big_rounds (inject_Z z) (big_of_Z z)) /\
  (forall n d, big_rounds (n # d) (big_of_rat n d)).
Proof.
  exact (conj fl_add_rounds (conj fl_sub_rounds (conj fl_mul_rounds
        (conj fl_quo_rounds (conj big_of_Z_rounds big_of_rat_rounds))))).
Qed.
Print Assumptions C02_bigfloat_arith.

(* ---- conversion to float64 and float32 (floatConst.representedBy and, since
   fix 9f165da, ratConst.representedBy): the value rounded once to 53 (24)
   bits with the IEEE exponent range, subnormals included (last place at least
   2^-1074, 2^-149), of magnitude below 2^1024 (2^128); rejected with
   "overflows" exactly from 2^1024 - 2^970 (2^128 - 2^103) on; never a fault.
   f64_rounds x r = rounds_to 53 (Some (-1074)) x (flQ r) /\ |flQ r| < 2^1024 *)
Theorem C02_to_float :
  (forall x,
     (repr_bigf KFloat64 x = Err EOverflows <-> (T 1024 - T 970 <= Qabs (flQ x))%Q) /\
     (forall c, repr_bigf KFloat64 x = Ok c -> exists r, c = F64 r /\ f64_rounds (flQ x) r) /\
     repr_bigf KFloat64 x <> Fault) /\
  (forall x,
     (repr_bigf KFloat32 x = Err EOverflows <-> (T 128 - T 103 <= Qabs (flQ x))%Q) /\
     (forall c, repr_bigf KFloat32 x = Ok c -> exists r, c = F64 r /\ f32_rounds (flQ x) r) /\
     repr_bigf KFloat32 x <> Fault) /\
  (forall n d, (d =? 1)%positive = false ->
     (repr_rat KFloat64 n d = Err EOverflows <-> (T 1024 - T 970 <= Qabs (n # d))%Q) /\
     (forall c, repr_rat KFloat64 n d = Ok c -> exists r, c = F64 r /\ f64_rounds (n # d) r) /\
     repr_rat KFloat64 n d <> Fault) /\
  (forall n d, (d =? 1)%positive = false ->
     (repr_rat KFloat32 n d = Err EOverflows <-> (T 128 - T 103 <= Qabs (n # d))%Q) /\
     (forall c, repr_rat KFloat32 n d = Ok c -> exists r, c = F64 r /\ f32_rounds (n # d) r) /\
     repr_rat KFloat32 n d <> Fault).
Proof. exact (conj repr_bigf_float64 (conj repr_bigf_float32 (conj repr_rat_float64 repr_rat_float32))). Qed.
Print Assumptions C02_to_float.

(* non-vacuity of the rounding theorems: ties to even in both directions, a
   subnormal result, the overflow threshold of float64 *)
Example C02_example_rounding :
  round_fl fmt64 (FFin false (2 ^ 53 + 1) 0) = Some (FFin false 1 53) /\
  round_fl fmt64 (FFin false (2 ^ 53 + 3) 0) = Some (FFin false (2 ^ 51 + 1) 2) /\
  round_fl fmt64 (FFin false 3 (-1075)) = Some (FFin false 1 (-1073)) /\
  round_fl fmt64 (FFin false 1 (-1075)) = Some (FZero false) /\
  round_fl fmt64 (FFin false (2 ^ 54 - 1) 970) = None /\
  round_fl fmt64 (FFin false (2 ^ 55 - 3) 969) = Some (FFin false (2 ^ 53 - 1) 971) /\
  round_rat fmt32 1 3 = Some (FFin false 11184811 (-25)).
Proof. vm_compute. repeat split. Qed.

(* ---- strings and booleans *)
Theorem C02_str_ops : forall a b,
  binary_op OAdd (Str a) (Str b) = Ok (Str (a ++ b)) /\
  (binary_op OEq (Str a) (Str b) = Ok (Bool true) <-> a = b) /\
  (binary_op OLt (Str a) (Str b) = Ok (Bool true) <-> lex_lt a b) /\
  (binary_op OGt (Str a) (Str b) = Ok (Bool true) <-> lex_lt b a) /\
  binary_op ONe (Str a) (Str b) = Ok (Bool (negb (cmp_result OEq (bytes_compare a b)))) /\
  binary_op OLe (Str a) (Str b) = Ok (Bool (negb (cmp_result OGt (bytes_compare a b)))) /\
  binary_op OGe (Str a) (Str b) = Ok (Bool (negb (cmp_result OLt (bytes_compare a b)))).
Proof. exact str_ops. Qed.

Theorem C02_bool_ops : forall a b,
  binary_op OAnd (Bool a) (Bool b) = Ok (Bool (a && b)) /\
  binary_op OOr (Bool a) (Bool b) = Ok (Bool (a || b)) /\
  binary_op OEq (Bool a) (Bool b) = Ok (Bool (Bool.eqb a b)) /\
  binary_op ONe (Bool a) (Bool b) = Ok (Bool (xorb a b)) /\
  unary_op ONot None (Bool a) = Ok (Bool (negb a)).
Proof. exact bool_ops. Qed.

(* non-vacuity *)
Example C02_example_complex :
  bin_cplx OMul (I64 3) (I64 4) (I64 3) (I64 4) = Ok (Cplx (I64 (-7)) (I64 24)) /\
  bin_cplx ODiv (I64 1) (I64 2) (I64 3) (I64 4) = Ok (Cplx (Rat 11 25) (Rat 2 25)).
Proof. vm_compute. split; reflexivity. Qed.

Example C02_example_shift_counts :
  shift_rc OShl (I64 0) (Num (I64 512)) = Ok (Num (Big 0)) /\
  shift_rc OShl (I64 0) (Num (I64 1075)) = Err EShiftLarge /\
  shift_rc OShr (I64 1) (Num (I64 2000)) = Err EShiftLarge /\
  shift_rc OShr (I64 1) (Num (I64 1074)) = Ok (Num (I64 0)) /\
  shift_rc OShl (I64 1) (Num (I64 512)) = Err EShiftLarge.
Proof. vm_compute. repeat split. Qed.

Example C02_example_shr_of_float_above_512_bits :
  shift_rc OShr (BigF (FFin false 1 1000)) (Num (I64 65)) = Err EShlOverflow /\
  shift_rc OShr (BigF (FFin false 1 600)) (Num (I64 200)) = Ok (Num (Big (2 ^ 400))).
Proof. vm_compute. split; reflexivity. Qed.

(* a rational constant is rounded once to the float type (fix 9f165da; it was
   rounded to 512 bits first): 2^53 + 1 + 10^-400 is 2^53 + 2 as a float64 *)
Example C02_example_rat_rounded_once :
  repr_rat KFloat64 (9007199254740993 * 10 ^ 400 + 1) (Z.to_pos (10 ^ 400)) = Ok (F64 (FFin false 4503599627370497 1)) /\
  repr_rat KFloat32 (16777217 * 10 ^ 400 + 1) (Z.to_pos (10 ^ 400)) = Ok (F64 (FFin false 8388609 1)).
Proof. vm_compute. split; reflexivity. Qed.

Example C02_example_minint_div : bin_i64 ODiv min64 (-1) = Ok (Num (Big (2 ^ 63))).
Proof. vm_compute. reflexivity. Qed.

Example C02_example_add_overflow :
  bin_i64 OAdd max64 1 = Ok (Num (Big (2 ^ 63))).
Proof. vm_compute. reflexivity. Qed.

Example C02_example_uint64_above_maxint64 :
  repr_rc KUint64 (Big (2 ^ 64 - 1)) = Ok (Big (2 ^ 64 - 1)) /\
  repr_rc KUint64 (Big (2 ^ 64)) = Err EOverflows /\
  repr_rc KUintptr (Big (2 ^ 63)) = Ok (Big (2 ^ 63)) /\
  repr_rc KUint8 (I64 255) = Ok (I64 255) /\ repr_rc KUint8 (I64 256) = Err EOverflows.
Proof. vm_compute. repeat split. Qed.
