(* C02 - compile-time constant arithmetic is exact and matches the Go specification.
   Only statements, `exact`, and Print Assumptions live here. *)
From Coq Require Import ZArith List Bool.
From Verif Require Import Facts_consts ConstsM Consts_proofs.
Open Scope Z_scope.

(* ---- the int64 fast path: for all int64 operands the overflow tests of the
   code are exact: the result denotes a+b (a-b, a*b) and is an int64Const
   exactly when the value fits, otherwise the operation was delegated to the
   big representation (int_norm z = I64 z if z fits int64, Big z otherwise) *)
Theorem C02_i64_add_exact : forall a b, in64 a -> in64 b ->
  bin_i64 OAdd a b = Ok (Num (int_norm (a + b))).
Proof. exact i64_add_exact. Qed.
Print Assumptions C02_i64_add_exact.

Theorem C02_i64_sub_exact : forall a b, in64 a -> in64 b ->
  bin_i64 OSub a b = Ok (Num (int_norm (a - b))).
Proof. exact i64_sub_exact. Qed.
Print Assumptions C02_i64_sub_exact.

Theorem C02_i64_mul_exact : forall a b, in64 a -> in64 b ->
  bin_i64 OMul a b = Ok (Num (int_norm (a * b))).
Proof. exact i64_mul_exact. Qed.
Print Assumptions C02_i64_mul_exact.

(* division truncates toward zero (Z.quot, Z.rem: trunc_div_spec), MinInt64 / -1 is 2^63 *)
Theorem C02_i64_div_exact : forall a b, in64 a -> in64 b -> b <> 0 ->
  bin_i64 ODiv a b = Ok (Num (int_norm (Z.quot a b))).
Proof. exact i64_div_exact. Qed.
Print Assumptions C02_i64_div_exact.

Theorem C02_i64_rem_exact : forall a b, in64 a -> in64 b -> b <> 0 ->
  bin_i64 OMod a b = Ok (Num (I64 (Z.rem a b))) /\ in64 (Z.rem a b).
Proof. exact i64_rem_exact. Qed.
Print Assumptions C02_i64_rem_exact.

Theorem C02_trunc_div_spec : forall a b, b <> 0 ->
  a = b * Z.quot a b + Z.rem a b /\ Z.abs (Z.rem a b) < Z.abs b /\ 0 <= Z.rem a b * a.
Proof. exact trunc_div_spec. Qed.

Theorem C02_div_by_zero : forall a o, (o = ODiv \/ o = OMod) ->
  bin_i64 o a 0 = Err EDiv0 /\ bin_big o a 0 = Err EDiv0.
Proof. intros a o H. split; [exact (i64_div_by_zero a o H) | exact (big_div_by_zero a o H)]. Qed.
Print Assumptions C02_div_by_zero.

(* ---- the big representation: exact, rejected exactly beyond 512 bits *)
Theorem C02_big_add_exact : forall a b,
  bin_big OAdd a b = if Z.abs (a + b) <? 2 ^ 512 then Ok (Num (Big (a + b))) else Err EAddOverflow.
Proof. exact big_add_exact. Qed.
Print Assumptions C02_big_add_exact.

Theorem C02_big_sub_exact : forall a b,
  bin_big OSub a b = if Z.abs (a - b) <? 2 ^ 512 then Ok (Num (Big (a - b))) else Err ESubOverflow.
Proof. exact big_sub_exact. Qed.

Theorem C02_big_mul_exact : forall a b,
  bin_big OMul a b = if Z.abs (a * b) <? 2 ^ 512 then Ok (Num (Big (a * b))) else Err EMulOverflow.
Proof. exact big_mul_exact. Qed.

Theorem C02_big_div_exact : forall a b, b <> 0 ->
  bin_big ODiv a b = Ok (Num (Big (Z.quot a b))) /\ bin_big OMod a b = Ok (Num (Big (Z.rem a b))).
Proof. exact big_div_exact. Qed.

(* ---- negation and bitwise complement *)
Theorem C02_neg_i64 : forall z k, in64 z -> unary_rc OSub k (I64 z) = Ok (int_norm (- z)).
Proof. exact neg_i64. Qed.

Theorem C02_neg_min64 : forall k, unary_rc OSub k (I64 min64) = Ok (Big (2 ^ 63)).
Proof. exact neg_min64. Qed.

Theorem C02_xor_signed : forall z k, is_signed_kind k = true ->
  unary_rc OXor (Some k) (I64 z) = Ok (I64 (- z - 1)) /\
  unary_rc OXor (Some k) (Big z) = Ok (Big (- z - 1)).
Proof. exact xor_signed. Qed.
Print Assumptions C02_xor_signed.

(* for an unsigned kind (uint8 ... uint64, uint, uintptr) ^x = max - x, through the generated tables *)
Theorem C02_xor_unsigned : forall z k, is_unsigned_kind k = true -> 0 <= z <= kind_max k ->
  (in64 z -> unary_rc OXor (Some k) (I64 z) = Ok (int_norm (kind_max k - z))) /\
  unary_rc OXor (Some k) (Big z) = Ok (Big (kind_max k - z)).
Proof. exact xor_unsigned. Qed.
Print Assumptions C02_xor_unsigned.

(* ---- shifts: x << n is x * 2^n, rejected beyond 512 bits; a count >= 512 is
   rejected for << (whatever x is, also 0); a negative count is rejected;
   x >> n is the floor of x / 2^n for every count that fits uint *)
Theorem C02_shl_exact : forall small z n, 0 <= n < 512 ->
  shift_int OShl small z (Num (I64 n)) =
    if Z.abs (z * 2 ^ n) <? 2 ^ 512 then Ok (Num (Big (z * 2 ^ n))) else Err EShlOverflow.
Proof. exact shl_exact. Qed.
Print Assumptions C02_shl_exact.

Theorem C02_shl_count_limit : forall small z n, 512 <= n -> in64 n ->
  shift_int OShl small z (Num (I64 n)) = Err EShiftLarge.
Proof. exact shl_count_limit. Qed.

Theorem C02_shift_negative_count : forall o small z n, is_shift o = true -> n < 0 -> in64 n ->
  shift_int o small z (Num (I64 n)) = Err EShiftNeg.
Proof. exact shift_negative_count. Qed.

Theorem C02_shr_exact : forall small z n, 0 <= n -> in64 n ->
  shift_int OShr small z (Num (I64 n)) = Ok (Num (if small then I64 (z / 2 ^ n) else Big (z / 2 ^ n))).
Proof. exact shr_exact. Qed.
Print Assumptions C02_shr_exact.

Theorem C02_shift_count_big : forall o n,
  shift_const_error o (Num (Big n)) =
    if n <? 0 then Some EShiftNeg
    else if maxu64 <? n then Some EShiftOvfUint
    else match o with
         | OShl => if 512 <=? n then Some EShiftLarge else None
         | _ => None
         end.
Proof. exact shift_count_big. Qed.

(* ---- representedBy: for every integer kind (int8 ... int64, int, uint8 ...
   uint64, uint, uintptr) a value is accepted iff min k <= z <= max k, where
   min/max are computed from the width; the accepted constant denotes z *)
Theorem C02_repr_i64_int : forall k z, is_integer_kind k = true -> in64 z ->
  repr_i64 k z = if fits k z then Ok (I64 z) else Err EOverflows.
Proof. exact repr_i64_int. Qed.
Print Assumptions C02_repr_i64_int.

Theorem C02_repr_big_int : forall k z, is_integer_kind k = true ->
  repr_big k z = if fits k z then Ok (int_norm z) else Err EOverflows.
Proof. exact repr_big_int. Qed.
Print Assumptions C02_repr_big_int.

Theorem C02_representedBy_int_iff : forall k z, is_integer_kind k = true ->
  (exists c, repr_rc k (Big z) = Ok c) <-> kind_min k <= z <= kind_max k.
Proof. exact representedBy_int_iff. Qed.
Print Assumptions C02_representedBy_int_iff.

(* non-vacuity *)
Example C02_example_add_overflow :
  bin_i64 OAdd max64 1 = Ok (Num (Big (2 ^ 63))).
Proof. vm_compute. reflexivity. Qed.

Example C02_example_uint64_above_maxint64 :
  repr_rc KUint64 (Big (2 ^ 64 - 1)) = Ok (Big (2 ^ 64 - 1)) /\
  repr_rc KUint64 (Big (2 ^ 64)) = Err EOverflows /\
  repr_rc KUintptr (Big (2 ^ 63)) = Ok (Big (2 ^ 63)) /\
  repr_rc KUint8 (I64 255) = Ok (I64 255) /\ repr_rc KUint8 (I64 256) = Err EOverflows.
Proof. vm_compute. repeat split. Qed.
