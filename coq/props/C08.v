(* C08 — values shown as JavaScript or JSON are valid literals for the same data.
   Only statements, `exact`, Print Assumptions and examples live here.

   show_any (concrete O) ...  : renderer.Show in the JS / JSON context (model of showInJS /
                                showInJSON; jsStringEscape and base64 computed, the other
                                leaf texts given by the oracle O)
   json_parse / js_parse      : the parser of model/Json.v (RFC 8259 grammar; for JavaScript
                                also new Date(string))
   json_of_top O f t v        : the data the value stands for (model/ShowSpecM.v), defined over
                                kinds and flags without the generated routing tables          *)
From Coq Require Import List NArith ZArith Bool.
From Verif Require Import Bytes ShowTree Facts_show ShowTypesM ShowJsonM ShowLeavesM Json ShowSpecM
  ShowTree_proofs Show_flat_proofs Show_js_checks Show_js_proofs Show_c09_proofs Json_proofs ShowLeaves_proofs ShowJson_proofs ShowData_proofs.
Import ListNotations.
Open Scope N_scope.

(* the hypotheses common to the clauses: t is the descriptor of a type that is not an interface
   type, accepted by the checker in the context; v is a value of the type; the interface values
   nested in v hold accepted dynamic types *)
Definition accepted (f : showfn) (t : ty) (v : value) : Prop :=
  is_rec t = false /\ is_iface t = false /\ wf_tyb t = true /\ flag t w_EmptyInterface = false /\
  static_ok (ctx_of f) t = OOk /\ has_typeb [] t v = true /\ boxed_okb f v = true.

(* Full statement. *)
Definition C08_statement : Prop :=
  forall (O : leaves), oracle_ok O ->
  (* JSON: the text is valid JSON (it parses as exactly one value) and it is the data of the value *)
  (forall conv t v, accepted FJSON t v ->
     exists out j, show_any (concrete O) conv ctx_JSON false t v = ROk out /\
                   json_parse out = Some j /\ json_of_top O FJSON t v = Some j)
  /\
  (* JavaScript: the text is one literal expression, unless showTimeInJS panics on a year that
     Date cannot represent ... *)
  (forall conv t v, accepted FJS t v ->
     show_any (concrete O) conv ctx_JS false t v = RPanic \/
     exists out j, show_any (concrete O) conv ctx_JS false t v = ROk out /\
                   wf_json true j = true /\ out = json_print j /\ js_parse out = Some j)
  /\
  (* ... and when it does not panic the literal is the data of the value *)
  ((forall x, lf_time_js O x <> None) ->
   forall conv t v, accepted FJS t v ->
     exists out j, show_any (concrete O) conv ctx_JS false t v = ROk out /\
                   js_parse out = Some j /\ json_of_top O FJS t v = Some j).

Theorem C08_holds : C08_statement.
Proof.
  intros O HO. split; [| split].
  - intros conv t v [H1 [H2 [H3 [H4 [H5 [H6 H7]]]]]]. exact (show_json_data O conv t v HO H1 H2 H3 H4 H5 H6 H7).
  - intros conv t v [H1 [H2 [H3 [H4 [H5 [H6 H7]]]]]]. exact (show_js_wf O conv t v HO H1 H2 H3 H4 H5 H6 H7).
  - intros HT conv t v [H1 [H2 [H3 [H4 [H5 [H6 H7]]]]]]. exact (show_js_data O conv t v HO HT H1 H2 H3 H4 H5 H6 H7).
Qed.
Print Assumptions C08_holds.

(* well formedness, with the printed tree made explicit *)
Definition C08_wf_statement : Prop :=
  forall (O : leaves), oracle_ok O ->
  (forall conv t v, accepted FJSON t v ->
     exists out j, show_any (concrete O) conv ctx_JSON false t v = ROk out /\
                   wf_json false j = true /\ out = json_print j /\ json_parse out = Some j)
  /\
  (forall conv t v, accepted FJS t v ->
     show_any (concrete O) conv ctx_JS false t v = RPanic \/
     exists out j, show_any (concrete O) conv ctx_JS false t v = ROk out /\
                   wf_json true j = true /\ out = json_print j /\ js_parse out = Some j).

Theorem C08_wf : C08_wf_statement.
Proof.
  intros O HO. split; intros conv t v [H1 [H2 [H3 [H4 [H5 [H6 H7]]]]]].
  - exact (show_json_wf O conv t v HO H1 H2 H3 H4 H5 H6 H7).
  - exact (show_js_wf O conv t v HO H1 H2 H3 H4 H5 H6 H7).
Qed.
Print Assumptions C08_wf.

(* the parser reads back every well formed value from its text (both grammars) *)
Theorem C08_parse_print : forall js j, wf_json js j = true -> parse_text js (json_print j) = Some j.
Proof. exact parse_print. Qed.
Print Assumptions C08_parse_print.

(* the computed leaves are literal bodies and number tokens, for every input *)
Theorem C08_leaves :
  (forall s, body_ok (js_escape s) = true) /\ (forall s, body_ok (base64 s) = true) /\
  (forall n, is_number (dec_of_N n) = true) /\ (forall z, is_number (dec_of_Z z) = true) /\
  escapes_ok = true.
Proof.
  split; [exact js_escape_ok |]. split; [exact base64_ok |]. split; [exact dec_of_N_number |].
  split; [exact dec_of_Z_number | exact escapes_ok_true].
Qed.
Print Assumptions C08_leaves.

(* ---- non vacuity ---- *)

(* an oracle that satisfies the assumptions: floats are written 1.5, times are fixed texts, trusted texts are null *)
Definition ex_oracle : leaves :=
  {| lf_trusted := fun _ _ _ _ => t_null;
     lf_time_js := fun _ => Some (t_date_open ++ [50; 48; 50; 48] ++ t_date_close);
     lf_time_json := fun _ => [50; 48; 50; 48];
     lf_error_text := fun _ _ => [101]; lf_key_text := fun _ _ => [107];
     lf_float := fun _ _ => [49; 46; 53]; lf_float_zero := fun _ _ => false; lf_complex := fun _ _ _ => [48];
     lf_string := fun _ s => s; lf_base64 := fun s => s; lf_type_name := fun _ => [] |}.

Example C08_oracle_ok : oracle_ok ex_oracle.
Proof.
  constructor; intros; try reflexivity.
  - exists [50; 48; 50; 48]. split; reflexivity.
  - exists JNull. split; reflexivity.
Qed.

(* struct { A int `json:"a"`; B string `json:"b,omitempty"`; C []byte; d int; M map[string]float64 } *)
Definition t_ex : ty :=
  TStruct 0 [ ({| f_exported := true; f_name := [65]; f_tag := [97] |}, TLeaf k_Int 0);
              ({| f_exported := true; f_name := [66]; f_tag := [98; 44; 111; 109; 105; 116; 101; 109; 112; 116; 121] |}, TLeaf k_String 0);
              ({| f_exported := true; f_name := [67]; f_tag := [] |}, TSlice (2 ^ w_ByteSlice) (TLeaf k_Uint8 0));
              ({| f_exported := false; f_name := [100]; f_tag := [] |}, TLeaf k_Int 0);
              ({| f_exported := true; f_name := [77]; f_tag := [] |}, TMap 0 (TLeaf k_String 0) (TLeaf k_Float64 0)) ].
Definition v_ex : value :=
  VStruct [VInt (-7); VStr []; VBytes [104; 105]; VInt 3; VMap [(VStr [122], VFloat 1); (VStr [60], VFloat 2)]].

Example C08_example :
  accepted FJSON t_ex v_ex /\
  show_any (concrete ex_oracle) false ctx_JSON false t_ex v_ex
  = ROk [123;34;97;34;58;45;55;44;34;67;34;58;34;97;71;107;61;34;44;34;77;34;58;123;34;92;117;48;48;51;99;34;58;49;46;53;44;34;122;34;58;49;46;53;125;125] /\
  json_of_top ex_oracle FJSON t_ex v_ex
  = Some (JObj [([97], JNum [45;55]); ([67], JStr [97;71;107;61]);
                ([77], JObj [([92;117;48;48;51;99], JNum [49;46;53]); ([122], JNum [49;46;53])])]).
Proof. vm_compute. repeat split; reflexivity. Qed.

(* the oracle hypothesis is what fails for a non finite float: +Inf is not a number token *)
Example C08_nonfinite_is_not_a_number : is_number [43; 73; 110; 102] = false /\ is_number [78; 97; 78] = false.
Proof. split; reflexivity. Qed.
