(* C04 - building never crashes, hangs or leaks, whatever the source bytes.
   Proved part: the template lexer (scanTemplate / scan, scanTag,
   scanAttribute, CDATA, Markdown contexts, the delimiters, lexComment, raw
   blocks, lexCode with its literal lexers, the shebang line), modelled with
   checked indexing.  Only statements, `exact`, Print Assumptions. *)
From Verif Require Import Bytes Facts_lexer Facts_unicode LexBase LexCodeM LexerM LexTables
  LexBase_proofs LexTile_proofs LexCode_proofs Lexer_proofs LexTop_proofs LexProg_proofs.
Open Scope N_scope.

(* Full statement.  Building a template is the lexer followed by the parser,
   the type checker and the emitter; only the lexer is modelled.  The rest of
   the pipeline is the parameter `rest` (true: it returns a result or an
   error in bounded time without leaving a goroutine; false otherwise). *)
Definition C04_statement (rest : list token -> option lexer -> bool) : Prop :=
  forall (U : unitab) (noParseShow : bool) (format : N) (src : bytes),
    match scan_template U noParseShow format src with
    | Done toks err => rest toks err = true
    | Crashed => False       (* an index or slice out of range in the lexer goroutine kills the process *)
    | OutOfFuel => False     (* the scan does not terminate: the token channel is never closed *)
    end.

(* the proved part: for every byte string, every format and whatever the
   Unicode tables say, the scan ends with a finite token list (the channel is
   closed), without an index or slice out of range *)
Definition lexer_no_fault_statement : Prop :=
  forall (U : unitab) (noParseShow : bool) (format : N) (src : bytes),
    scan_template U noParseShow format src <> Crashed.
Definition lexer_terminates_statement : Prop :=
  forall (U : unitab) (noParseShow : bool) (format : N) (src : bytes),
    scan_template U noParseShow format src <> OutOfFuel.

Theorem C04_lexer_no_fault_partial : lexer_no_fault_statement.
Proof. exact lexer_no_fault. Qed.
Print Assumptions C04_lexer_no_fault_partial.

Theorem C04_lexer_terminates_partial : lexer_terminates_statement.
Proof. exact lexer_terminates. Qed.
Print Assumptions C04_lexer_terminates_partial.

(* the explicit measure of the main loop: mu = 2 * (bytes not yet scanned) +
   (1 inside an attribute value); every iteration that goes on decreases it *)
Theorem C04_scan_measure_partial :
  forall (U : unitab) (noParseShow : bool) (src : bytes) (fileContext : N) (isHTML : bool) (st : mst),
    MI src st ->
    safe (scan_body U noParseShow fileContext isHTML st)
         (fun r => match r with
                   | Again st' => MI src st' /\ mu src st' < mu src st
                   | Stop st' => st' = st /\ len (m_l st) <= m_p st
                   end)
         (INV src).
Proof. exact scan_body_safe. Qed.
Print Assumptions C04_scan_measure_partial.

(* lexCode: every iteration that goes on consumes at least one byte; when it
   returns nil the closing delimiter is in front (this is what fails for a
   block of statements ended by two percent signs at the end of the source
   before the repair) *)
Theorem C04_lexcode_measure_partial :
  forall (U : unitab) (src : bytes) (endt first : N) (s : cst),
    INVB src (c_l s) ->
    safe (code_body U endt first s)
         (fun r => match r with
                   | Again s' => (INVB src (c_l s') /\ l_base (c_l s) < l_base (c_l s') /\ l_tidx (c_l s') <= l_tidx (c_l s))
                                 /\ c_ret s' = c_ret s
                   | Stop s' => extB src (c_l s) (c_l s') /\ (c_ret s' = true -> c_ret s = true \/ closing endt (c_l s'))
                   end)
         (extB src (c_l s)).
Proof. exact code_body_safeB. Qed.
Print Assumptions C04_lexcode_measure_partial.

(* ---- programs: scanProgram runs scan with templateSyntax = false, that is
   lexCode(tokenEOF) on the whole source (keywords of the program syntax, no
   raw marker bookkeeping, no shebang line), then sends the EOF token ---- *)
Definition program_no_fault_statement : Prop :=
  forall (U : unitab) (src : bytes), scan_program U src <> Crashed.
Definition program_terminates_statement : Prop :=
  forall (U : unitab) (src : bytes), scan_program U src <> OutOfFuel.
Definition program_token_range_statement : Prop :=
  forall (U : unitab) (src : bytes) toks err,
    scan_program U src = Done toks err ->
    (forall t, In t toks -> tok_in (nlen src) t) /\ toks_sorted 0 toks /\
    (forall l, err = Some l -> l_base l <= nlen src).

Theorem C04_program_no_fault : program_no_fault_statement.
Proof. exact program_no_fault. Qed.
Print Assumptions C04_program_no_fault.

Theorem C04_program_terminates : program_terminates_statement.
Proof. exact program_terminates. Qed.
Print Assumptions C04_program_terminates.

Theorem C04_program_token_range : program_token_range_statement.
Proof.
  exact (fun U src toks err H =>
    conj (program_token_offsets U src toks err H)
      (conj (program_tokens_in_order U src toks err H)
        (fun l E => program_error_offset U src toks l (eq_trans H (f_equal (Done toks) E))))).
Qed.
Print Assumptions C04_program_token_range.

(* the loop of lexCode for programs: every iteration that goes on consumes at
   least one byte (the invariant INVP has no tiling: a program has no text) *)
Theorem C04_program_lexcode_measure :
  forall (U : unitab) (src : bytes) (endt first : N) (s : cst),
    INVP src (c_l s) ->
    safe (code_body U endt first s)
         (fun r => match r with
                   | Again s' => (INVP src (c_l s') /\ l_base (c_l s) < l_base (c_l s') /\ l_tidx (c_l s') <= l_tidx (c_l s))
                                 /\ c_ret s' = c_ret s
                   | Stop s' => (INVP src (c_l s') /\ l_base (c_l s) <= l_base (c_l s') /\ l_tidx (c_l s') <= l_tidx (c_l s))
                                /\ (c_ret s' = true -> c_ret s = true \/ closing endt (c_l s'))
                   end)
         (fun l' => INVP src l' /\ l_base (c_l s) <= l_base l' /\ l_tidx l' <= l_tidx (c_l s)).
Proof. exact code_body_safeP. Qed.
Print Assumptions C04_program_lexcode_measure.

(* endRawIndex never reads outside its argument and ends *)
Theorem C04_end_raw_index_partial :
  forall (U : unitab) (s marker : bytes),
    safe (end_raw_index U s marker) (fun r => match r with Some p => p < nlen s | None => True end) nofail.
Proof. exact end_raw_index_safe. Qed.
Print Assumptions C04_end_raw_index_partial.

(* what is missing for the full statement: the rest of the pipeline *)
Theorem C04_from_rest : forall rest, (forall toks err, rest toks err = true) -> C04_statement rest.
Proof.
  intros rest H U ns fmt src. pose proof (lexer_no_fault U ns fmt src). pose proof (lexer_terminates U ns fmt src).
  destruct (scan_template U ns fmt src); auto.
Qed.

(* non-vacuity: the input that crashed the process before commit 05ddf61, two
   inputs that crashed it before the repairs of this work package, and a
   document with a tag, an attribute, a statement and a show *)
Example C04_example_comment :
  scan_template go_unicode false 0 [123; 35; 35] <> Crashed /\
  exists toks l, scan_template go_unicode false 0 [123; 35; 35] = Done toks (Some l).
Proof. vm_compute. split; [discriminate|eauto]. Qed.
Example C04_example_statements :
  exists toks l, scan_template go_unicode false 0 [123; 37; 37; 37; 37] = Done toks (Some l).
Proof. vm_compute. eauto. Qed.
Example C04_example_done :
  exists toks, scan_template go_unicode false 1
    [60;97;32;104;114;101;102;61;34;123;123;32;120;32;125;125;34;62;123;37;32;105;102;32;97;32;37;125;98;123;37;32;101;110;100;32;37;125] = Done toks None
    /\ length toks = 16%nat.
Proof. vm_compute. eexists. split; reflexivity. Qed.

(* programs: a source with an unterminated general comment, one ending with a
   slash, and one that is lexed to the end: package main / func main() { } *)
Example C04_example_program_comment :
  exists toks l, scan_program go_unicode [47; 42; 120] = Done toks (Some l).
Proof. vm_compute. eauto. Qed.
Example C04_example_program_slash :
  exists toks, scan_program go_unicode [120; 32; 47] = Done toks None /\ length toks = 3%nat.
Proof. vm_compute. eexists. split; reflexivity. Qed.
Example C04_example_program_done :
  exists toks, scan_program go_unicode
    [112;97;99;107;97;103;101;32;109;97;105;110;10;102;117;110;99;32;109;97;105;110;40;41;32;123;32;125;10] = Done toks None
    /\ length toks = 11%nat.
Proof. vm_compute. eexists. split; reflexivity. Qed.
