(* C06 - autoescaping confines every shown untrusted value to its syntactic slot.
   Layer (A), escaper confinement, is proved here.  Only statements, `exact`,
   and Print Assumptions live in this file. *)
From Verif Require Import Bytes Utf8 Facts_escapers Facts_esc EscapersM HtmlDecode Decoders RefScanners
  Escapers_proofs Confine_proofs.
Open Scope N_scope.

(* The FULL property: for every document with show holes and every assignment
   of untrusted values to the holes, the rendered document has the structure it
   has with benign values.  The template language (documents, the lexer's
   context detection, macros, imports, render), the renderer and the structure
   of a rendered document under the standard HTML / JS / CSS / JSON parsers are
   outside this work package: they enter as Section variables.  The statement is
   NOT proved (see checks/C06.json, stated_not_proved: layers B and C). *)
Section Full.
  Variables (doc value structure_t : Type).
  Variable render : doc -> (nat -> value) -> bytes.
  Variable structure : bytes -> structure_t.
  Variable untrusted : value -> Prop.
  Variable benign : nat -> value.
  Definition C06_statement : Prop :=
    forall (d : doc) (v : nat -> value), (forall i, untrusted (v i)) ->
      structure (render d v) = structure (render d benign).
End Full.

(* Layer (A), proved: for every string s, the text an escaper writes for s, met
   by the reference scanner of the context in the state of the slot, is
   character data only and leaves the scanner in the same state:
   - HTML text: no less-than sign, every ampersand starts one of amp; lt; gt; #34; #39;
   - quoted attribute value (either quote, either value of escapeEntities): no quote of either kind
   - unquoted attribute value (either value of escapeEntities): none of whitespace, quotes, =, <, >, backquote;
     when the slot is the whole value, for a non-empty string
   - JavaScript and JSON string: no quote of either kind, no line terminator (U+2028 and U+2029 included),
     every backslash starts a complete escape, none of <, >, & (so no end tag, comment or CDATA delimiter);
     the model of jsStringEscape does not fault
   - CSS string: no quote of either kind, no newline, no less-than sign, every backslash starts a complete
     escape that the following text cannot extend
   - URL query value (byte strings): unreserved characters and %HH only
   - pathEscape (byte strings): letters, digits, the characters it keeps, percent, and the characters of
     &amp; &#43; &#32; - in particular no quote, no <, >, no whitespace except a space inside a quoted attribute *)
Definition C06_layerA_statement : Prop :=
  (forall s, html_text_ok (flat (htmlEscape s)) = true) /\
  (forall e s, attr_dq_ok (flat (attributeEscape e true s)) = true /\ attr_sq_ok (flat (attributeEscape e true s)) = true) /\
  (forall e s, attr_unq_ok (flat (attributeEscape e false s)) = true) /\
  (forall e s, s <> [] -> attr_unq_first_ok (flat (attributeEscape e false s)) = true) /\
  (forall s, exists cs, jsStringEscape s = Some cs /\ js_string_ok (flat cs) = true) /\
  (forall s, exists cs, jsonStringEscape s = Some cs /\ json_string_ok (flat cs) = true) /\
  (forall s, css_string_ok (flat (cssStringEscape s)) = true) /\
  (forall s, is_bytes s = true -> query_ok (flat (queryEscape s)) = true) /\
  (forall q s, is_bytes s = true -> forallb (path_byte_ok q) (flat (pathEscape q s)) = true).

Theorem C06_layerA_partial : C06_layerA_statement.
Proof.
  exact (conj html_text_confine (conj attr_quoted_confine (conj attr_unquoted_confine (conj attr_unquoted_first_confine
        (conj (js_confine_gen false) (conj (js_confine_gen true) (conj css_confine (conj query_confine path_alphabet)))))))).
Qed.
Print Assumptions C06_layerA_partial.

(* what the JavaScript / JSON scanner accepts contains no <, > or & at all *)
Theorem C06_js_no_markup : forall json s, js_string_ok_gen json s = true -> forallb no_markup s = true.
Proof. exact js_no_markup. Qed.
Print Assumptions C06_js_no_markup.

(* Refuted: when the slot is the whole unquoted attribute value, the empty
   string leaves the tokenizer before the value, so the text after the slot
   becomes the value (witness: s empty; on the real code `<a title={{ s }} id=z>`) *)
Theorem C06_unquoted_empty_refuted :
  exists e s, attr_unq_first_ok (flat (attributeEscape e false s)) = false.
Proof. exact attr_unquoted_empty_refuted. Qed.

(* non-vacuity of the hypotheses, and concrete values *)
Example C06_example_unquoted :
  [97; 32; 111; 110; 61; 120] <> [] /\
  flat (attributeEscape true false [97; 32; 111; 110; 61; 120]) = [97; 38; 35; 51; 50; 59; 111; 110; 38; 35; 54; 49; 59; 120] /\
  attr_unq_first_ok (flat (attributeEscape true false [97; 32; 111; 110; 61; 120])) = true.
Proof. split; [discriminate|]. split; vm_compute; reflexivity. Qed.

Example C06_example_bytes :
  is_bytes [60; 47; 115; 62; 255] = true /\
  query_ok (flat (queryEscape [60; 47; 115; 62; 255])) = true /\
  js_string_ok [60; 47; 115; 62] = false /\ css_string_ok [92] = false /\ html_text_ok [38; 97] = false.
Proof. repeat split; vm_compute; reflexivity. Qed.

(* ------------------------------------------------------------------------
   Layer (B): the context the template lexer gives to a show is the state of
   an HTML tokenizer at that point. *)
From Verif Require Import Facts_lexer LexBase LexCodeM LexerM LexTables RefTok EndTag_proofs.

(* Full statement of layer (B) on the fragment of the reference tokenizer
   RefTok (text, tags with quoted attributes, untyped script and style
   elements with string literals and the end tag rule): whenever the reference
   stays inside the fragment, the lexer model gives to every show the context
   that abstracts the reference state (ctx_of).  Stated, not proved: it is
   evaluated by the extracted model on every correspondence input (ctxsim). *)
Definition lexer_ctx_sim_statement : Prop := forall src : bytes, ctx_sim_ok src = true.

(* This first statement is FALSE: gaps of the reference fragment, each
   with a witness on which the lexer is right and the reference is not a
   description of what a browser does any more:
   - a show whose body holds a general comment with the closing braces inside
     (the reference ends the show at the first pair of closing braces),
   - a show, or a quoted greater-than sign, between the name of an end tag
     and its greater-than sign (the reference skips to the first greater-than
     sign without looking),
   - a backslash in front of an end tag inside a string literal of a script
     (the reference takes it for an escape of the less-than sign; a browser
     ends the element),
   - a show inside a shebang line (the lexer takes the line for one token).
   None of them is a defect of the lexer; the corrected fragment is
   RefTok2.opt_strict. *)
From Verif Require Import RefTok2.
Definition sim_w1 : bytes := [123;123;32;47;42;32;125;125;32;60;97;32;116;105;116;108;101;61;34;123;123;32;42;47;32;115;32;125;125;34;62].
Definition sim_w2 : bytes := [60;115;99;114;105;112;116;62;60;47;115;99;114;105;112;116;32;120;61;34;123;123;32;115;32;125;125;34;62;123;123;32;115;32;125;125].
Definition sim_w3 : bytes := [60;115;99;114;105;112;116;62;34;92;60;47;115;99;114;105;112;116;62;123;123;32;115;32;125;125].
Theorem C06_lexer_ctx_sim_refuted : ~ lexer_ctx_sim_statement.
Proof. intros H. specialize (H sim_w1). vm_compute in H. discriminate. Qed.
Theorem C06_lexer_ctx_sim_refuted_end_tag : ctx_sim_ok sim_w2 = false.
Proof. vm_compute. reflexivity. Qed.
Theorem C06_lexer_ctx_sim_refuted_backslash : ctx_sim_ok sim_w3 = false.
Proof. vm_compute. reflexivity. Qed.
(* a quoted greater-than sign between the name of an end tag and its end,
   <script></script <a title=">{{ s }}"> *)
Definition sim_w5 : bytes := [60;115;99;114;105;112;116;62;60;47;115;99;114;105;112;116;32;60;97;32;116;105;116;108;101;61;34;62;123;123;32;115;32;125;125;34;62].
Theorem C06_lexer_ctx_sim_refuted_end_tag_quote : ctx_sim_ok sim_w5 = false.
Proof. vm_compute. reflexivity. Qed.
(* a show inside a shebang line, which the lexer takes for one token *)
Definition sim_w4 : bytes := [35;33;123;123;32;115;32;125;125].
Theorem C06_lexer_ctx_sim_refuted_shebang : ctx_sim_ok sim_w4 = false.
Proof. vm_compute. reflexivity. Qed.

(* The corrected statement of layer (B): the same with these gaps closed
   (the witnesses are outside the fragment).  Stated, evaluated by the
   extracted model on every correspondence input (ctxsim2), not proved in
   full: see C06_lexer_ctx_sim_html_partial below. *)
Definition lexer_ctx_sim_strict_statement : Prop := forall src : bytes, ctx_sim_ok2 opt_strict src = true.
Example C06_strict_witnesses_outside :
  map (ref_contexts2 opt_strict) [sim_w1; sim_w2; sim_w3; sim_w4; sim_w5] = [None; None; None; None; None].
Proof. vm_compute. reflexivity. Qed.

(* Proved: the corrected statement on the sub-fragment opt_html of
   opt_strict - text, tags with double or single quoted attributes (names of
   letters and hyphens, spaces around the equals sign, URL attributes
   included), shows of the form "{{" spaces identifier spaces "}}" in text and
   inside quoted attribute values; script and style elements, unquoted
   attributes, comments, CDATA sections and end tags are outside it.  For
   every source made of bytes: whenever the reference tokenizer stays inside
   this sub-fragment, the lexer model (scan_template with the Unicode tables
   of Go, format HTML) sends a show token at every show the reference meets,
   at the same offset and with the context that abstracts the state of the
   reference there (ctx_of), or rejects the template with a lexer error.  The
   proof is a simulation between the main loop of the lexer (scan, scanTag,
   scanAttribute, the tag and attribute contexts, lexShow and lexCode on the
   body of the show) and the byte-by-byte reference (proofs/LexSim_proofs.v). *)
From Verif Require Import LexSim_proofs.
Definition lexer_ctx_sim_html_statement : Prop :=
  forall src : bytes, is_bytes src = true -> ctx_sim_ok2 opt_html src = true.
Theorem C06_lexer_ctx_sim_html_partial : lexer_ctx_sim_html_statement.
Proof. exact lexer_ctx_sim_html. Qed.
Print Assumptions C06_lexer_ctx_sim_html_partial.

(* the sub-fragment is a part of the corrected fragment: the corrected statement holds of every
   source on which the reference with opt_html stays inside its fragment *)
From Verif Require Import RefIncl_proofs.
Theorem C06_lexer_ctx_sim_strict_on_html_partial :
  forall (src : bytes) w, is_bytes src = true -> ref_contexts2 opt_html src = Some w ->
    ref_contexts2 opt_strict src = Some w /\ ctx_sim_ok2 opt_strict src = true.
Proof. exact strict_on_html. Qed.
Print Assumptions C06_lexer_ctx_sim_strict_on_html_partial.

(* non-vacuity: a source of the sub-fragment with a show in a quoted attribute value and one in text,
   <p title="{{ s }}">x{{ s }} *)
Example C06_lexer_ctx_sim_html_example :
  is_bytes [60;112;32;116;105;116;108;101;61;34;123;123;32;115;32;125;125;34;62;120;123;123;32;115;32;125;125] = true /\
  ref_contexts2 opt_html [60;112;32;116;105;116;108;101;61;34;123;123;32;115;32;125;125;34;62;120;123;123;32;115;32;125;125]
    = Some [(10, gen_ContextQuotedAttr); (20, gen_ContextHTML)].
Proof. vm_compute. split; reflexivity. Qed.

(* proved sub-lemmas, over the generated facts of isEndScript / isEndStyle:
   the end tag test of the lexer accepts exactly "</", the element name in any
   letter case and one of tab, LF, CR, space, ">" *)
Theorem C06_end_script_exact_partial : forall s : bytes, isEndScript s = end_tag_spec s_script code_term s.
Proof.
  intros s. unfold isEndScript.
  exact (end_tag_exact gen_isEndScript_sets s_script code_term gen_isEndScript_len s script_sets_agree eq_refl eq_refl eq_refl eq_refl).
Qed.
Print Assumptions C06_end_script_exact_partial.

Theorem C06_end_style_exact_partial : forall s : bytes, isEndStyle s = end_tag_spec s_style code_term s.
Proof.
  intros s. unfold isEndStyle.
  exact (end_tag_exact gen_isEndStyle_sets s_style code_term gen_isEndStyle_len s style_sets_agree eq_refl eq_refl eq_refl eq_refl).
Qed.
Print Assumptions C06_end_style_exact_partial.

(* every end tag the lexer accepts is one for a browser (tab, LF, FF, CR, space, "/", ">") ... *)
Theorem C06_end_tag_sound_partial :
  forall s : bytes, isEndScript s = true -> end_tag_spec s_script browser_term s = true.
Proof.
  intros s. rewrite C06_end_script_exact_partial. apply end_tag_spec_mono.
  intros t. unfold mem, code_term, browser_term. simpl. intros H.
  repeat (apply orb_prop in H; destruct H as [H|H]); try discriminate; rewrite H; simpl; rewrite ?orb_true_r; reflexivity.
Qed.

(* ... but not conversely: "/" and FF end the tag name for a browser only *)
Theorem C06_end_tag_browser_set_refuted :
  exists s : bytes, end_tag_spec s_script browser_term s = true /\ isEndScript s = false.
Proof. exists [60; 47; 115; 99; 114; 105; 112; 116; 47; 62]. split; vm_compute; reflexivity. Qed.

Example C06_layerB_example :
  ctx_sim_ok [60;112;32;116;105;116;108;101;61;34;123;123;32;115;32;125;125;34;62;120;60;115;99;114;105;112;116;62;118;97;114;32;97;32;61;32;34;123;123;32;115;32;125;125;34;59;60;47;115;99;114;105;112;116;32;62;123;123;32;115;32;125;125] = true
  /\ ref_contexts [60;112;32;116;105;116;108;101;61;34;123;123;32;115;32;125;125;34;62;120;60;115;99;114;105;112;116;62;118;97;114;32;97;32;61;32;34;123;123;32;115;32;125;125;34;59;60;47;115;99;114;105;112;116;32;62;123;123;32;115;32;125;125]
     = Some [(10, gen_ContextQuotedAttr); (37, gen_ContextJSString); (56, gen_ContextHTML)].
Proof. vm_compute. split; reflexivity. Qed.
