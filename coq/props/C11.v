(* C11 - cancelling the run context stops any execution promptly.
   Only statements, `exact`, and Print Assumptions live here. *)
From Coq Require Import List NArith Bool Arith.
Import ListNotations.
From Verif Require Import Facts_vm_sites CancelM Cancel_proofs.
Close Scope N_scope.

(* Full statement over the model: for every program (finite or not), every
   readiness of its channels, every choice of select among ready cases and
   every delay d of the watcher goroutine, once the context is cancelled Run
   returns within d + 2 iterations of the instruction loop, and a run that ends
   before the cancellation returns the code's own outcome. *)
Definition C11_statement : Prop :=
  (forall orc d s, cancelled orc s = true ->
     (exists k, k < d /\ o_watcher orc (clock s + k) = true) ->
     exists r, crun true orc (S (S d)) s = Some r) /\
  (forall hc orc n s r, cdone s = false ->
     (forall t, t < clock s + n -> cancelled_at orc t = false) ->
     crun hc orc n s = Some r -> exists o, r = ROwn o).

Theorem C11_holds : C11_statement.
Proof.
  split.
  - exact (cancel_bounded_watcher_all).
  - exact finish_first_wins.
Qed.
Print Assumptions C11_holds.

(* the finite check on the list generated from run.go: every blocking site is
   classified, sits on the branch its class says, and the guarded ones select
   on the done case and return vm.stop() for its index; the loop starts with
   the test of env.done; hasDefaultCase is never true *)
Theorem C11_sites_ok :
  forallb site_ok block_sites = true /\ stale_site_entries = 0%N /\
  head_check_first = true /\ hasDefaultCase_only_false = true.
Proof. exact sites_ok. Qed.

Theorem C11_all_guarded : forall b, op_guarded b = true.
Proof. exact all_guarded. Qed.

(* cancel_bounded: env.done set => the context error after 1 iteration from
   the head of the loop, after at most 2 from the middle of any instruction (N = 2) *)
Theorem C11_cancel_bounded_head :
  forall orc s, cdone s = true -> crun true orc 1 s = Some RCtxErr.
Proof. exact cancel_bounded_head. Qed.

Theorem C11_cancel_bounded_mid :
  forall orc s, cdone s = true -> cancelled orc s = true ->
  crun_mid true orc 2 s = Some RCtxErr \/
  exists o, o_prog orc (cpc s) = KAbort o /\ crun_mid true orc 2 s = Some (ROwn o).
Proof. exact (fun orc s => cancel_bounded_mid orc s all_guarded). Qed.
Print Assumptions C11_cancel_bounded_mid.

Theorem C11_finish_first_wins :
  forall hc orc n s r, cdone s = false ->
  (forall t, t < clock s + n -> cancelled_at orc t = false) ->
  crun hc orc n s = Some r -> exists o, r = ROwn o.
Proof. exact finish_first_wins. Qed.
Print Assumptions C11_finish_first_wins.

(* why the side condition matters: an unguarded blocking site never returns *)
Theorem C11_unguarded_blocks_forever :
  forall orc b, op_guarded b = false -> (forall pc, o_prog orc pc = KBlock b) ->
  (forall t, o_ready orc t = false) -> (forall t, o_watcher orc t = false) ->
  forall n s, cdone s = false -> crun true orc n s = None.
Proof. exact unguarded_blocks_forever. Qed.

(* non-vacuity: a receive that never becomes ready, cancelled at tick 3, watcher at tick 5 *)
Example C11_example :
  scenario 0 false false 2 = 2%N /\ scenario 0 false false 1 = 0%N /\ scenario 2 false true 1 = 1%N /\
  scenario 0 true false 2 = 2%N.
Proof. vm_compute. repeat split. Qed.
