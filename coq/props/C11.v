(* C11 - cancelling the run context stops any execution promptly.
   Only statements, `exact`, and Print Assumptions live here. *)
From Coq Require Import List NArith Bool Arith.
Import ListNotations.
From Verif Require Import Facts_vm_sites CancelM Cancel_proofs.
From Verif Require Import Facts_vmrun VmRunM VmRun_proofs.
Close Scope N_scope.

(* Full statement over the model: for every program (finite or not), every
   readiness of its channels, every choice of select among ready cases and
   every delay d of the watcher goroutine, once the context is cancelled Run
   returns within d + 2 iterations of the instruction loop; what it returns
   once env.done has been seen set is the error of the context - in every
   phase, also while the deferred calls started by a panic that is not
   recovered are running (cpending: vm.panic is not nil) - and a blocked
   instruction returns it as soon as the context is cancelled; a run that ends
   before the cancellation returns the code's own outcome (nil, the pending
   PanicError, the value of a Stop or Fatal). *)
Definition C11_statement : Prop :=
  (forall orc d s, cancelled orc s = true ->
     (exists k, k < d /\ o_watcher orc (clock s + k) = true) ->
     exists r, crun true orc (S (S d)) s = Some r) /\
  (forall orc n s r, cdone s = true -> crun true orc n s = Some r -> r = RCtxErr) /\
  (forall orc s b, o_prog orc (cpc s) = KBlock b -> o_ready orc (clock s) = false ->
     cancelled orc s = true -> cstep true orc s = CRet RCtxErr) /\
  (forall hc orc n s r, cdone s = false ->
     (forall t, t < clock s + n -> cancelled_at orc t = false) ->
     crun hc orc n s = Some r -> own r).

Theorem C11_holds : C11_statement.
Proof.
  split; [|split; [|split]].
  - exact (cancel_bounded_watcher_all).
  - exact flag_set_returns_ctx.
  - exact (fun orc s b => blocked_cancel_returns_ctx orc s b all_guarded).
  - exact finish_first_wins.
Qed.
Print Assumptions C11_holds.

(* the finite check on the list generated from run.go: every blocking site is
   classified, sits on the branch its class says, and the guarded ones select
   on the done case and return vm.stop() for its index; the loop starts with
   the test of env.done; hasDefaultCase is never true *)
Theorem C11_sites_ok :
  forallb site_ok block_sites = true /\ stale_site_entries = 0%N /\
  head_check_first = true /\ hasDefaultCase_only_false = true.
Proof. exact sites_ok. Qed.

(* Program.Run and Template.Run call vm.AllowGoroutines after vm.SetContext:
   the cancellation that a failing goroutine raises derives from the context
   that is set, so it is not replaced by it (seeded change C12-g) *)
Theorem C11_goroutines_signal_after_context : goroutines_after_context = true.
Proof. exact goroutines_signal_after_context. Qed.
Print Assumptions C11_goroutines_signal_after_context.

Theorem C11_all_guarded : forall b, op_guarded b = true.
Proof. exact all_guarded. Qed.

(* cancel_bounded: env.done set => the context error after 1 iteration from
   the head of the loop, after at most 2 from the middle of any instruction (N = 2) *)
Theorem C11_cancel_bounded_head :
  forall orc s, cdone s = true -> crun true orc 1 s = Some RCtxErr.
Proof. exact cancel_bounded_head. Qed.

Theorem C11_cancel_bounded_mid :
  forall orc s, cdone s = true -> cancelled orc s = true ->
  crun_mid true orc 2 s = Some RCtxErr \/
  exists o, o_prog orc (cpc s) = KAbort o /\ crun_mid true orc 2 s = Some (ROwn o).
Proof. exact (fun orc s => cancel_bounded_mid orc s all_guarded). Qed.
Print Assumptions C11_cancel_bounded_mid.

Theorem C11_finish_first_wins :
  forall hc orc n s r, cdone s = false ->
  (forall t, t < clock s + n -> cancelled_at orc t = false) ->
  crun hc orc n s = Some r -> own r.
Proof. exact finish_first_wins. Qed.
Print Assumptions C11_finish_first_wins.

(* the final statements of runFunc, as regenerated from run.go: with a context
   and env.done set the error of the context is returned even when a panic is
   pending; otherwise the pending PanicError, or nil *)
Theorem C11_tail_ctx_first :
  (forall pending, runfunc_tail true true pending = 1%N) /\
  (forall has_ctx pending, runfunc_tail has_ctx false pending = (if pending then 2%N else 0%N)) /\
  (forall done pending, runfunc_tail false done pending = (if pending then 2%N else 0%N)).
Proof. exact (conj tail_ctx_first (conj tail_own tail_no_ctx)). Qed.

(* the same statements with the fourth condition of the repaired code (fix: a
   panic not recovered in a goroutine was dropped): when a goroutine started by
   a go statement has ended with an error, env.done is set and runFunc returns
   that error (code 3) whatever the context and the pending panic are; when no
   goroutine has failed the table is the one above *)
Theorem C11_tail_goroutine_failure_first :
  (forall has_ctx pending, runfunc_tail_g true has_ctx true pending = 3%N) /\
  (forall has_ctx done pending, runfunc_tail_g false has_ctx done pending = runfunc_tail has_ctx done pending).
Proof. exact (conj tail_goroutine_failure_first tail_no_failure). Qed.
Print Assumptions C11_tail_goroutine_failure_first.

(* cancellation while a deferred function started by an unrecovered panic is
   blocked (receive, select) or loops: the context error, not the PanicError;
   without cancellation the PanicError *)
Theorem C11_cancel_in_deferred_after_panic :
  scenario5 0 false false 2 1 = 2%N /\ scenario5 2 false false 2 1 = 2%N /\
  scenario5 0 true false 2 1 = 2%N /\ scenario5 0 false true 1 1 = 3%N /\ scenario5 0 false true 0 1 = 3%N.
Proof. exact cancel_in_deferred_after_panic. Qed.

Theorem C11_pending_panic_not_returned_after_flag :
  forall orc s, cdone s = true -> crun true orc 1 s <> Some RPanicErr.
Proof. exact pending_panic_not_returned_after_flag. Qed.

(* why the side condition matters: an unguarded blocking site never returns *)
Theorem C11_unguarded_blocks_forever :
  forall orc b, op_guarded b = false -> (forall pc, o_prog orc pc = KBlock b) ->
  (forall t, o_ready orc t = false) -> (forall t, o_watcher orc t = false) ->
  forall n s, cdone s = false -> crun true orc n s = None.
Proof. exact unguarded_blocks_forever. Qed.

(* non-vacuity: a receive that never becomes ready, cancelled at tick 3, watcher at tick 5 *)
Example C11_example :
  scenario 0 false false 2 = 2%N /\ scenario 0 false false 1 = 0%N /\ scenario 2 false true 1 = 1%N /\
  scenario 0 true false 2 = 2%N.
Proof. vm_compute. repeat split. Qed.

(* what VM.Run does with the outcome of runFunc does not depend on the context:
   a run that a native function ends with env.Stop(err) or env.Fatal(v) returns
   err / panics with v also when the context is cancelled or expired (the
   model above says what runFunc returns; this is VM.Run, read from the
   decision table generated from vm.go) *)
Theorem C11_stop_fatal_win_over_cancellation :
  forall ctx, In ctx ctx_states ->
    run_action 3%N ctx = Some 2%N /\ run_action 2%N ctx = Some 4%N /\ run_action 0%N ctx = Some 1%N /\
    run_action 1%N ctx = Some 3%N /\ run_action 5%N ctx = Some 6%N.
Proof. exact vmrun_documented. Qed.
