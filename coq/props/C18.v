(* C18 — template file loading stays inside the file system and terminates.
   Only statements, `exact`, Print Assumptions and examples live here. *)
From Coq Require Import Relations.
From Verif Require Import Bytes PathsM PathSpec ExpandM TPaths_proofs Expand_proofs.
Open Scope N_scope.

(* Full statement, over the models of rooted (with Go's path.Join, path.Dir,
   path.IsAbs, path.Clean), fs.ValidPath, ValidTemplatePath and of the template
   expansion of ParseTemplate, for every parent, name, file graph and root:

   1 rooted_valid: for a valid parent and a valid template path, rooted is the
     lexical resolution of the name against the directory of the parent (the
     root for an absolute name); it fails exactly when the resolution climbs
     above the root or, for a relative name, when the resolution begins with
     two dots (a first element such as ..x); a result is a valid fs path;
   2 expand_terminates: the expansion never runs out of fuel
     (fuel = number of files + 1);
   3 reads_nodup: no name is opened successfully twice, in a file system that
     does not report a file it has opened as not existing;
   4 cycle_is_error: if a cycle of extends/import/render references between
     sources can be reached from the root, the result is an error; and
     cycle_error_sound: a cycle error is reported only when such a cycle exists;
   5 opens_valid: for a valid root name, every name given to Open is valid. *)
Definition C18_statement : Prop := C18_full.

Theorem C18_holds : C18_statement.
Proof. exact C18_all. Qed.
Print Assumptions C18_holds.

(* the failure condition of rooted, spelled out *)
Theorem C18_rooted_none : forall parent name,
  fs_valid parent = true -> valid_template_path name = true ->
  (rooted parent name = None <->
   is_abs name = false /\
   (resolve parent name = None \/ exists r, resolve parent name = Some r /\ begins_dotdot r = true)).
Proof. exact rooted_none. Qed.
Print Assumptions C18_rooted_none.

(* ---- examples: the hypotheses are satisfiable, the oddities are real ---- *)

(* a/b/c.html + ../d/e.html = a/d/e.html *)
Example C18_ex_rooted :
  fs_valid [97;47;98;47;99;46;104;116;109;108] = true /\
  valid_template_path [46;46;47;100;47;101;46;104;116;109;108] = true /\
  rooted [97;47;98;47;99;46;104;116;109;108] [46;46;47;100;47;101;46;104;116;109;108]
  = Some [97;47;100;47;101;46;104;116;109;108].
Proof. vm_compute. auto. Qed.

(* c + ../x climbs above the root *)
Example C18_ex_escape :
  rooted [99] [46;46;47;120] = None /\ resolve [99] [46;46;47;120] = None.
Proof. vm_compute. auto. Qed.

(* a file ..x of the root directory cannot be referenced by a relative path,
   only by /..x *)
Example C18_ex_dotdot_name :
  valid_template_path [46;46;120] = true /\
  resolve [99] [46;46;120] = Some [46;46;120] /\
  rooted [99] [46;46;120] = None /\
  rooted [99] [47;46;46;120] = Some [46;46;120].
Proof. vm_compute. auto. Qed.

(* a file that renders itself: a cycle reachable from the root, reported as a cycle error *)
Definition ex_self : graph := [([97], FSource 0 false [(KRender, [97])])].

Example C18_ex_self_cycle :
  has_cycle_from ex_self [97] /\ consistent ex_self /\ fs_valid [97] = true /\
  out_result (parse_template ex_self [97]) = Err (ECycle [97] [(KRender, [97])]).
Proof.
  assert (edge ex_self [97] [97]) as He.
  { split; [exists 0, false, [(KRender, [97])], KRender, [97]|exists 0, false, [(KRender, [97])]; reflexivity].
    split; [reflexivity|]. split; [left; reflexivity|reflexivity]. }
  split; [exists [97]; split; [apply rt_refl|apply t_step; exact He]|].
  split; [|split; reflexivity].
  intros n. unfold ex_self. cbn [lookup]. destruct (bytes_eqb [97] n); discriminate.
Qed.

(* index renders a/b, which imports ../c, whose macro renders /index:
   the opens, in order, and the text of the cycle error *)
Definition ex_cycle3 : graph :=
  [([105], FSource 0 false [(KRender, [97;47;98])]);
   ([97;47;98], FSource 0 true [(KImport, [46;46;47;99])]);
   ([99], FSource 0 true [(KDefault, [47;105])])].

Example C18_ex_cycle3 :
  out_opens (parse_template ex_cycle3 [105]) = [([105], true); ([97;47;98], true); ([99], true)] /\
  out_result (parse_template ex_cycle3 [105])
  = Err (ECycle [105] [(KRender, [97;47;98]); (KImport, [99]); (KRender, [105])]).
Proof. vm_compute. auto. Qed.

(* a diamond: d is read once *)
Definition ex_diamond : graph :=
  [([105], FSource 0 false [(KRender, [97]); (KRender, [98])]);
   ([97], FSource 0 false [(KRender, [100])]);
   ([98], FSource 0 false [(KRender, [100])]);
   ([100], FSource 0 false [])].

Example C18_ex_diamond :
  parse_template ex_diamond [105]
  = mkout [([105], true); ([97], true); ([100], true); ([98], true)] (Ok []).
Proof. vm_compute. reflexivity. Qed.

(* Without the hypothesis of reads_nodup: a file system that opens x and then
   says that x does not exist makes two imports of x read it twice. *)
Definition ex_inconsistent : graph :=
  [([105], FSource 0 false [(KImport, [120]); (KImport, [120])]); ([120], FReadErr true)].

Example C18_ex_inconsistent_fs :
  reads (parse_template ex_inconsistent [105]) = [[105]; [120]; [120]].
Proof. vm_compute. reflexivity. Qed.
