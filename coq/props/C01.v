(* C01 — interpreted programs behave like the same program compiled by gc.
   Proved part: the integer ALU.  For every arithmetic, bitwise and shift
   operator, every conversion and every one of the eleven integer kinds, the
   instruction the builder selects (generated tables) executed by VM.run
   (generated terms) leaves in the destination register the register form of
   exactly the value the Go specification defines (GoInt.bin), for ALL operand
   values of the kind; a division or remainder by zero is a run-time panic in
   both.  Only statements, `exact` and Print Assumptions live here. *)
From Verif Require Import Bytes InitOrderM InitOrder_proofs.
From Verif Require Import GoInt Facts_alu AluM Alu_proofs.
Open Scope Z_scope.

Definition is_shift (op : binop) : bool := match op with Shl | Shr => true | _ => false end.

(* x op y for operands of kind k (type t); for shifts y is the count: a value
   of an unsigned type, or a non-negative value of a signed one *)
Definition C01_alu_statement : Prop :=
  forall (op : binop) (k : Z) (t : ity) (x y g : Z),
    kind_ity k = Some t -> in_range t x ->
    (if is_shift op then in_range U64 y else in_range t y) ->
    vm_binop op k x y g = Some (omap canon (bin op t x y)).

Theorem C01_alu_partial : C01_alu_statement.
Proof.
  intros op k t x y g Hk Hx Hy.
  destruct op; cbn [is_shift] in Hy.
  - exact (vm_add_correct k t x y g Hk Hx Hy).
  - exact (vm_sub_correct k t x y g Hk Hx Hy).
  - exact (vm_mul_correct k t x y g Hk Hx Hy).
  - exact (vm_quo_correct k t x y g Hk Hx Hy).
  - exact (vm_rem_correct k t x y g Hk Hx Hy).
  - exact (vm_and_correct k t x y g Hk Hx Hy).
  - exact (vm_or_correct k t x y g Hk Hx Hy).
  - exact (vm_xor_correct k t x y g Hk Hx Hy).
  - exact (vm_andnot_correct k t x y g Hk Hx Hy).
  - exact (vm_shl_correct k t x y g Hk Hx Hy).
  - exact (vm_shr_correct k t x y g Hk Hx Hy).
Qed.
Print Assumptions C01_alu_partial.

Theorem C01_neg_partial : forall k t y g, kind_ity k = Some t -> in_range t y ->
  vm_neg k y g = Some (Some (canon (un Neg t y))).
Proof. exact vm_neg_correct. Qed.
Print Assumptions C01_neg_partial.

(* z = y - x, the instruction used when the operands are swapped *)
Theorem C01_subinv_partial : forall k t x y g, kind_ity k = Some t -> in_range t x -> in_range t y ->
  vm_subinv k x y g = Some (omap canon (bin Sub t y x)).
Proof. exact vm_subinv_correct. Qed.
Print Assumptions C01_subinv_partial.

Theorem C01_convert_partial : forall ks ts kd td x,
  kind_ity ks = Some ts -> kind_ity kd = Some td -> in_range ts x ->
  vm_convert ks kd x = Some (Some (canon (wrap td x))).
Proof. exact vm_convert_correct. Qed.
Print Assumptions C01_convert_partial.

(* x c y used as a condition (if, for, && ...), for every comparison operator and kind *)
Theorem C01_cmp_partial : forall c k t x y, kind_ity k = Some t -> in_range t x -> in_range t y ->
  vm_cmp c k x y = Some (Some (cmp c x y)).
Proof. exact vm_cmp_correct. Qed.
Print Assumptions C01_cmp_partial.

(* the shift statement is false without the non-negativity of the count:
   Go panics, the VM yields 0 (known finding shl-negative-count) *)
Theorem C01_shl_negcount_refuted :
  exists k x s g, kind_ity k = Some I64 /\ in_range I64 x /\ in_range I64 s /\ s < 0 /\
                  vm_binop Shl k x s g = Some (Some 0).
Proof. exact vm_shl_negcount_refuted. Qed.

Example C01_alu_example :
  kind_ity gen_kind_Int8 = Some I8 /\ in_range I8 127 /\ in_range I8 1 /\
  vm_binop Add gen_kind_Int8 127 1 0 = Some (Some (-128)) /\
  vm_binop Quo gen_kind_Int8 (-128) (-1) 0 = Some (Some (-128)) /\
  vm_binop Quo gen_kind_Uint64 18446744073709551615 2 0 = Some (Some 9223372036854775807) /\
  vm_binop Shr gen_kind_Int16 (-32768) 3 0 = Some (Some (-4096)) /\
  vm_binop Rem gen_kind_Int32 7 0 0 = Some None.
Proof. exact alu_example. Qed.

(* ---- package-level initialisation order ---- *)

(* full statement: Scriggo's order of variable initialisation is Go's *)
Definition C01_init_order_statement : Prop := forall p : pkg, well_named p -> go_order p = sc_order p.

(* it holds for the code as it is (after the repair recorded in KNOWN_FINDINGS.txt:
   a reference to a function is resolved when the variables the function
   reaches are initialised) *)
Theorem C01_init_order_holds : C01_init_order_statement.
Proof. exact init_order_agree. Qed.
Print Assumptions C01_init_order_holds.

(* the algorithm before the repair, in which every function counted as
   resolved, is refuted by var a = f(); var b = g(1); func f() int { return b + 1 } *)
Theorem C01_init_order_old_refuted :
  exists p, sc_order_old p <> go_order p /\ sc_order_old p = [1; 2]%N /\ go_order p = [2; 1]%N /\ sc_order p = [2; 1]%N.
Proof.
  exists witness. destruct init_order_old_refuted as [H1 [H2 H3]]. rewrite H1, H2, H3. repeat split. discriminate.
Qed.
