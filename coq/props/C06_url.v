(* C06 - autoescaping confines every shown value to its slot: URL attributes
   (the URL state machine of the renderer over ALL operation sequences of one
   attribute value, srcset included) and the Tag context.
   Only statements, `exact`, and Print Assumptions live here. *)
From Coq Require Import List NArith Bool.
From Verif Require Import Bytes Utf8 Facts_render RendererM Renderer_proofs TCalcM HtmlDecode RefScanners Confine_proofs
  UrlRefM UrlAttr_proofs UrlStepM UrlStep_proofs TagM Tag_proofs.
Import ListNotations.
Open Scope N_scope.

(* ---------------------------------------------------------------- the machine is the renderer *)

(* UrlStepM.url_step k st op is what renderer.Text / renderer.Show do inside
   one attribute value of kind k (quoted or not, srcset or not): the renderer
   model RendererM.r_op (the one of C05 / C13 / C07, tied to the code by its
   own correspondence), run with a writer that never fails from the state with
   inURL = true, ends in the same flags, returns no error and has written the
   same bytes; a fault of the one is a fault of the other. *)
Theorem C06_url_step_is_renderer : forall (k : akind) (st : ustate) (o : uop) (ws : wst),
  match url_step k st o with
  | (st', UOut b) =>
    exists ws', r_op never (lift st) ws (rop k o) = (lift st', ws', ROk) /\ out_of ws' = out_of ws ++ b
  | (_, UFault) => snd (r_op never (lift st) ws (rop k o)) = RFault
  end.
Proof. exact url_step_refines. Qed.
Print Assumptions C06_url_step_is_renderer.

(* a plain string value reaches showInURL unchanged (HTML escaped, then decoded by the reference decoder) *)
Theorem C06_url_plain_value : forall s, shown_text s false = s.
Proof. exact shown_text_untrusted. Qed.

(* ---------------------------------------------------------------- (1) no fault *)

(* For every sequence of operations of an attribute in which no text is empty
   (the emitter emits no empty Text), from every state, with values of both
   kinds: no operation faults - no index of Text, showInURL, pathEscape or
   queryEscape is out of range - and every operation is executed. *)
Definition C06_url_no_fault_statement : Prop :=
  forall (k : akind) (ops : list uop) (st : ustate),
    forallb uop_ok ops = true ->
    has_fault (snd (url_run k st ops)) = false /\ length (snd (url_run k st ops)) = length ops.
Theorem C06_url_no_fault_holds : C06_url_no_fault_statement.
Proof. exact url_run_no_fault. Qed.
Print Assumptions C06_url_no_fault_holds.

(* the hypothesis is necessary: Text indexes txt[0] *)
Theorem C06_url_empty_text_faults :
  snd (url_run (mkA true false) u0 [UVal [120; 63; 121] false; UTxt []]) = [UOut [120; 63; 121]; UFault].
Proof. exact url_empty_text_faults. Qed.

(* ---------------------------------------------------------------- (2) confinement *)

(* What Show writes for a value, whatever the state of the machine, the kind
   of the attribute and the value (string or HTML type): no byte that ends or
   leaves the attribute value (no quote of either kind, no less-than,
   greater-than, backquote; no white space when the attribute is unquoted);
   every ampersand starts one of the references amp, #43, #32; when the
   decoded value is a byte string: in a query position (query set and no
   pending question mark) only unreserved characters and percent triples - in
   particular no comma and no white space - and elsewhere only the alphabet of
   pathEscape (letters, digits, the characters it keeps, percent, the
   characters of its three references; a space only in a quoted attribute). *)
Definition C06_url_show_confined_statement : Prop :=
  forall (k : akind) (st : ustate) (s : bytes) (tr : bool),
    exists b, snd (url_step k st (UVal s tr)) = UOut b /\
      forallb (url_safe (a_quoted k)) b = true /\ amp_ok b = true /\
      (is_bytes (shown_text s tr) = true ->
         if u_query st && negb (u_remq st) then query_ok b = true /\ forallb nosep b = true
         else forallb (path_byte_ok (a_quoted k)) b = true).
Theorem C06_url_show_confined_holds : C06_url_show_confined_statement.
Proof. exact url_show_confined. Qed.
Print Assumptions C06_url_show_confined_holds.

(* The attribute value as a whole.  For every quoting (double, single, none),
   every sequence of operations, from every state and for all values: when the
   template texts of the attribute hold no character that ends a value of this
   quoting (the quote for a quoted value; white space and greater-than for an
   unquoted one), nothing written for the attribute does.  Hence the HTML
   tokenisation of the attribute - it ends where the template ends it - is the
   same for all values: the reference scanner of attribute values stays inside
   the value (RefScanners.arun for quoted values; for unquoted values the
   scanner that ends the value at white space or a greater-than sign). *)
Definition C06_url_attr_confined_statement : Prop :=
  (forall qk set ops st,
     (forall t, In (UTxt t) ops -> forallb (val_safe qk) t = true) ->
     forallb (val_safe qk) (outs_bytes (snd (url_run (mkA (quoted_of qk) set) st ops))) = true) /\
  (forall set ops st,
     (forall t, In (UTxt t) ops -> forallb (val_safe QDq) t = true) ->
     attr_dq_ok (outs_bytes (snd (url_run (mkA true set) st ops))) = true) /\
  (forall set ops st,
     (forall t, In (UTxt t) ops -> forallb (val_safe QSq) t = true) ->
     attr_sq_ok (outs_bytes (snd (url_run (mkA true set) st ops))) = true) /\
  (forall set ops st,
     (forall t, In (UTxt t) ops -> forallb (val_safe QUnq) t = true) ->
     unq_inside (outs_bytes (snd (url_run (mkA false set) st ops))) = true).
Theorem C06_url_attr_confined_holds : C06_url_attr_confined_statement.
Proof. exact (conj url_attr_value_safe (conj url_attr_stays_dq (conj url_attr_stays_sq url_attr_stays_unq))). Qed.
Print Assumptions C06_url_attr_confined_holds.

(* non-vacuity: href = "{{ a }}?q={{ b }}" with a value that brings a query and a hostile value *)
Example C06_url_attr_confined_example :
  let ops := [UVal [47; 115; 63; 108; 61; 101; 110] false; UTxt [63; 113; 61]; UVal [34; 32; 111; 110; 120; 61; 34; 62; 39] false] in
  (forall t, In (UTxt t) ops -> forallb (val_safe QDq) t = true) /\
  url_attr_out (mkA true false) ops
  = [47; 115; 63; 108; 61; 101; 110] ++ [38; 97; 109; 112; 59; 113; 61] ++ [37; 50; 50; 37; 50; 48; 111; 110; 120; 37; 51; 100; 37; 50; 50; 37; 51; 101; 37; 50; 55].
Proof.
  cbv zeta. split; [|vm_compute; reflexivity].
  intros t [H|[H|[H|[]]]]; try discriminate. injection H as <-. reflexivity.
Qed.

(* ---------------------------------------------------------------- (4) srcset *)

(* A text with a comma in a set attribute is written as it is and the state
   after it does not depend on the state before it: the URL after the comma is
   escaped on its own (its query state comes from what follows the last comma). *)
Theorem C06_srcset_comma_text_resets : forall (q : bool) (st st' : ustate) (t : bytes),
  mem t 44 = true ->
  url_step (mkA q true) st (UTxt t) = url_step (mkA q true) st' (UTxt t) /\
  url_step (mkA q true) st (UTxt t) = (mkU (has_mark (after_last 44 t)) false false, UOut t).
Proof. exact srcset_comma_text_resets. Qed.
Print Assumptions C06_srcset_comma_text_resets.

(* In a query position (UrlStepM.query_pos: in the URL after the last comma
   text, some template text lies at or after the first question mark or number
   sign) what is written for a value holds no comma and no white space: the
   value cannot end the candidate or add one. *)
Theorem C06_srcset_query_value_no_separator : forall (k : akind) (before : list uop) (s : bytes) (tr : bool),
  forallb uop_ok before = true ->
  query_pos (a_set k) before = true ->
  exists b, snd (url_step k (fst (url_run k u0 before)) (UVal s tr)) = UOut b /\ forallb nosep b = true.
Proof. exact srcset_query_value_no_separator. Qed.
Print Assumptions C06_srcset_query_value_no_separator.

(* Refuted for the path positions: pathEscape keeps the comma and, in a quoted
   attribute, the space (in an unquoted one it writes the reference #32, which
   a browser decodes): srcset = "{{ s }} 1x" with s = a.png 1x, e.png has two
   candidates, one with the benign value a.png. *)
Definition C06_srcset_value_adds_no_candidate_statement : Prop :=
  forall (k : akind) (before after : list uop) (s s' : bytes),
    a_set k = true ->
    candidates (url_attr_out k (before ++ UVal s false :: after))
    = candidates (url_attr_out k (before ++ UVal s' false :: after)).
Theorem C06_srcset_value_adds_no_candidate_refuted : ~ C06_srcset_value_adds_no_candidate_statement.
Proof.
  intros H.
  specialize (H (mkA true true) [] [UTxt [32; 49; 120]] [97; 46; 112; 110; 103]
                [97; 46; 112; 110; 103; 32; 49; 120; 44; 32; 101; 46; 112; 110; 103] eq_refl).
  vm_compute in H. discriminate.
Qed.
Theorem C06_srcset_value_adds_candidate_unquoted :
  candidates (url_attr_out (mkA false true) [UVal [97; 32; 49; 120; 44; 101] false]) = 2%nat.
Proof. exact srcset_path_value_adds_candidate_unquoted. Qed.

(* ---------------------------------------------------------------- the Tag context *)

(* the model of the loop of showInTag never runs out of fuel *)
Theorem C06_tag_total : forall s, showInTag_text s <> None.
Proof. exact showInTag_total. Qed.

(* Every byte showInTag writes, for every string (valid UTF-8 or not), is at
   least 128 or an ASCII character it does not replace: no control character,
   no quote of either kind, no greater-than sign, slash, equals sign, DEL. *)
Definition C06_tag_alphabet_statement : Prop :=
  forall s x, showInTag_text s = Some x ->
    forallb tag_byte_ok x = true /\
    forall b, In b x -> b <> 34 /\ b <> 39 /\ b <> 47 /\ b <> 61 /\ b <> 62 /\ 32 <= b /\ b <> 127.
Theorem C06_tag_alphabet_holds : C06_tag_alphabet_statement.
Proof.
  exact (fun s x E => conj (showInTag_alphabet s x E)
           (fun b Hb => tag_byte_ok_not_special b (proj1 (forallb_forall _ _) (showInTag_alphabet s x E) b Hb))).
Qed.
Print Assumptions C06_tag_alphabet_holds.

(* Hence, from every tokenizer state inside the attribute part of a start tag
   (before, in or after an attribute name), the text written for any value
   leaves the tokenizer inside it: the value cannot close the tag, cannot make
   it self closing and cannot start an attribute value - every attribute it
   adds has no value. *)
Definition C06_tag_confined_statement : Prop :=
  forall s x st n, showInTag_text s = Some x -> t_inside st = true -> t_inside (fst (trun st x n)) = true.
Theorem C06_tag_confined_holds : C06_tag_confined_statement.
Proof. exact showInTag_confined. Qed.
Print Assumptions C06_tag_confined_holds.

(* The statement one would want - the value is ONE attribute name - is false:
   white space is written as it is (finding tag-splits-attribute):
   div {{ s }} with s = a onclick=x has two attributes, one with s = a. *)
Definition C06_tag_single_attribute_statement : Prop :=
  forall s x, s <> [] -> showInTag_text s = Some x -> snd (trun TBefore x 0) = 1%nat.
Theorem C06_tag_single_attribute_refuted : ~ C06_tag_single_attribute_statement.
Proof.
  intros H. specialize (H [97; 32; 111; 110; 99; 108; 105; 99; 107; 61; 120] _ ltac:(discriminate) (proj1 showInTag_splits_attribute)).
  vm_compute in H. discriminate.
Qed.

(* the test for invalid UTF-8 as it is written applies at byte offset 1 only *)
Example C06_tag_invalid_byte_examples :
  showInTag_text [255] = Some [255] /\
  showInTag_text [97; 255] = Some [97; 239; 191; 189] /\
  showInTag_text [97; 98; 255] = Some [97; 98; 255] /\
  showInTag_text [97; 98; 255; 61] = Some [97; 98; 255; 239; 191; 189] /\
  showInTag_text [61; 97; 255] = Some [239; 191; 189; 97; 239; 191; 189].
Proof. exact showInTag_invalid_byte_examples. Qed.
