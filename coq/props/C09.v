(* C09 — a show accepted by the type checker never fails for its static type.
   Only statements, `exact`, Print Assumptions and examples live here.

   static_ok ctx t       : checkShow(t, ctx) on the descriptor t of a reflect.Type
                           (OOk = accepted), through the generated decision trees
   dynamic_show ...      : renderer.Show for a value whose dynamic type is t, in the
                           twelve contexts whose outcome depends on the type only
   show_any L ... t v    : renderer.Show for an expression of static type t and value v
                           (JS and JSON: the recursive showInJS / showInJSON over v)       *)
From Coq Require Import List NArith ZArith Bool.
From Verif Require Import Bytes ShowTree Facts_show ShowTypesM ShowJsonM ShowTree_proofs
  Show_flat_proofs Show_js_checks Show_js_proofs Show_c09_proofs.
Import ListNotations.
Open Scope N_scope.

Definition C09_statement : Prop :=
  (* (1) the twelve contexts other than JS and JSON, and their two URL variants (attribute
         values): every type that is not an interface type and that checkShow accepts is
         shown by renderer.Show, whatever the value and whether a Markdown converter is set *)
  (forall (conv : bool) (ctx : N) (url : bool) (t : ty),
      ctx < n_contexts -> flat_ctx ctx = true -> url_ok ctx url = true ->
      kind_of t < n_kinds -> is_iface t = false -> flag t w_EmptyInterface = false ->
      static_ok ctx t = OOk ->
      dynamic_show conv ctx url (Some t) = OOk)
  /\
  (* (2) JS and JSON: every value v of an accepted type t that is not an interface type
         (any nesting of arrays, slices, maps, structs, pointers; recursive types; any
         value of the type, nil and empty ones included) is shown without a `cannot show`
         error, provided the interface values nested in v hold dynamic types that the
         checker accepts. The model applies (the result is never RStuck). *)
  (forall (L : leaves) (conv : bool) (f : showfn) (t : ty) (v : value),
      is_rec t = false -> is_iface t = false -> wf_tyb t = true -> flag t w_EmptyInterface = false ->
      static_ok (ctx_of f) t = OOk ->
      has_typeb [] t v = true -> boxed_okb f v = true ->
      show_any L conv (ctx_of f) false t v <> RCannotShow /\ show_any L conv (ctx_of f) false t v <> RStuck)
  /\
  (* (3) expressions of interface type: the nil interface is shown in every context, and a
         non nil interface value is shown exactly as its dynamic value d, x is: by (1) and
         (2) applied to d it can fail only if the checker rejects d in that context *)
  (forall L conv ctx url t, ctx < n_contexts -> is_iface t = true -> is_rec t = false ->
      (ctx = ctx_JS \/ ctx = ctx_JSON -> url = false) ->
      show_any L conv ctx url t VNil <> RCannotShow /\ show_any L conv ctx url t VNil <> RStuck)
  /\
  (forall L conv ctx url t d x,
      is_iface t = true -> is_iface d = false -> is_rec d = false -> kind_of d < n_kinds ->
      (ctx = ctx_JS \/ ctx = ctx_JSON -> url = false) -> ctx < n_contexts ->
      show_any L conv ctx url t (VIface d x) = show_any L conv ctx url d x).

Theorem C09_holds : C09_statement.
Proof.
  split; [exact static_implies_dynamic_flat |].
  split; [exact static_implies_dynamic_js |].
  split; [exact nil_interface_is_shown | exact interface_shows_dynamic_value].
Qed.
Print Assumptions C09_holds.

(* (1) restated over show_any: the value is written *)
Theorem C09_flat_value :
  forall L conv ctx url t v,
    ctx < n_contexts -> flat_ctx ctx = true -> url_ok ctx url = true ->
    kind_of t < n_kinds -> is_iface t = false -> flag t w_EmptyInterface = false ->
    static_ok ctx t = OOk ->
    exists b, show_any L conv ctx url t v = ROk b.
Proof. exact static_implies_dynamic_flat_value. Qed.
Print Assumptions C09_flat_value.

(* the obligations over the generated facts that the theorems rest on (recomputed from
   the code at every run): checker and renderer trees agree for every context and kind *)
Theorem C09_generated_facts :
  flat_table_ok = true /\ nil_table_ok = true /\
  (forall f, node_table_ok f = true /\ field_ok f = true /\ key_kind_ok f = true /\ nil_shown_ok f = true) /\
  js_dispatch_ok = true /\ js_static_ok = true.
Proof.
  split; [exact flat_table_ok_true |]. split; [exact nil_table_ok_true |].
  split; [intro f; split; [exact (node_table_ok_true f) | split; [exact (field_ok_true f) | split; [exact (key_kind_ok_true f) | exact (nil_shown_ok_true f)]]] |].
  split; [exact js_dispatch_ok_true | exact js_static_ok_true].
Qed.

(* ---- non vacuity ---- *)

(* uintptr shown in HTML: accepted, and shown *)
Example C09_example_uintptr :
  static_ok ctx_HTML (TLeaf k_Uintptr 0) = OOk /\ dynamic_show false ctx_HTML false (Some (TLeaf k_Uintptr 0)) = OOk.
Proof. vm_compute. split; reflexivity. Qed.

(* a chan is rejected in HTML, and boxed in an interface it fails at run time *)
Example C09_example_chan :
  static_ok ctx_HTML (TLeaf k_Chan 0) = OErr /\ dynamic_show false ctx_HTML false (Some (TLeaf k_Chan 0)) = OErr.
Proof. vm_compute. split; reflexivity. Qed.

Definition no_text : leaves :=
  {| lf_trusted := fun _ _ _ _ => []; lf_time_js := fun _ => Some []; lf_time_json := fun _ => [];
     lf_error_text := fun _ _ => []; lf_key_text := fun _ _ => []; lf_float := fun _ _ => [];
     lf_float_zero := fun _ _ => false; lf_complex := fun _ _ _ => []; lf_string := fun _ s => s;
     lf_base64 := fun s => s; lf_type_name := fun _ => [] |}.

(* type L struct { V int; Next *L }  with the value {1, &{2, nil}} in JS: the hypotheses of (2) hold *)
Definition t_list : ty :=
  TStruct 0 [ ({| f_exported := true; f_name := [86]; f_tag := [] |}, TLeaf k_Int 0);
              ({| f_exported := true; f_name := [78]; f_tag := [] |}, TPtr 0 (TRec 1)) ].
Definition v_list : value := VStruct [VInt 1; VPtr (VStruct [VInt 2; VNilRef])].

Example C09_example_recursive :
  wf_tyb t_list = true /\ static_ok ctx_JS t_list = OOk /\ has_typeb [] t_list v_list = true /\ boxed_okb FJS v_list = true /\
  show_any no_text false ctx_JS false t_list v_list
  = ROk [123;34;86;34;58;49;44;34;78;34;58;123;34;86;34;58;50;44;34;78;34;58;110;117;108;108;125;125].
Proof. vm_compute. repeat split; reflexivity. Qed.

(* map[struct{}]int with a String method on the map type: rejected (it was accepted before the repair
   of checkShowJS, and then failed at run time with `cannot show value of type struct {}`) *)
Example C09_example_map_key :
  let t := TMap 1 (TStruct 0 []) (TLeaf k_Int 0) in
  static_ok ctx_JS t = OErr /\
  show_any no_text false ctx_JS false t (VMap [(VStruct [], VInt 1)]) = RCannotShow.
Proof. vm_compute. split; reflexivity. Qed.
