(* C17 — template variables passed to Run are the values every reference sees.
   Only statements, `exact`, Print Assumptions and examples live here. *)
From Verif Require Import Bytes Facts_vars VarsM VarsSpec Vars_proofs VarsRun_proofs.
Open Scope N_scope.

(* Full statement over the model of the mechanism: the emitter's table of
   globals (predefVarIndex with its per-function cache, setPredefVarRef,
   setFunctionVarRefs, nonLocalVarIndex), the VM's resolution of a GetVar/SetVar
   operand through Function.VarRefs, initGlobalVariables and UsedVars.

   For every set of declarations, every list of package-level functions in
   any order of emission (bodies with references and nested function literals
   whose upvars satisfy what the type checker guarantees) and distinct site
   numbers:
   - every reference site, at top level, inside a macro or a func literal, in
     any file, designates the global entry of its variable, in the package
     that Run binds;
   - there is exactly one entry per used variable and UsedVars is the set of
     the used variables;
   - for every vars, caller memory and sequence of reads and writes at the
     sites, the run equals the run in which every global is one variable:
     a copy of a non-pointer value, the caller's variable for a pointer, the
     zero value or the declaration's variable without an entry; an invalid
     entry makes Run panic as specified. *)
Definition C17_statement : Prop := C17_full.

Theorem C17_holds : C17_statement.
Proof. exact var_binding. Qed.
Print Assumptions C17_holds.

(* obligations on the generated facts: the package of an upvar (repaired by
   commit 4da4282), of a direct reference, and the one bound by Run *)
Theorem C17_packages_agree :
  gen_upvar_NativePkg = gen_globals_PackageName /\ gen_globals_PackageName = gen_init_pkg /\
  gen_upvar_NativeName_is_ident = true.
Proof. exact fact_pkgs. Qed.
Print Assumptions C17_packages_agree.

(* ---- examples ---- *)

Definition s_ : var := [115].
Definition decl_s : list (var * decl) := [(s_, mkdecl 0 [] None)].

(* {% macro M %}[{{ s }}]{% end %}{{ M() }}{{ s }} with s = "X": the first
   reference is inside the macro; both sites read X *)
Definition ex_macro_first : list (list item) := [[ILit [UNative s_] [IRef 1 s_]; IRef 2 s_]].

Example C17_ex_macro_first :
  wf_prog decl_s ex_macro_first /\ NoDup (map fst (prog_sites ex_macro_first)) /\
  run_model true decl_s ex_macro_first [(s_, IVal 0 [88])] [] [TShow 1; TShow 2] = RDone [[88]; [88]] [] /\
  used_vars (emit_prog true decl_s ex_macro_first) = [s_].
Proof.
  assert (declared decl_s s_) as Hd by (unfold declared; vm_compute; discriminate).
  split; [|split; [|split; reflexivity]].
  - constructor; [|constructor]. constructor; [|constructor; [|constructor]].
    + cbn [wf_item natives flat_map app]. split; [constructor; [intros []|constructor]|].
      split; [intros u [<-|[]]; split; [exact Hd|exact I]|].
      split; [|exact I]. split; [exact Hd|left; reflexivity].
    + cbn [wf_item]. split; [exact Hd|exact I].
  - cbn. constructor; [intros [H|[]]; discriminate|constructor; [intros []|constructor]].
Qed.

(* index assigns, a rendered file reads and assigns, an imported macro reads:
   three package-level functions, one variable *)
Definition ex_shared : list (list item) :=
  [[IRef 4 s_; IRef 5 s_; IRef 6 s_]; [IRef 1 s_]; [IRef 2 s_; IRef 3 s_]].
Definition ex_shared_events : list event := [TShow 4; TSet 5 [89]; TShow 2; TSet 3 [82]; TShow 1; TShow 6].

Example C17_ex_shared :
  run_model true decl_s ex_shared [(s_, IVal 0 [88])] [] ex_shared_events = RDone [[88]; [89]; [82]; [82]] [] /\
  spec_run decl_s ex_shared [(s_, IVal 0 [88])] [] ex_shared_events = RDone [[88]; [89]; [82]; [82]] [] /\
  map g_name (globals (emit_prog true decl_s ex_shared)) = [s_].
Proof. vm_compute. auto. Qed.

(* a pointer is the caller's variable: the write is seen by the caller *)
Example C17_ex_pointer :
  run_model true decl_s ex_shared [(s_, IPtr 0 7)] [(7, [80])] ex_shared_events = RDone [[80]; [89]; [82]; [82]] [(7, [82])].
Proof. vm_compute. reflexivity. Qed.

(* Before the repair of predefVarIndex (reuse = false) every package-level
   function had its own entry and its own copy: the statement was false. *)
Example C17_unrepaired_refuted :
  run_model false decl_s ex_shared [(s_, IVal 0 [88])] [] ex_shared_events = RDone [[88]; [88]; [88]; [89]] [] /\
  used_vars (emit_prog false decl_s ex_shared) = [s_; s_; s_] /\
  run_model false decl_s ex_shared [(s_, IVal 0 [88])] [] ex_shared_events
  <> spec_run decl_s ex_shared [(s_, IVal 0 [88])] [] ex_shared_events.
Proof. vm_compute. split; [reflexivity|split; [reflexivity|discriminate]]. Qed.

(* invalid entries of vars *)
Example C17_ex_panics :
  run_model true decl_s ex_shared [(s_, IVal 1 [49])] [] [] = RPanic s_ PWrongType /\
  run_model true decl_s ex_shared [(s_, INil)] [] [] = RPanic s_ PNilInit /\
  run_model true decl_s ex_shared [(s_, INilPtr 0)] [] [] = RPanic s_ PNilPointer /\
  run_model true [(s_, mkdecl 0 [] (Some 3))] ex_shared [(s_, IVal 0 [88])] [(3, [71])] [] = RPanic s_ PAlreadyInit.
Proof. vm_compute. auto. Qed.
