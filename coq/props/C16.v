(* C16 -- render, import and extends compose like their documented expansions.
   Only statements, `exact`, and Print Assumptions live here. *)
From Verif Require Import Bytes Facts_render Facts_escapers RendererM Renderer_proofs TCalcM TCalc_proofs TSrcM TSrc_proofs TSrcImport_proofs.
Open Scope N_scope.

(* the render fast path of the emitter, as generated from the code *)
Definition gen_rfast := tbl_fast gen_render_fastpath.
Definition gen_mfast := tbl_fast gen_macro_fastpath.

(* (1) Full statement: for every file set, every scope and every render
   expression, {{ render p }} and {% var v = render p %}{{ v }} are lowered (by
   the code own fast path tables) to instructions that produce the same output
   and the same outcome.  Hypotheses common to both forms: the rendered file
   has no deferred call, the context is a plain context outside a URL, the
   renderer is outside a URL, the file renders without error, a value of the
   context own format type is written as it is and a Markdown value in HTML is
   converted by the configured converter. *)
Definition C16_render_value_statement (formats_match : bool) : Prop :=
  forall vals showf conv cf fs fuel sc params c p n1 n2 fmt body ctx isSet st ws stb bws,
  lower_nodes vals fs gen_mfast gen_rfast (S (S fuel)) sc params [SShow c (ERender p)] = Some [n1] ->
  lower_nodes vals fs gen_mfast gen_rfast (S (S fuel)) sc params [SVarShow c (ERender p)] = Some [n2] ->
  render_callee vals fs gen_mfast gen_rfast (S fuel) p = Some (TFunc fmt false body) ->
  decode_ctx c = Some (ctx, false, isSet) -> mem gen_show_known_ctx ctx = true ->
  st_inv st -> inURL st = false ->
  exec_list showf conv cf never r0 w0 body = (stb, bws, Done) ->
  (if formats_match then fast_path fmt ctx = true else True) ->
  (fmt = ctx -> showf_same showf c fmt (bytes_of bws)) ->
  (fmt <> ctx -> fast_path fmt ctx = true -> showf_md showf conv c fmt (bytes_of bws)) ->
  snd (exec_node showf conv cf never st ws n1) = snd (exec_node showf conv cf never st ws n2) /\
  bytes_of (snd (fst (exec_node showf conv cf never st ws n1))) = bytes_of (snd (fst (exec_node showf conv cf never st ws n2))).

(* proved when the format of the file is the format of the context, or the
   file is Markdown and the context HTML (fast_path fmt ctx) *)
Theorem render_equals_show_of_value_partial : C16_render_value_statement true.
Proof.
  intros vals showf conv cf fs fuel sc params c p n1 n2 fmt body ctx isSet st ws stb bws L1 L2 RC D K Inv U Hb FP Hs Hm.
  eapply (render_equals_show_of_value_thm vals gen_mfast gen_rfast showf conv cf); try eassumption.
  intros _. exact FP.
Qed.
Print Assumptions render_equals_show_of_value_partial.

(* for the other pairs of formats the faithful model refutes it (recorded
   finding render-fastpath-format): a text file with markup rendered into HTML *)
Theorem render_equals_show_of_value_refuted :
  let run node := match build_and_run demo_vals (demo_fs node) None 5 0 never with
                  | Some (ws, r) => Some (concat (w_out ws), r)
                  | None => None
                  end in
  run (SShow 1 (ERender 1)) = Some ([60; 98; 62], RunNil) /\
  run (SVarShow 1 (ERender 1)) = Some ([38; 108; 116; 59; 98; 38; 103; 116; 59], RunNil).
Proof. exact render_fastpath_format_refutes. Qed.

(* (2) a host of the same format that renders p runs exactly as p on its own, for every writer *)
Theorem render_equals_standalone :
  forall vals showf conv cf fs fuel sc params c p n1 fmt rec body isSet w,
  lower_nodes vals fs gen_mfast gen_rfast (S (S fuel)) sc params [SShow c (ERender p)] = Some [n1] ->
  lower_plain vals fs gen_mfast gen_rfast (S fuel) p = Some (TFunc fmt rec body) ->
  decode_ctx c = Some (fmt, false, isSet) -> gen_rfast fmt fmt = true ->
  run_main showf conv cf w (TFunc fmt false [n1]) = run_main showf conv cf w (TFunc fmt rec body).
Proof. intros vals showf conv cf. exact (render_equals_standalone_thm vals gen_mfast gen_rfast showf conv cf). Qed.
Print Assumptions render_equals_standalone.

(* (3) extends *)
Theorem extends_is_layout_with_macros :
  forall vals fs fuel p l f lf,
  get_file fs p = Some f -> f_extends f = Some l ->
  get_file fs l = Some lf -> f_extends lf = None -> f_body f = [] ->
  exists fs',
    swap_extends fs p l = Some fs' /\
    lower_main vals gen_mfast gen_rfast fs fuel p =
      match lower_nodes vals fs' gen_mfast gen_rfast fuel
              (own_entries l lf false
               ++ map (fun m => mkEntry None (m_name m) p false m) (f_macros f)
               ++ flat_map (import_entries fs') (f_imports lf)) [] (f_body lf) with
      | Some body => Some (TFunc (f_fmt lf) (f_rec lf) body)
      | None => None
      end.
Proof. intros vals. exact (extends_is_layout_with_macros_thm vals gen_mfast gen_rfast). Qed.
Print Assumptions extends_is_layout_with_macros.

(* (4) import *)
Theorem import_is_local_declaration :
  forall vals fs1 fs2 fuel sc1 sc2 params c alias name args en1 en2 g2,
  lookup sc1 alias name = Some en1 -> lookup sc2 alias name = Some en2 ->
  e_macro en1 = e_macro en2 -> e_name en1 = e_name en2 ->
  forallb simple_node (m_body (e_macro en1)) = true ->
  e_local en1 = false ->
  get_file fs2 (e_file en2) = Some g2 -> captured g2 (e_name en2) = false ->
  lower_nodes vals fs1 gen_mfast gen_rfast fuel sc1 params [SShow c (ECall alias name args)] =
  lower_nodes vals fs2 gen_mfast gen_rfast fuel sc2 params [SShow c (ECall alias name args)]
  /\ lower_nodes vals fs1 gen_mfast gen_rfast fuel sc1 params [SVarShow c (ECall alias name args)] =
     lower_nodes vals fs2 gen_mfast gen_rfast fuel sc2 params [SVarShow c (ECall alias name args)].
Proof. intros vals. exact (import_is_local_declaration_thm vals gen_mfast gen_rfast). Qed.
Print Assumptions import_is_local_declaration.

(* (4), whole-file form: the macros of a file imported without alias and for
   list (the first import of the root file F), declared at the end of F
   instead, give the same compiled function for F.  Hypotheses: the imported
   macros are made of texts and values, no macro of F refers to them, nothing
   renders or imports F. *)
Theorem import_is_local_declaration_whole_file :
  forall vals fs F I f gI rest fuel,
  get_file fs F = Some f -> f_imports f = mkImport I None None :: rest ->
  get_file fs I = Some gI -> I <> F ->
  (forall q g, get_file fs q = Some g -> q <> F -> file_avoids F g = true) ->
  forallb (fun i => negb (i_path i =? F)) rest = true ->
  forallb (node_avoids F) (f_body f) = true -> macros_avoid F (f_macros f) = true ->
  forallb (fun m => forallb simple_node (m_body m)) (f_macros gI) = true ->
  forallb (fun m => negb (captured f (m_name m))) (f_macros gI) = true ->
  let f2 := mkFile (f_fmt f) (f_extends f) rest (f_macros f ++ f_macros gI) (f_rec f) (f_body f) in
  lower_plain vals fs gen_mfast gen_rfast fuel F = lower_plain vals (set_file fs F f2) gen_mfast gen_rfast fuel F.
Proof. intros vals. exact (import_inline_whole_file vals gen_mfast gen_rfast). Qed.
Print Assumptions import_is_local_declaration_whole_file.

(* (3), documented form: the file p that extends the layout l is built as the
   layout with the macros of p declared at its end (same hypotheses on the
   macros of p) *)
Theorem extends_is_layout_with_local_macros :
  forall vals fs fuel p l f lf fs',
  get_file fs p = Some f -> f_extends f = Some l ->
  get_file fs l = Some lf -> f_extends lf = None -> f_body f = [] ->
  swap_extends fs p l = Some fs' ->
  (forall q g, get_file fs' q = Some g -> q <> l -> file_avoids l g = true) ->
  forallb (fun i => negb (i_path i =? l)) (f_imports lf) = true ->
  forallb (node_avoids l) (f_body lf) = true -> macros_avoid l (f_macros lf) = true ->
  forallb (fun m => forallb simple_node (m_body m)) (f_macros f) = true ->
  forallb (fun m => negb (captured lf (m_name m))) (f_macros f) = true ->
  let layout := mkFile (f_fmt lf) None (f_imports lf) (f_macros lf ++ f_macros f) (f_rec lf) (f_body lf) in
  lower_main vals gen_mfast gen_rfast fs fuel p = lower_plain vals (set_file fs' l layout) gen_mfast gen_rfast fuel l.
Proof. intros vals. exact (extends_as_local_macros vals gen_mfast gen_rfast). Qed.
Print Assumptions extends_is_layout_with_local_macros.

Example import_whole_file_example :
  let imp := mkFile 1 None [] [mkMacro 7 1 1 false [SText [60; 109; 62] false false; SShow 1 (EParam 0)]] false [] in
  let root := mkFile 1 None [mkImport 2 None None] [mkMacro 8 1 0 false [SText [120] false false]] false
                [SShow 1 (ECall None 7 [AVal 0]); SVarShow 1 (ECall None 8 [])] in
  let fs := [(1, root); (2, imp)] in
  let root2 := mkFile 1 None [] (f_macros root ++ f_macros imp) false (f_body root) in
  lower_plain demo_vals fs gen_mfast gen_rfast 6 1 = lower_plain demo_vals (set_file fs 1 root2) gen_mfast gen_rfast 6 1
  /\ lower_plain demo_vals fs gen_mfast gen_rfast 6 1 <> None.
Proof. exact import_inline_example. Qed.

(* T1 obligations, the code as it is: canOptimizeShowMacro has the format
   condition, the render fast path is unconditional *)
Theorem fastpath_tables_hold :
  forallb (fun t => match t with (f, c, b) => Bool.eqb b (fast_path f c) end) gen_macro_fastpath = true /\
  forallb (fun t => match t with (f, c, b) => b end) gen_render_fastpath = true.
Proof. exact fastpath_tables_agree. Qed.

(* T1 obligations on how the compiler reaches the calculus: in the calculus a
   render expression denotes the file its path resolves to and a file is
   lowered in its own contexts.  The compiler memoises the lowering of a
   rendered file (checkRender: a dummy import and a dummy macro per file): the
   memo is keyed by the rendered file, not by the path as it is written (two
   files of different directories may spell two files alike).  The functions
   of an imported or rendered file are emitted with the URL flags of the
   emitter cleared: they belong to the attribute being emitted, not to the
   file (the file is emitted once, at its first render). *)
Theorem render_memo_keyed_by_file_holds : gen_render_memo_by_tree = true.
Proof. reflexivity. Qed.
Theorem import_clears_url_flags_holds : gen_import_clears_url_flags = true.
Proof. reflexivity. Qed.

(* refuted when the rendered file has a deferred call (recorded finding) *)
Theorem render_equals_show_of_value_refuted_with_deferred_call :
  let fs node := [(0, mkFile gen_FormatHTML None [] [] false [node]);
                  (1, mkFile gen_FormatHTML None [] [] true [SText [97] false false])] in
  let run node := match build_and_run demo_vals (fs node) None 5 0 never with
                  | Some (ws, r) => Some (concat (w_out ws), r)
                  | None => None
                  end in
  run (SShow 1 (ERender 1)) = Some ([97], RunNil) /\ run (SVarShow 1 (ERender 1)) = Some ([], RunNil).
Proof. exact deferred_call_refutes_value_form. Qed.

(* the hypotheses of (1) are satisfiable: an HTML file rendered into HTML *)
Example C16_example :
  let fs node := [(0, mkFile gen_FormatHTML None [] [] false [node]);
                  (1, mkFile gen_FormatHTML None [] [] false [SText [60; 98; 62] false false])] in
  let run node := match build_and_run demo_vals (fs node) None 5 0 never with
                  | Some (ws, r) => Some (concat (w_out ws), r)
                  | None => None
                  end in
  run (SShow 1 (ERender 1)) = Some ([60; 98; 62], RunNil) /\
  run (SVarShow 1 (ERender 1)) = Some ([60; 98; 62], RunNil).
Proof. exact matching_formats_example. Qed.
