(* C14 - goroutine and channel programs agree with gc under every schedule.
   Channels, select and the scheduler are Go's own (reflect); the part that is
   specific to the VM is how a goroutine gets its registers.  Only statements,
   `exact`, and Print Assumptions live here. *)
From Coq Require Import List NArith ZArith Bool Arith.
Import ListNotations.
From Verif Require Import Facts_vm RegsM Regs_proofs.
Close Scope N_scope.

(* Full statement over the register model, for a register file of any kind:
   (1) starting a goroutine never faults when the callee frame starts inside
       the file, and the callee reads in every register what it would read
       after a normal call (zero beyond the parent's stack top);
   (2) after the stack test of a call instruction every register of the
       callee is inside the register file.
   That generated programs whose output is schedule-independent print what gc
   prints is not formalised (the Go scheduler and channels are not modelled):
   it is the sweep. *)
Definition C14_spawn_statement : Prop :=
  forall regs fp off,
    fp + off <= length regs ->
    spawn_file int_window_h regs fp off <> None /\
    forall r, r < stack_size ->
      spawn_view int_window_h regs fp off r =
      Some (Some (match call_view regs fp off r with Some v => v | None => 0%Z end)).

Definition C14_call_statement : Prop :=
  forall fp numreg st r,
    numreg <= 127 -> 512 <= st -> fp <= st -> 1 <= r <= numreg -> fp + r < after_call_check fp numreg st.

Definition C14_statement : Prop := C14_spawn_statement /\ C14_call_statement.

(* (1) holds for the code as it is (after fix 9dd5cbe) *)
Theorem C14_spawn_holds : C14_spawn_statement.
Proof. exact spawn_statement_holds. Qed.
Print Assumptions C14_spawn_holds.

(* (2) holds for the code as it is (after fix 1709e08: the tests use >=) *)
Theorem C14_call_holds : C14_call_statement.
Proof. exact call_statement_holds. Qed.
Print Assumptions C14_call_holds.

Theorem C14_holds : C14_statement.
Proof. exact (conj spawn_statement_holds call_statement_holds). Qed.
Print Assumptions C14_holds.

(* the stack grows only when the callee frame does not fit *)
Theorem C14_call_minimal : forall fp numreg st, fp + numreg < st -> after_call_check fp numreg st = st.
Proof. exact call_check_minimal. Qed.

(* the generated shape of the four window copies and of the growth tests *)
Theorem C14_windows_ok :
  forallb window_ok spawn_windows = true /\ map (fun w => fst (fst (fst w))) spawn_windows = [0; 1; 2; 3]%N.
Proof. exact spawn_windows_ok. Qed.

Theorem C14_growth_tests_are_ge : growth_checks_all_ge = true /\ swap_growth_checks_all_ge = true.
Proof. exact growth_tests_are_ge. Qed.

(* the test before the fix, fp + numreg > st: the defect as a theorem about the model *)
Theorem C14_gt_test_off_by_one :
  ~ (forall fp numreg st r,
      numreg <= 127 -> 512 <= st -> fp <= st -> 1 <= r <= numreg -> fp + r < after_call_check_gt fp numreg st).
Proof. exact call_statement_gt_refuted. Qed.

(* the window before the fix, regs[fp+off : fp+127]: both defects as theorems about the model *)
Theorem C14_bounded_window_faults :
  exists regs fp off, fp + off <= length regs /\ spawn_file 127 regs fp off = None.
Proof. exact bounded_window_faults. Qed.

Theorem C14_bounded_window_drops_register_127 :
  exists regs fp off r, fp + off + r < length regs /\ r < stack_size /\
    call_view regs fp off r = Some 42%Z /\ spawn_view 127 regs fp off r = Some (Some 0%Z).
Proof. exact bounded_window_drops_register_127. Qed.

(* non-vacuity *)
Example C14_example :
  spawn_view int_window_h [0; 10; 20; 30; 40; 50]%Z 1 2 1 = Some (Some 40%Z) /\
  call_view [0; 10; 20; 30; 40; 50]%Z 1 2 1 = Some 40%Z.
Proof. vm_compute. split; reflexivity. Qed.
