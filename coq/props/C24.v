(* C24 — HTMLEscape escapes exactly the five HTML-significant characters.
   Only statements, `exact`, and Print Assumptions live here. *)
From Verif Require Import Bytes Facts_HTMLEscape HTMLEscapeM HtmlDecode HTMLEscape_proofs.
Open Scope N_scope.

(* Full statement: for every string s (any list of numbers, in particular any
   byte string, of any length) the model of scriggo.HTMLEscape does not fault
   (no out-of-range slice or index) and returns s with each of the five characters (lt gt amp dquote squote)
   replaced by its entity and every other byte left in place, in order. *)
Definition C24_statement : Prop :=
  forall s : bytes, HTMLEscape s = Some (flat_map esc5 s).

Theorem C24_holds : C24_statement.
Proof. exact HTMLEscape_spec. Qed.
Print Assumptions C24_holds.

(* the block of a byte that is not one of the five is the byte itself *)
Theorem C24_only_five : forall c, is_special c = false -> esc5 c = [c].
Proof. exact esc5_other. Qed.
Print Assumptions C24_only_five.

(* HTML entity decoding of the result yields s *)
Theorem C24_decodes : forall s, exists out, HTMLEscape s = Some out /\ html_decode out = s.
Proof. exact HTMLEscape_decodes. Qed.
Print Assumptions C24_decodes.

(* builtin.HtmlEscape is the same function (generated fact: its body is the call) *)
Theorem C24_builtin_is_same : gen_builtin_HtmlEscape_is_HTMLEscape = true.
Proof. exact eq_refl. Qed.

(* non-vacuity: a concrete string with all five characters and a multi-byte rune *)
Example C24_example :
  HTMLEscape [97; 60; 98; 62; 38; 34; 39; 195; 169]
  = Some [97; 38;108;116;59; 98; 38;103;116;59; 38;97;109;112;59; 38;35;51;52;59; 38;35;51;57;59; 195; 169].
Proof. vm_compute. reflexivity. Qed.
