(* C19 - code can reach only the host functionality the embedder supplies.
   Statement over the resolution model (model/ScopeM.v): for every
   configuration (importer function, globals, AllowGoStmt) and every program,
   if the build succeeds then
   - every import path was asked to the importer and answered with a package
     (imports_from_importer), so an unknown import makes the build fail;
   - a go statement anywhere in the body needs the option (go_needs_option);
   - every native function the code can call comes from a global or from a
     declaration of a package the importer returned for an imported path
     (natives_closed); the only other host entry point is the print hook.
   Only statements, `exact`, and Print Assumptions live here. *)
From Coq Require Import List NArith Bool.
From Verif Require Import ScopeM Scope_proofs.
Import ListNotations.
Open Scope N_scope.

Definition C19_statement : Prop :=
  forall cfg g o, check cfg g = inl o ->
    (o_asked o = map snd (g_imports g) /\
     Forall (fun ip => exists pkg, c_importer cfg (snd ip) = Some pkg) (g_imports g)) /\
    (has_go (g_body g) = true -> c_allow_go cfg = true) /\
    Forall (supplied cfg g) (o_natives o).

(* partial: the statement is about the type checker's resolution; that the
   emitter and the VM call only the natives resolved here, and reflection on
   supplied values, are outside the model (see checks/C19.json) *)
Theorem C19_resolution_partial : C19_statement.
Proof.
  intros cfg g o H. split; [exact (imports_from_importer cfg g o H)|].
  split; [exact (go_needs_option cfg g o H)|exact (natives_closed cfg g o H)].
Qed.
Print Assumptions C19_resolution_partial.

Theorem C19_imports_from_importer : forall cfg g o, check cfg g = inl o ->
  o_asked o = map snd (g_imports g) /\
  Forall (fun ip => exists pkg, c_importer cfg (snd ip) = Some pkg) (g_imports g).
Proof. exact imports_from_importer. Qed.
Print Assumptions C19_imports_from_importer.

Theorem C19_unknown_import_fails : forall cfg g form p,
  In (form, p) (g_imports g) -> c_importer cfg p = None -> exists e, check cfg g = inr e.
Proof. exact unknown_import_fails. Qed.
Print Assumptions C19_unknown_import_fails.

Theorem C19_go_needs_option : forall cfg g o, check cfg g = inl o -> has_go (g_body g) = true -> c_allow_go cfg = true.
Proof. exact go_needs_option. Qed.
Print Assumptions C19_go_needs_option.

Theorem C19_natives_closed : forall cfg g o, check cfg g = inl o -> Forall (supplied cfg g) (o_natives o).
Proof. exact natives_closed. Qed.
Print Assumptions C19_natives_closed.

(* non-vacuity: a configuration and a program that builds, uses a go statement,
   a package function, a dot-imported one, a global and println *)
Definition ex_cfg : config :=
  {| c_importer := fun p => if p =? 10 then Some {| p_name := 20; p_decls := [(1000, 501); (1001, 502)] |}
                            else if p =? 11 then Some {| p_name := 21; p_decls := [(1002, 503)] |} else None;
     c_globals := [(30, 504)];
     c_allow_go := true;
     c_template := true |}.
Definition ex_prog : prog :=
  {| g_imports := [(IDefault, 10); (IDot, 11)];
     g_funcs := [40];
     g_body := [SCall (RSel 20 1000); SGo (RId 1002); SBlock 50 [SDefer (RId 30); SCall (RId 40)]; SCall (RId 2)] |}.

Example C19_example :
  check ex_cfg ex_prog = inl {| o_natives := [501; 503; 504]; o_asked := [10; 11]; o_prints := 1 |} /\
  has_go (g_body ex_prog) = true /\
  (* the same program without the option, and with an import the importer does not know *)
  check {| c_importer := c_importer ex_cfg; c_globals := c_globals ex_cfg; c_allow_go := false; c_template := true |} ex_prog = inr EGoNotAvailable /\
  (* as a program the global is not visible *)
  check {| c_importer := c_importer ex_cfg; c_globals := c_globals ex_cfg; c_allow_go := true; c_template := false |} ex_prog = inr EUndefined /\
  check ex_cfg {| g_imports := [(IDefault, 12)]; g_funcs := []; g_body := [] |} = inr (ECannotFindPackage 12).
Proof. vm_compute. repeat split; reflexivity. Qed.
