(* C19 - code can reach only the host functionality the embedder supplies.
   Statement over the resolution model (model/ScopeM.v): for every
   configuration (importer function, globals, AllowGoStmt) and every program,
   if the build succeeds then
   - every import path was asked to the importer and answered with a package
     (imports_from_importer), so an unknown import makes the build fail;
   - a go statement anywhere in the body needs the option (go_needs_option);
   - every native function the code can call comes from a global or from a
     declaration of a package the importer returned for an imported path
     (natives_closed); the only other host entry point is the print hook;
   and this holds for EVERY build of a process: for every history of in-place
   edits of the Globals map and of the members of the importer interleaved
   with builds, each build is confined with respect to the maps as they are at
   its call (C19_history_statement), its result is the result of a single
   build on those contents and does not depend on earlier builds or on how
   the contents came about (history_contents_only); the compiler keeps no
   process-wide state between builds (C19_no_cross_build_state, a generated
   fact: every package level variable and every site that can change one is
   listed from the sources and classified).
   Only statements, `exact`, and Print Assumptions live here. *)
From Coq Require Import List NArith Bool.
From Verif Require Import ScopeM Scope_proofs ScopeHistM ScopeHist_proofs Facts_buildstate BuildState_proofs.
Import ListNotations.
Open Scope N_scope.

Definition C19_statement : Prop :=
  forall cfg g o, check cfg g = inl o ->
    (o_asked o = map snd (g_imports g) /\
     Forall (fun ip => exists pkg, c_importer cfg (snd ip) = APkg pkg) (g_imports g)) /\
    (has_go (g_body g) = true -> c_allow_go cfg = true) /\
    Forall (supplied cfg g) (o_natives o).

(* partial: the statement is about the type checker's resolution; that the
   emitter and the VM call only the natives resolved here, and reflection on
   supplied values, are outside the model (see checks/C19.json) *)
Theorem C19_resolution_partial : C19_statement.
Proof.
  intros cfg g o H. split; [exact (imports_from_importer cfg g o H)|].
  split; [exact (go_needs_option cfg g o H)|exact (natives_closed cfg g o H)].
Qed.
Print Assumptions C19_resolution_partial.

Theorem C19_imports_from_importer : forall cfg g o, check cfg g = inl o ->
  o_asked o = map snd (g_imports g) /\
  Forall (fun ip => exists pkg, c_importer cfg (snd ip) = APkg pkg) (g_imports g).
Proof. exact imports_from_importer. Qed.
Print Assumptions C19_imports_from_importer.

Theorem C19_unknown_import_fails : forall cfg g form p,
  In (form, p) (g_imports g) -> c_importer cfg p = ANone -> exists e, check cfg g = inr e.
Proof. exact unknown_import_fails. Qed.
Print Assumptions C19_unknown_import_fails.

(* an importer error is a veto as well *)
Theorem C19_unanswered_import_fails : forall cfg g form p,
  In (form, p) (g_imports g) -> (forall pkg, c_importer cfg p <> APkg pkg) -> exists e, check cfg g = inr e.
Proof. exact unanswered_import_fails. Qed.
Print Assumptions C19_unanswered_import_fails.

(* native.CombinedImporter: a member that answers with an error, the earlier
   members not having the path, makes the import fail whatever the later
   members have; when the build succeeds every package comes from the first
   member that has it *)
Theorem C19_combined_veto : forall cfg g form p pre m post,
  c_importer cfg = combined (pre ++ m :: post) ->
  Forall (fun m' => m' p = ANone) pre -> m p = AErr ->
  In (form, p) (g_imports g) -> exists e, check cfg g = inr e.
Proof. exact combined_veto_fails. Qed.
Print Assumptions C19_combined_veto.

Theorem C19_combined_first_member : forall cfg g o ms,
  c_importer cfg = combined ms -> check cfg g = inl o ->
  Forall (fun ip => exists pre m post pkg, ms = pre ++ m :: post /\
            Forall (fun m' => m' (snd ip) = ANone) pre /\ m (snd ip) = APkg pkg /\
            c_importer cfg (snd ip) = APkg pkg) (g_imports g).
Proof. exact combined_package_from_first. Qed.
Print Assumptions C19_combined_first_member.

(* ---- every build of a process ---- *)

Definition C19_history_statement : Prop :=
  forall (c : cross) (st : hstate) (h : list event),
    (* each build returns what a single build returns on the maps as they are at its call *)
    run c st h = map build_result (builds st h) /\
    (* and is confined with respect to those maps *)
    Forall2 confined (builds st h) (run c st h).

Theorem C19_history_partial : C19_history_statement.
Proof. intros c st h. split; [exact (run_builds c st h)|exact (history_confined c st h)]. Qed.
Print Assumptions C19_history_partial.

(* builds made on maps with the same contents give the same results, whatever
   happened before in either process *)
Theorem C19_history_contents_only : forall c1 c2 st1 st2 h1 h2,
  Forall2 build_equiv (builds st1 h1) (builds st2 h2) -> run c1 st1 h1 = run c2 st2 h2.
Proof. exact history_contents_only. Qed.
Print Assumptions C19_history_contents_only.

Theorem C19_single_build_contents_only : forall c1 c2 g, cfg_equiv c1 c2 -> check c1 g = check c2 g.
Proof. exact check_ext. Qed.
Print Assumptions C19_single_build_contents_only.

(* generated fact: the compiler has no process-wide state that a build could
   leave to the next one; every changeable package level variable and every
   write site is classified, no classification is stale *)
Theorem C19_no_cross_build_state :
  cross_build_vars = [] /\
  forallb var_classified gen_package_vars = true /\
  forallb var_readonly_ok gen_package_vars = true /\
  forallb write_classified gen_package_var_writes = true /\
  gen_stale_buildstate_entries = 0.
Proof.
  split; [exact no_cross_build_state|]. split; [exact vars_classified_ok|].
  split; [exact readonly_vars_have_no_write|]. split; [exact writes_classified_ok|exact no_stale_buildstate_entry].
Qed.
Print Assumptions C19_no_cross_build_state.

Theorem C19_go_needs_option : forall cfg g o, check cfg g = inl o -> has_go (g_body g) = true -> c_allow_go cfg = true.
Proof. exact go_needs_option. Qed.
Print Assumptions C19_go_needs_option.

Theorem C19_natives_closed : forall cfg g o, check cfg g = inl o -> Forall (supplied cfg g) (o_natives o).
Proof. exact natives_closed. Qed.
Print Assumptions C19_natives_closed.

(* non-vacuity: a configuration and a program that builds, uses a go statement,
   a package function, a dot-imported one, a global and println *)
Definition ex_cfg : config :=
  {| c_importer := fun p => if p =? 10 then APkg {| p_name := 20; p_decls := [(1000, 501); (1001, 502)] |}
                            else if p =? 11 then APkg {| p_name := 21; p_decls := [(1002, 503)] |} else ANone;
     c_globals := [(30, 504)];
     c_allow_go := true;
     c_template := true |}.
Definition ex_prog : prog :=
  {| g_imports := [(IDefault, 10); (IDot, 11)];
     g_funcs := [40];
     g_body := [SCall (RSel 20 1000); SGo (RId 1002); SBlock 50 [SDefer (RId 30); SCall (RId 40)]; SCall (RId 2)] |}.

Example C19_example :
  check ex_cfg ex_prog = inl {| o_natives := [501; 503; 504]; o_asked := [10; 11]; o_prints := 1 |} /\
  has_go (g_body ex_prog) = true /\
  (* the same program without the option, and with an import the importer does not know *)
  check {| c_importer := c_importer ex_cfg; c_globals := c_globals ex_cfg; c_allow_go := false; c_template := true |} ex_prog = inr EGoNotAvailable /\
  (* as a program the global is not visible *)
  check {| c_importer := c_importer ex_cfg; c_globals := c_globals ex_cfg; c_allow_go := true; c_template := false |} ex_prog = inr EUndefined /\
  check ex_cfg {| g_imports := [(IDefault, 12)]; g_funcs := []; g_body := [] |} = inr (ECannotFindPackage 12).
Proof. vm_compute. repeat split; reflexivity. Qed.

(* non-vacuity of the history theorems: the Globals map holds readSecret (30)
   and fetch (31); a template that calls both builds; then readSecret is
   deleted and version (32) added (the length stays 2) and fetch is replaced by
   another function: the same template no longer builds, a template calling
   fetch and version runs the new functions only.  The importer is a combined
   importer whose first member vetoes path 12, which the second member has. *)
Definition ex_pkg12 : package := {| p_name := 22; p_decls := [(1000, 510)] |}.
Definition ex_state : hstate :=
  {| h_globals := [(30, 601); (31, 602)];
     h_members := [ (fun p => if p =? 12 then AErr else ANone); (fun p => if p =? 12 then APkg ex_pkg12 else ANone) ] |}.
Definition ex_t1 : prog := {| g_imports := []; g_funcs := []; g_body := [SCall (RId 30); SCall (RId 31)] |}.
Definition ex_t2 : prog := {| g_imports := []; g_funcs := []; g_body := [SCall (RId 31); SCall (RId 32)] |}.
Definition ex_t3 : prog := {| g_imports := [(IDefault, 12)]; g_funcs := []; g_body := [SCall (RSel 22 1000)] |}.
Definition ex_history : list event :=
  [ EvBuild false true ex_t1;
    EvEdit (EdGlobalDel 30); EvEdit (EdGlobalSet 32 603); EvEdit (EdGlobalSet 31 604);
    EvBuild false true ex_t1; EvBuild false true ex_t2;
    EvBuild false true ex_t3;
    EvEdit (EdMemberSet 0 12 ANone);
    EvBuild false true ex_t3 ].

Example C19_history_example :
  run tt ex_state ex_history =
    [ inl {| o_natives := [601; 602]; o_asked := []; o_prints := 0 |};
      inr EUndefined;
      inl {| o_natives := [604; 603]; o_asked := []; o_prints := 0 |};
      inr (EImporterError 12);
      inl {| o_natives := [510]; o_asked := [12]; o_prints := 0 |} ] /\
  length (h_globals ex_state) = length (h_globals (apply_edit (apply_edit ex_state (EdGlobalDel 30)) (EdGlobalSet 32 603))).
Proof. vm_compute. split; reflexivity. Qed.
