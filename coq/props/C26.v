(* C26 — Markdown escaping neutralises Markdown syntax.
   Only statements, `exact`, and Print Assumptions live here. *)
From Verif Require Import Bytes Facts_md MarkdownM MarkdownSpec MarkdownInert_proofs Markdown_proofs.
From Verif Require Import ShowTree MdShowM Facts_mdshow MdShowDispatchM MdShow_proofs.
Open Scope N_scope.

(* Full statement.  It speaks about a CommonMark converter, which is not
   modelled: the converter enters as Section variables, and the statement is
   NOT proved here (checks/C26.json, stated_not_proved; the sweep evaluates it
   with goldmark on the real code). *)
Section FullStatement.
  Variable block : Type.
  Variable convert : bytes -> list block.             (* CommonMark document -> blocks *)
  Variable plain_paragraph : block -> bool.           (* a paragraph holding text only, no inline element *)
  Variable text_of : list block -> bytes.             (* the text content of the blocks *)
  Variable ws_norm : bytes -> bytes.                  (* whitespace normalisation of Markdown *)
  Variable code_block_of : bytes -> block -> Prop.    (* the block is an indented code block with this content *)

  Definition C26_statement : Prop :=
    (forall s out, markdownEscape s false = MOk out ->
       forallb plain_paragraph (convert out) = true /\ ws_norm (text_of (convert out)) = ws_norm s)
    /\
    (forall s sp out, markdownCodeBlockEscape s sp = MOk out ->
       exists b, convert (cb_indent sp ++ out) = [b] /\ code_block_of s b).
End FullStatement.

(* Proved part 1 (md_escaped_inert): for every value s, markdownEscape s false
   returns, without faulting, exactly the documented escaping esc_doc s; that
   output is inert in the sense of md_inert (every listed character is
   backslash-escaped -- odd run of backslashes --, no blank first or last, no
   two consecutive blanks, no tab after a newline, hence less than 4 columns of
   indentation at every line start); and CommonMark backslash-unescaping it
   gives the value with the documented space to NBSP normalisation. *)
Definition C26_escaped_inert_statement : Prop :=
  forall s : bytes,
    markdownEscape s false = MOk (esc_doc s)
    /\ md_inert (esc_doc s)
    /\ md_unescape (esc_doc s) = nbsp_norm s.

Theorem C26_md_escaped_inert_partial : C26_escaped_inert_statement.
Proof.
  exact (fun s => conj (markdownEscape_plain_spec s) (conj (esc_doc_inert s) (md_unescape_esc_doc s))).
Qed.
Print Assumptions C26_md_escaped_inert_partial.

(* Proved part 2 (codeblock_stays): markdownCodeBlockEscape returns the value
   with the block indent inserted after every newline; so every newline of the
   output is followed by the indent, and removing one indent after each
   newline gives the value back. *)
Definition C26_codeblock_statement : Prop :=
  forall (s : bytes) (sp : bool),
    markdownCodeBlockEscape s sp = MOk (cb_spec sp s)
    /\ (forall pre post, cb_spec sp s = pre ++ 10 :: post -> exists t, post = cb_indent sp ++ t)
    /\ cb_strip (cb_indent sp) [] (cb_spec sp s) = s.

Theorem C26_codeblock_stays_partial : C26_codeblock_statement.
Proof.
  exact (fun s sp => conj (markdownCodeBlockEscape_spec s sp)
                          (conj (cb_stays sp s) (cb_strip_spec sp s))).
Qed.
Print Assumptions C26_codeblock_stays_partial.

(* Proved part 3 (md_no_fault): in both modes, in particular with
   allowHTML = true (comments, CDATA sections and tags skipped with index
   arithmetic), no index or slice expression goes out of range and the loops
   terminate, for every input. *)
Definition C26_no_fault_statement : Prop :=
  (forall s a, ok_res (markdownEscape s a)) /\ (forall s sp, ok_res (markdownCodeBlockEscape s sp)).

Theorem C26_md_no_fault : C26_no_fault_statement.
Proof. exact (conj markdownEscape_no_fault markdownCodeBlockEscape_no_fault). Qed.
Print Assumptions C26_md_no_fault.

(* The obligations on the facts regenerated from escapers.go. *)
Theorem C26_generated_facts :
  fact_keys = true /\ forallb fact_plain_byte all_bytes = true /\ forallb fact_html_byte all_bytes = true
  /\ fact_consts = true /\ forallb (fun c => forallb (fact_neigh c) all_bytes) [32; 9] = true.
Proof.
  exact (conj fact_keys_ok (conj fact_plain_bytes_ok (conj fact_html_bytes_ok (conj fact_consts_ok fact_neigh_ok)))).
Qed.

(* Proved part 4 (type dispatch of the show functions; tables generated from
   renderer.go by executing showInMarkdown / showInMarkdownCodeBlock for every
   reflect.Kind and splitting on the dynamic type, Facts_mdshow).  A shown
   value is abstract: any kind below md_n_kinds, ANY valuation of the type
   atoms (which interfaces the dynamic type implements, which well known type
   it is), any strings returned by its methods and by toString.

   Code block contexts: whatever the value, renderer.Show either writes nothing
   (cannot show) or writes the code block escaping of a string of the value:
   the slot theorem C26_codeblock_stays_partial applies to every class, none is
   written verbatim. *)
Definition C26_show_codeblock_statement : Prop :=
  forall (val : atom -> bool) (text : mdsrc -> bytes) (kind : N) (sp : bool),
    kind < md_n_kinds ->
    code_stays sp text (md_show_with val text kind (RCodeBlock sp)).

Theorem C26_show_codeblock_stays_partial : C26_show_codeblock_statement.
Proof. exact show_codeblock_stays. Qed.
Print Assumptions C26_show_codeblock_stays_partial.

(* Paragraph context: the classes written verbatim are exactly the markdown
   typed values (native.Markdown, MarkdownStringer, MarkdownEnvStringer:
   documented); HTML typed values go through markdownEscape with allowHTML
   (no fault); every other value is written as the inert escaping esc_doc of
   its string, or not at all. *)
Definition C26_show_paragraph_statement : Prop :=
  forall (val : atom -> bool) (text : mdsrc -> bytes) (kind : N),
    kind < md_n_kinds ->
    ((exists s, md_dispatch val kind RParagraph = MWrite s) <-> markdown_typed val = true)
    /\ par_shown val text (md_show_with val text kind RParagraph).

Theorem C26_show_paragraph_partial : C26_show_paragraph_statement.
Proof. exact (fun val text kind H => conj (par_verbatim_exact val kind H) (show_paragraph val text kind H)). Qed.
Print Assumptions C26_show_paragraph_partial.

(* renderer.Show for the context assigned by the lexer.  The context is a
   parameter: that the lexer assigns the code block contexts exactly where
   CommonMark sees an indented code block is NOT proved (it is false, see
   KNOWN_FINDINGS.txt; the template sweep evaluates it with goldmark). *)
Definition C26_show_by_context_statement : Prop :=
  forall (lexer_ctx : N) (v : mdvalue), v_kind v < md_n_kinds ->
    (lexer_ctx = md_ctx_Markdown -> par_shown (md_val (v_kind v) (v_flags v)) (v_text v) (md_show lexer_ctx v))
    /\ (lexer_ctx = md_ctx_TabCodeBlock -> code_stays false (v_text v) (md_show lexer_ctx v))
    /\ (lexer_ctx = md_ctx_SpacesCodeBlock -> code_stays true (v_text v) (md_show lexer_ctx v)).

Theorem C26_show_by_context_partial : C26_show_by_context_statement.
Proof. exact show_by_context. Qed.
Print Assumptions C26_show_by_context_partial.

(* The obligations on the dispatch tables regenerated from renderer.go. *)
Theorem C26_generated_dispatch_facts :
  tbl_check gen_showInMarkdownCodeBlock_tab_tbl (chk_code false) = true
  /\ tbl_check gen_showInMarkdownCodeBlock_spaces_tbl (chk_code true) = true
  /\ tbl_check gen_showInMarkdown_tbl chk_par = true
  /\ route_assoc gen_md_route md_ctx_Markdown = Some RParagraph
  /\ route_assoc gen_md_route md_ctx_TabCodeBlock = Some (RCodeBlock false)
  /\ route_assoc gen_md_route md_ctx_SpacesCodeBlock = Some (RCodeBlock true).
Proof. exact (conj fact_code_tab_ok (conj fact_code_spaces_ok (conj fact_par_ok fact_routes_ok))). Qed.

(* non-vacuity *)
Example C26_example_paragraph :   (* " a*b\n\n\tc " *)
  markdownEscape [32; 97; 42; 98; 10; 10; 9; 99; 32] false
  = MOk [194; 160; 97; 92; 42; 98; 10; 10; 194; 160; 99; 194; 160].
Proof. vm_compute. reflexivity. Qed.

Example C26_example_html :   (* "# <b x='>'> & <![CDATA[<*>]]>" *)
  markdownEscape [35; 32; 60; 98; 32; 120; 61; 39; 62; 39; 62; 32; 38; 32; 60; 33; 91; 67; 68; 65; 84; 65; 91; 60; 42; 62; 93; 93; 62] true
  = MOk [92; 35; 32; 60; 98; 32; 120; 61; 39; 62; 39; 62; 32; 38; 32; 92; 60; 92; 42; 92; 62].
Proof. vm_compute. reflexivity. Qed.

Example C26_example_codeblock :   (* "a\n\rb" with a tab indent *)
  markdownCodeBlockEscape [97; 10; 13; 98] false = MOk [97; 10; 9; 13; 98].
Proof. vm_compute. reflexivity. Qed.

Example C26_example_unclosed_comment : markdownEscape [60; 33; 45; 45; 120] true = MErr 1.
Proof. vm_compute. reflexivity. Qed.

(* a value of type native.Markdown (kind String, flag w_Markdown) holding "a\nb":
   verbatim in a paragraph, re-indented in a tab code block *)
Example C26_example_show_markdown_typed :
  md_show_flat md_ctx_Markdown 24 (2 ^ w_Markdown) [97; 10; 98] [97; 10; 98] [] [] [] [] [] [] [] = ROk [97; 10; 98]
  /\ md_show_flat md_ctx_TabCodeBlock 24 (2 ^ w_Markdown) [97; 10; 98] [97; 10; 98] [] [] [] [] [] [] [] = ROk [97; 10; 9; 98].
Proof. vm_compute. split; reflexivity. Qed.

(* a plain string "*x*" and a value that cannot be shown (kind Slice, no flag) *)
Example C26_example_show_plain :
  md_show_flat md_ctx_Markdown 24 0 [42; 120; 42] [42; 120; 42] [] [] [] [] [] [] [] = ROk [92; 42; 120; 92; 42]
  /\ md_show_flat md_ctx_SpacesCodeBlock 23 0 [] [] [] [] [] [] [] [] [] = RCannotShow.
Proof. vm_compute. split; reflexivity. Qed.
