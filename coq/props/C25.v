(* C25 - builtin functions honour their documentation and never panic instead
   of erroring: the part about the builtins that contain logic of their own.
   Only statements, `exact`, and Print Assumptions live here. *)
From Coq Require Import List.
From Verif Require Import Bytes Utf8 MiscRunes Facts_builtin BuiltinM
  QueryEscape_proofs JSONSpace_proofs Abbreviate_proofs Capitalize_proofs
  Facts_builtinapi BuiltinApi_proofs.
Open Scope N_scope.

(* Statement over the models (None = the Go code would panic with an index or
   slice bounds error), for every byte string, every count and every
   classification oracle U standing for package unicode:
   1. QueryEscape returns the per-byte escaping of s; it percent-decodes to s
      with a strict decoder (so it consists of unreserved characters and %HH only);
   2. indexing lookupJSONSpace by any byte never faults, onlyJSONWhitespace
      and trimJSONSpace compute their documented results;
   3. Abbreviate never faults, returns at most n runes for n >= 0, returns the
      right-trimmed string when that has at most n runes, the empty string when
      it is longer and n is below the minimum, otherwise a prefix followed by the suffix;
   4. Capitalize changes only the first non-separator rune, in place;
   5. CapitalizeAll upper-cases exactly the runes that follow a separator;
   6. ToKebab never indexes out of range and equals the index free description. *)
Definition C25_statement : Prop :=
  (forall s, is_bytes s = true ->
     QueryEscape s = Some (flat_map qe_esc s) /\ pct_decode (flat_map qe_esc s) = Some s /\
     forallb (fun x => qe_unreserved x || (x =? 37)) (flat_map qe_esc s) = true) /\
  (forall c, c < 256 -> assoc_get gen_onlyJSONWhitespace_step c <> None /\
                        assoc_get gen_trimJSONSpace_lead c <> None /\
                        assoc_get gen_trimJSONSpace_trail c <> None) /\
  (forall s, is_bytes s = true -> only_json_ws s = Some (forallb is_json_ws s) /\
                                  trim_json_space s = Some (trim_spec s)) /\
  (forall s n, (0 <= n)%Z -> exists out, Abbreviate s n = Some out /\ (Z.of_nat (rune_count out) <= n)%Z) /\
  (forall s n, (Z.of_nat (rune_count (abbr_trim s)) <= n)%Z -> Abbreviate s n = Some (abbr_trim s)) /\
  (forall s n, (Z.of_nat (rune_count (abbr_trim s)) > n)%Z -> (n < gen_Abbreviate_min_n)%Z -> Abbreviate s n = Some []) /\
  (forall s n, (Z.of_nat (rune_count (abbr_trim s)) > n)%Z -> (gen_Abbreviate_min_n <= n)%Z ->
     exists w rest, Abbreviate s n = Some (w ++ gen_Abbreviate_suffix) /\ abbr_trim s = w ++ rest /\
                    (Z.of_nat (rune_count (w ++ gen_Abbreviate_suffix)) <= n)%Z) /\
  (forall U s, Capitalize U s = Some (cap_spec U s)) /\
  (forall U rs p, cap_all_runes U p rs
     = map (fun pr => if is_separator U (fst pr) then u_to_upper U (snd pr) else snd pr) (combine (p :: rs) rs)) /\
  (forall U s, ToKebab_runes U s = Some (trim_dash (kebab_spec U None (decode_all s) false []))).

(* The property also speaks about the wrappers of the standard library
   (strings, strconv, time, regexp, json, yaml): they have no model here (see
   stated_not_proved in checks/C25.json), hence the name. *)
Theorem C25_own_logic_partial : C25_statement.
Proof.
  unfold C25_statement.
  split; [intros s Hs; split; [apply QueryEscape_spec, Hs|split; [apply qe_decodes, Hs|apply qe_alphabet, Hs]]|].
  split; [exact json_space_no_fault|].
  split; [intros s Hs; split; [apply only_json_ws_spec, Hs|apply trim_json_space_spec, Hs]|].
  split; [exact Abbreviate_bound|].
  split; [exact Abbreviate_short|].
  split; [exact Abbreviate_tiny|].
  split; [exact Abbreviate_long|].
  split; [exact Capitalize_spec|].
  split; [intros U rs p; apply cap_all_runes_spec|].
  exact ToKebab_spec.
Qed.
Print Assumptions C25_own_logic_partial.

Theorem C25_json_space_no_fault : forall c, c < 256 ->
  assoc_get gen_onlyJSONWhitespace_step c <> None /\
  assoc_get gen_trimJSONSpace_lead c <> None /\
  assoc_get gen_trimJSONSpace_trail c <> None.
Proof. exact json_space_no_fault. Qed.
Print Assumptions C25_json_space_no_fault.

Theorem C25_query_escape_decodes : forall s, is_bytes s = true ->
  exists out, QueryEscape s = Some out /\ pct_decode out = Some s /\
              forallb (fun x => qe_unreserved x || (x =? 37)) out = true.
Proof. exact QueryEscape_decodes. Qed.
Print Assumptions C25_query_escape_decodes.

Theorem C25_abbreviate_bound : forall s n, (0 <= n)%Z ->
  exists out, Abbreviate s n = Some out /\ (Z.of_nat (rune_count out) <= n)%Z.
Proof. exact Abbreviate_bound. Qed.
Print Assumptions C25_abbreviate_bound.

Theorem C25_capitalize_one_rune : forall U s,
  cap_spec U s = s \/
  exists i r, In (i, r) (range_str s) /\ is_separator U r = false /\
    cap_spec U s = firstn (N.to_nat i) s ++ write_rune (u_to_upper U r)
                   ++ skipn (N.to_nat (i + N.of_nat (rune_size (skipn (N.to_nat i) s)))) s.
Proof. exact Capitalize_unchanged_or_one. Qed.
Print Assumptions C25_capitalize_one_rune.

Theorem C25_kebab_no_fault : forall U s, ToKebab_runes U s <> None.
Proof. exact ToKebab_no_fault. Qed.
Print Assumptions C25_kebab_no_fault.

(* The wrappers of the standard library.  Generated fact (Facts_builtinapi:
   every exported function and method of package builtin listed from the
   sources, joined with the reviewed classification and with the table of the
   differential sweep): every one is classified at the current hash of its
   signature and body; a wrapper calls the function its documentation names
   and the sweep compares it with that function; a direct wrapper is, on the
   syntax tree, `return oracle(parameters in order)`, so it agrees with its
   oracle on every input by construction.  That a guarded wrapper agrees with
   its oracle outside its documented deviations is tested (differential
   sweep), not proved. *)
Definition C25_wrappers_statement : Prop :=
  forall e, In e gen_builtin_api ->
    api_class e <> 0 /\
    ((api_class e = 1 \/ api_class e = 2) -> api_calls_oracle e = true /\ api_has_differential e = true) /\
    (api_class e = 1 -> api_direct e = true).

Theorem C25_wrappers_tied : C25_wrappers_statement.
Proof.
  intros e Hin. split; [exact (every_builtin_classified e Hin)|].
  split; [exact (every_wrapper_compared e Hin)|exact (every_direct_wrapper_is_its_oracle e Hin)].
Qed.
Print Assumptions C25_wrappers_tied.

Theorem C25_wrappers_no_stale_entry : gen_stale_api_entries = 0 /\ gen_stale_differential_entries = 0.
Proof. exact api_no_stale_entry. Qed.
Print Assumptions C25_wrappers_no_stale_entry.

(* non-vacuity: the hypotheses are satisfiable, on concrete inputs *)
Example C25_example_query : is_bytes [97; 32; 255; 45] = true /\
  QueryEscape [97; 32; 255; 45] = Some [97; 37; 50; 48; 37; 102; 102; 45].
Proof. vm_compute. split; reflexivity. Qed.

Definition ex_lorem : bytes := [76;111;114;101;109;32;105;112;115;117;109;32;100;111;108;111;114].
Definition ex_aeb : bytes := [97;195;169;98].
Example C25_example_abbreviate :
  (* Abbreviate(Lorem ipsum dolor, 10) = Lorem... : longer than n, n >= 3 *)
  (Z.of_nat (rune_count (abbr_trim ex_lorem)) > 10)%Z /\
  (gen_Abbreviate_min_n <= 10)%Z /\
  Abbreviate ex_lorem 10%Z = Some [76;111;114;101;109;46;46;46] /\
  (* Abbreviate of a-eacute-b with n = 3 keeps the string: 3 runes in 4 bytes *)
  (Z.of_nat (rune_count (abbr_trim ex_aeb)) <= 3)%Z /\
  Abbreviate ex_aeb 3%Z = Some ex_aeb /\
  (* longer than n with n below the minimum *)
  Abbreviate [97;98;99] 2%Z = Some [].
Proof. vm_compute. repeat split; congruence. Qed.

Example C25_example_trim : trim_json_space [32; 10; 123; 125; 9] = Some [123; 125] /\ trim_json_space [32; 10] = Some [].
Proof. vm_compute. split; reflexivity. Qed.

Example C25_example_wrappers :
  (exists e, In e gen_builtin_api /\ api_class e = 1 /\ api_direct e = true /\ api_has_differential e = true) /\
  (exists e, In e gen_builtin_api /\ api_class e = 2 /\ api_calls_oracle e = true /\ api_has_differential e = true).
Proof. exact api_examples. Qed.
