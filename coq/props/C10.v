(* C10 - compiled programs and templates run in isolation, repeatedly and concurrently.
   Only statements, `exact`, and Print Assumptions live here. *)
From Coq Require Import List NArith Bool Arith.
Import ListNotations.
From Verif Require Import Facts_vm_writes IsolationM Isolation_proofs FramesM.
From Verif Require Import Facts_buildstate BuildState_proofs.
Close Scope N_scope.

(* Full statement over the model: for any number of runs of one artefact,
   any interleaving of their steps (the schedule), if no step writes the
   artefact and the effect of a step on its own run does not depend on the
   cache part (argument pools, lazily built descriptors), then every run ends
   up exactly where it would running alone for the same number of steps, from
   any cache - so its output, error and printed text are those of a single
   run of a fresh copy. *)
Definition C10_statement : Prop :=
  forall (Art Cache Local Out : Type)
         (gstep : Art -> Cache -> Local -> Art * Cache * (Local + Out)),
    (forall a c l, fst (fst (gstep a c l)) = a) ->
    (forall a c c' l, snd (gstep a c l) = snd (gstep a c' l)) ->
    forall sched (w : world Art Cache Local Out) j c0,
      nth_error (w_runs _ _ _ _ (exec _ _ _ _ gstep w (rev sched))) j =
      match nth_error (w_runs _ _ _ _ w) j with
      | Some x => Some (solo _ _ _ _ gstep (w_art _ _ _ _ w) c0 (count_occ Nat.eq_dec sched j) x)
      | None => None
      end.

Theorem C10_holds : C10_statement.
Proof. exact runs_noninterfere. Qed.
Print Assumptions C10_holds.

(* the finite check on the list regenerated from the sources: every write
   that can reach the shared artefact, every write to a package level variable
   and every sync call on the artefact is classified in checks/C10_writes.json,
   and the file has no entry without a site *)
Definition write_classified (s : N * N) : bool := negb (N.eqb (snd s) 0).

Theorem C10_writes_classified :
  forallb write_classified shared_writes = true /\ stale_write_entries = 0%N.
Proof. split; vm_compute; reflexivity. Qed.

(* builds do not share state either: the list, regenerated from the sources, of
   the package level variables of internal/compiler, internal/compiler/types,
   the root package and native with the sites that write them, joined with the
   classification of checks/C19_globals.json.  No variable and no write site is
   state that one build leaves to the next (cross_build_vars is empty), every
   variable that can change is classified, the read-only ones have no write
   site, every write site is classified and the classification has no stale
   entry: a cache of native functions, of types or of compiled functions that
   lives in a package level variable makes this obligation fail. *)
Theorem C10_no_state_across_builds :
  cross_build_vars = [] /\
  forallb var_classified gen_package_vars = true /\
  forallb var_readonly_ok gen_package_vars = true /\
  forallb BuildState_proofs.write_classified gen_package_var_writes = true /\
  gen_stale_buildstate_entries = 0%N.
Proof.
  exact (conj no_cross_build_state (conj vars_classified_ok (conj readonly_vars_have_no_write
           (conj writes_classified_ok no_stale_buildstate_entry)))).
Qed.
Print Assumptions C10_no_state_across_builds.

(* instance: n frame machines (C12) stepping the same action tree *)
Definition frames_gstep (a : unit) (c : unit) (s : state) : unit * unit * (state + (outcome * list event)) :=
  (a, c, match step s with Next s' => inl s' | Fin o tr => inr (o, rev tr) end).

Theorem C10_frames_instance :
  forall sched (w : world unit unit state (outcome * list event)) j,
    nth_error (w_runs _ _ _ _ (exec _ _ _ _ frames_gstep w (rev sched))) j =
    match nth_error (w_runs _ _ _ _ w) j with
    | Some x => Some (solo _ _ _ _ frames_gstep tt tt (count_occ Nat.eq_dec sched j) x)
    | None => None
    end.
Proof.
  intros sched w j. destruct w as [[] c rs].
  exact (runs_noninterfere unit unit state (outcome * list event) frames_gstep
           (fun a c l => eq_refl) (fun a c c' l => eq_refl) sched (mkworld _ _ _ _ tt c rs) j tt).
Qed.
Print Assumptions C10_frames_instance.

(* non-vacuity: two runs of the same tree, interleaved step by step, both end like a solo run *)
Example C10_example :
  let f := mkfunc [IDeferNat (NBody 1); INat (NBody 2)] [] in
  let w := mkworld unit unit state (outcome * list event) tt tt [inl (init f); inl (init f)] in
  w_runs _ _ _ _ (exec _ _ _ _ frames_gstep w [0; 1; 1; 0; 0; 1; 0; 1; 0; 1; 0; 1])
  = [inr (ONil, [EBody 2%N; EBody 1%N]); inr (ONil, [EBody 2%N; EBody 1%N])].
Proof. vm_compute. reflexivity. Qed.
