(* C13 -- a failing output writer aborts rendering with the writer error.
   Only statements, `exact`, and Print Assumptions live here. *)
From Verif Require Import Bytes Facts_render RendererM TCalcM TCalc_proofs.
From Verif Require Import WriteProgM WriteProg_proofs Facts_writes WriteFacts_proofs.
Open Scope N_scope.

(* Full statement over the runtime calculus (every tree of functions with
   Text, Show, macro calls with the renderer switch, calls taken as values,
   any show function, any converter): if no function of the template recovers
   and the writer fails for the first time at its k-th call with e, where k is
   at most the number of Write calls of the successful rendering, then exactly
   k Write calls happen, what the writer accepted is the first k-1 chunks of
   the successful rendering, and Run returns e -- it does not panic.  The
   model is run with the generated fact gen_conv_error_is_fatal (how OpReturn
   raises the error of the Markdown converter). *)
Definition C13_statement : Prop :=
  forall (showf : N -> N -> bytes -> shown) (conv : option (bytes -> list bytes))
         (main : tfunc) (w : writer) (k : N) (e : werr),
  norec_func main = true -> first_fail w k e -> 0 < k ->
  let x := run_main showf conv gen_conv_error_is_fatal w main in
  let xok := run_main showf conv gen_conv_error_is_fatal never main in
  k <= w_calls (fst xok) ->
  w_calls (fst x) = k /\
  w_out (fst x) = firstn (N.to_nat (k - 1)) (w_out (fst xok)) /\
  snd x = RunErr e.

Theorem C13_holds : C13_statement.
Proof.
  intros showf conv main w k e NR FF Hk x xok Hle.
  destruct (write_fail_stops_gen showf conv gen_conv_error_is_fatal main w k e NR FF Hk) as [[H _]|[_ [H1 [H2 [H3|[H3 _]]]]]].
  - fold xok in H. lia.
  - auto.
  - discriminate H3.
Qed.
Print Assumptions C13_holds.

(* the general form: also when the failing call is not reached (the two runs
   coincide), and for either way of raising the converter error *)
Theorem write_fail_stops :
  forall (showf : N -> N -> bytes -> shown) (conv : option (bytes -> list bytes)) (cf : bool)
         (main : tfunc) (w : writer) (k : N) (e : werr),
  norec_func main = true -> first_fail w k e -> 0 < k ->
  let x := run_main showf conv cf w main in
  let xok := run_main showf conv cf never main in
  (w_calls (fst xok) < k /\ x = xok) \/
  (k <= w_calls (fst xok) /\ w_calls (fst x) = k /\
   w_out (fst x) = firstn (N.to_nat (k - 1)) (w_out (fst xok)) /\
   (snd x = RunErr e \/ (cf = true /\ snd x = RunHostPanic (Some e)))).
Proof. exact write_fail_stops_gen. Qed.
Print Assumptions write_fail_stops.

(* the host does not panic is refuted for the code that raises the
   converter error as a fatalError (the tree before the repair): an HTML file
   rendering a Markdown file, the writer failing during the conversion *)
Theorem host_does_not_panic_refuted :
  exists main w k e conv showf,
    norec_func main = true /\ first_fail w k e /\
    snd (run_main showf conv true w main) = RunHostPanic (Some e) /\
    snd (run_main showf conv false w main) = RunErr e.
Proof.
  eexists _, _, 1, 7, _, _. exact conv_fatal_refutes.
Qed.

(* ---------------------------------------------------------------- the Write calls of one show *)

(* C13_holds takes a show function as the list of its Write calls (sv_chunks)
   run with early exit.  The show functions that issue several calls have
   their own error handling: escapeBytes with the encoder of encoding/base64
   (blocks of 768 bytes, the rest, the last bytes at Close, the error kept by
   the encoder; used by []byte values in JS, JSON, CSS and CSS strings),
   showInJS / showInJSON of strings, times, arrays, slices, structs and maps
   (the err variable carried through the if err == nil chains and tested at
   the head of each iteration), showInCSS of a string, and the escapers of
   strings.  WriteProgM models them as they are written, as functions of the
   writer; here: each is equal to the early-exit run of its calls, for every
   value, every context they are modelled in, every writer and every writer
   state -- which is what C13_holds assumes of a show function. *)
Definition C13_show_writes_statement : Prop :=
  forall (ctx : N) (v : sval) (p : wprog),
    show_prog ctx v = Some p ->
    exists view, show_view ctx v = Some view /\
      forall (w : writer) (ws : wst), p w ws = run_shown view w ws.

Theorem show_writes_are_scripts : C13_show_writes_statement.
Proof.
  intros ctx v p Hp. destruct (show_prog_view_defined ctx v p Hp) as [view Hv].
  exists view. split; [exact Hv|]. exact (show_prog_view ctx v p view Hp Hv).
Qed.
Print Assumptions show_writes_are_scripts.

(* hence, for every value, context and k: a writer failing for the first time
   at its k-th call (k at most the number of calls of the successful run) gets
   exactly k calls, has accepted the first k - 1 chunks, and the show function
   returns the error of the writer *)
Theorem show_write_fail_stops_holds :
  forall (ctx : N) (v : sval) (p : wprog) (view : list bytes * option werr) (w : writer) (k : N) (e : werr),
    show_prog ctx v = Some p -> show_view ctx v = Some view ->
    first_fail w k e -> 0 < k -> k <= nlen (fst view) ->
    let x := p w w0 in
    w_calls (fst x) = k /\ w_out (fst x) = firstn (N.to_nat (k - 1)) (fst view) /\ snd x = RErr e.
Proof. exact show_write_fail_stops. Qed.
Print Assumptions show_write_fail_stops_holds.

(* and no call is made after the failing one, wherever it is *)
Theorem show_no_write_after_failure_holds :
  forall (view : list bytes * option werr) (w : writer) (k : N) (e : werr),
    first_fail w k e -> 0 < k -> w_calls (fst (run_shown view w w0)) <= k.
Proof. exact run_shown_no_write_after_failure. Qed.

(* the parts: escapeBytes and the composite values of showInJS / showInJSON *)
Theorem escapeBytes_writes_holds : forall q b w ws,
  escapeBytes q b w ws = write_all (escapeBytes_chunks q b) w ws.
Proof. exact escapeBytes_view. Qed.
Theorem show_js_writes_holds : forall v w ws, show_js v w ws = run_shown (js_chunks v) w ws.
Proof. exact show_js_view. Qed.

(* T1: escapeBytes as gofacts executes it (the statements of escapers.go run
   by the partial evaluator with a simulated writer failing at its k-th call,
   every k of every configuration: quotes or not, the encoder writing at Close
   or not): no call after the failing one, the error of the failing call is
   returned; the hand model makes the same calls and returns the same on each
   of these runs *)
Theorem escapeBytes_runs_obligation :
  forallb run_row_ok gen_escapeBytes_runs = true /\
  forallb model_row_ok gen_escapeBytes_runs = true.
Proof. split; [exact fact_escapeBytes_runs|exact fact_escapeBytes_model_agrees]. Qed.

(* non vacuity: a byte slice of 1540 bytes in JavaScript is six calls (quote,
   two blocks of 1024, the rest, the last byte, quote); [1,a<] with the writer
   failing at its fourth call *)
Example C13_show_writes_examples :
  map (fun c => nlen c) (escapeBytes_chunks true (repeat 65 1540)) = [1; 1024; 1024; 4; 4; 1] /\
  show_prog gen_ContextJS (SvJ (JSeq [JText [49]; JStr [97; 60]])) = Some (show_js (JSeq [JText [49]; JStr [97; 60]])) /\
  show_js (JSeq [JText [49]; JStr [97; 60]]) (fun j => if j =? 4 then Some 7 else None) w0
  = (mkW 4 [[91]; [49]; [44]], RErr 7).
Proof.
  split; [exact (proj1 escapeBytes_chunk_example)|]. split; [reflexivity|exact (proj2 show_js_example)].
Qed.

(* T1 obligations *)
Theorem conv_error_is_returned : gen_conv_error_is_fatal = false.
Proof. exact conv_error_not_fatal. Qed.
Theorem callmacro_switch_holds :
  forallb (fun t => match t with (b, fmt, kind) => kind =? switch_kind b fmt end) gen_callmacro_switch = true
  /\ gen_callindirect_switch_same = true /\ gen_noconv_is_fatal = true.
Proof. exact callmacro_switch_agrees. Qed.

(* hypotheses are satisfiable, and the recover clause of the property: with a
   recovering macro the error does not reach Run *)
Example C13_example :
  let main := TFunc gen_FormatHTML false [TText [97] false false; TText [98] false false] in
  let w := fun j => if j =? 2 then Some 7 else None in
  norec_func main = true /\ first_fail w 2 7 /\
  run_main (fun _ _ _ => mkShown [] None None) None gen_conv_error_is_fatal w main = (mkW 2 [[97]], RunErr 7).
Proof.
  cbv zeta. split; [reflexivity|]. split; [|vm_compute; reflexivity].
  split; [reflexivity|]. intros j Hj. destruct (N.eqb_spec j 2); [lia|reflexivity].
Qed.
Example C13_recover_example :
  let main := TFunc gen_FormatHTML false
                [TCall (TFunc gen_FormatHTML true [TText [97] false false; TText [98] false false]) gen_FormatHTML;
                 TText [99] false false] in
  let w := fun j => if j =? 1 then Some 7 else None in
  run_main (fun _ _ _ => mkShown [] None None) None false w main = (mkW 2 [[99]], RunNil).
Proof. exact recover_example. Qed.
