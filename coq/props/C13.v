(* C13 -- a failing output writer aborts rendering with the writer error.
   Only statements, `exact`, and Print Assumptions live here. *)
From Verif Require Import Bytes Facts_render RendererM TCalcM TCalc_proofs.
Open Scope N_scope.

(* Full statement over the runtime calculus (every tree of functions with
   Text, Show, macro calls with the renderer switch, calls taken as values,
   any show function, any converter): if no function of the template recovers
   and the writer fails for the first time at its k-th call with e, where k is
   at most the number of Write calls of the successful rendering, then exactly
   k Write calls happen, what the writer accepted is the first k-1 chunks of
   the successful rendering, and Run returns e -- it does not panic.  The
   model is run with the generated fact gen_conv_error_is_fatal (how OpReturn
   raises the error of the Markdown converter). *)
Definition C13_statement : Prop :=
  forall (showf : N -> N -> bytes -> shown) (conv : option (bytes -> list bytes))
         (main : tfunc) (w : writer) (k : N) (e : werr),
  norec_func main = true -> first_fail w k e -> 0 < k ->
  let x := run_main showf conv gen_conv_error_is_fatal w main in
  let xok := run_main showf conv gen_conv_error_is_fatal never main in
  k <= w_calls (fst xok) ->
  w_calls (fst x) = k /\
  w_out (fst x) = firstn (N.to_nat (k - 1)) (w_out (fst xok)) /\
  snd x = RunErr e.

Theorem C13_holds : C13_statement.
Proof.
  intros showf conv main w k e NR FF Hk x xok Hle.
  destruct (write_fail_stops_gen showf conv gen_conv_error_is_fatal main w k e NR FF Hk) as [[H _]|[_ [H1 [H2 [H3|[H3 _]]]]]].
  - fold xok in H. lia.
  - auto.
  - discriminate H3.
Qed.
Print Assumptions C13_holds.

(* the general form: also when the failing call is not reached (the two runs
   coincide), and for either way of raising the converter error *)
Theorem write_fail_stops :
  forall (showf : N -> N -> bytes -> shown) (conv : option (bytes -> list bytes)) (cf : bool)
         (main : tfunc) (w : writer) (k : N) (e : werr),
  norec_func main = true -> first_fail w k e -> 0 < k ->
  let x := run_main showf conv cf w main in
  let xok := run_main showf conv cf never main in
  (w_calls (fst xok) < k /\ x = xok) \/
  (k <= w_calls (fst xok) /\ w_calls (fst x) = k /\
   w_out (fst x) = firstn (N.to_nat (k - 1)) (w_out (fst xok)) /\
   (snd x = RunErr e \/ (cf = true /\ snd x = RunHostPanic (Some e)))).
Proof. exact write_fail_stops_gen. Qed.
Print Assumptions write_fail_stops.

(* the host does not panic is refuted for the code that raises the
   converter error as a fatalError (the tree before the repair): an HTML file
   rendering a Markdown file, the writer failing during the conversion *)
Theorem host_does_not_panic_refuted :
  exists main w k e conv showf,
    norec_func main = true /\ first_fail w k e /\
    snd (run_main showf conv true w main) = RunHostPanic (Some e) /\
    snd (run_main showf conv false w main) = RunErr e.
Proof.
  eexists _, _, 1, 7, _, _. exact conv_fatal_refutes.
Qed.

(* T1 obligations *)
Theorem conv_error_is_returned : gen_conv_error_is_fatal = false.
Proof. exact conv_error_not_fatal. Qed.
Theorem callmacro_switch_holds :
  forallb (fun t => match t with (b, fmt, kind) => kind =? switch_kind b fmt end) gen_callmacro_switch = true
  /\ gen_callindirect_switch_same = true /\ gen_noconv_is_fatal = true.
Proof. exact callmacro_switch_agrees. Qed.

(* hypotheses are satisfiable, and the recover clause of the property: with a
   recovering macro the error does not reach Run *)
Example C13_example :
  let main := TFunc gen_FormatHTML false [TText [97] false false; TText [98] false false] in
  let w := fun j => if j =? 2 then Some 7 else None in
  norec_func main = true /\ first_fail w 2 7 /\
  run_main (fun _ _ _ => mkShown [] None None) None gen_conv_error_is_fatal w main = (mkW 2 [[97]], RunErr 7).
Proof.
  cbv zeta. split; [reflexivity|]. split; [|vm_compute; reflexivity].
  split; [reflexivity|]. intros j Hj. destruct (N.eqb_spec j 2); [lia|reflexivity].
Qed.
Example C13_recover_example :
  let main := TFunc gen_FormatHTML false
                [TCall (TFunc gen_FormatHTML true [TText [97] false false; TText [98] false false]) gen_FormatHTML;
                 TText [99] false false] in
  let w := fun j => if j =? 1 then Some 7 else None in
  run_main (fun _ _ _ => mkShown [] None None) None false w main = (mkW 2 [[99]], RunNil).
Proof. exact recover_example. Qed.
