(* C07 - escaped values decode back to the exact original text.
   Only statements, `exact`, and Print Assumptions live here. *)
From Verif Require Import Bytes Utf8 Facts_escapers Facts_esc EscapersM HtmlDecode Decoders
  Escapers_proofs Roundtrip_proofs.
From Verif Require Import UrlRefM UrlRef_proofs UrlAttr_proofs.
From Verif Require RendererM.
Open Scope N_scope.

(* Full statement, slot form: for every string s (any list of numbers, in
   particular any byte string, valid UTF-8 or not, of any length) and every
   text `rest` that follows the slot, decoding the escaper's output followed by
   `rest` with the reference decoder of the context gives s followed by the
   decoding of `rest` (no hypothesis on `rest` is needed in any context).
   The contexts: HTML text; attribute value, quoted and unquoted, for values
   that are not of an HTML type (escapeEntities = true); JavaScript string;
   JSON string; CSS string; URL query value (with and without + as space).
   The model of jsStringEscape does not fault.  The one exclusion: CSS has no
   way to write U+0000 (the escape \0 means U+FFFD), hence ~ In 0 s. *)
Definition C07_statement : Prop :=
  (forall s rest, html_decode (flat (htmlEscape s) ++ rest) = s ++ html_decode rest) /\
  (forall quoted s rest, html_decode (flat (attributeEscape true quoted s) ++ rest) = s ++ html_decode rest) /\
  (forall s rest, exists cs, jsStringEscape s = Some cs /\ js_decode (flat cs ++ rest) = s ++ js_decode rest) /\
  (forall s rest, exists cs, jsonStringEscape s = Some cs /\ json_decode (flat cs ++ rest) = s ++ json_decode rest) /\
  (forall s rest, ~ In 0 s -> css_decode (flat (cssStringEscape s) ++ rest) = s ++ css_decode rest) /\
  (forall s rest, query_decode (flat (queryEscape s) ++ rest) = s ++ query_decode rest) /\
  (forall s rest, pct_decode (flat (queryEscape s) ++ rest) = s ++ pct_decode rest).

Theorem C07_holds : C07_statement.
Proof. exact roundtrip_all. Qed.
Print Assumptions C07_holds.

(* corollary: decode (escape s) = s *)
Theorem C07_roundtrip :
  (forall s, html_decode (flat (htmlEscape s)) = s) /\
  (forall quoted s, html_decode (flat (attributeEscape true quoted s)) = s) /\
  (forall s, exists cs, jsStringEscape s = Some cs /\ js_decode (flat cs) = s) /\
  (forall s, exists cs, jsonStringEscape s = Some cs /\ json_decode (flat cs) = s) /\
  (forall s, ~ In 0 s -> css_decode (flat (cssStringEscape s)) = s) /\
  (forall s, query_decode (flat (queryEscape s)) = s) /\
  (forall s, pct_decode (flat (queryEscape s)) = s).
Proof. exact roundtrip_closed. Qed.
Print Assumptions C07_roundtrip.

(* the obligation of the CSS theorem on the generated predicate prefixWithSpace:
   every hex digit and every CSS whitespace byte is announced by a space *)
Theorem C07_prefixWithSpace_obligation :
  forall d, is_hex d || is_css_ws d = true -> mem gen_prefixWithSpace d = true.
Proof. exact prefixWithSpace_obligation. Qed.
Print Assumptions C07_prefixWithSpace_obligation.

(* the exclusion of NUL is necessary *)
Theorem C07_css_nul_not_representable : css_decode (flat (cssStringEscape [0])) <> [0].
Proof. exact css_nul_refuted. Qed.

(* the list of write calls concatenates to the per-byte (per-rune for JS) view used above *)
Theorem C07_chunks_views :
  (forall s, flat (htmlEscape s) = flat_map (esc_or_self gen_htmlEscape_tbl) s) /\
  (forall s, flat (htmlNoEntitiesEscape s) = flat_map (esc_or_self gen_htmlNoEntitiesEscape_tbl) s) /\
  (forall e q s, flat (attributeEscape e q s) = flat_map (esc_or_self (attr_tbl e q)) s) /\
  (forall s, flat (cssStringEscape s) = css_view s) /\
  (forall s, exists cs, jsStringEscape s = Some cs /\ flat cs = js_view s) /\
  (forall s, flat (queryEscape s) = flat_map (esc_or_self gen_queryEscape_tbl) s) /\
  (forall q s, flat (pathEscape q s) = path_view q s).
Proof. exact chunks_views. Qed.
Print Assumptions C07_chunks_views.

(* the table of jsStringEscape used by the model (evaluated on sampled runes) has
   exactly the keys found by evaluating the loop body on every rune 0..0x10FFFF *)
Theorem C07_js_table_complete : map fst gen_jsStringEscape_tbl = gen_jsStringEscape_runes.
Proof. exact js_tbl_complete. Qed.

(* non-vacuity: the string of the property text (less-than, c), followed by text
   starting with a hex digit; and a string with U+2028, an invalid byte and a quote *)
Example C07_css_example :
  ~ In 0 [60; 99] /\
  flat (cssStringEscape [60; 99]) = [92; 51; 99; 32; 99] /\
  css_decode (flat (cssStringEscape [60; 99]) ++ [97]) = [60; 99; 97].
Proof. split; [intros [H|[H|[]]]; discriminate|]. split; vm_compute; reflexivity. Qed.

Example C07_js_example :
  jsStringEscape [226; 128; 168; 255; 34] = Some [[92; 117; 50; 48; 50; 56]; [255]; [92; 34]] /\
  js_decode [92; 117; 50; 48; 50; 56; 255; 92; 34] = [226; 128; 168; 255; 34].
Proof. split; vm_compute; reflexivity. Qed.

(* ---------------------------------------------------------------- URL attributes: several texts and shown strings in one attribute *)

(* One URL attribute of a template is a sequence of literal texts and shown
   strings (UrlRefM.item).  attr_out q items is the attribute value that the
   renderer writes for them: it is what RendererM.r_run, the model of
   renderer.Text / renderer.Show with the URL state (inURL, query,
   addAmpersand, removeQuestionMark), writes for the operations of the
   attribute with a writer that never fails, and no operation fails. *)
Theorem C07_url_model_tie : forall (q : bool) (items : list item) (st : RendererM.rstate) (ws : RendererM.wst),
  forallb item_ok items = true ->
  RendererM.r_run TCalcM.never st ws (attr_ops q items)
  = (fst (run_items q st items), add_chunks ws (snd (run_items q st items)), repeat RendererM.ROk (length items)).
Proof. exact r_run_items. Qed.

(* Full statement: for every attribute and every string shown in it after the
   question mark of the URL (the decoded text before it contains a question
   mark and no number sign; no character reference and no percent escape is
   left open by the text before it), the reference decoder of URL attributes
   (HTML decoding, split at the first number sign and question mark, split of
   the query at the ampersands and of each pair at its first equals sign,
   percent decoding of each component) gives a URL in which the string occurs
   verbatim inside one key or one value, everything else being independent of
   the string. *)
Definition C07_url_statement : Prop :=
  forall (q : bool) (before after : list item),
    let pre := attr_out q before in
    html_closed pre ->
    (forall path qs, split_first c_qm (snd (hrun HData pre)) = (path, Some qs) ->
       ~ In c_hash (snd (hrun HData pre)) -> pct_closed (slot_prefix qs)) ->
    In c_qm (snd (hrun HData pre)) -> ~ In c_hash (snd (hrun HData pre)) ->
    exists path bq aq frag (plug : bytes -> pair),
      plugs plug /\
      forall s, url_ref_decode (attr_out q (before ++ UShow s :: after))
                = mkUrl path (Some (bq ++ [plug s] ++ aq)) frag.

(* Proved for the strings that the renderer puts in a query position: some
   template text lies at or after the first question mark or number sign of
   the attribute (UrlRefM.query_position). *)
Theorem C07_url_partial :
  forall (q : bool) (before after : list item),
    query_position before = true ->
    let pre := attr_out q before in
    html_closed pre ->
    (forall path qs, split_first c_qm (snd (hrun HData pre)) = (path, Some qs) ->
       ~ In c_hash (snd (hrun HData pre)) -> pct_closed (slot_prefix qs)) ->
    In c_qm (snd (hrun HData pre)) -> ~ In c_hash (snd (hrun HData pre)) ->
    exists path bq aq frag (plug : bytes -> pair),
      plugs plug /\
      forall s, url_ref_decode (attr_out q (before ++ UShow s :: after))
                = mkUrl path (Some (bq ++ [plug s] ++ aq)) frag.
Proof. exact url_attribute_roundtrip. Qed.
Print Assumptions C07_url_partial.

(* The full statement is false of the faithful model (the unchanged code): a
   string shown right after a shown string that brought the question mark
   ({{ a }}{{ b }} with a = /s?q=) is written with pathEscape; with b = a and
   b = a&b=c the decoded queries have one and two pairs. *)
Theorem C07_url_statement_refuted : ~ C07_url_statement.
Proof.
  intros H.
  destruct (H true [UShow [47; 115; 63; 113; 61]] []) as [path [bq [aq [frag [plug [_ Hd]]]]]].
  - reflexivity.
  - intros path qs E _. vm_compute in E. injection E as _ <-. reflexivity.
  - vm_compute. tauto.
  - apply mem_false_not_in. vm_compute. reflexivity.
  - pose proof (Hd [97]) as H1. pose proof (Hd [97; 38; 98; 61; 99]) as H2.
    vm_compute in H1. vm_compute in H2.
    injection H1 as _ E1 _. injection H2 as _ E2 _.
    apply (f_equal (@length pair)) in E1. apply (f_equal (@length pair)) in E2.
    rewrite !app_length in E1, E2. cbn [length] in E1, E2. lia.
Qed.

(* which escaper a shown string gets: queryEscape exactly in the query positions *)
Theorem C07_url_escaper_choice : forall (q : bool) (before : list item) (s : bytes),
  let st := fst (run_items q RendererM.r0 before) in
  snd (RendererM.r_show_url (RendererM.url_switch st true) s q)
  = (if query_position before then RendererM.queryEscape s else RendererM.pathEscape q s)
  /\ (query_position before = true ->
      fst (RendererM.r_show_url (RendererM.url_switch st true) s q) = RendererM.url_switch st true).
Proof. exact show_escaper_choice. Qed.

(* in the fragment of the URL the string is given back as well *)
Theorem C07_url_fragment : forall pre post,
  html_closed pre ->
  forall pq f, split_first c_hash (snd (hrun HData pre)) = (pq, Some f) ->
  fst (prun false PData f) = PData ->
  exists u, forall s,
    u_frag (url_ref_decode (pre ++ flat (queryEscape s) ++ post))
    = Some (pct_decode f ++ s ++ pct_decode (html_decode post)) /\
    u_path (url_ref_decode (pre ++ flat (queryEscape s) ++ post)) = u_path u /\
    u_query (url_ref_decode (pre ++ flat (queryEscape s) ++ post)) = u_query u.
Proof. exact url_fragment_slot. Qed.

(* T1 obligations on the generated tables: queryEscape writes no ampersand,
   equals sign, number sign or question mark; the table of Facts_render (used
   by the renderer model) and the one of Facts_esc (used by the escaper model)
   agree on every byte *)
Theorem C07_query_output_obligation : forallb query_block_check all_bytes = true.
Proof. exact fact_query_sep_free. Qed.
Theorem C07_query_tables_obligation :
  forall c, assoc_get Facts_render.gen_queryEscape c = assoc_get gen_queryEscape_tbl c.
Proof. exact query_tables_agree. Qed.

(* further witnesses of what does not hold, evaluated on the model *)
Theorem C07_url_path_position_refuted :
  query_position [UText [47; 112; 47]] = false /\
  u_path (url_ref_decode (attr_out true [UText [47; 112; 47]; UShow [37; 52; 49]])) = [47; 112; 47; 65].
Proof. exact path_position_refuted. Qed.
(* srcset = a.png, /img?w={{ s }} with s = 1&h=2: the value is query escaped (repaired by c46d17c) *)
Example C07_url_srcset_comma_example :
  let ops := [RendererM.OText [97; 46; 112; 110; 103; 44; 32; 47; 105; 109; 103; 63; 119; 61] true true;
              RendererM.OShow 199 (RendererM.mkShown [] None (Some [49; 38; 104; 61; 50]))] in
  concat (RendererM.w_out (snd (fst (RendererM.r_run TCalcM.never RendererM.r0 RendererM.w0 ops))))
  = [97; 46; 112; 110; 103; 44; 32; 47; 105; 109; 103; 63; 119; 61] ++ [49; 37; 50; 54; 104; 37; 51; 100; 50].
Proof. exact srcset_comma_example. Qed.

(* the hypotheses are satisfiable: href = {{ base }}&amp;q={{ s }}#f with base = /s?l=en and s = a&b +%41 *)
Example C07_url_example :
  let before := [UShow [47; 115; 63; 108; 61; 101; 110]; UText [38; 97; 109; 112; 59; 113; 61]] in
  let after := [UText [35; 102]] in
  query_position before = true /\
  html_closed (attr_out true before) /\
  In c_qm (snd (hrun HData (attr_out true before))) /\ ~ In c_hash (snd (hrun HData (attr_out true before))) /\
  pct_closed (slot_prefix [108; 61; 101; 110; 38; 113; 61]) /\
  url_ref_decode (attr_out true (before ++ UShow [97; 38; 98; 32; 43; 37; 52; 49] :: after))
  = mkUrl [47; 115] (Some [([108], Some [101; 110]); ([113], Some [97; 38; 98; 32; 43; 37; 52; 49])]) (Some [102]).
Proof. exact url_attribute_example. Qed.

(* ---------------------------------------------------------------- work package esc2: the machine of C06 (UrlStepM), srcset included *)
From Verif Require Import UrlStepM UrlStep_proofs.

(* the attribute value on which the theorems above are stated is the one the
   pure machine UrlStepM.url_run of C06 writes (both are the renderer model
   with a writer that never fails) *)
Theorem C07_url_machine_agrees : forall (q : bool) (items : list item),
  forallb item_ok items = true ->
  url_attr_out (mkA q false) (map uop_of_item items) = attr_out q items.
Proof. exact url_attr_out_agrees. Qed.
Print Assumptions C07_url_machine_agrees.

(* EXACTLY when a shown value is written with queryEscape, for every attribute
   kind (quoted or not, srcset or not), every sequence of texts and values
   (strings and values of HTML types) before it: in the query positions
   UrlStepM.query_pos - in the current URL (the one after the last text with a
   comma in a srcset) some template text lies at or after the first question
   mark or number sign of a text or question mark of a value - and with
   pathEscape everywhere else; in a query position the state is unchanged. *)
Theorem C07_url_set_escaper_choice : forall (k : akind) (before : list uop) (s : bytes) (tr : bool),
  forallb uop_ok before = true ->
  let st := fst (url_run k u0 before) in
  snd (url_step k st (UVal s tr))
  = UOut (if query_pos (a_set k) before then Renderer_proofs.qe_flat (shown_text s tr)
          else Renderer_proofs.pe_flat (a_quoted k) (shown_text s tr))
  /\ (query_pos (a_set k) before = true -> fst (url_step k st (UVal s tr)) = st).
Proof. exact url_escaper_choice. Qed.
Print Assumptions C07_url_set_escaper_choice.

(* so outside the query positions the slot property fails whenever the value
   lies after a question mark: the value a&b=c is written a&amp;b=c (two pairs) *)
Theorem C07_url_nonquery_position_not_a_slot : forall (k : akind) (before : list uop),
  forallb uop_ok before = true -> query_pos (a_set k) before = false ->
  snd (url_step k (fst (url_run k u0 before)) (UVal [97; 38; 98; 61; 99] false))
  = UOut [97; 38; 97; 109; 112; 59; 98; 61; 99].
Proof.
  intros k before Hok Hq. destruct (url_escaper_choice k before [97; 38; 98; 61; 99] false Hok) as [H _].
  cbv zeta in H. rewrite Hq, shown_text_untrusted in H. rewrite H. destruct (a_quoted k); vm_compute; reflexivity.
Qed.
