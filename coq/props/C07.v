(* C07 - escaped values decode back to the exact original text.
   Only statements, `exact`, and Print Assumptions live here. *)
From Verif Require Import Bytes Utf8 Facts_escapers Facts_esc EscapersM HtmlDecode Decoders
  Escapers_proofs Roundtrip_proofs.
Open Scope N_scope.

(* Full statement, slot form: for every string s (any list of numbers, in
   particular any byte string, valid UTF-8 or not, of any length) and every
   text `rest` that follows the slot, decoding the escaper's output followed by
   `rest` with the reference decoder of the context gives s followed by the
   decoding of `rest` (no hypothesis on `rest` is needed in any context).
   The contexts: HTML text; attribute value, quoted and unquoted, for values
   that are not of an HTML type (escapeEntities = true); JavaScript string;
   JSON string; CSS string; URL query value (with and without + as space).
   The model of jsStringEscape does not fault.  The one exclusion: CSS has no
   way to write U+0000 (the escape \0 means U+FFFD), hence ~ In 0 s. *)
Definition C07_statement : Prop :=
  (forall s rest, html_decode (flat (htmlEscape s) ++ rest) = s ++ html_decode rest) /\
  (forall quoted s rest, html_decode (flat (attributeEscape true quoted s) ++ rest) = s ++ html_decode rest) /\
  (forall s rest, exists cs, jsStringEscape s = Some cs /\ js_decode (flat cs ++ rest) = s ++ js_decode rest) /\
  (forall s rest, exists cs, jsonStringEscape s = Some cs /\ json_decode (flat cs ++ rest) = s ++ json_decode rest) /\
  (forall s rest, ~ In 0 s -> css_decode (flat (cssStringEscape s) ++ rest) = s ++ css_decode rest) /\
  (forall s rest, query_decode (flat (queryEscape s) ++ rest) = s ++ query_decode rest) /\
  (forall s rest, pct_decode (flat (queryEscape s) ++ rest) = s ++ pct_decode rest).

Theorem C07_holds : C07_statement.
Proof. exact roundtrip_all. Qed.
Print Assumptions C07_holds.

(* corollary: decode (escape s) = s *)
Theorem C07_roundtrip :
  (forall s, html_decode (flat (htmlEscape s)) = s) /\
  (forall quoted s, html_decode (flat (attributeEscape true quoted s)) = s) /\
  (forall s, exists cs, jsStringEscape s = Some cs /\ js_decode (flat cs) = s) /\
  (forall s, exists cs, jsonStringEscape s = Some cs /\ json_decode (flat cs) = s) /\
  (forall s, ~ In 0 s -> css_decode (flat (cssStringEscape s)) = s) /\
  (forall s, query_decode (flat (queryEscape s)) = s) /\
  (forall s, pct_decode (flat (queryEscape s)) = s).
Proof. exact roundtrip_closed. Qed.
Print Assumptions C07_roundtrip.

(* the obligation of the CSS theorem on the generated predicate prefixWithSpace:
   every hex digit and every CSS whitespace byte is announced by a space *)
Theorem C07_prefixWithSpace_obligation :
  forall d, is_hex d || is_css_ws d = true -> mem gen_prefixWithSpace d = true.
Proof. exact prefixWithSpace_obligation. Qed.
Print Assumptions C07_prefixWithSpace_obligation.

(* the exclusion of NUL is necessary *)
Theorem C07_css_nul_not_representable : css_decode (flat (cssStringEscape [0])) <> [0].
Proof. exact css_nul_refuted. Qed.

(* the list of write calls concatenates to the per-byte (per-rune for JS) view used above *)
Theorem C07_chunks_views :
  (forall s, flat (htmlEscape s) = flat_map (esc_or_self gen_htmlEscape_tbl) s) /\
  (forall s, flat (htmlNoEntitiesEscape s) = flat_map (esc_or_self gen_htmlNoEntitiesEscape_tbl) s) /\
  (forall e q s, flat (attributeEscape e q s) = flat_map (esc_or_self (attr_tbl e q)) s) /\
  (forall s, flat (cssStringEscape s) = css_view s) /\
  (forall s, exists cs, jsStringEscape s = Some cs /\ flat cs = js_view s) /\
  (forall s, flat (queryEscape s) = flat_map (esc_or_self gen_queryEscape_tbl) s) /\
  (forall q s, flat (pathEscape q s) = path_view q s).
Proof. exact chunks_views. Qed.
Print Assumptions C07_chunks_views.

(* the table of jsStringEscape used by the model (evaluated on sampled runes) has
   exactly the keys found by evaluating the loop body on every rune 0..0x10FFFF *)
Theorem C07_js_table_complete : map fst gen_jsStringEscape_tbl = gen_jsStringEscape_runes.
Proof. exact js_tbl_complete. Qed.

(* non-vacuity: the string of the property text (less-than, c), followed by text
   starting with a hex digit; and a string with U+2028, an invalid byte and a quote *)
Example C07_css_example :
  ~ In 0 [60; 99] /\
  flat (cssStringEscape [60; 99]) = [92; 51; 99; 32; 99] /\
  css_decode (flat (cssStringEscape [60; 99]) ++ [97]) = [60; 99; 97].
Proof. split; [intros [H|[H|[]]]; discriminate|]. split; vm_compute; reflexivity. Qed.

Example C07_js_example :
  jsStringEscape [226; 128; 168; 255; 34] = Some [[92; 117; 50; 48; 50; 56]; [255]; [92; 34]] /\
  js_decode [92; 117; 50; 48; 50; 56; 255; 92; 34] = [226; 128; 168; 255; 34].
Proof. split; vm_compute; reflexivity. Qed.
