(* C03, typed progress: statements only.

   THE FULL STATEMENT (stated here, NOT proved): for every program accepted by
   the type checker tc, every fuel and every initial state, the evaluation of
   main never gets stuck (it ends with a value, a run-time panic, or runs out
   of fuel).  The evaluator MiniGoEvalM.eval covers the expression core only
   (no statements, no calls, no composite types), so the full statement cannot
   even be written over it; it is written below over an ARBITRARY evaluator of
   the whole expression language, given as a parameter, and is NOT PROVED for
   any evaluator.  With the core evaluator eval itself as the parameter it is
   false, because eval answers RStuck on every form outside the core.

   WHAT IS PROVED: the partial statement C03_typed_progress_expr_partial for
   the core of MiniGoProgress_proofs.core: literals except float literals,
   variables and named constants, every unary and binary operator (shifts
   included), conversions to basic types and to defined types over them, in
   environments that satisfy store_ok (a value of the right class for every
   variable and named constant, no named constant of untyped float kind, no
   function entity visible). *)
From Verif Require Import MiniGoM MiniGoSpec MiniGo_proofs MiniGoEvalM MiniGoProgress_proofs.

(* NOT PROVED.  The full statement over all expression forms, for an evaluator
   eval_full of the whole expression language and its store typing. *)
Definition C03_typed_progress_expr_full_statement
    (eval_full : nat -> store -> env -> expr -> result)
    (store_ok_full : store -> env -> Prop) : Prop :=
  forall fuel G E st e te,
    store_ok_full st E -> tc_expr G E e = Some te ->
    eval_full fuel st E e <> RStuck.

(* PROVED.  The partial statement over the core. *)
Definition C03_typed_progress_expr_partial_statement : Prop :=
  forall fuel G E st e te,
    core e = true -> store_ok st E -> tc_expr G E e = Some te ->
    eval fuel st E e <> RStuck.

Theorem C03_typed_progress_expr_partial : C03_typed_progress_expr_partial_statement.
Proof. exact typed_progress_expr_partial. Qed.

Print Assumptions C03_typed_progress_expr_partial.

(* PROVED.  The invariant behind it: a value has the class of the static type. *)
Definition C03_typed_preservation_expr_partial_statement : Prop :=
  forall fuel G E st e vt c v,
    core e = true -> store_ok st E -> tc_expr G E e = Some (EVal vt c) ->
    eval fuel st E e = RVal v -> val_has_class v (vty_class vt).

Theorem C03_typed_preservation_expr_partial : C03_typed_preservation_expr_partial_statement.
Proof. exact typed_preservation_expr_partial. Qed.

Print Assumptions C03_typed_preservation_expr_partial.

(* the hypotheses are satisfiable: ((x + 3) * 2 < 10) && !b with x int = 1 and
   b bool = false *)
Definition E0 : env := [[(1%N, EntVar (TBasic BInt)); (2%N, EntVar (TBasic BBool))]].
Definition st0 : store := [(1%N, VInt 1); (2%N, VBool false)].
Definition e0 : expr :=
  EBin OLAnd
    (EBin OLt (EBin OMul (EBin OAdd (EVar 1%N) (ELitI 3)) (ELitI 2)) (ELitI 10))
    (EUn UNot (EVar 2%N)).

Example C03_progress_example_core : core e0 = true.
Proof. vm_compute. reflexivity. Qed.

Example C03_progress_example_tc : tc_expr [] E0 e0 = Some (EVal (VT (TBasic BBool)) None).
Proof. vm_compute. reflexivity. Qed.

Example C03_progress_example_store : store_ok st0 E0.
Proof.
  intros x ent H. unfold E0, lookup, scope_get in H.
  destruct (N.eqb 1 x) eqn:Q1.
  - apply N.eqb_eq in Q1. subst x. inversion H. subst ent.
    exists (VInt 1). split; reflexivity.
  - destruct (N.eqb 2 x) eqn:Q2; cbv beta iota in H; try discriminate H.
    apply N.eqb_eq in Q2. subst x. inversion H. subst ent.
    exists (VBool false). split; reflexivity.
Qed.

Example C03_progress_example : eval 10%nat st0 E0 e0 <> RStuck.
Proof.
  exact (C03_typed_progress_expr_partial 10%nat [] E0 st0 e0 _
           C03_progress_example_core C03_progress_example_store C03_progress_example_tc).
Qed.

Example C03_progress_example_value : eval 10%nat st0 E0 e0 = RVal (VBool true).
Proof. vm_compute. reflexivity. Qed.

(* a run-time panic is not stuck: x / (x - 1) with x = 1 *)
Example C03_progress_example_panic :
  eval 10%nat st0 E0 (EBin ODiv (EVar 1%N) (EBin OSub (EVar 1%N) (ELitI 1))) = RPanic.
Proof. vm_compute. reflexivity. Qed.
