(* C22 — native package and importer lookups follow their documented contracts.
   Only statements, `exact`, and Print Assumptions live here.

   Vocabulary (model/LookupM.v, proofs/Lookup_proofs.v):
   - a tree p : ipkg is a native.Package (IPkg name declarations) or a
     native.CombinedPackage (IComb members), nested at will; the list of a
     Package IS the order in which this call ranges over the map, and every
     statement below holds for every list, hence for every order;
   - wf p: the declarations of every Package have distinct names (it is a map);
   - has p n / declares p n d: p has a declaration named n / the declaration of
     n in p is d, for a CombinedPackage the one of its FIRST member that has n;
   - a callback f : callback decides its result (nil, StopLookup, an error e)
     from the call index, the name and the declaration; lookupfunc p log (cb_of f) l0
     runs LookupFunc with the recording closure of f on the log l0 and returns
     the new log and the returned error;
   - lf_contract order f i0 calls r: calls is the prefix of order up to and
     including the first element on which f does not answer nil (all of order
     if there is none) and r is nil for exhaustion or StopLookup, e for an error e. *)
From Verif Require Import Bytes LookupM Lookup_proofs.
From Coq Require Import Permutation.
Open Scope N_scope.

Definition C22_statement : Prop :=
  (* (1) Package.LookupFunc: every iteration order, every callback, any earlier log *)
  (forall (pn : name) (order : log) (f : callback) (l0 : log),
     exists calls r,
       lookupfunc (IPkg pn order) log (cb_of f) l0 = (l0 ++ calls, r) /\
       lf_contract order f (length l0) calls r /\ r <> CStop)
  /\
  (* (2) every tree of Packages and CombinedPackages: the calls follow an enumeration
     `order` of the declarations in which every name occurs once, with the
     declaration of the first member that has it *)
  (forall (p : ipkg) (f : callback) (l0 : log),
     wf p ->
     exists order calls r,
       lookupfunc p log (cb_of f) l0 = (l0 ++ calls, r) /\
       lf_contract order f (length l0) calls r /\ r <> CStop /\
       NoDup (map fst order) /\
       (forall n d, In (n, d) order <-> declares p n d))
  /\
  (* (3) CombinedPackage over ANY members that obey the ImportablePackage.LookupFunc
     contract (each member enumerates m_order m, stops at the first error and returns it,
     nil for StopLookup, whatever stateful callback it is given) obeys that contract
     itself, enumerating the first occurrences in member order *)
  (forall (member : Type)
          (m_lookupfunc : member -> forall S : Type, scallback S -> S -> S * cbres)
          (m_order : member -> log) (ms : list member),
     Forall (m_obeys member m_lookupfunc m_order) ms ->
     forall (S : Type) (f : scallback S) (s : S),
       combined_lookupfunc member m_lookupfunc ms f s =
       package_lookupfunc (dedupe [] (concat (map m_order ms))) f s)
  /\
  (* (4) Lookup: the first member whose Lookup is not nil; nil if there is none *)
  (forall (ms : list ipkg) (n : name),
     (forall pre m post, ms = pre ++ m :: post ->
        (forall m', In m' pre -> lookup m' n = dnil) -> lookup m n <> dnil ->
        lookup (IComb ms) n = lookup m n) /\
     ((forall m, In m ms -> lookup m n = dnil) -> lookup (IComb ms) n = dnil))
  /\
  (* (5) with non-nil declarations Lookup returns exactly the declaration that
     LookupFunc reports for the name: that of the first package that has it *)
  (forall (p : ipkg), wf p -> nonnil p ->
     forall n, (forall d, declares p n d -> lookup p n = d /\ d <> dnil) /\
               (~ has p n -> lookup p n = dnil))
  /\
  (* (6) has/declares/wf do not depend on the order of the Package maps *)
  (forall p q, tree_perm p q ->
     (wf p -> wf q) /\ (forall n, has p n <-> has q n) /\
     (forall n d, declares p n d <-> declares q n d))
  /\
  (* (7) CombinedImporter.Import: the result of the first importer that does not answer
     (nil, nil); the importers after it are not called; (nil, nil) when there is none *)
  (forall (ims : list imp) (path : bytes),
     (forall pre i post, ims = pre ++ i :: post ->
        (forall j, In j pre -> fst (import j path) = (None, None)) ->
        fst (import i path) <> (None, None) ->
        import (ImpComb ims) path =
        (fst (import i path), concat (map (fun j => snd (import j path)) (pre ++ [i])))) /\
     ((forall j, In j ims -> fst (import j path) = (None, None)) ->
        import (ImpComb ims) path =
        ((None, None), concat (map (fun j => snd (import j path)) ims))))
  /\
  (* (8) Packages.Import: the map entry, never an error *)
  (forall pp path, NoDup (map fst pp) ->
     (forall v, In (path, v) pp -> packages_import pp path = (v, None)) /\
     (~ In path (map fst pp) -> packages_import pp path = (None, None))).

Theorem C22_holds : C22_statement.
Proof.
  split; [|split; [|split; [|split; [|split; [|split; [|split]]]]]].
  - intros pn order f l0.
    destruct (package_lookupfunc_contract order f l0) as (calls & r & E & C).
    exists calls, r. split; [exact E|]. split; [exact C|]. exact (lf_contract_not_stop _ _ _ _ _ C).
  - intros p f l0 W.
    destruct (lookupfunc_contract p f l0 W) as (order & calls & r & E & C & ND & D).
    exists order, calls, r. split; [exact E|]. split; [exact C|].
    split; [exact (lf_contract_not_stop _ _ _ _ _ C)|]. split; [exact ND|exact D].
  - exact combined_lookupfunc_obeys.
  - exact combined_lookup_first.
  - exact lookup_declares.
  - intros p q T. exact (tree_perm_spec p q T).
  - intros ims path. exact (combined_import_first imp import ims path).
  - exact packages_import_spec.
Qed.
Print Assumptions C22_holds.

(* consequence spelled out: f is called at most once per name, and when f never
   fails, exactly once for every name of the combination, in some order *)
Theorem C22_once_per_name :
  forall (p : ipkg) (f : callback), wf p ->
    exists calls r,
      lookupfunc p log (cb_of f) [] = (calls, r) /\
      NoDup (map fst calls) /\
      (forall n d, In (n, d) calls -> declares p n d) /\
      ((forall i n d, f i n d = CNil) -> r = CNil /\ forall n d, declares p n d -> In (n, d) calls).
Proof. exact lookupfunc_once_per_name. Qed.
Print Assumptions C22_once_per_name.

(* the contract of (1) pins the result down: an error e at call k is returned as e *)
Theorem C22_error_is_returned :
  forall (pn : name) (pre post : log) (n : name) (d : decl) (e : N),
    let f : callback := fun i _ _ => if Nat.eqb i (length pre) then CErr e else CNil in
    lookupfunc (IPkg pn (pre ++ (n, d) :: post)) log (cb_of f) [] = (pre ++ [(n, d)], CErr e).
Proof. exact package_error_returned. Qed.
Print Assumptions C22_error_is_returned.

(* non-vacuity: a well formed nested combination in which b occurs twice and an
   error at the second call; a is called first, then b with the declaration of
   the first package, the error 7 is returned and c is never called *)
Example C22_example :
  let p := IComb [IPkg [112] [([97], 1); ([98], 2)]; IComb [IPkg [113] [([98], 3); ([99], 4)]]] in
  wf p /\ nonnil p /\
  lookupfunc p log (cb_of (cb_sched [CNil; CErr 7])) [] = ([([97], 1); ([98], 2)], CErr 7) /\
  lookupfunc p log (cb_of (cb_sched [])) [] = ([([97], 1); ([98], 2); ([99], 4)], CNil) /\
  lookupfunc p log (cb_of (cb_sched [CNil; CNil; CStop])) [] = ([([97], 1); ([98], 2); ([99], 4)], CNil) /\
  lookup p [98] = 2 /\ lookup p [99] = 4 /\ lookup p [100] = dnil /\
  declares p [98] 2 /\ ~ declares p [98] 3.
Proof.
  cbv zeta. split; [|split].
  - cbn. repeat split; repeat constructor; cbn; intuition discriminate.
  - cbn. repeat split; intros n d H; cbn in H; intuition (try discriminate);
      match goal with E : (_, _) = (_, _) |- _ => injection E as _ <-; discriminate end.
  - repeat split; try (vm_compute; reflexivity).
    + cbn. left. right. left. reflexivity.
    + cbn. intros [[H|[H|[]]]|[H _]]; try discriminate. apply H. right. left. reflexivity.
Qed.

(* the hypotheses of (3) are satisfiable: Packages are such members *)
Example C22_members_exist :
  Forall (m_obeys ipkg lookupfunc order_of) [IPkg [112] [([97], 1)]; IComb [IPkg [113] [([97], 2)]]].
Proof. repeat constructor; intros S f s; apply lookupfunc_obeys. Qed.

(* importer example: the first importer answers (nil, nil), the second an error, the third is not called *)
Example C22_import_example :
  import (ImpComb [ImpPackages [([120], Some 5)]; ImpFixed 1 None None (Some 9); ImpFixed 2 None (Some 6) None]) [121]
  = ((None, Some 9), [1]) /\
  import (ImpComb [ImpPackages [([120], Some 5)]; ImpFixed 1 None None (Some 9)]) [120] = ((Some 5, None), []).
Proof. split; vm_compute; reflexivity. Qed.
