(* C30 - building is deterministic.  A Gallina compile function is
   deterministic by construction; what can make two builds of the same sources
   differ is the iteration order of Go maps.  Statement: every
   `for ... range <map>` site of the compiler, the runtime, the root package
   and package native (list regenerated from the sources) is classified, and
   the pattern it is classified into gives the same result for every
   permutation of a binding list with distinct keys.
   Only statements, `exact`, and Print Assumptions live here. *)
From Coq Require Import List NArith ZArith Bool String Permutation.
From Verif Require Import Perm Facts_maprange MapRange_proofs.
Import ListNotations.

Definition pattern_order_independent (p : pattern) : Prop :=
  match p with
  | PointUpdate =>
      forall (K V : Type) (eqb : K -> K -> bool), (forall a b, reflect (a = b) (eqb a b)) ->
      forall (l l' : list (K * V)) m, NoDup (map fst l) -> Permutation l l' ->
      forall k, fold_left (upd eqb) l m k = fold_left (upd eqb) l' m k /\
                fold_left (upd_absent eqb) l m k = fold_left (upd_absent eqb) l' m k
  | MaxMin =>
      forall (B : Type) (l l' : list B), Permutation l l' ->
      (forall (f : B -> Z) a, fold_left (fun m x => Z.max m (f x)) l a = fold_left (fun m x => Z.max m (f x)) l' a) /\
      (forall (f : B -> Z) a, fold_left (fun m x => Z.min m (f x)) l a = fold_left (fun m x => Z.min m (f x)) l' a) /\
      (forall (p : B -> bool) a, fold_left (fun b x => b || p x) l a = fold_left (fun b x => b || p x) l' a) /\
      (forall (p : B -> bool) a, fold_left (fun b x => b && p x) l a = fold_left (fun b x => b && p x) l' a) /\
      (forall (pos : B -> Z), NoDup (map pos l) ->
         fold_left (pick_min pos) l None = fold_left (pick_min pos) l' None)
  | SetInsert =>
      forall (B : Type) (eqb : B -> B -> bool) (l l' : list B) s, Permutation l l' ->
      forall k, fold_left (fun s x => fun y => eqb x y || s y) l s k = fold_left (fun s x => fun y => eqb x y || s y) l' s k
  | Count =>
      forall (B : Type) (p : B -> bool) (l l' : list B) a, Permutation l l' ->
      fold_left (fun n x => if p x then S n else n) l a = fold_left (fun n x => if p x then S n else n) l' a
  | CollectSort =>
      forall (B : Type) (leb : B -> B -> bool),
      (forall a b, leb a b = true \/ leb b a = true) ->
      (forall a b c, leb a b = true -> leb b c = true -> leb a c = true) ->
      (forall a b, leb a b = true -> leb b a = true -> a = b) ->
      forall (A : Type) (f : A -> B) (l l' : list A), Permutation l l' -> isort leb (map f l) = isort leb (map f l')
  | NoReach | AnyWitnessError => True     (* reviewed reason in checks/C30_sites.json, not proved *)
  end.

Definition C30_statement : Prop :=
  forall s, In s gen_map_range_sites ->
  exists n p, In (s, n) gen_map_range_classified /\ pattern_of n = Some p /\ pattern_order_independent p.

Lemma all_patterns p : pattern_order_independent p.
Proof.
  destruct p; cbn [pattern_order_independent]; auto.
  - intros K V eqb Hs l l' m Hnd HP k. split.
    + apply point_updates_order_independent; assumption.
    + apply insert_if_absent_order_independent; assumption.
  - intros B l l' HP. split; [|split; [|split; [|split]]].
    + intros; apply max_order_independent, HP.
    + intros; apply min_order_independent, HP.
    + intros; apply exists_order_independent, HP.
    + intros; apply forall_order_independent, HP.
    + intros pos Hnd. apply argmin_order_independent; [exact HP|exact Hnd|discriminate].
  - intros. apply set_insert_order_independent. assumption.
  - intros. apply count_order_independent. assumption.
  - intros B leb H1 H2 H3 A f l l' HP. apply collect_map_sort_order_independent; assumption.
Qed.

(* partial: that a site really is an instance of its pattern is a reviewed
   classification (checks/C30_sites.json), not a theorem *)
Theorem C30_sites_partial : C30_statement.
Proof.
  intros s Hs. destruct (every_site_has_a_pattern s Hs) as (n & p & Hin & Hp).
  exists n, p. split; [exact Hin|]. split; [exact Hp|apply all_patterns].
Qed.
Print Assumptions C30_sites_partial.

Theorem C30_no_stale_classification : forall c, In c gen_map_range_classified -> In (fst c) gen_map_range_sites.
Proof. exact every_classified_site_exists. Qed.
Print Assumptions C30_no_stale_classification.

Theorem C30_sort_strings : forall l l' : list (list N), Permutation l l' -> isort lex_leb l = isort lex_leb l'.
Proof. exact sort_strings_order_independent. Qed.
Print Assumptions C30_sort_strings.

(* non-vacuity: a NoDup-key binding list and a different permutation of it *)
Example C30_example :
  let l := [(3%N, 30%N); (1%N, 10%N); (2%N, 20%N)] in
  let l' := [(2%N, 20%N); (3%N, 30%N); (1%N, 10%N)] in
  NoDup (map fst l) /\ Permutation l l' /\ l <> l' /\
  isort N.leb (map fst l) = isort N.leb (map fst l') /\
  fold_left (pick_min (fun kv => Z.of_N (fst kv))) l None = fold_left (pick_min (fun kv => Z.of_N (fst kv))) l' None.
Proof.
  cbv zeta. split; [repeat constructor; cbn; intuition discriminate|].
  split; [|split; [discriminate|split; reflexivity]].
  apply (Permutation_cons_app [(2%N, 20%N)] [(1%N, 10%N)]). apply perm_swap.
Qed.
