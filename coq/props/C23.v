(* C23 — the in-memory Files type is a well-behaved io/fs file system.
   Only statements, `exact`, and Print Assumptions live here.

   Vocabulary (model/FilesFSM.v, proofs/FsContract.v):
   - fs : files is the map (an association list in any order); valid_files fs is
     the boolean validity predicate: distinct keys, every key satisfies
     fs.ValidPath and is not ".", no key is a directory prefix of another;
   - run_history fs [] ops executes the operations ops (Open name, and Stat,
     Read k, ReadDir n, Close on an opened file given by its index) on the model
     of files.go and returns the observed results;
   - hist_ok fs [] ops outs (FsContract.v) is the io/fs contract over whole
     histories: Open yields a file for a key, a directory for "." and for every
     proper directory prefix of a key, and a not-exist error otherwise (in
     particular for every invalid name); Stat reports the final path element,
     the content length, mode 0 for files and ModeDir for directories; every
     Read returns the next min(k, remaining) bytes after those already returned,
     with EOF exactly when nothing remains, and fails after Close; every
     ReadDir(n) returns the next entries of THE listing of the directory after
     those already returned: min(n, remaining) of them for n > 0, or (nothing,
     EOF) when nothing remains; all remaining ones and never an error for n <= 0;
     the listing (listing_ok) is sorted by name, has every child exactly once,
     IsDir/Type/Info agree, IsDir holds iff something lies below the child, and
     Info equals the Stat of the child opened by its path. *)
From Verif Require Import Bytes FilesFSM Paths_proofs FsContract FilesFS_proofs FilesFS_corollaries.
From Coq Require Import Sorted.
Open Scope N_scope.

Definition C23_statement : Prop :=
  forall fs : files, valid_files fs = true ->
  forall ops : list op, hist_ok fs [] ops (run_history fs [] ops).

Theorem C23_holds : C23_statement.
Proof. exact files_fs_contract. Qed.
Print Assumptions C23_holds.

(* the validity predicate says what it should *)
Theorem C23_valid_meaning : forall fs,
  valid_files fs = true <->
  (NoDup (map fst fs) /\
   (forall key, In key (map fst fs) -> valid_path key = true /\ key <> [dot]) /\
   (forall k1 k2 t, In k1 (map fst fs) -> In k2 (map fst fs) -> k2 <> k1 ++ slash :: t)).
Proof.
  intros fs. split.
  - intros H. destruct (valid_files_facts fs H) as [H1 H2 H3]. tauto.
  - intros (H1 & H2 & H3). apply vfacts_valid_files. constructor; assumption.
Qed.
Print Assumptions C23_valid_meaning.

(* the directory listing: ReadDir(n <= 0) on a newly opened directory returns all of it, and it satisfies listing_ok *)
Theorem C23_listing : forall fs dn n, valid_files fs = true -> (n <= 0)%Z ->
  exists L h1, readdir fs (new_dir dn) n = (L, RNil, h1) /\ listing_ok fs dn L.
Proof.
  intros fs dn n V Hn. exists (listing fs dn), (set_n (new_dir dn) (length (listing fs dn))).
  split; [exact (readdir_all fs dn n Hn)|exact (listing_spec fs dn (valid_files_facts fs V))].
Qed.
Print Assumptions C23_listing.

(* listing_ok determines the listing: the contract leaves no freedom to ReadDir *)
Theorem C23_listing_unique : forall fs dn L L', listing_ok fs dn L -> listing_ok fs dn L' -> L = L'.
Proof. exact listing_unique. Qed.
Print Assumptions C23_listing_unique.

(* paging, for every sequence of ReadDir arguments on any handle *)
Theorem C23_paging : forall fs ns h,
  let L := listing fs (h_name h) in
  let rs := run_readdirs fs h ns in
  concat (map fst rs) = firstn (length (concat (map fst rs))) (skipn (h_n h) L) /\
  length rs = length ns /\
  (forall i n l e, nth_error ns i = Some n -> nth_error rs i = Some (l, e) ->
     let cur := (h_n h + length (concat (map fst (firstn i rs))))%nat in
     let remaining := (length L - cur)%nat in
     l = firstn (length l) (skipn cur L) /\
     length l = (if (0 <? n)%Z then Nat.min (Z.to_nat n) remaining else remaining) /\
     (e = REOF <-> (0 < n)%Z /\ remaining = 0%nat)).
Proof. exact readdir_paging. Qed.
Print Assumptions C23_paging.

(* successive Reads return the content piece by piece, then EOF *)
Theorem C23_reads : forall fs name data ks,
  valid_files fs = true -> is_file fs name data ->
  exists h, files_open fs name = Some h /\
    let rs := run_reads h ks in
    concat (map fst rs) = firstn (sum ks) data /\
    (forall i k d e, nth_error ks i = Some k -> nth_error rs i = Some (d, e) ->
       let before := length (concat (map fst (firstn i rs))) in
       d = firstn k (skipn before data) /\ (e = EEOF <-> before = length data) /\ (e = ENil \/ e = EEOF)).
Proof. intros fs name data ks V. exact (reads_concat fs name data ks (valid_files_facts fs V)). Qed.
Print Assumptions C23_reads.

(* non-vacuity: a valid map with nested directories, an empty file and a non-ASCII name;
   the history opens the root, pages through it, reads a file in pieces, and closes it *)
Definition ex_fs : files :=
  [([97; 47; 98], [1; 2; 3; 4; 5]); ([97; 47; 99; 47; 100], []); ([195; 169], [9]); ([122], [7; 8])].

Example C23_example :
  valid_files ex_fs = true /\
  run_history ex_fs []
    [OpOpen [dot]; OpReadDir 0 1; OpReadDir 0 (-1); OpReadDir 0 (-1); OpReadDir 0 2;
     OpOpen [97; 47; 98]; OpRead 1 2; OpRead 1 0; OpRead 1 7; OpRead 1 7; OpClose 1; OpRead 1 1;
     OpOpen [97; 47]; OpOpen [97; 47; 99]; OpStat 2]
  = [OutOpened true;
     OutReadDir [mkDirent [97] true mode_dir (mkInfo [97] 0 mode_dir true)] RNil;
     OutReadDir [mkDirent [122] false 0 (mkInfo [122] 2 0 false);
                 mkDirent [195; 169] false 0 (mkInfo [195; 169] 1 0 false)] RNil;
     OutReadDir [] RNil;
     OutReadDir [] REOF;
     OutOpened false; OutRead [1; 2] ENil; OutRead [] ENil; OutRead [3; 4; 5] ENil; OutRead [] EEOF;
     OutClosed; OutRead [] EInvalid;
     OutNotExist; OutOpened true; OutStat (mkInfo [99] 0 mode_dir true)].
Proof. split; vm_compute; reflexivity. Qed.

(* the hypotheses of C23_reads are satisfiable *)
Example C23_example_file : valid_files ex_fs = true /\ is_file ex_fs [97; 47; 98] [1; 2; 3; 4; 5].
Proof. split; [vm_compute; reflexivity|left; reflexivity]. Qed.
