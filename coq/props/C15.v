(* C15 - template text is emitted verbatim except for the documented
   removals.  Model: token stream of the lexer model -> the parser's cut
   bookkeeping (CutM.cut_texts) -> emitted text.  Spec side: CutSpec. *)
From Verif Require Import Bytes Facts_lexer Facts_unicode LexBase LexCodeM LexerM LexTables LexPos CutM CutSpec
  LexBase_proofs LexTile_proofs LexCode_proofs Lexer_proofs LexTop_proofs Cut_proofs.
Open Scope N_scope.

(* Full statement.  cut_only_contentfree: every byte of text that is not
   emitted is a space, a tab, a carriage return or a new line of a line that
   holds no content (no other text, no show of a value); raw_verbatim: the
   text of a raw block is not cut; text_partition: texts, comments, the
   shebang line and the delimited blocks tile the source. *)
Definition cut_only_contentfree : Prop :=
  forall (format : N) (src : bytes) toks,
    scan_template go_unicode false format src = Done toks None ->
    removed_ok src toks (cut_texts src toks) = true.
Definition raw_verbatim : Prop :=
  forall (format : N) (src : bytes) toks,
    scan_template go_unicode false format src = Done toks None ->
    raw_uncut (length toks) toks (cut_texts src toks) = true.
Definition text_partition : Prop :=
  forall (U : unitab) (noParseShow : bool) (format : N) (src : bytes) toks,
    scan_template U noParseShow format src = Done toks None ->
    tiles 0 false toks = Some (nlen src).
Definition C15_statement : Prop := cut_only_contentfree /\ raw_verbatim /\ text_partition.

(* proved for every token list and every source: a cut never exceeds its text
   and the bytes it removes are spaces, tabs, carriage returns and new lines *)
Theorem C15_cut_only_blank_partial :
  forall (src : bytes) (toks : list token), Forall (rec_ok src) (cut_texts src toks).
Proof. exact cut_texts_ok. Qed.
Print Assumptions C15_cut_only_blank_partial.

(* proved for the lexer, for every byte string, format and Unicode table:
   text_partition - on a successful scan the texts, the comments, the shebang
   line and the blocks from an opening delimiter to its closing delimiter tile
   the source from its first to its last byte (nothing lost, nothing
   duplicated) *)
Theorem C15_text_partition_partial : text_partition.
Proof. exact text_partition_holds. Qed.
Print Assumptions C15_text_partition_partial.

(* and in every case (also when the lexer stops on an error) the tokens are
   sent in source order and do not overlap *)
Theorem C15_tokens_disjoint_partial :
  forall (U : unitab) (noParseShow : bool) (format : N) (src : bytes) toks err,
    scan_template U noParseShow format src = Done toks err -> toks_sorted 0 toks.
Proof. exact tokens_in_order. Qed.
Print Assumptions C15_tokens_disjoint_partial.

(* the statement is false of the faithful model.
   "  {% if true %}a{# x\ny #}{% end %}": the two spaces in front of the
   statement are removed although the line holds the text "a" (the comment
   that spans two lines closes the line, cutSpaces only looks at the first
   and at the last text of the line) *)
Definition witness_contentfree : bytes :=
  [32;32;123;37;32;105;102;32;116;114;117;101;32;37;125;97;123;35;32;120;10;121;32;35;125;123;37;32;101;110;100;32;37;125].
Theorem C15_cut_only_contentfree_refuted : cut_contentfree_case 0 witness_contentfree = Some false.
Proof. vm_compute. reflexivity. Qed.
Lemma contentfree_case_refutes format src : cut_contentfree_case format src = Some false -> ~ cut_only_contentfree.
Proof.
  unfold cut_contentfree_case. intros W H.
  destruct (scan_template go_unicode false format src) as [toks [l|]| |] eqn:E; try discriminate.
  rewrite (H format src toks E) in W. discriminate.
Qed.
Theorem C15_cut_only_contentfree_is_false : ~ cut_only_contentfree.
Proof. exact (contentfree_case_refutes 0 witness_contentfree C15_cut_only_contentfree_refuted). Qed.
Print Assumptions C15_cut_only_contentfree_is_false.

(* a statement that spans two lines is attributed to its first line: the blank
   after it on its last line is cut although that line holds a show *)
Theorem C15_refuted_multiline_statement :
  cut_contentfree_case 0 [32;32;123;37;32;105;102;10;32;116;114;117;101;32;37;125;32;123;37;32;101;110;100;32;37;125;123;123;32;34;115;34;32;125;125] = Some false.
Proof. vm_compute. reflexivity. Qed.

(* "{% raw %}\na\n{% end raw %}": the new line after the raw statement belongs
   to the raw text and is cut like the end of any line holding a statement *)
Definition witness_raw : bytes :=
  [123;37;32;114;97;119;32;37;125;10;97;10;123;37;32;101;110;100;32;114;97;119;32;37;125].
Theorem C15_raw_verbatim_refuted :
  match scan_template go_unicode false 0 witness_raw with
  | Done toks None => raw_uncut (length toks) toks (cut_texts witness_raw toks) = false
  | _ => False
  end.
Proof. vm_compute. reflexivity. Qed.

(* non-vacuity: a template with a statement alone on its line; the line is
   removed, the rest is kept: "a\n  {% if true %}\nb\n{% end %}\n" *)
Example C15_example :
  match scan_template go_unicode false 0
          [97;10;32;32;123;37;32;105;102;32;116;114;117;101;32;37;125;10;98;10;123;37;32;101;110;100;32;37;125;10] with
  | Done toks None =>
    map (emitted [97;10;32;32;123;37;32;105;102;32;116;114;117;101;32;37;125;10;98;10;123;37;32;101;110;100;32;37;125;10])
        (cut_texts [97;10;32;32;123;37;32;105;102;32;116;114;117;101;32;37;125;10;98;10;123;37;32;101;110;100;32;37;125;10] toks)
    = [[97;10]; [98;10]; []]
  | _ => False
  end.
Proof. vm_compute. reflexivity. Qed.
