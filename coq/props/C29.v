(* C29 — Rewriting Markdown link destinations changes only link destinations.
   Only statements, `exact`, and Print Assumptions live here. *)
From Verif Require Import Bytes IndexM Facts_linkdest LinkDestM LinkDestSpec LinkDestSpec_proofs LinkDest_proofs.
Open Scope N_scope.

(* Full statement.  It speaks about CommonMark (which spans of a document are
   link destinations, what is code and raw HTML) and about net/url; both are
   Section variables and the statement is NOT proved here (checks/C29.json,
   stated_not_proved; the sweep evaluates it with goldmark on the real code). *)
Section FullStatement.
  Variable replace : bytes -> bytes.                          (* linkDestinationReplacer.replace for a base and a directory *)
  Variable destinations : bytes -> list (N * N).              (* CommonMark: the [start, stop) spans that are destinations of inline links and reference definitions outside code and raw HTML *)
  Variable absolute_of : bytes -> bytes.                      (* the absolute form of a destination against the base *)
  Variable splice : bytes -> list (N * N * bytes) -> bytes.   (* the document with the spans replaced *)

  Definition C29_statement : Prop :=
    forall src,
      (exists rs, replace src = splice src rs
                  /\ Forall (fun r => In (fst r) (destinations src)
                                      /\ exists d, slice src (fst (fst r)) (snd (fst r)) = Some d
                                                   /\ url_unescape (snd r) = absolute_of (url_unescape d)) rs)
      /\ replace (replace src) = replace src.
End FullStatement.

(* Proved part 1 (apply_outside_unchanged): for ANY list of replacements whose
   elements satisfy what appendReplacement guarantees (0 <= start <= stop <=
   len(src)), in any order, with overlaps, the loop of applyReplacements does
   not fault; the output and the source consist of the same untouched
   segments, interleaved in the output with the texts and in the source with
   the ranges of the elements the loop keeps (an element is skipped when it
   starts before the end of the last kept one). *)
Definition C29_apply_statement : Prop :=
  forall src rs, Forall (valid src) rs ->
    exists first rest_out rest_src,
      apply_loop src 0 rs [] = Some (weave first rest_out)
      /\ src = weave first rest_src
      /\ map snd rest_out = map snd rest_src
      /\ map fst rest_out = map r_text (kept 0 rs)
      /\ map fst rest_src = map (range src) (kept 0 rs).

Theorem C29_apply_outside_unchanged_partial : C29_apply_statement.
Proof. exact apply_outside_unchanged. Qed.
Print Assumptions C29_apply_outside_unchanged_partial.

(* the whole function (with its sort) does not fault on valid elements; on a
   list sorted by start the sort changes nothing; without overlaps nothing is skipped *)
Theorem C29_apply_no_fault : forall src rs, Forall (valid src) rs -> applyReplacements src rs <> None.
Proof. exact applyReplacements_no_fault. Qed.
Print Assumptions C29_apply_no_fault.

Theorem C29_sorted_lists :
  (forall l lo, sorted_from lo l -> sort_by_start l = l) /\ (forall rs prev, chain prev rs -> kept prev rs = rs).
Proof. exact (conj sort_sorted kept_chain). Qed.

(* Proved part 2 (md_url_roundtrip): the models of markdownURLEscape and
   markdownUnescape do not fault and compute url_escape / url_unescape;
   unescaping an escaped string gives the string back when it holds no NBSP
   byte pair; with the pair it does not (refuted), and an unescaped
   destination never holds the pair. *)
Definition C29_roundtrip_statement : Prop :=
  (forall s, markdownURLEscape s = LOk (url_escape s))
  /\ (forall s, markdownUnescape s = LOk (url_unescape s))
  /\ (forall s, no_nbsp s = true -> url_unescape (url_escape s) = s)
  /\ (forall s, no_nbsp (url_unescape s) = true).

Theorem C29_md_url_roundtrip_partial : C29_roundtrip_statement.
Proof.
  exact (conj markdownURLEscape_spec (conj markdownUnescape_spec (conj url_roundtrip
          (fun s => url_unescape_no_nbsp (length s) s (le_n _))))).
Qed.
Print Assumptions C29_md_url_roundtrip_partial.

Theorem C29_md_url_roundtrip_nbsp_refuted : exists s, url_unescape (url_escape s) <> s.
Proof. exact url_roundtrip_nbsp_refuted. Qed.

(* Proved part 3 (idempotent_model): the replacement written for a destination
   is skipped by a second pass, because it has a scheme.  net/url and the base
   are Section variables; the three hypotheses say what is used of them. *)
Section Idempotent.
  Variable url : Type.
  Variable parse : bytes -> option url.
  Variable scheme host path : url -> bytes.
  Variable rewrite : url -> url.
  Variable to_string : url -> bytes.
  Hypothesis rewrite_has_scheme : forall u, scheme (rewrite u) <> [].
  Hypothesis parse_string_scheme : forall u, scheme u <> [] ->
    exists u', parse (to_string u) = Some u' /\ scheme u' = scheme u.
  Hypothesis string_no_nbsp : forall u, no_nbsp (to_string u) = true.

  Theorem C29_idempotent_model : forall raw r,
    appendReplacement_repl url parse scheme host path rewrite to_string raw = Some r ->
    appendReplacement_repl url parse scheme host path rewrite to_string r = None.
  Proof.
    intros raw r. rewrite !appendReplacement_repl_spec.
    exact (idempotent_model url parse scheme host path rewrite to_string
             rewrite_has_scheme parse_string_scheme string_no_nbsp raw r).
  Qed.
End Idempotent.
Print Assumptions C29_idempotent_model.

(* the obligations on the facts regenerated from mdescape.go and linkdestination.go *)
Theorem C29_generated_facts : fact_linkdest = true.
Proof. exact fact_linkdest_ok. Qed.

(* non-vacuity *)
Example C29_example_apply :   (* "abcdef", ranges [1,2)->"X", [1,3)->"skipped", [4,5)->"YY" *)
  applyReplacements [97; 98; 99; 100; 101; 102]
    [mkRepl 4 5 [89; 89]; mkRepl 1 2 [88]; mkRepl 1 3 [115]]
  = Some [97; 88; 99; 100; 89; 89; 102].
Proof. vm_compute. reflexivity. Qed.

Example C29_example_valid : Forall (valid [97; 98; 99]) [mkRepl 0 1 [120]; mkRepl 2 3 []].
Proof. repeat constructor; cbv; discriminate. Qed.

Example C29_example_escape :   (* `a\*b\` -> `a\\*b\\` -> back *)
  markdownURLEscape [97; 92; 42; 98; 92] = LOk [97; 92; 92; 42; 98; 92; 92]
  /\ markdownUnescape [97; 92; 92; 42; 98; 92; 92] = LOk [97; 92; 42; 98; 92].
Proof. split; vm_compute; reflexivity. Qed.

(* the hypotheses of C29_idempotent_model are satisfiable: a one-field URL model *)
Example C29_example_idempotent_hypotheses :
  exists (parse : bytes -> option bytes) (scheme rewrite to_string : bytes -> bytes),
    (forall u, scheme (rewrite u) <> []) /\
    (forall u, scheme u <> [] -> exists u', parse (to_string u) = Some u' /\ scheme u' = scheme u) /\
    (forall u, no_nbsp (to_string u) = true).
Proof.
  exists (fun _ => Some [104]), (fun _ => [104]), (fun u => u), (fun _ => [104]).
  repeat split; try discriminate. intros u _. exists [104]. split; reflexivity.
Qed.
