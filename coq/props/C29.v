(* C29 — Rewriting Markdown link destinations changes only link destinations.
   Only statements, `exact`, and Print Assumptions live here. *)
From Verif Require Import Bytes IndexM Facts_linkdest LinkDestM LinkDestSpec LinkDestSpec_proofs LinkDest_proofs.
From Verif Require Import Facts_linkscan LinkScanM LinkScan_base LinkScan_parse LinkScan_inline LinkScan_loops LinkScan_lines LinkScan_proofs LinkScan_idem LinkScan_indep LinkScan_facts.
Open Scope N_scope.

(* Full statement.  It speaks about CommonMark (which spans of a document are
   link destinations, what is code and raw HTML) and about net/url; both are
   Section variables and the statement is NOT proved here (checks/C29.json,
   stated_not_proved; the sweep evaluates it with goldmark on the real code). *)
Section FullStatement.
  Variable replace : bytes -> bytes.                          (* linkDestinationReplacer.replace for a base and a directory *)
  Variable destinations : bytes -> list (N * N).              (* CommonMark: the [start, stop) spans that are destinations of inline links and reference definitions outside code and raw HTML *)
  Variable absolute_of : bytes -> bytes.                      (* the absolute form of a destination against the base *)
  Variable splice : bytes -> list (N * N * bytes) -> bytes.   (* the document with the spans replaced *)

  Definition C29_statement : Prop :=
    forall src,
      (exists rs, replace src = splice src rs
                  /\ Forall (fun r => In (fst r) (destinations src)
                                      /\ exists d, slice src (fst (fst r)) (snd (fst r)) = Some d
                                                   /\ url_unescape (snd r) = absolute_of (url_unescape d)) rs)
      /\ replace (replace src) = replace src.
End FullStatement.

(* Proved part 1 (apply_outside_unchanged): for ANY list of replacements whose
   elements satisfy what appendReplacement guarantees (0 <= start <= stop <=
   len(src)), in any order, with overlaps, the loop of applyReplacements does
   not fault; the output and the source consist of the same untouched
   segments, interleaved in the output with the texts and in the source with
   the ranges of the elements the loop keeps (an element is skipped when it
   starts before the end of the last kept one). *)
Definition C29_apply_statement : Prop :=
  forall src rs, Forall (valid src) rs ->
    exists first rest_out rest_src,
      apply_loop src 0 rs [] = Some (weave first rest_out)
      /\ src = weave first rest_src
      /\ map snd rest_out = map snd rest_src
      /\ map fst rest_out = map r_text (kept 0 rs)
      /\ map fst rest_src = map (range src) (kept 0 rs).

Theorem C29_apply_outside_unchanged_partial : C29_apply_statement.
Proof. exact apply_outside_unchanged. Qed.
Print Assumptions C29_apply_outside_unchanged_partial.

(* the whole function (with its sort) does not fault on valid elements; on a
   list sorted by start the sort changes nothing; without overlaps nothing is skipped *)
Theorem C29_apply_no_fault : forall src rs, Forall (valid src) rs -> applyReplacements src rs <> None.
Proof. exact applyReplacements_no_fault. Qed.
Print Assumptions C29_apply_no_fault.

Theorem C29_sorted_lists :
  (forall l lo, sorted_from lo l -> sort_by_start l = l) /\ (forall rs prev, chain prev rs -> kept prev rs = rs).
Proof. exact (conj sort_sorted kept_chain). Qed.

(* Proved part 2 (md_url_roundtrip): the models of markdownURLEscape and
   markdownUnescape do not fault and compute url_escape / url_unescape;
   unescaping an escaped string gives the string back when it holds no NBSP
   byte pair; with the pair it does not (refuted), and an unescaped
   destination never holds the pair. *)
Definition C29_roundtrip_statement : Prop :=
  (forall s, markdownURLEscape s = LOk (url_escape s))
  /\ (forall s, markdownUnescape s = LOk (url_unescape s))
  /\ (forall s, no_nbsp s = true -> url_unescape (url_escape s) = s)
  /\ (forall s, no_nbsp (url_unescape s) = true).

Theorem C29_md_url_roundtrip_partial : C29_roundtrip_statement.
Proof.
  exact (conj markdownURLEscape_spec (conj markdownUnescape_spec (conj url_roundtrip
          (fun s => url_unescape_no_nbsp (length s) s (le_n _))))).
Qed.
Print Assumptions C29_md_url_roundtrip_partial.

Theorem C29_md_url_roundtrip_nbsp_refuted : exists s, url_unescape (url_escape s) <> s.
Proof. exact url_roundtrip_nbsp_refuted. Qed.

(* Proved part 3 (idempotent_model): the replacement written for a destination
   is skipped by a second pass, because it has a scheme.  net/url and the base
   are Section variables; the three hypotheses say what is used of them. *)
Section Idempotent.
  Variable url : Type.
  Variable parse : bytes -> option url.
  Variable scheme host path : url -> bytes.
  Variable rewrite : url -> url.
  Variable to_string : url -> bytes.
  Hypothesis rewrite_has_scheme : forall u, scheme (rewrite u) <> [].
  Hypothesis parse_string_scheme : forall u, scheme u <> [] ->
    exists u', parse (to_string u) = Some u' /\ scheme u' = scheme u.
  Hypothesis string_no_nbsp : forall u, no_nbsp (to_string u) = true.

  Theorem C29_idempotent_model : forall raw r,
    appendReplacement_repl url parse scheme host path rewrite to_string raw = Some r ->
    appendReplacement_repl url parse scheme host path rewrite to_string r = None.
  Proof.
    intros raw r. rewrite !appendReplacement_repl_spec.
    exact (idempotent_model url parse scheme host path rewrite to_string
             rewrite_has_scheme parse_string_scheme string_no_nbsp raw r).
  Qed.
End Idempotent.
Print Assumptions C29_idempotent_model.

(* the obligations on the facts regenerated from mdescape.go and linkdestination.go *)
Theorem C29_generated_facts : fact_linkdest = true.
Proof. exact fact_linkdest_ok. Qed.

(* non-vacuity *)
Example C29_example_apply :   (* "abcdef", ranges [1,2)->"X", [1,3)->"skipped", [4,5)->"YY" *)
  applyReplacements [97; 98; 99; 100; 101; 102]
    [mkRepl 4 5 [89; 89]; mkRepl 1 2 [88]; mkRepl 1 3 [115]]
  = Some [97; 88; 99; 100; 89; 89; 102].
Proof. vm_compute. reflexivity. Qed.

Example C29_example_valid : Forall (valid [97; 98; 99]) [mkRepl 0 1 [120]; mkRepl 2 3 []].
Proof. repeat constructor; cbv; discriminate. Qed.

Example C29_example_escape :   (* `a\*b\` -> `a\\*b\\` -> back *)
  markdownURLEscape [97; 92; 42; 98; 92] = LOk [97; 92; 92; 42; 98; 92; 92]
  /\ markdownUnescape [97; 92; 92; 42; 98; 92; 92] = LOk [97; 92; 42; 98; 92].
Proof. split; vm_compute; reflexivity. Qed.

(* the hypotheses of C29_idempotent_model are satisfiable: a one-field URL model *)
Example C29_example_idempotent_hypotheses :
  exists (parse : bytes -> option bytes) (scheme rewrite to_string : bytes -> bytes),
    (forall u, scheme (rewrite u) <> []) /\
    (forall u, scheme u <> [] -> exists u', parse (to_string u) = Some u' /\ scheme u' = scheme u) /\
    (forall u, no_nbsp (to_string u) = true).
Proof.
  exists (fun _ => Some [104]), (fun _ => [104]), (fun u => u), (fun _ => [104]).
  repeat split; try discriminate. intros u _. exists [104]. split; reflexivity.
Qed.

(* ====================================================================== *)
(* The scanner (collectReplacements, scanInlineLinks, the block state      *)
(* machine) and the whole pipeline replace = applyReplacements after       *)
(* collectReplacements, model coq/model/LinkScanM.v.  `decide` is the      *)
(* rewriting of one destination (markdownUnescape, net/url, the base,      *)
(* markdownURLEscape): every theorem holds for every such function, every  *)
(* document, without bound.                                                *)

(* (a) scan_ranges_valid: the scanner never faults (every index and slice is
   in range), terminates within its fuel, and the ranges it collects are non
   empty, inside the document, increasing and pairwise disjoint; an overlap
   is not possible, so the guard `r.start < prev` of applyReplacements never
   fires on a collected list (kept = everything, the sort is the identity) *)
Definition C29_scan_ranges_statement : Prop :=
  forall decide src,
    exists rs, collectReplacements decide src = LOk rs /\ chain_in 0 rs (zlen src)
      /\ Forall (valid src) rs /\ chain 0 rs /\ sorted_from 0 rs
      /\ Forall (fun r => (r_start r < r_stop r)%Z) rs.

Theorem C29_scan_ranges_valid : C29_scan_ranges_statement.
Proof. exact scan_ranges_valid. Qed.
Print Assumptions C29_scan_ranges_valid.

(* (b) pipeline_outside_unchanged: the output of the whole rewriting is the
   source with exactly the scanned ranges replaced by their texts; every other
   byte is unchanged and in order; replace never faults *)
Definition C29_pipeline_statement : Prop :=
  forall decide src,
    exists rs out first rest_out rest_src,
      collectReplacements decide src = LOk rs /\ replace decide src = LOk out
      /\ out = weave first rest_out /\ src = weave first rest_src
      /\ map snd rest_out = map snd rest_src
      /\ map fst rest_out = map r_text rs
      /\ map fst rest_src = map (range src) rs.

Theorem C29_pipeline_outside_unchanged : C29_pipeline_statement.
Proof. exact pipeline_outside_unchanged. Qed.
Print Assumptions C29_pipeline_outside_unchanged.

(* (c) ranges_are_destinations_by_syntax: every collected range lies on one line
   of the document and is, by the scanner's own grammar, either the destination
   of a reference definition (refdef_origin: an opening bracket, a closing
   bracket followed by a colon, blanks, then the destination) or of an inline
   link (inline_origin: a closing bracket followed by an opening parenthesis,
   blanks, then the destination); dest_shape says what delimits it: a
   destination without blanks that ends at the end of the line, before a blank
   or before a closing parenthesis, or one between angle brackets; its text is
   what the decision returned on exactly these bytes.  That these ARE CommonMark
   destinations is not proved (sweep against goldmark). *)
Definition C29_origin_statement : Prop :=
  forall decide src,
    exists rs, collectReplacements decide src = LOk rs
      /\ Forall (fun r => exists ls le, is_line src ls le /\ (ls <= r_start r)%Z /\ (r_stop r <= le)%Z
                   /\ (refdef_origin decide (sub src ls le) src ls r
                       \/ exists i, inline_origin decide (sub src ls le) src ls i r)) rs.

Theorem C29_ranges_are_destinations_by_syntax : C29_origin_statement.
Proof. exact ranges_are_destinations_by_syntax. Qed.
Print Assumptions C29_ranges_are_destinations_by_syntax.

(* (d) no_range_in_fence: the run of the model's block state machine is a list of
   consecutive lines covering the document, each with the state before it and
   its class.  The line that contains the start of a range is a reference
   definition or an inline line, outside fenced code (and with an empty HTML
   state for a definition); the range ends on that line; on an inline line the
   iteration of the inline loop whose segment contains the start of the range
   is of class ILink in the plain state: not inside a code span, not after an
   unclosed comment / CDATA / processing instruction / declaration, not inside a
   raw text element (script, style, textarea), tag stack empty.  Hence no range
   starts on a line of class fence body / fence close / fence open / indented
   code, nor on any line scanned while inFence holds. *)
Definition C29_fence_statement : Prop :=
  forall decide src,
    exists st' tr, collectReplacements decide src = LOk (l_acc st') /\ lruns decide src 0 l_init tr st'
      /\ Forall (fun en => let '(a, b, _, _) := en in is_line src a b) tr
      /\ (forall k, (0 <= k <= zlen src)%Z -> exists en, In en tr /\ (let '(a, b, _, _) := en in (a <= k <= b)%Z))
      /\ (forall r, In r (l_acc st') -> forall en, In en tr -> (let '(a, b, _, _) := en in (a <= r_start r <= b)%Z) ->
            good_entry decide src en r)
      /\ (forall r, In r (l_acc st') -> forall a b stk cls, In (a, b, stk, cls) tr ->
            l_inFence stk = true \/ cls = CFenceBody \/ cls = CFenceClose \/ cls = CFenceOpen \/ cls = CIndented ->
            ~ (a <= r_start r <= b)%Z).

Theorem C29_no_range_in_fence : C29_fence_statement.
Proof. exact no_range_in_fence. Qed.
Print Assumptions C29_no_range_in_fence.

(* the state of the inline loop decides the class of an iteration, and only an
   iteration of class ILink appends: inside a code span, after an unclosed
   comment-like construct, inside a raw text element nothing is appended *)
Theorem C29_inline_step : forall decide line src lineStart st,
  (0 <= i_pos st < zlen line)%Z -> (0 <= lineStart)%Z -> (0 <= i_code st)%Z ->
  exists r cls, inline_step decide line src lineStart st = LOk (r, cls) /\ step_post decide line src lineStart st r cls.
Proof. exact inline_step_ok. Qed.
Print Assumptions C29_inline_step.

(* (e) idempotence of the whole pipeline.  FULL statement: for a decision that
   leaves alone every text it wrote, a second application changes nothing.
   It is FALSE of the model (and of the code: both witnesses replayed on the
   implementation): the rewritten text can change how the text around it
   scans, by adding a delimiter (NBSP becomes a space, the inner link of
   [[t](x?q=aNBSPb) ](rel) is lost and the outer one appears) or by removing one
   (a double quote inside a destination becomes %22, the title of an otherwise
   invalid reference definition now closes and its destination is rewritten). *)
Theorem C29_pipeline_idempotent_refuted :
  exists decide, leaves_own_texts decide
    /\ (exists src out out2, replace decide src = LOk out /\ replace decide out = LOk out2 /\ out2 <> out)
    /\ (exists src out out2, src = idem_witness_2 /\ replace decide src = LOk out /\ replace decide out = LOk out2 /\ out2 <> out).
Proof. exact pipeline_idempotent_refuted. Qed.
Print Assumptions C29_pipeline_idempotent_refuted.

Theorem C29_pipeline_idempotent_statement_false : ~ pipeline_idempotent_statement.
Proof. exact pipeline_idempotent_statement_false. Qed.

(* proved part: a pass only rewrites destinations (by the scanner's grammar)
   whose bytes are not a text written by the decision, so it never touches a
   destination that is byte for byte a rewritten one; and a document in which
   the scanner finds nothing to rewrite is a fixed point of the pipeline *)
Definition C29_second_pass_statement : Prop :=
  forall decide, leaves_own_texts decide ->
    (forall out, collectReplacements decide out = LOk [] -> replace decide out = LOk out)
    /\ forall out,
        exists rs, collectReplacements decide out = LOk rs
          /\ Forall (fun r => exists ls le, is_line out ls le /\ (ls <= r_start r)%Z /\ (r_stop r <= le)%Z
                       /\ (refdef_origin decide (sub out ls le) out ls r
                           \/ exists i, inline_origin decide (sub out ls le) out ls i r)
                       /\ decide (sub out (r_start r) (r_stop r)) = Some (r_text r)
                       /\ forall raw, decide raw <> Some (sub out (r_start r) (r_stop r))) rs.

Theorem C29_pipeline_second_pass_partial : C29_second_pass_statement.
Proof. exact (fun decide H => conj (pipeline_fixpoint decide) (second_pass_spares_rewritten_texts decide H)). Qed.
Print Assumptions C29_pipeline_second_pass_partial.

(* the control flow of the scanner does not depend on the decision: the ranges
   passed to it (the candidates, computed with the logging decision, each with
   its raw bytes as text) are the same for every decision, and the collected
   list is exactly the candidates on which the decision says Some, with its
   text.  Hence a document is a fixed point of the pipeline as soon as the
   decision leaves alone every candidate found in it. *)
Definition C29_independence_statement : Prop :=
  forall d src,
    exists cs, collectReplacements log_decide src = LOk cs
      /\ Forall (fun c => r_text c = sub src (r_start c) (r_stop c)) cs
      /\ collectReplacements d src = LOk (decs d cs)
      /\ ((forall c, In c cs -> d (sub src (r_start c) (r_stop c)) = None) -> replace d src = LOk src).

Theorem C29_scan_independent_of_decision : C29_independence_statement.
Proof. exact scan_independence_full. Qed.
Print Assumptions C29_scan_independent_of_decision.

(* the decision of appendReplacement is an instance: with the three properties
   of net/url of C29_idempotent_model it leaves its own texts alone *)
Section IdempotentInstance.
  Variable url : Type.
  Variable parse : bytes -> option url.
  Variable scheme host path : url -> bytes.
  Variable rewrite : url -> url.
  Variable to_string : url -> bytes.
  Hypothesis rewrite_has_scheme : forall u, scheme (rewrite u) <> [].
  Hypothesis parse_string_scheme : forall u, scheme u <> [] ->
    exists u', parse (to_string u) = Some u' /\ scheme u' = scheme u.
  Hypothesis string_no_nbsp : forall u, no_nbsp (to_string u) = true.

  Theorem C29_decision_leaves_own_texts :
    leaves_own_texts (appendReplacement_repl url parse scheme host path rewrite to_string).
  Proof.
    exact (C29_idempotent_model url parse scheme host path rewrite to_string
             rewrite_has_scheme parse_string_scheme string_no_nbsp).
  Qed.
End IdempotentInstance.
Print Assumptions C29_decision_leaves_own_texts.

(* the obligations on the facts regenerated from linkdestination.go and goldmark/util *)
Theorem C29_generated_scanner_facts : fact_linkscan = true.
Proof. exact fact_linkscan_ok. Qed.

(* non-vacuity: a document with a fence, a code span, a raw text element, a
   reference definition and two links; the decision rewrites every destination
   that does not start with h: *)
Example C29_example_scan :
  (* "```\n[a](b)\n```\n`[c](d)` [e](f)\n[r]: g\n<script>[h](i)</script>[j](k)" *)
  collectReplacements toy_decide
    [96; 96; 96; 10; 91; 97; 93; 40; 98; 41; 10; 96; 96; 96; 10; 96; 91; 99; 93; 40; 100; 41; 96; 32; 91; 101; 93; 40; 102; 41; 10;
     91; 114; 93; 58; 32; 103; 10; 60; 115; 99; 114; 105; 112; 116; 62; 91; 104; 93; 40; 105; 41; 60; 47; 115; 99; 114; 105; 112; 116; 62;
     91; 106; 93; 40; 107; 41]%N
  = LOk [mkRepl 28 29 [104; 58; 102]%N; mkRepl 36 37 [104; 58; 103]%N; mkRepl 65 66 [104; 58; 107]%N].
Proof. vm_compute. reflexivity. Qed.
