(* C27 — printing a parsed syntax tree gives source that parses back to the
   same tree.  Only statements, `exact`, and Print Assumptions live here.

   Proved for the operator core: expressions built from unary and binary
   operators over opaque operands (identifiers, literals, calls, selectors,
   ...), printed by the parenthesisation rule of the String methods with the
   generated precedence table, and parsed by the operator-path algorithm of
   parseExpr.  Statements, declarations and the other expression forms are
   covered by the correspondence and the sweep only (checks/C27.json). *)
From Coq Require Import List NArith Bool.
From Verif Require Import Bytes Facts_AstOps ExprPrintParseM ExprPrintParseInst ExprPrintParse_proofs.
Import ListNotations.
Open Scope N_scope.

(* Full statement over the model: for every operator expression whose
   operators are ones the syntax tree can hold, whatever the recorded
   parenthesis counts: String does not panic, its tokens parse (the machine is
   a fold over the tokens: no fuel to run out of), and the parsed tree is the
   original up to the parenthesis counts. *)
Definition C27_statement : Prop :=
  forall e, c27_wf e = true ->
    exists ts e', c27_pr e = Some ts /\ c27_parse ts = Some e' /\ erase_parens e' = erase_parens e.

Theorem C27_parse_print_partial : C27_statement.
Proof. exact (parse_print gen_op_string gen_bin_prec gen_un_prec gen_unary_tokens gen_binary_tokens gen_OperatorReceive). Qed.
Print Assumptions C27_parse_print_partial.

(* generated-fact obligations: the well-formed expressions are all those built
   from the operators that Precedence() accepts and that parseExpr builds *)
Theorem C27_every_operator_round_trips : c27_ops_ok = true.
Proof. vm_compute. reflexivity. Qed.
Theorem C27_precedence_levels : c27_levels_ok = true.
Proof. vm_compute. reflexivity. Qed.

(* non-vacuity: a - -b, !(a == b), <-<-c, &*p, (a * b) + c with the generated tables *)
Example C27_example :
  c27_wf (Bin 0 gen_OperatorPointer (Bin 1 13 (Atom 0 1) (Atom 0 2)) (Un 0 12 (Un 0 12 (Atom 2 3)))) = false /\
  c27_wf (Bin 0 11 (Bin 1 13 (Atom 0 1) (Atom 0 2)) (Un 0 12 (Un 0 12 (Atom 2 3)))) = true /\
  c27_roundtrip (Bin 0 11 (Bin 1 13 (Atom 0 1) (Atom 0 2)) (Un 0 12 (Un 0 12 (Atom 2 3)))) =
    Some (Some (Bin 0 11 (Bin 0 13 (Atom 0 1) (Atom 0 2)) (Un 0 12 (Un 1 12 (Atom 0 3))))) /\
  c27_roundtrip (Un 0 6 (Bin 3 0 (Atom 0 1) (Atom 0 2))) = Some (Some (Un 0 6 (Bin 1 0 (Atom 0 1) (Atom 0 2)))) /\
  c27_roundtrip (Un 0 22 (Un 0 22 (Atom 0 1))) = Some (Some (Un 0 22 (Un 1 22 (Atom 0 1)))) /\
  c27_roundtrip (Bin 0 12 (Atom 0 1) (Bin 0 12 (Atom 0 2) (Atom 0 3))) =
    Some (Some (Bin 0 12 (Atom 0 1) (Bin 1 12 (Atom 0 2) (Atom 0 3)))).
Proof. vm_compute. repeat split; reflexivity. Qed.
