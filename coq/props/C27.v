(* C27 — printing a parsed syntax tree gives source that parses back to the
   same tree.  Only statements, `exact`, and Print Assumptions live here.

   Proved for the operator core: expressions built from unary and binary
   operators over opaque operands (identifiers, literals, calls, selectors,
   ...), printed by the parenthesisation rule of the String methods with the
   generated precedence table, and parsed by the operator-path algorithm of
   parseExpr.  Statements, declarations and the other expression forms are
   covered by the correspondence and the sweep only (checks/C27.json). *)
From Coq Require Import List NArith Bool.
From Verif Require Import Bytes Facts_AstOps ExprPrintParseM ExprPrintParseInst ExprPrintParse_proofs.
From Verif Require Import Facts_AstPrim ExprFullM ExprFullOk ExprFullInst ExprFull_inst_proofs.
Import ListNotations.
Open Scope N_scope.

(* Full statement over the model: for every operator expression whose
   operators are ones the syntax tree can hold, whatever the recorded
   parenthesis counts: String does not panic, its tokens parse (the machine is
   a fold over the tokens: no fuel to run out of), and the parsed tree is the
   original up to the parenthesis counts. *)
Definition C27_statement : Prop :=
  forall e, c27_wf e = true ->
    exists ts e', c27_pr e = Some ts /\ c27_parse ts = Some e' /\ erase_parens e' = erase_parens e.

Theorem C27_parse_print_partial : C27_statement.
Proof. exact (parse_print gen_op_string gen_bin_prec gen_un_prec gen_unary_tokens gen_binary_tokens gen_OperatorReceive). Qed.
Print Assumptions C27_parse_print_partial.

(* generated-fact obligations: the well-formed expressions are all those built
   from the operators that Precedence() accepts and that parseExpr builds *)
Theorem C27_every_operator_round_trips : c27_ops_ok = true.
Proof. vm_compute. reflexivity. Qed.
Theorem C27_precedence_levels : c27_levels_ok = true.
Proof. vm_compute. reflexivity. Qed.

(* non-vacuity: a - -b, !(a == b), <-<-c, &*p, (a * b) + c with the generated tables *)
Example C27_example :
  c27_wf (Bin 0 gen_OperatorPointer (Bin 1 13 (Atom 0 1) (Atom 0 2)) (Un 0 12 (Un 0 12 (Atom 2 3)))) = false /\
  c27_wf (Bin 0 11 (Bin 1 13 (Atom 0 1) (Atom 0 2)) (Un 0 12 (Un 0 12 (Atom 2 3)))) = true /\
  c27_roundtrip (Bin 0 11 (Bin 1 13 (Atom 0 1) (Atom 0 2)) (Un 0 12 (Un 0 12 (Atom 2 3)))) =
    Some (Some (Bin 0 11 (Bin 0 13 (Atom 0 1) (Atom 0 2)) (Un 0 12 (Un 1 12 (Atom 0 3))))) /\
  c27_roundtrip (Un 0 6 (Bin 3 0 (Atom 0 1) (Atom 0 2))) = Some (Some (Un 0 6 (Bin 1 0 (Atom 0 1) (Atom 0 2)))) /\
  c27_roundtrip (Un 0 22 (Un 0 22 (Atom 0 1))) = Some (Some (Un 0 22 (Un 1 22 (Atom 0 1)))) /\
  c27_roundtrip (Bin 0 12 (Atom 0 1) (Bin 0 12 (Atom 0 2) (Atom 0 3))) =
    Some (Some (Bin 0 12 (Atom 0 1) (Bin 1 12 (Atom 0 2) (Atom 0 3)))).
Proof. vm_compute. repeat split; reflexivity. Qed.

(* ---- the primary-expression grammar ----

   Expressions: identifiers, literals, unary and binary operators, calls
   (variadic too), index, slicing (2 and 3 indexes, omitted bounds),
   selectors, type assertions, composite literals (keyed elements, elided
   inner types), map, slice, array ([...]T too), channel, function and macro
   types (named, unnamed, grouped and variadic parameters, results), struct
   types (embedded fields, tags), interface{}, default and render expressions,
   function literals (printed as a description).  x_pp follows the String
   methods of ast/ast.go branch by branch and gives pieces (tokens and
   spaces); x_relex is the lexer on the printed form, as far as it is
   modelled (keywords of the syntax, an integer literal before a period,
   operators printed without a space); x_pexpr follows parseExpr, parseFunc,
   parseFuncParameters and parseField.

   Statement: for every printable expression, in both values of
   ast.expandedPrint, in the program and in the template syntax, with
   canBeSwitchGuard set or not, followed by any tokens suffix whose first one
   ends an expression: String does not panic, the lexer reads the printed
   tokens, and parseExpr (with the fuel that parse_top gives it: no
   out-of-fuel result) returns the expression with the parenthesis counts
   that the printed form has, and stops at the suffix.  The normalisation is
   explicit: the result is x_norm e (parentheses only where String writes
   them), and xerase (x_norm e) = xerase e, where xerase sets every
   parenthesis count to 0.  x_printable is a boolean function; the shapes it
   rejects are listed in model/ExprFullOk.v with the finding each belongs to,
   and refuted below. *)
Definition C27_primary_statement : Prop :=
  forall (expanded tmpl guard : bool) (suffix : list tk) (e : ex),
    x_printable expanded tmpl guard (hd_error suffix) e = true ->
    exists ps, x_pp expanded e = Some ps /\
      x_roundtrip expanded tmpl guard suffix e = RtRes (ROk (Some (x_norm e), suffix)) /\
      xerase (x_norm e) = xerase e.

Theorem C27_parse_print_primary : C27_primary_statement.
Proof. exact x_roundtrip_printable. Qed.
Print Assumptions C27_parse_print_primary.

(* the same for a type read with mustBeType (variable and type declarations, conversions) *)
Theorem C27_parse_print_type :
  forall (expanded tmpl : bool) (suffix : list tk) (e : ex) (g0 b0 : bool),
    x_printable_type expanded tmpl (hd_error suffix) e = true ->
    exists ps, x_pp expanded e = Some ps /\ x_relex tmpl ps = LexOk (toks ps) /\
      x_pexpr tmpl (fuel_of (toks ps ++ suffix)) (mkfl g0 false true b0) (toks ps ++ suffix) = ROk (Some (x_norm e), suffix) /\
      xerase (x_norm e) = xerase e.
Proof. exact x_roundtrip_type. Qed.
Print Assumptions C27_parse_print_type.

(* the facts about the generated tables that the proof uses *)
Theorem C27_primary_facts : x_facts_ok = true.
Proof. exact x_facts. Qed.

(* ---- the shapes that printable rejects: the round trip fails on the model
   (each witness is replayed on the implementation by the correspondence
   xround and by the sweep, under the signature given) ---- *)

(* string-drops-parens-of-operator-operand: the selector x of the parenthesised dereference of p
   is printed as star p.x and read as the dereference of p.x *)
Example C27_operator_operand_refuted :
  let e := XSel 0 (XUn 1 24 (XIdent 0 [112])) [120] in
  x_printable false false false None e = false /\
  x_roundtrip false false false [] e = RtRes (ROk (Some (XUn 0 24 (XSel 0 (XIdent 0 [112]) [120])), [])) /\
  xerase (XUn 0 24 (XSel 0 (XIdent 0 [112]) [120])) <> xerase e.
Proof. cbv zeta. split; [vm_compute; reflexivity|]. split; [vm_compute; reflexivity|]. vm_compute. discriminate. Qed.

(* string-drops-parens-of-default-operand: (a default b) + c is printed a default b + c and read as a default (b + c) *)
Example C27_default_operand_refuted :
  let e := XBin 0 11 (XDefault 1 (XIdent 0 [97]) (XIdent 0 [98])) (XIdent 0 [99]) in
  x_printable false true false None e = false /\
  x_roundtrip false true false [] e =
    RtRes (ROk (Some (XDefault 0 (XIdent 0 [97]) (XBin 0 11 (XIdent 0 [98]) (XIdent 0 [99]))), [])) /\
  xerase (XDefault 0 (XIdent 0 [97]) (XBin 0 11 (XIdent 0 [98]) (XIdent 0 [99]))) <> xerase e.
Proof. cbv zeta. split; [vm_compute; reflexivity|]. split; [vm_compute; reflexivity|]. vm_compute. discriminate. Qed.

(* string-chan-of-chan-ambiguous: chan (<-chan int) is printed chan <-chan int and read as chan<- (chan int) *)
Example C27_chan_of_chan_refuted :
  let e := XChan 0 0 (XChan 1 1 (XIdent 0 [105; 110; 116])) in
  x_printable false false false None e = false /\
  x_roundtrip false false false [] e = RtRes (ROk (Some (XChan 0 2 (XChan 0 0 (XIdent 0 [105; 110; 116]))), [])) /\
  xerase (XChan 0 2 (XChan 0 0 (XIdent 0 [105; 110; 116]))) <> xerase e.
Proof. cbv zeta. split; [vm_compute; reflexivity|]. split; [vm_compute; reflexivity|]. vm_compute. discriminate. Qed.

(* string-number-literal-before-dot-ambiguous: (1_000).s is printed 1_000.s, the lexer reads the
   floating-point literal 1_000. and parseExpr stops before s; append(s, 5...) does not parse *)
Example C27_number_before_dot_refuted :
  let e := XSel 0 (XLit 1 2 [49; 95; 48; 48; 48]) [115] in
  x_printable false false false None e = false /\
  x_roundtrip false false false [] e = RtRes (ROk (Some (XLit 0 3 [49; 95; 48; 48; 48; 46]), [KIdent [115]])) /\
  x_roundtrip false false false [] (XCall 0 (XIdent 0 [102]) [XIdent 0 [115]; XLit 0 2 [53]] true) = RtRes RErr.
Proof. cbv zeta. repeat split; vm_compute; reflexivity. Qed.

(* a result type that starts with an arrow, as in func() (<-chan int) printed func() <-chan int: the
   parser did not take the arrow as the start of a result (parseFuncParameters); repaired in the
   implementation (the generated list gen_result_start has the arrow), so that the shape is printable *)
Example C27_result_arrow_repaired :
  let e := XFunc 0 false [] [(None, Some (XChan 0 1 (XIdent 0 [105; 110; 116])))] false in
  x_printable false false false None e = true /\
  x_roundtrip false false false [] e = RtRes (ROk (Some e, [])).
Proof. cbv zeta. split; vm_compute; reflexivity. Qed.

(* string-call-of-type-ending-in-func (new): ([]func())(f) is printed []func()(f) and read as
   the slice type []func() (f) *)
Example C27_conversion_to_func_refuted :
  let e := XCall 0 (XSlice 1 (XFunc 0 false [] [] false)) [XIdent 0 [102]] false in
  x_printable false false false None e = false /\
  x_roundtrip false false false [] e =
    RtRes (ROk (Some (XSlice 0 (XFunc 0 false [] [(None, Some (XIdent 0 [102]))] false)), [])) /\
  xerase (XSlice 0 (XFunc 0 false [] [(None, Some (XIdent 0 [102]))] false)) <> xerase e.
Proof. cbv zeta. split; [vm_compute; reflexivity|]. split; [vm_compute; reflexivity|]. vm_compute. discriminate. Qed.

(* ---- non-vacuity: large expressions that are printable ---- *)
(* a variadic call f(a + b times c, []int{}, m[k].x[1:2:3], conversion of p to pointer to T, receive from ch,
     type assertion of x to chan<- func(a, b int, c ...string) (r []map[string] pointer to pkg.T, err error), s...)
   followed by a semicolon *)
Example C27_primary_example_program :
  x_printable false false false (Some KSemi)
    (XCall 0 (XIdent 0 [102]) [(XBin 0 11 (XIdent 0 [97]) (XBin 0 13 (XIdent 0 [98]) (XIdent 0 [99]))); (XCompLit 0 (Some (XSlice 0 (XIdent 0 [105; 110; 116]))) []); (XSlicing 0 (XSel 0 (XIndex 0 (XIdent 0 [109]) (XIdent 0 [107])) [120]) (Some (XLit 0 2 [49])) (Some (XLit 0 2 [50])) (Some (XLit 0 2 [51])) true); (XCall 0 (XUn 1 24 (XIdent 0 [84])) [(XIdent 0 [112])] false); (XUn 0 22 (XIdent 0 [99; 104])); (XTypeAssert 0 (XIdent 0 [120]) (Some (XChan 0 2 (XFunc 0 false [((Some [97]), None); ((Some [98]), (Some (XIdent 0 [105; 110; 116]))); ((Some [99]), (Some (XIdent 0 [115; 116; 114; 105; 110; 103])))] [((Some [114]), (Some (XSlice 0 (XMap 0 (Some (XIdent 0 [115; 116; 114; 105; 110; 103])) (XUn 0 24 (XSel 0 (XIdent 0 [112; 107; 103]) [84])))))); ((Some [101; 114; 114]), (Some (XIdent 0 [101; 114; 114; 111; 114])))] true)))); (XIdent 0 [115])] true) = true.
Proof. vm_compute. reflexivity. Qed.

(* with ast.expandedPrint: map[string][]T{a: {{x: 1}, {}}, b: nil, f(1): {2: {}}}, a and b string literals *)
Example C27_primary_example_composite :
  x_printable true false false None
    (XCompLit 0 (Some (XMap 0 (Some (XIdent 0 [115; 116; 114; 105; 110; 103])) (XSlice 0 (XIdent 0 [84])))) [((Some (XLit 0 0 [34; 97; 34])), (XCompLit 0 None [(None, (XCompLit 0 None [((Some (XIdent 0 [120])), (XLit 0 2 [49]))])); (None, (XCompLit 0 None []))])); ((Some (XLit 0 0 [34; 98; 34])), (XIdent 0 [110; 105; 108])); ((Some (XCall 0 (XIdent 0 [102]) [(XLit 0 2 [49])] false)), (XCompLit 0 None [((Some (XLit 0 2 [50])), (XCompLit 0 None []))]))]) = true.
Proof. vm_compute. reflexivity. Qed.

(* template syntax: not a and b contains c or f(x default g(y), render p.html) not contains -z, before the closing braces *)
Example C27_primary_example_template :
  x_printable false true false (Some (KSym [125; 125]))
    (XBin 0 26 (XBin 0 25 (XUn 0 27 (XIdent 0 [97])) (XBin 0 20 (XIdent 0 [98]) (XIdent 0 [99]))) (XBin 0 21 (XCall 0 (XIdent 0 [102]) [(XDefault 0 (XIdent 0 [120]) (XCall 0 (XIdent 0 [103]) [(XIdent 0 [121])] false)); (XRender 0 [112; 46; 104; 116; 109; 108])] false) (XUn 0 12 (XIdent 0 [122])))) = true.
Proof. vm_compute. reflexivity. Qed.

(* struct { a, b int; c func(...interface{}) chan int with tag t; embedded pointer to pkg.E; D }{}.c(1.5, 2i, (<-chan int)(q))[:n] *)
Example C27_primary_example_struct :
  x_printable false false false None
    (XSlicing 0 (XCall 0 (XSel 0 (XCompLit 0 (Some (XStruct 0 [([[97]; [98]], (XIdent 0 [105; 110; 116]), []); ([[99]], (XFunc 0 false [(None, (Some (XInterface 0)))] [(None, (Some (XChan 0 0 (XIdent 0 [105; 110; 116]))))] true), [116]); ([], (XUn 0 24 (XSel 0 (XIdent 0 [112; 107; 103]) [69])), []); ([], (XIdent 0 [68]), [])])) []) [99]) [(XLit 0 3 [49; 46; 53]); (XLit 0 4 [50; 105]); (XCall 0 (XChan 1 1 (XIdent 0 [105; 110; 116])) [(XIdent 0 [113])] false)] false) None (Some (XIdent 0 [110])) None false) = true.
Proof. vm_compute. reflexivity. Qed.

(* x.y.(type) as the guard of a type switch, before the block *)
Example C27_primary_example_guard :
  x_printable false false true (Some (KSym [123; 123])) (XTypeAssert 0 (XSel 0 (XIdent 0 [120]) [121]) None) = true /\
  x_printable false false false None (XTypeAssert 0 (XSel 0 (XIdent 0 [120]) [121]) None) = false.
Proof. split; vm_compute; reflexivity. Qed.

(* a type read with mustBeType *)
Example C27_type_example :
  x_printable_type false false None
    (XMap 0 (Some (XIdent 0 [115])) (XSlice 0 (XChan 0 1 (XFunc 0 false [(Some [97], Some (XUn 0 24 (XSel 0 (XIdent 0 [112]) [84])))]
                                                     [(None, Some (XArray 0 (Some (XLit 0 2 [52])) (XInterface 0)))] false)))) = true.
Proof. vm_compute. reflexivity. Qed.
