(* C21 - build errors point at a real location.  Part about the lexer: every
   token lies inside the source (proved for all byte strings); its line and
   column are those of its offset (token_pos_correct, proved for all byte
   strings) except in enumerated branches of the lexer, which the model marks
   with ghost flags and each of which is refuted here by a witness replayed on
   the real code. *)
From Verif Require Import Bytes Facts_lexer Facts_unicode LexBase LexCodeM LexerM LexTables LexPos
  LexBase_proofs LexCode_proofs Lexer_proofs LexTop_proofs LexProg_proofs LexPosBase_proofs LexPosCode_proofs LexPosScan_proofs.
Open Scope N_scope.

(* Full statement over the lexer model: offsets in range with the empty token
   convention explicit (tok_in), line and column those of the offset (tok_off:
   an inserted semicolon stands for the byte after its offset). *)
Definition C21_statement : Prop :=
  forall (U : unitab) (noParseShow : bool) (format : N) (src : bytes) toks err,
    scan_template U noParseShow format src = Done toks err ->
    forall t, In t toks -> tok_in (nlen src) t /\ (t_line t, t_col t) = linecol src (tok_off t).

(* proved half: 0 <= start <= end < len src; an empty token has end = start <= len src *)
Theorem C21_token_offsets_partial :
  forall (U : unitab) (noParseShow : bool) (format : N) (src : bytes) toks err,
    scan_template U noParseShow format src = Done toks err ->
    forall t, In t toks -> tok_in (nlen src) t.
Proof. exact token_offsets. Qed.
Print Assumptions C21_token_offsets_partial.

(* tokens are sent in the order of the source and do not overlap *)
Theorem C21_tokens_in_order_partial :
  forall (U : unitab) (noParseShow : bool) (format : N) (src : bytes) toks err,
    scan_template U noParseShow format src = Done toks err -> toks_sorted 0 toks.
Proof. exact tokens_in_order. Qed.
Print Assumptions C21_tokens_in_order_partial.

(* the offset of an error raised by the lexer lies in the source *)
Theorem C21_error_offset_partial :
  forall (U : unitab) (noParseShow : bool) (format : N) (src : bytes) toks l,
    scan_template U noParseShow format src = Done toks (Some l) -> l_base l <= nlen src.
Proof. exact error_offset. Qed.
Print Assumptions C21_error_offset_partial.

(* ---- line and column ---- *)
(* token_pos_correct.  The lexer model carries two ghost flags per token
   (t_ldev: the branch that sent it, or an earlier one, lost count of the
   lines; t_cdev: of the columns since the last new line), set exactly in the
   branches listed in KNOWN_FINDINGS.txt (signatures linecol:...) and refuted below.  For
   every source made of bytes, every format, noParseShow on or off and Unicode
   tables for which the replacement character and the new line are neither
   letters nor digits (true of the tables of Go: C21_go_unicode_sane), every
   token the lexer sends - also before a lexer error - whose line flag is
   clear has the line of its offset, and if its column flag is clear too, the
   column of its offset: line = 1 + number of new lines before the offset,
   column = 1 + number of bytes that start a character (not 10xxxxxx) since
   the last new line (LexPos.linecol; an inserted semicolon stands for the
   byte after its offset). *)
Definition token_pos_correct_statement : Prop :=
  forall (U : unitab) (noParseShow : bool) (format : N) (src : bytes) toks err,
    U_sane U -> is_bytes src = true ->
    scan_template U noParseShow format src = Done toks err ->
    forall t, In t toks -> t_ldev t = false ->
      t_line t = fst (linecol src (tok_off t)) /\
      (t_cdev t = false -> t_col t = snd (linecol src (tok_off t))).

Theorem C21_token_pos_correct : token_pos_correct_statement.
Proof. exact token_pos_correct. Qed.
Print Assumptions C21_token_pos_correct.

(* the executable check evaluated by the correspondence (posok) is the theorem *)
Theorem C21_posok_holds :
  forall (noParseShow : bool) (format : N) (src : bytes) toks err,
    is_bytes src = true ->
    scan_template go_unicode noParseShow format src = Done toks err -> forallb (tok_pos_ok src) toks = true.
Proof. exact (fun ns fmt src toks err Hb H => token_pos_check go_unicode ns fmt src toks err go_unicode_sane Hb H). Qed.
Print Assumptions C21_posok_holds.

Theorem C21_go_unicode_sane : U_sane go_unicode.
Proof. exact go_unicode_sane. Qed.

(* the same for the program lexer (scanProgram); its only flagged branches are
   the comments, rune literals of several bytes and a byte order mark at the
   start of the source, which takes no column *)
Theorem C21_program_token_pos_correct :
  forall (U : unitab) (src : bytes) toks err,
    U_sane U -> scan_program U src = Done toks err ->
    forall t, In t toks -> t_ldev t = false ->
      t_line t = fst (linecol src (tok_off t)) /\
      (t_cdev t = false -> t_col t = snd (linecol src (tok_off t))).
Proof.
  exact (fun U src toks err HU H t Ht Hld =>
    proj1 (Forall_forall (tok_ok src) toks) (program_tokens_pos U src toks err HU H) t Ht Hld).
Qed.
Print Assumptions C21_program_token_pos_correct.

(* the flagged branch of the program lexer that templates do not have: a
   byte order mark at the start of the source, "\xef\xbb\xbfx" *)
Example C21_program_bom_column :
  match scan_program go_unicode [239;187;191;120] with
  | Done (t :: _) None => t_col t = 1 /\ snd (linecol [239;187;191;120] (tok_off t)) = 2 /\ t_cdev t = true
  | _ => False
  end.
Proof. vm_compute. repeat split. Qed.

(* offsets of the program lexer's tokens *)
Theorem C21_program_token_offsets_partial :
  forall (U : unitab) (src : bytes) toks err,
    scan_program U src = Done toks err -> forall t, In t toks -> tok_in (nlen src) t.
Proof. exact program_token_offsets. Qed.
Print Assumptions C21_program_token_offsets_partial.

(* the unflagged statement is false of the faithful model: witnesses *)
Definition has_wrong_pos (format : N) (src : bytes) : bool :=
  match scan_template go_unicode false format src with
  | Done toks _ =>
    existsb (fun t => let lc := linecol src (tok_off t) in negb ((t_line t =? fst lc) && (t_col t =? snd lc))) toks
  | _ => false
  end.

Lemma has_wrong_pos_refutes format src : has_wrong_pos format src = true -> ~ C21_statement.
Proof.
  unfold has_wrong_pos. intros H HC.
  destruct (scan_template go_unicode false format src) as [toks e| |] eqn:E; try discriminate.
  apply existsb_exists in H. destruct H as (t & Ht & Hw).
  destruct (HC go_unicode false format src toks e E t Ht) as [_ Hp].
  rewrite <- Hp in Hw. simpl in Hw. rewrite !N.eqb_refl in Hw. discriminate.
Qed.

(* "{{ /*c*/ x }}": a general comment in code is not counted *)
Theorem C21_refuted_block_comment : has_wrong_pos 0 [123;123;32;47;42;99;42;47;32;120;32;125;125] = true.
Proof. vm_compute. reflexivity. Qed.
(* "{{ 'é' + x }}": bytes of a rune literal counted as columns *)
Theorem C21_refuted_rune_literal : has_wrong_pos 0 [123;123;32;39;195;169;39;32;43;32;120;32;125;125] = true.
Proof. vm_compute. reflexivity. Qed.
(* "{#\n#}{{ x }}": a comment with a new line *)
Theorem C21_refuted_multiline_comment : has_wrong_pos 0 [123;35;10;35;125;123;123;32;120;32;125;125] = true.
Proof. vm_compute. reflexivity. Qed.
(* "a\n\r{{ x }}": carriage return after a new line *)
Theorem C21_refuted_cr_after_lf : has_wrong_pos 0 [97;10;13;123;123;32;120;32;125;125] = true.
Proof. vm_compute. reflexivity. Qed.
(* "#!x": shebang line without a new line *)
Theorem C21_refuted_shebang : has_wrong_pos 0 [35;33;120] = true.
Proof. vm_compute. reflexivity. Qed.
(* HTML "<script></script\n>{{ x }}" *)
Theorem C21_refuted_end_script_newline :
  has_wrong_pos 1 [60;115;99;114;105;112;116;62;60;47;115;99;114;105;112;116;10;62;123;123;32;120;32;125;125] = true.
Proof. vm_compute. reflexivity. Qed.
(* HTML "<a\x80 {{ x }}": a byte that starts no character counted in a tag name *)
Theorem C21_refuted_tag_invalid_utf8 : has_wrong_pos 1 [60;97;128;32;123;123;32;120;32;125;125] = true.
Proof. vm_compute. reflexivity. Qed.
(* Markdown "http://a.b {{ x }}" *)
Theorem C21_refuted_markdown_url : has_wrong_pos 5 [104;116;116;112;58;47;47;97;46;98;32;123;123;32;120;32;125;125] = true.
Proof. vm_compute. reflexivity. Qed.
(* Markdown "\t{{ x }}": code block indentation *)
Theorem C21_refuted_markdown_code_block : has_wrong_pos 5 [9;123;123;32;120;32;125;125] = true.
Proof. vm_compute. reflexivity. Qed.

Theorem C21_statement_refuted : ~ C21_statement.
Proof. exact (has_wrong_pos_refutes _ _ C21_refuted_block_comment). Qed.
Print Assumptions C21_statement_refuted.

(* non-vacuity of the proved half and a source where every position is right *)
Example C21_example :
  has_wrong_pos 1 [60;97;32;104;114;101;102;61;34;195;169;10;123;123;32;120;32;125;125;34;62;10;123;37;32;105;102;32;97;32;37;125] = false.
Proof. vm_compute. reflexivity. Qed.

(* the hypotheses of token_pos_correct are satisfiable and its conclusion is
   not vacuous: a source with tokens whose flags are clear on several lines *)
Example C21_example_pos :
  U_sane go_unicode /\ is_bytes [60;97;32;104;114;101;102;61;34;195;169;10;123;123;32;120;32;125;125;34;62] = true /\
  match scan_template go_unicode false 1 [60;97;32;104;114;101;102;61;34;195;169;10;123;123;32;120;32;125;125;34;62] with
  | Done toks None => existsb (fun t => negb (t_ldev t) && negb (t_cdev t) && (t_line t =? 2)) toks = true
  | _ => False
  end.
Proof. split; [exact go_unicode_sane|]. split; vm_compute; reflexivity. Qed.
