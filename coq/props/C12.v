(* C12 - Run reports Stop, Fatal and unrecovered panics exactly as documented.
   Only statements, `exact`, and Print Assumptions live here. *)
From Coq Require Import List NArith Bool Arith.
Import ListNotations.
From Verif Require Import Facts_vm FramesM FramesCodec Frames_proofs Frames_lifo Frames_sim Frames_term.
From Verif Require Import Facts_vmrun VmRunM VmRun_proofs.
Close Scope N_scope.

(* Full statement: on every action tree (calls, defers of interpreted and
   native functions, native functions that call back a Scriggo function value,
   panics, recover(), defer recover(), returns, Stop, Fatal, nested to any
   depth) the frame machine of the VM and Go's semantics agree on
   the sequence of executed hook bodies, on every value returned by recover(),
   and on what Run does at the end (nil / the PanicError chain with messages,
   recovered flags and lines / the error given to Stop / a panic with the
   value given to Fatal), whenever both have finished. *)
Definition C12_statement : Prop :=
  forall (f : func) (n m : nat) r1 r2,
    vm_run n f = Some r1 -> go_run m f = Some r2 -> r1 = r2.

(* Proved for every tree the emitter can produce.  tree_ok f (a boolean,
   Frames_sim.ok_fn) excludes only: `recover down` (OpRecover with a > 0)
   anywhere else than as the whole body of a deferred function - the emitter
   produces it only for `defer recover()` -; a panicking instruction (OpPanic, a
   native function that panics) without an entry in the debug table of its
   function - the emitter records the position of every Panic and CallNative
   instruction.  Everything else is inside: calls and deferred calls of
   functions and of native functions to any depth, native functions that panic,
   call env.Stop or env.Fatal (deferred ones too), native functions that call
   back a function value (nested VMs), panics inside deferred calls, recover()
   at any place, `defer recover()`, explicit returns. *)
Definition C12_statement_partial : Prop :=
  forall f : func, tree_ok f = true ->
  forall (n m : nat) r1 r2, vm_run n f = Some r1 -> go_run m f = Some r2 -> r1 = r2.

Theorem C12_partial_holds : C12_statement_partial.
Proof. exact frames_refine_go. Qed.
Print Assumptions C12_partial_holds.

(* Termination, on every tree (no hypothesis): the machine never runs out of a
   fuel of vm_bound f = 8 * fsize f steps (fsize f = 1 + the number of
   instructions of the tree); GoSpec never runs out of a fuel of fsize f. *)
Theorem C12_vm_terminates :
  forall (f : func) (n : nat), vm_bound f <= n -> vm_run n f <> None.
Proof. exact vm_terminates. Qed.
Print Assumptions C12_vm_terminates.

Theorem C12_vm_bound_is : forall f, vm_bound f = 8 * fsize f.
Proof. reflexivity. Qed.

Theorem C12_go_total : forall (f : func) (m : nat), fsize f <= m -> go_run m f <> None.
Proof. exact go_run_total. Qed.

(* the fuel the extracted model is given by the correspondence is enough *)
Theorem C12_model_fuel_enough : forall f, vm_run (vm_fuel f) f <> None.
Proof. exact frames_case_fuel. Qed.

(* the two together: on every tree of the theorem both end, with the same result *)
Theorem C12_total :
  forall f : func, tree_ok f = true ->
  exists r, go_run (fsize f) f = Some r /\ forall n, vm_bound f <= n -> vm_run n f = Some r.
Proof.
  intros f Hok.
  destruct (go_run (fsize f) f) as [r|] eqn:Hgo; [|exfalso; exact (go_run_total f (fsize f) (le_n _) Hgo)].
  exists r. split; [reflexivity|]. intros n Hn.
  destruct (vm_run n f) as [r1|] eqn:Hvm; [|exfalso; exact (vm_terminates f n Hn Hvm)].
  f_equal. exact (frames_refine_go f Hok n (fsize f) r1 r Hvm Hgo).
Qed.
Print Assumptions C12_total.

(* The trees tree_ok excludes are not programs: on them the model of the
   machine and GoSpec can differ, which says nothing about the code (they are
   why the statement over the whole tree type stays unproved).  A function
   whose body is `recover down` called as an ordinary function from a
   deferred call run by the panic sequence; a panic without debug line
   followed by an instruction that has one (newPanic then takes the line of
   the following instruction). *)
Definition w_excluded_recover_down : func :=
  mkfunc [IDeferFn [ICall [IRecover true] []] []; IPanic 1] [(1, 2%N)].
Definition w_excluded_no_line : func := mkfunc [IPanic 1; INat (NBody 2)] [(1, 5%N)].

Theorem C12_excluded_trees :
  (tree_ok w_excluded_recover_down = false /\
   vm_run 60 w_excluded_recover_down = Some (ONil, []) /\
   go_run 60 w_excluded_recover_down = Some (OPanic [(1%N, false, Some 2%N)], [])) /\
  (tree_ok w_excluded_no_line = false /\
   vm_run 60 w_excluded_no_line = Some (OPanic [(1%N, false, Some 5%N)], []) /\
   go_run 60 w_excluded_no_line = Some (OPanic [(1%N, false, None)], [])).
Proof. vm_compute. repeat split; reflexivity. Qed.

(* The full statement was false of the code: four independent witnesses, each
   a recorded finding, now repaired (the trees are kept, with the positive
   statements, and replayed on the real VM by the check as regressions). *)
Definition w_native_defer_panic : func := mkfunc [IDeferNat (NPanic 1)] [].
Definition w_stale_recovered : func :=
  mkfunc [IDeferFn [IPanic 5] [(0, 4%N)]; IDeferFn [IRecover false] []; IPanic 2] [(2, 9%N)].
Definition w_dropped_panic : func :=
  mkfunc [IDeferFn [ICall [IDeferFn [IRecover false] []; IPanic 4] [(1, 7%N)]] [];
          IDeferFn [IPanic 1] [(0, 11%N)]; IPanic 3] [(2, 13%N)].

(* a panic that leaves a function called back by native code: Go unwinds through
   the native frame and the caller can recover it; the VM made Run panic with
   the text of the chain (former finding callback-panic-is-fatal) *)
Definition w_callback_panic : func :=
  mkfunc [IDeferFn [IRecover false] []; ICallback [IPanic 7] [(0, 3%N)]] [].
Definition w_callback_chain : func :=
  mkfunc [IDeferFn [ICallback [ICallback [IDeferFn [IRecover false; IPanic 4] [(1, 8%N)]; IPanic 3] [(1, 9%N)]] []] [];
          IPanic 1] [(1, 12%N)].

(* repaired (fix 6756254): the panic of a deferred native function is an
   ordinary panic, when the function returns and while another panic unwinds
   (second tree: it aborts the first panic and is recovered); the former
   witness of native-defer-panic-host-panic now agrees with Go *)
Definition w_native_defer_unwinding : func :=
  mkfunc [IDeferFn [IRecover false] []; IDeferNat (NPanic 1); IPanic 2] [(2, 5%N)].

Theorem C12_native_defer_panic_repaired :
  (vm_run 10 w_native_defer_panic = Some (OPanic [(1%N, false, None)], []) /\
   go_run 10 w_native_defer_panic = Some (OPanic [(1%N, false, None)], [])) /\
  (vm_run 40 w_native_defer_unwinding = Some (ONil, [ERecover (Some 1%N)]) /\
   go_run 40 w_native_defer_unwinding = Some (ONil, [ERecover (Some 1%N)])).
Proof. exact (conj native_defer_panic_repaired native_defer_panic_unwinding_repaired). Qed.

(* repaired (fix 7a741c2): a panic recovered by a deferred call leaves the chain when that
   call returns, also when the function has other deferred calls; the former
   witness of recovered-panic-stays-in-chain now agrees with Go *)
Theorem C12_stale_recovered_repaired :
  vm_run 40 w_stale_recovered = Some (OPanic [(5, false, Some 4)]%N, [ERecover (Some 2%N)]) /\
  go_run 40 w_stale_recovered = Some (OPanic [(5, false, Some 4)]%N, [ERecover (Some 2%N)]).
Proof. exact stale_recovered_repaired. Qed.

(* repaired (fix cda9c95): an aborted panic stays in the chain until the panic
   that aborted it is recovered, and a recovery removes the recovered panic and
   the aborted ones after it only; the former witness of
   nested-recover-drops-active-panic now agrees with Go *)
Theorem C12_dropped_panic_repaired :
  vm_run 60 w_dropped_panic = Some (OPanic [(1, false, Some 11); (3, false, Some 13)]%N, [ERecover (Some 4%N)]) /\
  go_run 60 w_dropped_panic = Some (OPanic [(1, false, Some 11); (3, false, Some 13)]%N, [ERecover (Some 4%N)]).
Proof. exact dropped_panic_repaired. Qed.

(* repaired (fix 34a254c): the PanicError of a callback is raised as it is through
   the native function; the calling VM links its own panics after it *)
Theorem C12_callback_panic_repaired :
  (vm_run 40 w_callback_panic = Some (ONil, [ERecover (Some 7%N)]) /\
   go_run 40 w_callback_panic = Some (ONil, [ERecover (Some 7%N)])) /\
  (vm_run 80 w_callback_chain = Some (OPanic [(4, false, Some 8); (3, true, Some 9); (1, false, Some 12)]%N, [ERecover (Some 3%N)]) /\
   go_run 80 w_callback_chain = Some (OPanic [(4, false, Some 8); (3, true, Some 9); (1, false, Some 12)]%N, [ERecover (Some 3%N)])).
Proof. exact (conj callback_panic_repaired callback_chain_repaired). Qed.

(* What is proved, for every tree / every state of the machine.  The trees
   include callbacks: Stop, Fatal and panics inside a Scriggo function that a
   native function calls back (to any depth of VMs). *)

(* (1) Stop: once a native function has called Stop(e), no hook body, deferred
   or not, is executed any more, and Run returns e itself. *)
Theorem C12_stop_runs_nothing :
  forall n f o tr e pre post,
    vm_run n f = Some (o, tr) -> tr = pre ++ EStop e :: post -> post = [] /\ o = OStop e.
Proof. exact stop_runs_nothing. Qed.
Print Assumptions C12_stop_runs_nothing.

Theorem C12_stop_returns_its_error :
  forall n f e tr, vm_run n f = Some (OStop e, tr) -> exists pre, tr = pre ++ [EStop e] /\ quiet pre.
Proof. exact stop_returns_its_error. Qed.

(* (2) Fatal(v): nothing runs after it and Run panics with v. *)
Theorem C12_fatal_propagates :
  forall n f o tr v pre post,
    vm_run n f = Some (o, tr) -> tr = pre ++ EFatal v :: post -> post = [] /\ o = ORunPanics v.
Proof. exact fatal_propagates. Qed.
Print Assumptions C12_fatal_propagates.

(* (2b) the same through callbacks, on the code path of callable.Value: the
   error of a Stop or Fatal raised inside the VM of a callback reaches Run
   unchanged (no step of a suspended VM runs in between: the machine ends at
   once, whatever the stack of suspended VMs); a panic that is not recovered
   inside the callback goes on in the calling VM, at its call instruction,
   with the panics of the callback before those of the caller *)
Theorem C12_callback_stop_fatal_pass_through :
  forall s f k,
    smode s = MExec -> sfn s = Some f -> fetch f (spc s) = Some (INat k) ->
    (forall e, k = NStop e -> exists tr, step s = Fin (OStop e) (EStop e :: tr) /\ tr = str s) /\
    (forall v, k = NFatal v -> exists tr, step s = Fin (ORunPanics v) (EFatal v :: tr) /\ tr = str s).
Proof. exact callback_stop_fatal_pass_through. Qed.

Theorem C12_callback_panic_propagates :
  forall s p c sv rest fr frs,
    souter s = sv :: rest -> schain s = p :: c -> vcalls sv = fr :: frs ->
    finish s = Next (mkstate (MNext (length (vcalls sv ++ [mkframe (CFn (vfn sv)) 0 Panicked]))) None (vpc sv)
                             (vcalls sv ++ [mkframe (CFn (vfn sv)) 0 Panicked])
                             ((p :: c) ++ vchain sv) (str s) (sraised s) rest).
Proof. exact callback_panic_propagates. Qed.

Theorem C12_callback_returns_to_caller :
  forall s sv rest, souter s = sv :: rest -> schain s = [] ->
    finish s = Next (mkstate MExec (Some (vfn sv)) (vpc sv) (vcalls sv) (vchain sv) (str s) (sraised s) rest).
Proof. exact callback_returns_to_caller. Qed.

(* (2c) VM.Run itself, whatever the context of the run (none, live, cancelled
   or expired): the error of runFunc that comes from env.Stop(err) makes Run
   return err itself, the one of env.Fatal(v) makes Run panic with v, a
   PanicError is returned as it is (the error of the output when its message is
   a failed write), nil gives nil.  run_action is read from the decision table
   that gofacts obtains by executing the statements of VM.Run (Facts_vmrun): a
   change of VM.Run that looks at the context first changes the table and
   breaks this obligation. *)
Theorem C12_run_stop_fatal_any_context :
  forall ctx, In ctx ctx_states ->
    run_action 3 ctx = Some 2%N /\ run_action 2 ctx = Some 4%N /\ run_action 0 ctx = Some 1%N /\
    run_action 1 ctx = Some 3%N /\ run_action 5 ctx = Some 6%N.
Proof. exact vmrun_documented. Qed.
Print Assumptions C12_run_stop_fatal_any_context.

(* (3) The chain Run returns: the next links go from the newest panic to the
   oldest (strictly decreasing serial numbers of raising). *)
Theorem C12_chain_order :
  forall n f c tr, vm_run n f = Some (OPanic c, tr) ->
    exists chain bound, c = chain_view chain /\ desc (map pser chain) bound.
Proof. exact chain_order. Qed.
Print Assumptions C12_chain_order.

(* (4) A recovered flag is only ever set by OpRecover, on the newest panic,
   when the nearest frame that is not a deferred one is a panicked frame
   (recover_search_nearest), which becomes recovered. *)
Theorem C12_recovered_only_by_recover :
  forall s s' p', step s = Next s' -> In p' (all_chains s') -> precovered p' = true ->
  (exists p, In p (all_chains s) /\ pser p = pser p' /\ precovered p = true) \/
  (exists f down i1 i ps,
     smode s = MExec /\ sfn s = Some f /\ fetch f (spc s) = Some (IRecover down) /\
     schain s' = p' :: ps /\
     recover_start (scalls s) down = Some i1 /\ recover_search (scalls s) i1 = Some i /\
     scalls s' = mark_recovered (scalls s) i).
Proof. exact recovered_only_by_recover. Qed.
Print Assumptions C12_recovered_only_by_recover.

Theorem C12_recover_nearest :
  forall c i1 i, recover_search c i1 = Some i ->
  i < i1 /\ (exists fr, nth_error c i = Some fr /\ fstat fr = Panicked) /\
  (forall j, i < j < i1 -> exists fr, nth_error c j = Some fr /\ fstat fr = Deferred).
Proof. exact recover_search_nearest. Qed.

(* (5) Message and position of a PanicError are those of the panicking instruction. *)
Theorem C12_panic_position :
  forall s f ins v,
  smode s = MExec -> sfn s = Some f -> fetch f (spc s) = Some ins -> panics_with ins v ->
  (exists s' rest, step s = Next s' /\
     schain s' = mkprec v false false (debug_line f (spc s)) (sraised s) :: schain s ++ rest) \/
  (exists tr rest, step s = Fin (OPanic ((v, false, debug_line f (spc s)) :: chain_view (schain s ++ rest))) tr).
Proof. exact panic_position. Qed.
Print Assumptions C12_panic_position.

(* (6) Without panics, Stop and Fatal the machine refines Go: the hook bodies
   run in program order, the deferred ones in LIFO order exactly once when
   their function returns (pf_trace is that order), and Run returns nil. *)
Theorem C12_defer_lifo :
  forall f, pf_func f -> exists n, forall m, n <= m -> vm_run m f = Some (ONil, pf_trace f).
Proof. exact defer_lifo. Qed.
Print Assumptions C12_defer_lifo.

Theorem C12_defer_lifo_is_go :
  forall f, pf_func f -> forall m, fsize f <= m -> go_run m f = Some (ONil, pf_trace f).
Proof. exact go_run_pf. Qed.
Print Assumptions C12_defer_lifo_is_go.

(* pf_trace on a flat function: the bodies in order, then the deferred ones, last registered first *)
Theorem C12_lifo_shape :
  forall a b c d, pf_trace (mkfunc [INat (NBody a); IDeferNat (NBody b); IDeferFn [INat (NBody c)] []; INat (NBody d)] [])
                  = [EBody a; EBody d; EBody c; EBody b].
Proof. exact lifo_shape. Qed.

(* the numbering of callStatus in the model is the one generated from vm.go *)
Theorem C12_status_numbering :
  map status_num [Started; Tailed; Returned; Deferred; Panicked; Recovered] = callStatus_values.
Proof. exact status_numbering. Qed.

(* non-vacuity: a nested panic that is recovered, with a native deferred call *)
Example C12_example :
  vm_run 50 (mkfunc [IDeferNat (NBody 1);
                     ICall [IDeferFn [IRecover false] []; IPanic 7] [(1, 3%N)];
                     INat (NBody 2)] [])
  = Some (ONil, [ERecover (Some 7%N); EBody 2%N; EBody 1%N]).
Proof. vm_compute. reflexivity. Qed.

Example C12_example_stop :
  vm_run 50 (mkfunc [IDeferNat (NBody 1); INat (NStop 4)] []) = Some (OStop 4, [EStop 4%N]).
Proof. vm_compute. reflexivity. Qed.

(* Stop and Fatal called inside a function that native code calls back, two VMs deep *)
Example C12_example_callback_stop :
  vm_run 80 (mkfunc [IDeferNat (NBody 1);
                     ICallback [INat (NBody 2); ICallback [IDeferNat (NBody 6); INat (NStop 4)] []; INat (NBody 3)] [];
                     INat (NBody 5)] [])
  = Some (OStop 4, [EBody 2%N; EStop 4%N]).
Proof. vm_compute. reflexivity. Qed.

Example C12_example_callback_fatal :
  vm_run 80 (mkfunc [IDeferFn [IRecover false] []; ICallback [INat (NFatal 6); INat (NBody 3)] []; INat (NBody 5)] [])
  = Some (ORunPanics 6, [EFatal 6%N]).
Proof. vm_compute. reflexivity. Qed.

(* a callback that returns: the caller goes on; a panic recovered inside the callback stays inside *)
Example C12_example_callback_returns :
  vm_run 80 (mkfunc [ICallback [IDeferFn [IRecover false] []; IPanic 7] [(1, 3%N)]; INat (NBody 5)] [])
  = Some (ONil, [ERecover (Some 7%N); EBody 5%N]).
Proof. vm_compute. reflexivity. Qed.
