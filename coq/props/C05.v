(* C05 -- running compiled code never panics into the host.
   Part 1 (this file, renderer): renderer.Text / renderer.Show with the URL
   state never index out of range, for every sequence of operations and every
   writer; the output of a show inside a URL attribute is confined.
   Only statements, `exact`, and Print Assumptions live here. *)
From Verif Require Import Bytes Facts_render RendererM Renderer_proofs RunLoopM RunLoop_proofs.
From Verif Require Import ShowTree Facts_show ShowTypesM ShowNoPanic_proofs.
Open Scope N_scope.

(* Renderer part of the statement: for every writer (any pattern of failing
   writes), every renderer state, every sequence of Text and Show operations
   whose operands are what the emitter produces (texts are not empty, the
   context byte decodes to one of the contexts of ast.Context), no operation
   faults -- whether or not earlier operations returned errors. *)
Definition C05_renderer_statement : Prop :=
  forall (w : writer) (ops : list op) (st : rstate) (ws : wst),
    forallb op_ok ops = true ->
    forallb (fun r => negb (is_fault r)) (snd (r_run w st ws ops)) = true.

Theorem renderer_no_fault_holds : C05_renderer_statement.
Proof. exact renderer_no_fault. Qed.
Print Assumptions renderer_no_fault_holds.

(* the hypothesis on texts cannot be dropped: an empty Text faults *)
Theorem renderer_empty_text_refuted :
  exists ops, snd (r_run (fun _ => None) r0 w0 ops) = [ROk; RFault].
Proof. eexists. exact empty_text_faults. Qed.

(* non-vacuity, and the history of the defect repaired by f8044c1: a value
   containing a question mark followed by an empty value, then a query text *)
Example renderer_history_example :
  let ops := [OShow 135 (mkShown [] None (Some [120; 63; 121]));
              OShow 135 (mkShown [] None (Some []));
              OText [63; 97; 61] true false] in
  forallb op_ok ops = true /\
  r_run (fun _ => None) r0 w0 ops
  = (mkR true true false false, mkW 3 [[120; 63; 121]; amp_entity; [97; 61]], [ROk; ROk; ROk]).
Proof. vm_compute. split; reflexivity. Qed.

(* URL slot lemma *)
Theorem url_slot_holds : forall (st : rstate) (s : bytes) (q : bool),
  let sc := snd (r_show_url st s q) in
  script_ok sc = true /\
  script_bytes sc = (if query st && negb (remQ st) then qe_flat s else pe_flat q s) /\
  forallb (url_safe q) (script_bytes sc) = true /\
  amp_ok (script_bytes sc) = true.
Proof. exact show_url_confined. Qed.
Print Assumptions url_slot_holds.

Theorem url_text_shape_holds : forall (st : rstate) (ws : wst) (txt : bytes) (u isSet : bool),
  txt <> [] ->
  let '(_, ws', r) := r_text (fun _ => None) st ws txt u isSet in
  r = ROk /\
  exists t, (t = txt \/ (txt = 63 :: t /\ remQ (url_switch st u) = true)) /\
            (w_out ws' = w_out ws ++ [t] \/
             (w_out ws' = w_out ws ++ [amp_entity; t] /\ addAmp (url_switch st u) = true /\ u = true)).
Proof. exact text_url_shape. Qed.

(* the writes that reach the writer are a prefix of the writes of a successful run *)
Theorem url_writes_prefix_holds : forall w sc ws,
  exists k, w_out (fst (run_script w ws sc)) = w_out ws ++ firstn k (script_chunks sc).
Proof. intros. apply run_script_prefix. Qed.

(* the URL flags are false outside URLs (the comment of the renderer struct) *)
Theorem renderer_state_invariant_holds : forall w st ws o,
  st_inv st -> st_inv (fst (fst (r_op w st ws o))).
Proof. exact r_op_inv. Qed.

(* T1 obligations over the generated facts *)
Theorem decode_copies_equal_holds : gen_rt_decodeRenderContext = gen_cc_decodeRenderContext.
Proof. exact decode_copies_equal. Qed.
Theorem encoded_contexts_known_holds :
  forallb (fun e => match e with
     | (ctx, u, s, c) => negb (ctx <=? gen_ContextSpacesCodeBlock) || op_ok (OShow c (mkShown [] None None))
     end) gen_encodeRenderContext = true.
Proof. exact encoded_ctx_known. Qed.

(* ---------------------------------------------------------------- part 1b: the show functions *)

(* The type dispatch of renderer.Show (the type switches, the type tests on
   reflect values and the kind switch of toString of every showIn function,
   as gofacts reads them from renderer.go into decision trees): for every
   context, inside and outside a URL, with and without a Markdown converter,
   and every dynamic type of the shown value (every reflect.Kind, any set of
   implemented interfaces and well known types; None is the nil interface) it
   never panics: it writes the value, returns the cannot show error, or hands
   the value to showInJS / showInJSON. *)
Definition C05_show_dispatch_statement : Prop :=
  forall (conv : bool) (ctx : N) (url : bool) (d : option ty),
    ctx < n_contexts -> wf_dyn d ->
    dynamic_show conv ctx url d <> OPanic /\ dynamic_show conv ctx url d <> OStuck.

Theorem show_dispatch_never_panics_holds : C05_show_dispatch_statement.
Proof. exact show_dispatch_never_panics. Qed.
Print Assumptions show_dispatch_never_panics_holds.

(* the routing of showInJS / showInJSON (leading type switch, selected clause
   of the kind switch, conversion of map keys) and toString have no panicking
   clause either *)
Theorem js_routing_never_panics_holds :
  forall (tbl : list (N * dtree)) (d : option ty),
    In tbl [gen_showInJS_tbl; gen_showInJSON_tbl; gen_showInJS_mapkey_tbl; gen_showInJSON_mapkey_tbl; gen_toString_tbl] ->
    wf_dyn d ->
    forall conv, eval_tree (dyn_val conv d) (tree_assoc tbl (dyn_kind d)) <> OPanic /\
                 eval_tree (dyn_val conv d) (tree_assoc tbl (dyn_kind d)) <> OStuck.
Proof. exact js_routing_never_panics. Qed.

(* the hypotheses are satisfiable; a nil interface and a defined type over a
   byte slice shown in a CSS string *)
Example show_dispatch_examples :
  ctx_CSSString < n_contexts /\ wf_dyn None /\ wf_dyn (Some (TSlice 0 (TLeaf k_Uint8 0))) /\
  dynamic_show false ctx_CSSString false None = OOk /\
  dynamic_show false ctx_CSSString false (Some (TSlice 0 (TLeaf k_Uint8 0))) = OErr /\
  dynamic_show false ctx_CSSString false (Some (TSlice (2 ^ w_ByteSlice) (TLeaf k_Uint8 0))) = OOk.
Proof. split; [reflexivity|]. split; [reflexivity|]. split; [reflexivity|]. exact css_string_examples. Qed.

(* ---------------------------------------------------------------- part 2: the run loop *)

(* Full statement of the outcome algebra: for every stream of instruction
   results, Run returns nil, a PanicError, the error of the output, the
   context error, the Stop error (or the error of a go statement), or panics
   with the message of a fatalError -- never with a Go runtime error of its
   own.  The raw panics are classified by the generated rules of convertPanic
   (the fault table). *)
Definition C05_run_outcome_statement : Prop :=
  forall has_ctx done_at_end segs, ends segs = true ->
  acceptable (vm_run has_ctx done_at_end segs) = true.

(* proved for every stream since fix 6756254 (before it, a deferred native call
   that panicked while vm.fn was nil made convertPanic itself fault: the
   statement was refuted and proved only under the hypothesis seg_ok) *)
Theorem C05_run_outcome_holds : C05_run_outcome_statement.
Proof. exact run_outcome. Qed.
Print Assumptions C05_run_outcome_holds.

Theorem run_outcome_classes_holds : forall has_ctx done_at_end segs,
  ends segs = true ->
  match vm_run has_ctx done_at_end segs with
  | RRCtx => has_ctx = true
  | RRHostPanicGo | RRStuck => False
  | _ => True
  end.
Proof. exact run_outcome_classes. Qed.

(* the former witnesses of the refutation (recorded findings
   host-panic:deferred-native-call-while-unwinding and
   host-panic:deferred-native-panic-at-return, repaired by 6756254): a panic,
   then a deferred native function that panics while it unwinds; a deferred
   native function that panics when the function returns *)
Theorem run_outcome_deferred_native_repaired :
  vm_run false false
    [SgRaise false gen_OpPanic false (mkP KOther [] 0) 1;
     SgRaise true gen_OpCallNative true (mkP KString [110] 0) 0] = RRPanicError /\
  vm_run false false [SgRaise true gen_OpReturn false (mkP KString [110] 0) 0] = RRPanicError.
Proof. exact unwinding_native_panic_repaired. Qed.

(* entries of the fault table evaluated in the model *)
Example run_outcome_examples :
  vm_run false false [SgRaise false gen_OpDivInt false (mkP KGoRuntime msg_divzero 0) 0] = RRPanicError /\
  vm_run false false [SgRaise false gen_OpCallNative true (mkP KGoRuntime msg_divzero 0) 0] = RRHostPanicFatal true /\
  vm_run false false [SgRaise false gen_OpCallNative true (mkP KFatal [] 0) 0] = RRHostPanicFatal false /\
  vm_run false false [SgRaise false gen_OpText false (mkP KOut [] 7) 0] = RROutError 7 /\
  vm_run false false [SgRaise false gen_OpCallNative true (mkP KStop [] 9) 3] = RRStop 9 /\
  vm_run false false [SgRaise false gen_OpAdd false (mkP KGoRuntime msg_divzero 0) 0] = RRHostPanicFatal true /\
  vm_run true true [SgReturn 0] = RRCtx /\
  vm_run false false [SgRaise false gen_OpPanic false (mkP KOther [] 0) 2; SgReturn 1] = RRNil.
Proof. exact table_examples. Qed.
