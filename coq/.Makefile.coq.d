gen/Facts_Ast.vo gen/Facts_Ast.glob gen/Facts_Ast.v.beautified gen/Facts_Ast.required_vo: gen/Facts_Ast.v lib/AstSchema.vo
gen/Facts_Ast.vio: gen/Facts_Ast.v lib/AstSchema.vio
gen/Facts_Ast.vos gen/Facts_Ast.vok gen/Facts_Ast.required_vos: gen/Facts_Ast.v lib/AstSchema.vos
gen/Facts_AstOps.vo gen/Facts_AstOps.glob gen/Facts_AstOps.v.beautified gen/Facts_AstOps.required_vo: gen/Facts_AstOps.v 
gen/Facts_AstOps.vio: gen/Facts_AstOps.v 
gen/Facts_AstOps.vos gen/Facts_AstOps.vok gen/Facts_AstOps.required_vos: gen/Facts_AstOps.v 
gen/Facts_HTMLEscape.vo gen/Facts_HTMLEscape.glob gen/Facts_HTMLEscape.v.beautified gen/Facts_HTMLEscape.required_vo: gen/Facts_HTMLEscape.v 
gen/Facts_HTMLEscape.vio: gen/Facts_HTMLEscape.v 
gen/Facts_HTMLEscape.vos gen/Facts_HTMLEscape.vok gen/Facts_HTMLEscape.required_vos: gen/Facts_HTMLEscape.v 
gen/Facts_escapers.vo gen/Facts_escapers.glob gen/Facts_escapers.v.beautified gen/Facts_escapers.required_vo: gen/Facts_escapers.v 
gen/Facts_escapers.vio: gen/Facts_escapers.v 
gen/Facts_escapers.vos gen/Facts_escapers.vok gen/Facts_escapers.required_vos: gen/Facts_escapers.v 
lib/AstSchema.vo lib/AstSchema.glob lib/AstSchema.v.beautified lib/AstSchema.required_vo: lib/AstSchema.v 
lib/AstSchema.vio: lib/AstSchema.v 
lib/AstSchema.vos lib/AstSchema.vok lib/AstSchema.required_vos: lib/AstSchema.v 
lib/Bytes.vo lib/Bytes.glob lib/Bytes.v.beautified lib/Bytes.required_vo: lib/Bytes.v 
lib/Bytes.vio: lib/Bytes.v 
lib/Bytes.vos lib/Bytes.vok lib/Bytes.required_vos: lib/Bytes.v 
lib/Utf8.vo lib/Utf8.glob lib/Utf8.v.beautified lib/Utf8.required_vo: lib/Utf8.v lib/Bytes.vo
lib/Utf8.vio: lib/Utf8.v lib/Bytes.vio
lib/Utf8.vos lib/Utf8.vok lib/Utf8.required_vos: lib/Utf8.v lib/Bytes.vos
model/AstTreeInst.vo model/AstTreeInst.glob model/AstTreeInst.v.beautified model/AstTreeInst.required_vo: model/AstTreeInst.v lib/Bytes.vo lib/AstSchema.vo gen/Facts_Ast.vo model/AstTreeM.vo model/AstTreeSpec.vo
model/AstTreeInst.vio: model/AstTreeInst.v lib/Bytes.vio lib/AstSchema.vio gen/Facts_Ast.vio model/AstTreeM.vio model/AstTreeSpec.vio
model/AstTreeInst.vos model/AstTreeInst.vok model/AstTreeInst.required_vos: model/AstTreeInst.v lib/Bytes.vos lib/AstSchema.vos gen/Facts_Ast.vos model/AstTreeM.vos model/AstTreeSpec.vos
model/AstTreeM.vo model/AstTreeM.glob model/AstTreeM.v.beautified model/AstTreeM.required_vo: model/AstTreeM.v lib/Bytes.vo lib/AstSchema.vo gen/Facts_Ast.vo
model/AstTreeM.vio: model/AstTreeM.v lib/Bytes.vio lib/AstSchema.vio gen/Facts_Ast.vio
model/AstTreeM.vos model/AstTreeM.vok model/AstTreeM.required_vos: model/AstTreeM.v lib/Bytes.vos lib/AstSchema.vos gen/Facts_Ast.vos
model/AstTreeSpec.vo model/AstTreeSpec.glob model/AstTreeSpec.v.beautified model/AstTreeSpec.required_vo: model/AstTreeSpec.v lib/Bytes.vo lib/AstSchema.vo model/AstTreeM.vo
model/AstTreeSpec.vio: model/AstTreeSpec.v lib/Bytes.vio lib/AstSchema.vio model/AstTreeM.vio
model/AstTreeSpec.vos model/AstTreeSpec.vok model/AstTreeSpec.required_vos: model/AstTreeSpec.v lib/Bytes.vos lib/AstSchema.vos model/AstTreeM.vos
model/ExprPrintParseInst.vo model/ExprPrintParseInst.glob model/ExprPrintParseInst.v.beautified model/ExprPrintParseInst.required_vo: model/ExprPrintParseInst.v lib/Bytes.vo gen/Facts_AstOps.vo model/ExprPrintParseM.vo
model/ExprPrintParseInst.vio: model/ExprPrintParseInst.v lib/Bytes.vio gen/Facts_AstOps.vio model/ExprPrintParseM.vio
model/ExprPrintParseInst.vos model/ExprPrintParseInst.vok model/ExprPrintParseInst.required_vos: model/ExprPrintParseInst.v lib/Bytes.vos gen/Facts_AstOps.vos model/ExprPrintParseM.vos
model/ExprPrintParseM.vo model/ExprPrintParseM.glob model/ExprPrintParseM.v.beautified model/ExprPrintParseM.required_vo: model/ExprPrintParseM.v lib/Bytes.vo
model/ExprPrintParseM.vio: model/ExprPrintParseM.v lib/Bytes.vio
model/ExprPrintParseM.vos model/ExprPrintParseM.vok model/ExprPrintParseM.required_vos: model/ExprPrintParseM.v lib/Bytes.vos
model/HTMLEscapeM.vo model/HTMLEscapeM.glob model/HTMLEscapeM.v.beautified model/HTMLEscapeM.required_vo: model/HTMLEscapeM.v lib/Bytes.vo gen/Facts_HTMLEscape.vo
model/HTMLEscapeM.vio: model/HTMLEscapeM.v lib/Bytes.vio gen/Facts_HTMLEscape.vio
model/HTMLEscapeM.vos model/HTMLEscapeM.vok model/HTMLEscapeM.required_vos: model/HTMLEscapeM.v lib/Bytes.vos gen/Facts_HTMLEscape.vos
model/HtmlDecode.vo model/HtmlDecode.glob model/HtmlDecode.v.beautified model/HtmlDecode.required_vo: model/HtmlDecode.v lib/Bytes.vo lib/Utf8.vo
model/HtmlDecode.vio: model/HtmlDecode.v lib/Bytes.vio lib/Utf8.vio
model/HtmlDecode.vos model/HtmlDecode.vok model/HtmlDecode.required_vos: model/HtmlDecode.v lib/Bytes.vos lib/Utf8.vos
proofs/AstTree_base.vo proofs/AstTree_base.glob proofs/AstTree_base.v.beautified proofs/AstTree_base.required_vo: proofs/AstTree_base.v lib/Bytes.vo lib/AstSchema.vo model/AstTreeM.vo model/AstTreeSpec.vo
proofs/AstTree_base.vio: proofs/AstTree_base.v lib/Bytes.vio lib/AstSchema.vio model/AstTreeM.vio model/AstTreeSpec.vio
proofs/AstTree_base.vos proofs/AstTree_base.vok proofs/AstTree_base.required_vos: proofs/AstTree_base.v lib/Bytes.vos lib/AstSchema.vos model/AstTreeM.vos model/AstTreeSpec.vos
proofs/AstTree_clone.vo proofs/AstTree_clone.glob proofs/AstTree_clone.v.beautified proofs/AstTree_clone.required_vo: proofs/AstTree_clone.v lib/Bytes.vo lib/AstSchema.vo model/AstTreeM.vo model/AstTreeSpec.vo proofs/AstTree_base.vo
proofs/AstTree_clone.vio: proofs/AstTree_clone.v lib/Bytes.vio lib/AstSchema.vio model/AstTreeM.vio model/AstTreeSpec.vio proofs/AstTree_base.vio
proofs/AstTree_clone.vos proofs/AstTree_clone.vok proofs/AstTree_clone.required_vos: proofs/AstTree_clone.v lib/Bytes.vos lib/AstSchema.vos model/AstTreeM.vos model/AstTreeSpec.vos proofs/AstTree_base.vos
proofs/AstTree_inst_proofs.vo proofs/AstTree_inst_proofs.glob proofs/AstTree_inst_proofs.v.beautified proofs/AstTree_inst_proofs.required_vo: proofs/AstTree_inst_proofs.v lib/Bytes.vo lib/AstSchema.vo gen/Facts_Ast.vo model/AstTreeM.vo model/AstTreeSpec.vo model/AstTreeInst.vo proofs/AstTree_base.vo proofs/AstTree_clone.vo proofs/AstTree_walk.vo
proofs/AstTree_inst_proofs.vio: proofs/AstTree_inst_proofs.v lib/Bytes.vio lib/AstSchema.vio gen/Facts_Ast.vio model/AstTreeM.vio model/AstTreeSpec.vio model/AstTreeInst.vio proofs/AstTree_base.vio proofs/AstTree_clone.vio proofs/AstTree_walk.vio
proofs/AstTree_inst_proofs.vos proofs/AstTree_inst_proofs.vok proofs/AstTree_inst_proofs.required_vos: proofs/AstTree_inst_proofs.v lib/Bytes.vos lib/AstSchema.vos gen/Facts_Ast.vos model/AstTreeM.vos model/AstTreeSpec.vos model/AstTreeInst.vos proofs/AstTree_base.vos proofs/AstTree_clone.vos proofs/AstTree_walk.vos
proofs/AstTree_walk.vo proofs/AstTree_walk.glob proofs/AstTree_walk.v.beautified proofs/AstTree_walk.required_vo: proofs/AstTree_walk.v lib/Bytes.vo lib/AstSchema.vo model/AstTreeM.vo model/AstTreeSpec.vo proofs/AstTree_base.vo proofs/AstTree_clone.vo
proofs/AstTree_walk.vio: proofs/AstTree_walk.v lib/Bytes.vio lib/AstSchema.vio model/AstTreeM.vio model/AstTreeSpec.vio proofs/AstTree_base.vio proofs/AstTree_clone.vio
proofs/AstTree_walk.vos proofs/AstTree_walk.vok proofs/AstTree_walk.required_vos: proofs/AstTree_walk.v lib/Bytes.vos lib/AstSchema.vos model/AstTreeM.vos model/AstTreeSpec.vos proofs/AstTree_base.vos proofs/AstTree_clone.vos
proofs/ExprPrintParse_proofs.vo proofs/ExprPrintParse_proofs.glob proofs/ExprPrintParse_proofs.v.beautified proofs/ExprPrintParse_proofs.required_vo: proofs/ExprPrintParse_proofs.v lib/Bytes.vo model/ExprPrintParseM.vo proofs/AstTree_base.vo
proofs/ExprPrintParse_proofs.vio: proofs/ExprPrintParse_proofs.v lib/Bytes.vio model/ExprPrintParseM.vio proofs/AstTree_base.vio
proofs/ExprPrintParse_proofs.vos proofs/ExprPrintParse_proofs.vok proofs/ExprPrintParse_proofs.required_vos: proofs/ExprPrintParse_proofs.v lib/Bytes.vos model/ExprPrintParseM.vos proofs/AstTree_base.vos
proofs/HTMLEscape_proofs.vo proofs/HTMLEscape_proofs.glob proofs/HTMLEscape_proofs.v.beautified proofs/HTMLEscape_proofs.required_vo: proofs/HTMLEscape_proofs.v lib/Bytes.vo gen/Facts_HTMLEscape.vo model/HTMLEscapeM.vo lib/Utf8.vo model/HtmlDecode.vo proofs/HtmlDecode_proofs.vo
proofs/HTMLEscape_proofs.vio: proofs/HTMLEscape_proofs.v lib/Bytes.vio gen/Facts_HTMLEscape.vio model/HTMLEscapeM.vio lib/Utf8.vio model/HtmlDecode.vio proofs/HtmlDecode_proofs.vio
proofs/HTMLEscape_proofs.vos proofs/HTMLEscape_proofs.vok proofs/HTMLEscape_proofs.required_vos: proofs/HTMLEscape_proofs.v lib/Bytes.vos gen/Facts_HTMLEscape.vos model/HTMLEscapeM.vos lib/Utf8.vos model/HtmlDecode.vos proofs/HtmlDecode_proofs.vos
proofs/HtmlDecode_proofs.vo proofs/HtmlDecode_proofs.glob proofs/HtmlDecode_proofs.v.beautified proofs/HtmlDecode_proofs.required_vo: proofs/HtmlDecode_proofs.v lib/Bytes.vo lib/Utf8.vo model/HtmlDecode.vo
proofs/HtmlDecode_proofs.vio: proofs/HtmlDecode_proofs.v lib/Bytes.vio lib/Utf8.vio model/HtmlDecode.vio
proofs/HtmlDecode_proofs.vos proofs/HtmlDecode_proofs.vok proofs/HtmlDecode_proofs.required_vos: proofs/HtmlDecode_proofs.v lib/Bytes.vos lib/Utf8.vos model/HtmlDecode.vos
props/C24.vo props/C24.glob props/C24.v.beautified props/C24.required_vo: props/C24.v lib/Bytes.vo gen/Facts_HTMLEscape.vo model/HTMLEscapeM.vo model/HtmlDecode.vo proofs/HTMLEscape_proofs.vo
props/C24.vio: props/C24.v lib/Bytes.vio gen/Facts_HTMLEscape.vio model/HTMLEscapeM.vio model/HtmlDecode.vio proofs/HTMLEscape_proofs.vio
props/C24.vos props/C24.vok props/C24.required_vos: props/C24.v lib/Bytes.vos gen/Facts_HTMLEscape.vos model/HTMLEscapeM.vos model/HtmlDecode.vos proofs/HTMLEscape_proofs.vos
props/C27.vo props/C27.glob props/C27.v.beautified props/C27.required_vo: props/C27.v lib/Bytes.vo gen/Facts_AstOps.vo model/ExprPrintParseM.vo model/ExprPrintParseInst.vo proofs/ExprPrintParse_proofs.vo
props/C27.vio: props/C27.v lib/Bytes.vio gen/Facts_AstOps.vio model/ExprPrintParseM.vio model/ExprPrintParseInst.vio proofs/ExprPrintParse_proofs.vio
props/C27.vos props/C27.vok props/C27.required_vos: props/C27.v lib/Bytes.vos gen/Facts_AstOps.vos model/ExprPrintParseM.vos model/ExprPrintParseInst.vos proofs/ExprPrintParse_proofs.vos
props/C28.vo props/C28.glob props/C28.v.beautified props/C28.required_vo: props/C28.v lib/Bytes.vo lib/AstSchema.vo gen/Facts_Ast.vo model/AstTreeM.vo model/AstTreeSpec.vo model/AstTreeInst.vo proofs/AstTree_inst_proofs.vo
props/C28.vio: props/C28.v lib/Bytes.vio lib/AstSchema.vio gen/Facts_Ast.vio model/AstTreeM.vio model/AstTreeSpec.vio model/AstTreeInst.vio proofs/AstTree_inst_proofs.vio
props/C28.vos props/C28.vok props/C28.required_vos: props/C28.v lib/Bytes.vos lib/AstSchema.vos gen/Facts_Ast.vos model/AstTreeM.vos model/AstTreeSpec.vos model/AstTreeInst.vos proofs/AstTree_inst_proofs.vos
