gen/Facts_HTMLEscape.vo gen/Facts_HTMLEscape.glob gen/Facts_HTMLEscape.v.beautified gen/Facts_HTMLEscape.required_vo: gen/Facts_HTMLEscape.v 
gen/Facts_HTMLEscape.vio: gen/Facts_HTMLEscape.v 
gen/Facts_HTMLEscape.vos gen/Facts_HTMLEscape.vok gen/Facts_HTMLEscape.required_vos: gen/Facts_HTMLEscape.v 
gen/Facts_escapers.vo gen/Facts_escapers.glob gen/Facts_escapers.v.beautified gen/Facts_escapers.required_vo: gen/Facts_escapers.v 
gen/Facts_escapers.vio: gen/Facts_escapers.v 
gen/Facts_escapers.vos gen/Facts_escapers.vok gen/Facts_escapers.required_vos: gen/Facts_escapers.v 
gen/Facts_render.vo gen/Facts_render.glob gen/Facts_render.v.beautified gen/Facts_render.required_vo: gen/Facts_render.v 
gen/Facts_render.vio: gen/Facts_render.v 
gen/Facts_render.vos gen/Facts_render.vok gen/Facts_render.required_vos: gen/Facts_render.v 
lib/Bytes.vo lib/Bytes.glob lib/Bytes.v.beautified lib/Bytes.required_vo: lib/Bytes.v 
lib/Bytes.vio: lib/Bytes.v 
lib/Bytes.vos lib/Bytes.vok lib/Bytes.required_vos: lib/Bytes.v 
lib/Utf8.vo lib/Utf8.glob lib/Utf8.v.beautified lib/Utf8.required_vo: lib/Utf8.v lib/Bytes.vo
lib/Utf8.vio: lib/Utf8.v lib/Bytes.vio
lib/Utf8.vos lib/Utf8.vok lib/Utf8.required_vos: lib/Utf8.v lib/Bytes.vos
model/HTMLEscapeM.vo model/HTMLEscapeM.glob model/HTMLEscapeM.v.beautified model/HTMLEscapeM.required_vo: model/HTMLEscapeM.v lib/Bytes.vo gen/Facts_HTMLEscape.vo
model/HTMLEscapeM.vio: model/HTMLEscapeM.v lib/Bytes.vio gen/Facts_HTMLEscape.vio
model/HTMLEscapeM.vos model/HTMLEscapeM.vok model/HTMLEscapeM.required_vos: model/HTMLEscapeM.v lib/Bytes.vos gen/Facts_HTMLEscape.vos
model/HtmlDecode.vo model/HtmlDecode.glob model/HtmlDecode.v.beautified model/HtmlDecode.required_vo: model/HtmlDecode.v lib/Bytes.vo lib/Utf8.vo
model/HtmlDecode.vio: model/HtmlDecode.v lib/Bytes.vio lib/Utf8.vio
model/HtmlDecode.vos model/HtmlDecode.vok model/HtmlDecode.required_vos: model/HtmlDecode.v lib/Bytes.vos lib/Utf8.vos
model/RendererM.vo model/RendererM.glob model/RendererM.v.beautified model/RendererM.required_vo: model/RendererM.v lib/Bytes.vo gen/Facts_render.vo
model/RendererM.vio: model/RendererM.v lib/Bytes.vio gen/Facts_render.vio
model/RendererM.vos model/RendererM.vok model/RendererM.required_vos: model/RendererM.v lib/Bytes.vos gen/Facts_render.vos
model/RunLoopM.vo model/RunLoopM.glob model/RunLoopM.v.beautified model/RunLoopM.required_vo: model/RunLoopM.v lib/Bytes.vo gen/Facts_render.vo
model/RunLoopM.vio: model/RunLoopM.v lib/Bytes.vio gen/Facts_render.vio
model/RunLoopM.vos model/RunLoopM.vok model/RunLoopM.required_vos: model/RunLoopM.v lib/Bytes.vos gen/Facts_render.vos
model/TCalcM.vo model/TCalcM.glob model/TCalcM.v.beautified model/TCalcM.required_vo: model/TCalcM.v lib/Bytes.vo gen/Facts_render.vo model/RendererM.vo
model/TCalcM.vio: model/TCalcM.v lib/Bytes.vio gen/Facts_render.vio model/RendererM.vio
model/TCalcM.vos model/TCalcM.vok model/TCalcM.required_vos: model/TCalcM.v lib/Bytes.vos gen/Facts_render.vos model/RendererM.vos
model/TSrcM.vo model/TSrcM.glob model/TSrcM.v.beautified model/TSrcM.required_vo: model/TSrcM.v lib/Bytes.vo gen/Facts_render.vo gen/Facts_escapers.vo model/RendererM.vo model/TCalcM.vo
model/TSrcM.vio: model/TSrcM.v lib/Bytes.vio gen/Facts_render.vio gen/Facts_escapers.vio model/RendererM.vio model/TCalcM.vio
model/TSrcM.vos model/TSrcM.vok model/TSrcM.required_vos: model/TSrcM.v lib/Bytes.vos gen/Facts_render.vos gen/Facts_escapers.vos model/RendererM.vos model/TCalcM.vos
proofs/HTMLEscape_proofs.vo proofs/HTMLEscape_proofs.glob proofs/HTMLEscape_proofs.v.beautified proofs/HTMLEscape_proofs.required_vo: proofs/HTMLEscape_proofs.v lib/Bytes.vo gen/Facts_HTMLEscape.vo model/HTMLEscapeM.vo lib/Utf8.vo model/HtmlDecode.vo proofs/HtmlDecode_proofs.vo
proofs/HTMLEscape_proofs.vio: proofs/HTMLEscape_proofs.v lib/Bytes.vio gen/Facts_HTMLEscape.vio model/HTMLEscapeM.vio lib/Utf8.vio model/HtmlDecode.vio proofs/HtmlDecode_proofs.vio
proofs/HTMLEscape_proofs.vos proofs/HTMLEscape_proofs.vok proofs/HTMLEscape_proofs.required_vos: proofs/HTMLEscape_proofs.v lib/Bytes.vos gen/Facts_HTMLEscape.vos model/HTMLEscapeM.vos lib/Utf8.vos model/HtmlDecode.vos proofs/HtmlDecode_proofs.vos
proofs/HtmlDecode_proofs.vo proofs/HtmlDecode_proofs.glob proofs/HtmlDecode_proofs.v.beautified proofs/HtmlDecode_proofs.required_vo: proofs/HtmlDecode_proofs.v lib/Bytes.vo lib/Utf8.vo model/HtmlDecode.vo
proofs/HtmlDecode_proofs.vio: proofs/HtmlDecode_proofs.v lib/Bytes.vio lib/Utf8.vio model/HtmlDecode.vio
proofs/HtmlDecode_proofs.vos proofs/HtmlDecode_proofs.vok proofs/HtmlDecode_proofs.required_vos: proofs/HtmlDecode_proofs.v lib/Bytes.vos lib/Utf8.vos model/HtmlDecode.vos
proofs/Renderer_proofs.vo proofs/Renderer_proofs.glob proofs/Renderer_proofs.v.beautified proofs/Renderer_proofs.required_vo: proofs/Renderer_proofs.v lib/Bytes.vo gen/Facts_render.vo model/RendererM.vo
proofs/Renderer_proofs.vio: proofs/Renderer_proofs.v lib/Bytes.vio gen/Facts_render.vio model/RendererM.vio
proofs/Renderer_proofs.vos proofs/Renderer_proofs.vok proofs/Renderer_proofs.required_vos: proofs/Renderer_proofs.v lib/Bytes.vos gen/Facts_render.vos model/RendererM.vos
proofs/RunLoop_proofs.vo proofs/RunLoop_proofs.glob proofs/RunLoop_proofs.v.beautified proofs/RunLoop_proofs.required_vo: proofs/RunLoop_proofs.v lib/Bytes.vo gen/Facts_render.vo model/RunLoopM.vo
proofs/RunLoop_proofs.vio: proofs/RunLoop_proofs.v lib/Bytes.vio gen/Facts_render.vio model/RunLoopM.vio
proofs/RunLoop_proofs.vos proofs/RunLoop_proofs.vok proofs/RunLoop_proofs.required_vos: proofs/RunLoop_proofs.v lib/Bytes.vos gen/Facts_render.vos model/RunLoopM.vos
proofs/TCalc_proofs.vo proofs/TCalc_proofs.glob proofs/TCalc_proofs.v.beautified proofs/TCalc_proofs.required_vo: proofs/TCalc_proofs.v lib/Bytes.vo gen/Facts_render.vo model/RendererM.vo proofs/Renderer_proofs.vo model/TCalcM.vo
proofs/TCalc_proofs.vio: proofs/TCalc_proofs.v lib/Bytes.vio gen/Facts_render.vio model/RendererM.vio proofs/Renderer_proofs.vio model/TCalcM.vio
proofs/TCalc_proofs.vos proofs/TCalc_proofs.vok proofs/TCalc_proofs.required_vos: proofs/TCalc_proofs.v lib/Bytes.vos gen/Facts_render.vos model/RendererM.vos proofs/Renderer_proofs.vos model/TCalcM.vos
proofs/TSrcImport_proofs.vo proofs/TSrcImport_proofs.glob proofs/TSrcImport_proofs.v.beautified proofs/TSrcImport_proofs.required_vo: proofs/TSrcImport_proofs.v lib/Bytes.vo gen/Facts_render.vo gen/Facts_escapers.vo model/RendererM.vo model/TCalcM.vo model/TSrcM.vo proofs/TSrc_proofs.vo
proofs/TSrcImport_proofs.vio: proofs/TSrcImport_proofs.v lib/Bytes.vio gen/Facts_render.vio gen/Facts_escapers.vio model/RendererM.vio model/TCalcM.vio model/TSrcM.vio proofs/TSrc_proofs.vio
proofs/TSrcImport_proofs.vos proofs/TSrcImport_proofs.vok proofs/TSrcImport_proofs.required_vos: proofs/TSrcImport_proofs.v lib/Bytes.vos gen/Facts_render.vos gen/Facts_escapers.vos model/RendererM.vos model/TCalcM.vos model/TSrcM.vos proofs/TSrc_proofs.vos
proofs/TSrc_proofs.vo proofs/TSrc_proofs.glob proofs/TSrc_proofs.v.beautified proofs/TSrc_proofs.required_vo: proofs/TSrc_proofs.v lib/Bytes.vo gen/Facts_render.vo gen/Facts_escapers.vo model/RendererM.vo proofs/Renderer_proofs.vo model/TCalcM.vo proofs/TCalc_proofs.vo model/TSrcM.vo
proofs/TSrc_proofs.vio: proofs/TSrc_proofs.v lib/Bytes.vio gen/Facts_render.vio gen/Facts_escapers.vio model/RendererM.vio proofs/Renderer_proofs.vio model/TCalcM.vio proofs/TCalc_proofs.vio model/TSrcM.vio
proofs/TSrc_proofs.vos proofs/TSrc_proofs.vok proofs/TSrc_proofs.required_vos: proofs/TSrc_proofs.v lib/Bytes.vos gen/Facts_render.vos gen/Facts_escapers.vos model/RendererM.vos proofs/Renderer_proofs.vos model/TCalcM.vos proofs/TCalc_proofs.vos model/TSrcM.vos
props/C05.vo props/C05.glob props/C05.v.beautified props/C05.required_vo: props/C05.v lib/Bytes.vo gen/Facts_render.vo model/RendererM.vo proofs/Renderer_proofs.vo model/RunLoopM.vo proofs/RunLoop_proofs.vo
props/C05.vio: props/C05.v lib/Bytes.vio gen/Facts_render.vio model/RendererM.vio proofs/Renderer_proofs.vio model/RunLoopM.vio proofs/RunLoop_proofs.vio
props/C05.vos props/C05.vok props/C05.required_vos: props/C05.v lib/Bytes.vos gen/Facts_render.vos model/RendererM.vos proofs/Renderer_proofs.vos model/RunLoopM.vos proofs/RunLoop_proofs.vos
props/C13.vo props/C13.glob props/C13.v.beautified props/C13.required_vo: props/C13.v lib/Bytes.vo gen/Facts_render.vo model/RendererM.vo model/TCalcM.vo proofs/TCalc_proofs.vo
props/C13.vio: props/C13.v lib/Bytes.vio gen/Facts_render.vio model/RendererM.vio model/TCalcM.vio proofs/TCalc_proofs.vio
props/C13.vos props/C13.vok props/C13.required_vos: props/C13.v lib/Bytes.vos gen/Facts_render.vos model/RendererM.vos model/TCalcM.vos proofs/TCalc_proofs.vos
props/C16.vo props/C16.glob props/C16.v.beautified props/C16.required_vo: props/C16.v lib/Bytes.vo gen/Facts_render.vo gen/Facts_escapers.vo model/RendererM.vo proofs/Renderer_proofs.vo model/TCalcM.vo proofs/TCalc_proofs.vo model/TSrcM.vo proofs/TSrc_proofs.vo proofs/TSrcImport_proofs.vo
props/C16.vio: props/C16.v lib/Bytes.vio gen/Facts_render.vio gen/Facts_escapers.vio model/RendererM.vio proofs/Renderer_proofs.vio model/TCalcM.vio proofs/TCalc_proofs.vio model/TSrcM.vio proofs/TSrc_proofs.vio proofs/TSrcImport_proofs.vio
props/C16.vos props/C16.vok props/C16.required_vos: props/C16.v lib/Bytes.vos gen/Facts_render.vos gen/Facts_escapers.vos model/RendererM.vos proofs/Renderer_proofs.vos model/TCalcM.vos proofs/TCalc_proofs.vos model/TSrcM.vos proofs/TSrc_proofs.vos proofs/TSrcImport_proofs.vos
props/C24.vo props/C24.glob props/C24.v.beautified props/C24.required_vo: props/C24.v lib/Bytes.vo gen/Facts_HTMLEscape.vo model/HTMLEscapeM.vo model/HtmlDecode.vo proofs/HTMLEscape_proofs.vo
props/C24.vio: props/C24.v lib/Bytes.vio gen/Facts_HTMLEscape.vio model/HTMLEscapeM.vio model/HtmlDecode.vio proofs/HTMLEscape_proofs.vio
props/C24.vos props/C24.vok props/C24.required_vos: props/C24.v lib/Bytes.vos gen/Facts_HTMLEscape.vos model/HTMLEscapeM.vos model/HtmlDecode.vos proofs/HTMLEscape_proofs.vos
