gen/Facts_HTMLEscape.vo gen/Facts_HTMLEscape.glob gen/Facts_HTMLEscape.v.beautified gen/Facts_HTMLEscape.required_vo: gen/Facts_HTMLEscape.v 
gen/Facts_HTMLEscape.vio: gen/Facts_HTMLEscape.v 
gen/Facts_HTMLEscape.vos gen/Facts_HTMLEscape.vok gen/Facts_HTMLEscape.required_vos: gen/Facts_HTMLEscape.v 
gen/Facts_escapers.vo gen/Facts_escapers.glob gen/Facts_escapers.v.beautified gen/Facts_escapers.required_vo: gen/Facts_escapers.v 
gen/Facts_escapers.vio: gen/Facts_escapers.v 
gen/Facts_escapers.vos gen/Facts_escapers.vok gen/Facts_escapers.required_vos: gen/Facts_escapers.v 
gen/Facts_lexer.vo gen/Facts_lexer.glob gen/Facts_lexer.v.beautified gen/Facts_lexer.required_vo: gen/Facts_lexer.v 
gen/Facts_lexer.vio: gen/Facts_lexer.v 
gen/Facts_lexer.vos gen/Facts_lexer.vok gen/Facts_lexer.required_vos: gen/Facts_lexer.v 
gen/Facts_unicode.vo gen/Facts_unicode.glob gen/Facts_unicode.v.beautified gen/Facts_unicode.required_vo: gen/Facts_unicode.v 
gen/Facts_unicode.vio: gen/Facts_unicode.v 
gen/Facts_unicode.vos gen/Facts_unicode.vok gen/Facts_unicode.required_vos: gen/Facts_unicode.v 
lib/Bytes.vo lib/Bytes.glob lib/Bytes.v.beautified lib/Bytes.required_vo: lib/Bytes.v 
lib/Bytes.vio: lib/Bytes.v 
lib/Bytes.vos lib/Bytes.vok lib/Bytes.required_vos: lib/Bytes.v 
lib/Utf8.vo lib/Utf8.glob lib/Utf8.v.beautified lib/Utf8.required_vo: lib/Utf8.v lib/Bytes.vo
lib/Utf8.vio: lib/Utf8.v lib/Bytes.vio
lib/Utf8.vos lib/Utf8.vok lib/Utf8.required_vos: lib/Utf8.v lib/Bytes.vos
model/CutM.vo model/CutM.glob model/CutM.v.beautified model/CutM.required_vo: model/CutM.v lib/Bytes.vo lib/Utf8.vo gen/Facts_lexer.vo model/LexBase.vo model/LexCodeM.vo model/LexerM.vo model/LexTables.vo
model/CutM.vio: model/CutM.v lib/Bytes.vio lib/Utf8.vio gen/Facts_lexer.vio model/LexBase.vio model/LexCodeM.vio model/LexerM.vio model/LexTables.vio
model/CutM.vos model/CutM.vok model/CutM.required_vos: model/CutM.v lib/Bytes.vos lib/Utf8.vos gen/Facts_lexer.vos model/LexBase.vos model/LexCodeM.vos model/LexerM.vos model/LexTables.vos
model/CutSpec.vo model/CutSpec.glob model/CutSpec.v.beautified model/CutSpec.required_vo: model/CutSpec.v lib/Bytes.vo lib/Utf8.vo gen/Facts_lexer.vo model/LexBase.vo model/LexCodeM.vo model/LexerM.vo model/LexTables.vo model/LexPos.vo model/CutM.vo
model/CutSpec.vio: model/CutSpec.v lib/Bytes.vio lib/Utf8.vio gen/Facts_lexer.vio model/LexBase.vio model/LexCodeM.vio model/LexerM.vio model/LexTables.vio model/LexPos.vio model/CutM.vio
model/CutSpec.vos model/CutSpec.vok model/CutSpec.required_vos: model/CutSpec.v lib/Bytes.vos lib/Utf8.vos gen/Facts_lexer.vos model/LexBase.vos model/LexCodeM.vos model/LexerM.vos model/LexTables.vos model/LexPos.vos model/CutM.vos
model/HTMLEscapeM.vo model/HTMLEscapeM.glob model/HTMLEscapeM.v.beautified model/HTMLEscapeM.required_vo: model/HTMLEscapeM.v lib/Bytes.vo gen/Facts_HTMLEscape.vo
model/HTMLEscapeM.vio: model/HTMLEscapeM.v lib/Bytes.vio gen/Facts_HTMLEscape.vio
model/HTMLEscapeM.vos model/HTMLEscapeM.vok model/HTMLEscapeM.required_vos: model/HTMLEscapeM.v lib/Bytes.vos gen/Facts_HTMLEscape.vos
model/HtmlDecode.vo model/HtmlDecode.glob model/HtmlDecode.v.beautified model/HtmlDecode.required_vo: model/HtmlDecode.v lib/Bytes.vo lib/Utf8.vo
model/HtmlDecode.vio: model/HtmlDecode.v lib/Bytes.vio lib/Utf8.vio
model/HtmlDecode.vos model/HtmlDecode.vok model/HtmlDecode.required_vos: model/HtmlDecode.v lib/Bytes.vos lib/Utf8.vos
model/LexBase.vo model/LexBase.glob model/LexBase.v.beautified model/LexBase.required_vo: model/LexBase.v lib/Bytes.vo lib/Utf8.vo gen/Facts_lexer.vo
model/LexBase.vio: model/LexBase.v lib/Bytes.vio lib/Utf8.vio gen/Facts_lexer.vio
model/LexBase.vos model/LexBase.vok model/LexBase.required_vos: model/LexBase.v lib/Bytes.vos lib/Utf8.vos gen/Facts_lexer.vos
model/LexCodeM.vo model/LexCodeM.glob model/LexCodeM.v.beautified model/LexCodeM.required_vo: model/LexCodeM.v lib/Bytes.vo lib/Utf8.vo gen/Facts_lexer.vo model/LexBase.vo
model/LexCodeM.vio: model/LexCodeM.v lib/Bytes.vio lib/Utf8.vio gen/Facts_lexer.vio model/LexBase.vio
model/LexCodeM.vos model/LexCodeM.vok model/LexCodeM.required_vos: model/LexCodeM.v lib/Bytes.vos lib/Utf8.vos gen/Facts_lexer.vos model/LexBase.vos
model/LexPos.vo model/LexPos.glob model/LexPos.v.beautified model/LexPos.required_vo: model/LexPos.v lib/Bytes.vo lib/Utf8.vo gen/Facts_lexer.vo model/LexBase.vo model/LexCodeM.vo model/LexerM.vo model/LexTables.vo
model/LexPos.vio: model/LexPos.v lib/Bytes.vio lib/Utf8.vio gen/Facts_lexer.vio model/LexBase.vio model/LexCodeM.vio model/LexerM.vio model/LexTables.vio
model/LexPos.vos model/LexPos.vok model/LexPos.required_vos: model/LexPos.v lib/Bytes.vos lib/Utf8.vos gen/Facts_lexer.vos model/LexBase.vos model/LexCodeM.vos model/LexerM.vos model/LexTables.vos
model/LexTables.vo model/LexTables.glob model/LexTables.v.beautified model/LexTables.required_vo: model/LexTables.v lib/Bytes.vo lib/Utf8.vo gen/Facts_lexer.vo gen/Facts_unicode.vo model/LexBase.vo model/LexCodeM.vo model/LexerM.vo
model/LexTables.vio: model/LexTables.v lib/Bytes.vio lib/Utf8.vio gen/Facts_lexer.vio gen/Facts_unicode.vio model/LexBase.vio model/LexCodeM.vio model/LexerM.vio
model/LexTables.vos model/LexTables.vok model/LexTables.required_vos: model/LexTables.v lib/Bytes.vos lib/Utf8.vos gen/Facts_lexer.vos gen/Facts_unicode.vos model/LexBase.vos model/LexCodeM.vos model/LexerM.vos
model/LexerM.vo model/LexerM.glob model/LexerM.v.beautified model/LexerM.required_vo: model/LexerM.v lib/Bytes.vo lib/Utf8.vo gen/Facts_lexer.vo model/LexBase.vo model/LexCodeM.vo
model/LexerM.vio: model/LexerM.v lib/Bytes.vio lib/Utf8.vio gen/Facts_lexer.vio model/LexBase.vio model/LexCodeM.vio
model/LexerM.vos model/LexerM.vok model/LexerM.required_vos: model/LexerM.v lib/Bytes.vos lib/Utf8.vos gen/Facts_lexer.vos model/LexBase.vos model/LexCodeM.vos
proofs/Cut_proofs.vo proofs/Cut_proofs.glob proofs/Cut_proofs.v.beautified proofs/Cut_proofs.required_vo: proofs/Cut_proofs.v lib/Bytes.vo lib/Utf8.vo gen/Facts_lexer.vo model/LexBase.vo model/LexCodeM.vo model/LexerM.vo model/LexTables.vo model/CutM.vo proofs/LexBase_proofs.vo
proofs/Cut_proofs.vio: proofs/Cut_proofs.v lib/Bytes.vio lib/Utf8.vio gen/Facts_lexer.vio model/LexBase.vio model/LexCodeM.vio model/LexerM.vio model/LexTables.vio model/CutM.vio proofs/LexBase_proofs.vio
proofs/Cut_proofs.vos proofs/Cut_proofs.vok proofs/Cut_proofs.required_vos: proofs/Cut_proofs.v lib/Bytes.vos lib/Utf8.vos gen/Facts_lexer.vos model/LexBase.vos model/LexCodeM.vos model/LexerM.vos model/LexTables.vos model/CutM.vos proofs/LexBase_proofs.vos
proofs/HTMLEscape_proofs.vo proofs/HTMLEscape_proofs.glob proofs/HTMLEscape_proofs.v.beautified proofs/HTMLEscape_proofs.required_vo: proofs/HTMLEscape_proofs.v lib/Bytes.vo gen/Facts_HTMLEscape.vo model/HTMLEscapeM.vo lib/Utf8.vo model/HtmlDecode.vo proofs/HtmlDecode_proofs.vo
proofs/HTMLEscape_proofs.vio: proofs/HTMLEscape_proofs.v lib/Bytes.vio gen/Facts_HTMLEscape.vio model/HTMLEscapeM.vio lib/Utf8.vio model/HtmlDecode.vio proofs/HtmlDecode_proofs.vio
proofs/HTMLEscape_proofs.vos proofs/HTMLEscape_proofs.vok proofs/HTMLEscape_proofs.required_vos: proofs/HTMLEscape_proofs.v lib/Bytes.vos gen/Facts_HTMLEscape.vos model/HTMLEscapeM.vos lib/Utf8.vos model/HtmlDecode.vos proofs/HtmlDecode_proofs.vos
proofs/HtmlDecode_proofs.vo proofs/HtmlDecode_proofs.glob proofs/HtmlDecode_proofs.v.beautified proofs/HtmlDecode_proofs.required_vo: proofs/HtmlDecode_proofs.v lib/Bytes.vo lib/Utf8.vo model/HtmlDecode.vo
proofs/HtmlDecode_proofs.vio: proofs/HtmlDecode_proofs.v lib/Bytes.vio lib/Utf8.vio model/HtmlDecode.vio
proofs/HtmlDecode_proofs.vos proofs/HtmlDecode_proofs.vok proofs/HtmlDecode_proofs.required_vos: proofs/HtmlDecode_proofs.v lib/Bytes.vos lib/Utf8.vos model/HtmlDecode.vos
proofs/LexBase_proofs.vo proofs/LexBase_proofs.glob proofs/LexBase_proofs.v.beautified proofs/LexBase_proofs.required_vo: proofs/LexBase_proofs.v lib/Bytes.vo lib/Utf8.vo gen/Facts_lexer.vo model/LexBase.vo
proofs/LexBase_proofs.vio: proofs/LexBase_proofs.v lib/Bytes.vio lib/Utf8.vio gen/Facts_lexer.vio model/LexBase.vio
proofs/LexBase_proofs.vos proofs/LexBase_proofs.vok proofs/LexBase_proofs.required_vos: proofs/LexBase_proofs.v lib/Bytes.vos lib/Utf8.vos gen/Facts_lexer.vos model/LexBase.vos
proofs/LexCode_proofs.vo proofs/LexCode_proofs.glob proofs/LexCode_proofs.v.beautified proofs/LexCode_proofs.required_vo: proofs/LexCode_proofs.v lib/Bytes.vo lib/Utf8.vo gen/Facts_lexer.vo model/LexBase.vo model/LexCodeM.vo proofs/LexBase_proofs.vo proofs/LexTile_proofs.vo
proofs/LexCode_proofs.vio: proofs/LexCode_proofs.v lib/Bytes.vio lib/Utf8.vio gen/Facts_lexer.vio model/LexBase.vio model/LexCodeM.vio proofs/LexBase_proofs.vio proofs/LexTile_proofs.vio
proofs/LexCode_proofs.vos proofs/LexCode_proofs.vok proofs/LexCode_proofs.required_vos: proofs/LexCode_proofs.v lib/Bytes.vos lib/Utf8.vos gen/Facts_lexer.vos model/LexBase.vos model/LexCodeM.vos proofs/LexBase_proofs.vos proofs/LexTile_proofs.vos
proofs/LexTile_proofs.vo proofs/LexTile_proofs.glob proofs/LexTile_proofs.v.beautified proofs/LexTile_proofs.required_vo: proofs/LexTile_proofs.v lib/Bytes.vo lib/Utf8.vo gen/Facts_lexer.vo model/LexBase.vo proofs/LexBase_proofs.vo
proofs/LexTile_proofs.vio: proofs/LexTile_proofs.v lib/Bytes.vio lib/Utf8.vio gen/Facts_lexer.vio model/LexBase.vio proofs/LexBase_proofs.vio
proofs/LexTile_proofs.vos proofs/LexTile_proofs.vok proofs/LexTile_proofs.required_vos: proofs/LexTile_proofs.v lib/Bytes.vos lib/Utf8.vos gen/Facts_lexer.vos model/LexBase.vos proofs/LexBase_proofs.vos
proofs/LexTop_proofs.vo proofs/LexTop_proofs.glob proofs/LexTop_proofs.v.beautified proofs/LexTop_proofs.required_vo: proofs/LexTop_proofs.v lib/Bytes.vo lib/Utf8.vo gen/Facts_lexer.vo model/LexBase.vo model/LexCodeM.vo model/LexerM.vo proofs/LexBase_proofs.vo proofs/LexTile_proofs.vo proofs/LexCode_proofs.vo proofs/Lexer_proofs.vo model/CutSpec.vo
proofs/LexTop_proofs.vio: proofs/LexTop_proofs.v lib/Bytes.vio lib/Utf8.vio gen/Facts_lexer.vio model/LexBase.vio model/LexCodeM.vio model/LexerM.vio proofs/LexBase_proofs.vio proofs/LexTile_proofs.vio proofs/LexCode_proofs.vio proofs/Lexer_proofs.vio model/CutSpec.vio
proofs/LexTop_proofs.vos proofs/LexTop_proofs.vok proofs/LexTop_proofs.required_vos: proofs/LexTop_proofs.v lib/Bytes.vos lib/Utf8.vos gen/Facts_lexer.vos model/LexBase.vos model/LexCodeM.vos model/LexerM.vos proofs/LexBase_proofs.vos proofs/LexTile_proofs.vos proofs/LexCode_proofs.vos proofs/Lexer_proofs.vos model/CutSpec.vos
proofs/Lexer_proofs.vo proofs/Lexer_proofs.glob proofs/Lexer_proofs.v.beautified proofs/Lexer_proofs.required_vo: proofs/Lexer_proofs.v lib/Bytes.vo lib/Utf8.vo gen/Facts_lexer.vo model/LexBase.vo model/LexCodeM.vo model/LexerM.vo proofs/LexBase_proofs.vo proofs/LexTile_proofs.vo proofs/LexCode_proofs.vo
proofs/Lexer_proofs.vio: proofs/Lexer_proofs.v lib/Bytes.vio lib/Utf8.vio gen/Facts_lexer.vio model/LexBase.vio model/LexCodeM.vio model/LexerM.vio proofs/LexBase_proofs.vio proofs/LexTile_proofs.vio proofs/LexCode_proofs.vio
proofs/Lexer_proofs.vos proofs/Lexer_proofs.vok proofs/Lexer_proofs.required_vos: proofs/Lexer_proofs.v lib/Bytes.vos lib/Utf8.vos gen/Facts_lexer.vos model/LexBase.vos model/LexCodeM.vos model/LexerM.vos proofs/LexBase_proofs.vos proofs/LexTile_proofs.vos proofs/LexCode_proofs.vos
props/C04.vo props/C04.glob props/C04.v.beautified props/C04.required_vo: props/C04.v lib/Bytes.vo gen/Facts_lexer.vo gen/Facts_unicode.vo model/LexBase.vo model/LexCodeM.vo model/LexerM.vo model/LexTables.vo proofs/LexBase_proofs.vo proofs/LexTile_proofs.vo proofs/LexCode_proofs.vo proofs/Lexer_proofs.vo proofs/LexTop_proofs.vo
props/C04.vio: props/C04.v lib/Bytes.vio gen/Facts_lexer.vio gen/Facts_unicode.vio model/LexBase.vio model/LexCodeM.vio model/LexerM.vio model/LexTables.vio proofs/LexBase_proofs.vio proofs/LexTile_proofs.vio proofs/LexCode_proofs.vio proofs/Lexer_proofs.vio proofs/LexTop_proofs.vio
props/C04.vos props/C04.vok props/C04.required_vos: props/C04.v lib/Bytes.vos gen/Facts_lexer.vos gen/Facts_unicode.vos model/LexBase.vos model/LexCodeM.vos model/LexerM.vos model/LexTables.vos proofs/LexBase_proofs.vos proofs/LexTile_proofs.vos proofs/LexCode_proofs.vos proofs/Lexer_proofs.vos proofs/LexTop_proofs.vos
props/C15.vo props/C15.glob props/C15.v.beautified props/C15.required_vo: props/C15.v lib/Bytes.vo gen/Facts_lexer.vo gen/Facts_unicode.vo model/LexBase.vo model/LexCodeM.vo model/LexerM.vo model/LexTables.vo model/LexPos.vo model/CutM.vo model/CutSpec.vo proofs/LexBase_proofs.vo proofs/LexTile_proofs.vo proofs/LexCode_proofs.vo proofs/Lexer_proofs.vo proofs/LexTop_proofs.vo proofs/Cut_proofs.vo
props/C15.vio: props/C15.v lib/Bytes.vio gen/Facts_lexer.vio gen/Facts_unicode.vio model/LexBase.vio model/LexCodeM.vio model/LexerM.vio model/LexTables.vio model/LexPos.vio model/CutM.vio model/CutSpec.vio proofs/LexBase_proofs.vio proofs/LexTile_proofs.vio proofs/LexCode_proofs.vio proofs/Lexer_proofs.vio proofs/LexTop_proofs.vio proofs/Cut_proofs.vio
props/C15.vos props/C15.vok props/C15.required_vos: props/C15.v lib/Bytes.vos gen/Facts_lexer.vos gen/Facts_unicode.vos model/LexBase.vos model/LexCodeM.vos model/LexerM.vos model/LexTables.vos model/LexPos.vos model/CutM.vos model/CutSpec.vos proofs/LexBase_proofs.vos proofs/LexTile_proofs.vos proofs/LexCode_proofs.vos proofs/Lexer_proofs.vos proofs/LexTop_proofs.vos proofs/Cut_proofs.vos
props/C21.vo props/C21.glob props/C21.v.beautified props/C21.required_vo: props/C21.v lib/Bytes.vo gen/Facts_lexer.vo gen/Facts_unicode.vo model/LexBase.vo model/LexCodeM.vo model/LexerM.vo model/LexTables.vo model/LexPos.vo proofs/LexBase_proofs.vo proofs/LexCode_proofs.vo proofs/Lexer_proofs.vo proofs/LexTop_proofs.vo
props/C21.vio: props/C21.v lib/Bytes.vio gen/Facts_lexer.vio gen/Facts_unicode.vio model/LexBase.vio model/LexCodeM.vio model/LexerM.vio model/LexTables.vio model/LexPos.vio proofs/LexBase_proofs.vio proofs/LexCode_proofs.vio proofs/Lexer_proofs.vio proofs/LexTop_proofs.vio
props/C21.vos props/C21.vok props/C21.required_vos: props/C21.v lib/Bytes.vos gen/Facts_lexer.vos gen/Facts_unicode.vos model/LexBase.vos model/LexCodeM.vos model/LexerM.vos model/LexTables.vos model/LexPos.vos proofs/LexBase_proofs.vos proofs/LexCode_proofs.vos proofs/Lexer_proofs.vos proofs/LexTop_proofs.vos
props/C24.vo props/C24.glob props/C24.v.beautified props/C24.required_vo: props/C24.v lib/Bytes.vo gen/Facts_HTMLEscape.vo model/HTMLEscapeM.vo model/HtmlDecode.vo proofs/HTMLEscape_proofs.vo
props/C24.vio: props/C24.v lib/Bytes.vio gen/Facts_HTMLEscape.vio model/HTMLEscapeM.vio model/HtmlDecode.vio proofs/HTMLEscape_proofs.vio
props/C24.vos props/C24.vok props/C24.required_vos: props/C24.v lib/Bytes.vos gen/Facts_HTMLEscape.vos model/HTMLEscapeM.vos model/HtmlDecode.vos proofs/HTMLEscape_proofs.vos
