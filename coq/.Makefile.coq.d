gen/Facts_HTMLEscape.vo gen/Facts_HTMLEscape.glob gen/Facts_HTMLEscape.v.beautified gen/Facts_HTMLEscape.required_vo: gen/Facts_HTMLEscape.v 
gen/Facts_HTMLEscape.vio: gen/Facts_HTMLEscape.v 
gen/Facts_HTMLEscape.vos gen/Facts_HTMLEscape.vok gen/Facts_HTMLEscape.required_vos: gen/Facts_HTMLEscape.v 
gen/Facts_escapers.vo gen/Facts_escapers.glob gen/Facts_escapers.v.beautified gen/Facts_escapers.required_vo: gen/Facts_escapers.v 
gen/Facts_escapers.vio: gen/Facts_escapers.v 
gen/Facts_escapers.vos gen/Facts_escapers.vok gen/Facts_escapers.required_vos: gen/Facts_escapers.v 
gen/Facts_vm.vo gen/Facts_vm.glob gen/Facts_vm.v.beautified gen/Facts_vm.required_vo: gen/Facts_vm.v 
gen/Facts_vm.vio: gen/Facts_vm.v 
gen/Facts_vm.vos gen/Facts_vm.vok gen/Facts_vm.required_vos: gen/Facts_vm.v 
gen/Facts_vm_sites.vo gen/Facts_vm_sites.glob gen/Facts_vm_sites.v.beautified gen/Facts_vm_sites.required_vo: gen/Facts_vm_sites.v 
gen/Facts_vm_sites.vio: gen/Facts_vm_sites.v 
gen/Facts_vm_sites.vos gen/Facts_vm_sites.vok gen/Facts_vm_sites.required_vos: gen/Facts_vm_sites.v 
gen/Facts_vm_writes.vo gen/Facts_vm_writes.glob gen/Facts_vm_writes.v.beautified gen/Facts_vm_writes.required_vo: gen/Facts_vm_writes.v 
gen/Facts_vm_writes.vio: gen/Facts_vm_writes.v 
gen/Facts_vm_writes.vos gen/Facts_vm_writes.vok gen/Facts_vm_writes.required_vos: gen/Facts_vm_writes.v 
lib/Bytes.vo lib/Bytes.glob lib/Bytes.v.beautified lib/Bytes.required_vo: lib/Bytes.v 
lib/Bytes.vio: lib/Bytes.v 
lib/Bytes.vos lib/Bytes.vok lib/Bytes.required_vos: lib/Bytes.v 
lib/Utf8.vo lib/Utf8.glob lib/Utf8.v.beautified lib/Utf8.required_vo: lib/Utf8.v lib/Bytes.vo
lib/Utf8.vio: lib/Utf8.v lib/Bytes.vio
lib/Utf8.vos lib/Utf8.vok lib/Utf8.required_vos: lib/Utf8.v lib/Bytes.vos
model/CancelM.vo model/CancelM.glob model/CancelM.v.beautified model/CancelM.required_vo: model/CancelM.v gen/Facts_vm_sites.vo
model/CancelM.vio: model/CancelM.v gen/Facts_vm_sites.vio
model/CancelM.vos model/CancelM.vok model/CancelM.required_vos: model/CancelM.v gen/Facts_vm_sites.vos
model/FramesCodec.vo model/FramesCodec.glob model/FramesCodec.v.beautified model/FramesCodec.required_vo: model/FramesCodec.v model/FramesM.vo
model/FramesCodec.vio: model/FramesCodec.v model/FramesM.vio
model/FramesCodec.vos model/FramesCodec.vok model/FramesCodec.required_vos: model/FramesCodec.v model/FramesM.vos
model/FramesM.vo model/FramesM.glob model/FramesM.v.beautified model/FramesM.required_vo: model/FramesM.v 
model/FramesM.vio: model/FramesM.v 
model/FramesM.vos model/FramesM.vok model/FramesM.required_vos: model/FramesM.v 
model/HTMLEscapeM.vo model/HTMLEscapeM.glob model/HTMLEscapeM.v.beautified model/HTMLEscapeM.required_vo: model/HTMLEscapeM.v lib/Bytes.vo gen/Facts_HTMLEscape.vo
model/HTMLEscapeM.vio: model/HTMLEscapeM.v lib/Bytes.vio gen/Facts_HTMLEscape.vio
model/HTMLEscapeM.vos model/HTMLEscapeM.vok model/HTMLEscapeM.required_vos: model/HTMLEscapeM.v lib/Bytes.vos gen/Facts_HTMLEscape.vos
model/HtmlDecode.vo model/HtmlDecode.glob model/HtmlDecode.v.beautified model/HtmlDecode.required_vo: model/HtmlDecode.v lib/Bytes.vo lib/Utf8.vo
model/HtmlDecode.vio: model/HtmlDecode.v lib/Bytes.vio lib/Utf8.vio
model/HtmlDecode.vos model/HtmlDecode.vok model/HtmlDecode.required_vos: model/HtmlDecode.v lib/Bytes.vos lib/Utf8.vos
model/IsolationM.vo model/IsolationM.glob model/IsolationM.v.beautified model/IsolationM.required_vo: model/IsolationM.v 
model/IsolationM.vio: model/IsolationM.v 
model/IsolationM.vos model/IsolationM.vok model/IsolationM.required_vos: model/IsolationM.v 
model/RegsM.vo model/RegsM.glob model/RegsM.v.beautified model/RegsM.required_vo: model/RegsM.v gen/Facts_vm.vo
model/RegsM.vio: model/RegsM.v gen/Facts_vm.vio
model/RegsM.vos model/RegsM.vok model/RegsM.required_vos: model/RegsM.v gen/Facts_vm.vos
proofs/Cancel_proofs.vo proofs/Cancel_proofs.glob proofs/Cancel_proofs.v.beautified proofs/Cancel_proofs.required_vo: proofs/Cancel_proofs.v gen/Facts_vm_sites.vo model/CancelM.vo
proofs/Cancel_proofs.vio: proofs/Cancel_proofs.v gen/Facts_vm_sites.vio model/CancelM.vio
proofs/Cancel_proofs.vos proofs/Cancel_proofs.vok proofs/Cancel_proofs.required_vos: proofs/Cancel_proofs.v gen/Facts_vm_sites.vos model/CancelM.vos
proofs/Frames_lifo.vo proofs/Frames_lifo.glob proofs/Frames_lifo.v.beautified proofs/Frames_lifo.required_vo: proofs/Frames_lifo.v model/FramesM.vo
proofs/Frames_lifo.vio: proofs/Frames_lifo.v model/FramesM.vio
proofs/Frames_lifo.vos proofs/Frames_lifo.vok proofs/Frames_lifo.required_vos: proofs/Frames_lifo.v model/FramesM.vos
proofs/Frames_proofs.vo proofs/Frames_proofs.glob proofs/Frames_proofs.v.beautified proofs/Frames_proofs.required_vo: proofs/Frames_proofs.v gen/Facts_vm.vo model/FramesM.vo
proofs/Frames_proofs.vio: proofs/Frames_proofs.v gen/Facts_vm.vio model/FramesM.vio
proofs/Frames_proofs.vos proofs/Frames_proofs.vok proofs/Frames_proofs.required_vos: proofs/Frames_proofs.v gen/Facts_vm.vos model/FramesM.vos
proofs/HTMLEscape_proofs.vo proofs/HTMLEscape_proofs.glob proofs/HTMLEscape_proofs.v.beautified proofs/HTMLEscape_proofs.required_vo: proofs/HTMLEscape_proofs.v lib/Bytes.vo gen/Facts_HTMLEscape.vo model/HTMLEscapeM.vo lib/Utf8.vo model/HtmlDecode.vo proofs/HtmlDecode_proofs.vo
proofs/HTMLEscape_proofs.vio: proofs/HTMLEscape_proofs.v lib/Bytes.vio gen/Facts_HTMLEscape.vio model/HTMLEscapeM.vio lib/Utf8.vio model/HtmlDecode.vio proofs/HtmlDecode_proofs.vio
proofs/HTMLEscape_proofs.vos proofs/HTMLEscape_proofs.vok proofs/HTMLEscape_proofs.required_vos: proofs/HTMLEscape_proofs.v lib/Bytes.vos gen/Facts_HTMLEscape.vos model/HTMLEscapeM.vos lib/Utf8.vos model/HtmlDecode.vos proofs/HtmlDecode_proofs.vos
proofs/HtmlDecode_proofs.vo proofs/HtmlDecode_proofs.glob proofs/HtmlDecode_proofs.v.beautified proofs/HtmlDecode_proofs.required_vo: proofs/HtmlDecode_proofs.v lib/Bytes.vo lib/Utf8.vo model/HtmlDecode.vo
proofs/HtmlDecode_proofs.vio: proofs/HtmlDecode_proofs.v lib/Bytes.vio lib/Utf8.vio model/HtmlDecode.vio
proofs/HtmlDecode_proofs.vos proofs/HtmlDecode_proofs.vok proofs/HtmlDecode_proofs.required_vos: proofs/HtmlDecode_proofs.v lib/Bytes.vos lib/Utf8.vos model/HtmlDecode.vos
proofs/Isolation_proofs.vo proofs/Isolation_proofs.glob proofs/Isolation_proofs.v.beautified proofs/Isolation_proofs.required_vo: proofs/Isolation_proofs.v model/IsolationM.vo
proofs/Isolation_proofs.vio: proofs/Isolation_proofs.v model/IsolationM.vio
proofs/Isolation_proofs.vos proofs/Isolation_proofs.vok proofs/Isolation_proofs.required_vos: proofs/Isolation_proofs.v model/IsolationM.vos
proofs/Regs_proofs.vo proofs/Regs_proofs.glob proofs/Regs_proofs.v.beautified proofs/Regs_proofs.required_vo: proofs/Regs_proofs.v gen/Facts_vm.vo model/RegsM.vo
proofs/Regs_proofs.vio: proofs/Regs_proofs.v gen/Facts_vm.vio model/RegsM.vio
proofs/Regs_proofs.vos proofs/Regs_proofs.vok proofs/Regs_proofs.required_vos: proofs/Regs_proofs.v gen/Facts_vm.vos model/RegsM.vos
props/C10.vo props/C10.glob props/C10.v.beautified props/C10.required_vo: props/C10.v gen/Facts_vm_writes.vo model/IsolationM.vo proofs/Isolation_proofs.vo model/FramesM.vo
props/C10.vio: props/C10.v gen/Facts_vm_writes.vio model/IsolationM.vio proofs/Isolation_proofs.vio model/FramesM.vio
props/C10.vos props/C10.vok props/C10.required_vos: props/C10.v gen/Facts_vm_writes.vos model/IsolationM.vos proofs/Isolation_proofs.vos model/FramesM.vos
props/C11.vo props/C11.glob props/C11.v.beautified props/C11.required_vo: props/C11.v gen/Facts_vm_sites.vo model/CancelM.vo proofs/Cancel_proofs.vo
props/C11.vio: props/C11.v gen/Facts_vm_sites.vio model/CancelM.vio proofs/Cancel_proofs.vio
props/C11.vos props/C11.vok props/C11.required_vos: props/C11.v gen/Facts_vm_sites.vos model/CancelM.vos proofs/Cancel_proofs.vos
props/C12.vo props/C12.glob props/C12.v.beautified props/C12.required_vo: props/C12.v gen/Facts_vm.vo model/FramesM.vo proofs/Frames_proofs.vo proofs/Frames_lifo.vo
props/C12.vio: props/C12.v gen/Facts_vm.vio model/FramesM.vio proofs/Frames_proofs.vio proofs/Frames_lifo.vio
props/C12.vos props/C12.vok props/C12.required_vos: props/C12.v gen/Facts_vm.vos model/FramesM.vos proofs/Frames_proofs.vos proofs/Frames_lifo.vos
props/C14.vo props/C14.glob props/C14.v.beautified props/C14.required_vo: props/C14.v gen/Facts_vm.vo model/RegsM.vo proofs/Regs_proofs.vo
props/C14.vio: props/C14.v gen/Facts_vm.vio model/RegsM.vio proofs/Regs_proofs.vio
props/C14.vos props/C14.vok props/C14.required_vos: props/C14.v gen/Facts_vm.vos model/RegsM.vos proofs/Regs_proofs.vos
props/C24.vo props/C24.glob props/C24.v.beautified props/C24.required_vo: props/C24.v lib/Bytes.vo gen/Facts_HTMLEscape.vo model/HTMLEscapeM.vo model/HtmlDecode.vo proofs/HTMLEscape_proofs.vo
props/C24.vio: props/C24.v lib/Bytes.vio gen/Facts_HTMLEscape.vio model/HTMLEscapeM.vio model/HtmlDecode.vio proofs/HTMLEscape_proofs.vio
props/C24.vos props/C24.vok props/C24.required_vos: props/C24.v lib/Bytes.vos gen/Facts_HTMLEscape.vos model/HTMLEscapeM.vos model/HtmlDecode.vos proofs/HTMLEscape_proofs.vos
