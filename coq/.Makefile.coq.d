gen/Facts_HTMLEscape.vo gen/Facts_HTMLEscape.glob gen/Facts_HTMLEscape.v.beautified gen/Facts_HTMLEscape.required_vo: gen/Facts_HTMLEscape.v 
gen/Facts_HTMLEscape.vio: gen/Facts_HTMLEscape.v 
gen/Facts_HTMLEscape.vos gen/Facts_HTMLEscape.vok gen/Facts_HTMLEscape.required_vos: gen/Facts_HTMLEscape.v 
gen/Facts_builtin.vo gen/Facts_builtin.glob gen/Facts_builtin.v.beautified gen/Facts_builtin.required_vo: gen/Facts_builtin.v 
gen/Facts_builtin.vio: gen/Facts_builtin.v 
gen/Facts_builtin.vos gen/Facts_builtin.vok gen/Facts_builtin.required_vos: gen/Facts_builtin.v 
gen/Facts_escapers.vo gen/Facts_escapers.glob gen/Facts_escapers.v.beautified gen/Facts_escapers.required_vo: gen/Facts_escapers.v 
gen/Facts_escapers.vio: gen/Facts_escapers.v 
gen/Facts_escapers.vos gen/Facts_escapers.vok gen/Facts_escapers.required_vos: gen/Facts_escapers.v 
gen/Facts_maprange.vo gen/Facts_maprange.glob gen/Facts_maprange.v.beautified gen/Facts_maprange.required_vo: gen/Facts_maprange.v 
gen/Facts_maprange.vio: gen/Facts_maprange.v 
gen/Facts_maprange.vos gen/Facts_maprange.vok gen/Facts_maprange.required_vos: gen/Facts_maprange.v 
lib/Bytes.vo lib/Bytes.glob lib/Bytes.v.beautified lib/Bytes.required_vo: lib/Bytes.v 
lib/Bytes.vio: lib/Bytes.v 
lib/Bytes.vos lib/Bytes.vok lib/Bytes.required_vos: lib/Bytes.v 
lib/MiscRunes.vo lib/MiscRunes.glob lib/MiscRunes.v.beautified lib/MiscRunes.required_vo: lib/MiscRunes.v lib/Bytes.vo lib/Utf8.vo
lib/MiscRunes.vio: lib/MiscRunes.v lib/Bytes.vio lib/Utf8.vio
lib/MiscRunes.vos lib/MiscRunes.vok lib/MiscRunes.required_vos: lib/MiscRunes.v lib/Bytes.vos lib/Utf8.vos
lib/Perm.vo lib/Perm.glob lib/Perm.v.beautified lib/Perm.required_vo: lib/Perm.v 
lib/Perm.vio: lib/Perm.v 
lib/Perm.vos lib/Perm.vok lib/Perm.required_vos: lib/Perm.v 
lib/Utf8.vo lib/Utf8.glob lib/Utf8.v.beautified lib/Utf8.required_vo: lib/Utf8.v lib/Bytes.vo
lib/Utf8.vio: lib/Utf8.v lib/Bytes.vio
lib/Utf8.vos lib/Utf8.vok lib/Utf8.required_vos: lib/Utf8.v lib/Bytes.vos
model/BuiltinM.vo model/BuiltinM.glob model/BuiltinM.v.beautified model/BuiltinM.required_vo: model/BuiltinM.v lib/Bytes.vo lib/Utf8.vo lib/MiscRunes.vo gen/Facts_builtin.vo model/HTMLEscapeM.vo
model/BuiltinM.vio: model/BuiltinM.v lib/Bytes.vio lib/Utf8.vio lib/MiscRunes.vio gen/Facts_builtin.vio model/HTMLEscapeM.vio
model/BuiltinM.vos model/BuiltinM.vok model/BuiltinM.required_vos: model/BuiltinM.v lib/Bytes.vos lib/Utf8.vos lib/MiscRunes.vos gen/Facts_builtin.vos model/HTMLEscapeM.vos
model/HTMLEscapeM.vo model/HTMLEscapeM.glob model/HTMLEscapeM.v.beautified model/HTMLEscapeM.required_vo: model/HTMLEscapeM.v lib/Bytes.vo gen/Facts_HTMLEscape.vo
model/HTMLEscapeM.vio: model/HTMLEscapeM.v lib/Bytes.vio gen/Facts_HTMLEscape.vio
model/HTMLEscapeM.vos model/HTMLEscapeM.vok model/HTMLEscapeM.required_vos: model/HTMLEscapeM.v lib/Bytes.vos gen/Facts_HTMLEscape.vos
model/HtmlDecode.vo model/HtmlDecode.glob model/HtmlDecode.v.beautified model/HtmlDecode.required_vo: model/HtmlDecode.v lib/Bytes.vo lib/Utf8.vo
model/HtmlDecode.vio: model/HtmlDecode.v lib/Bytes.vio lib/Utf8.vio
model/HtmlDecode.vos model/HtmlDecode.vok model/HtmlDecode.required_vos: model/HtmlDecode.v lib/Bytes.vos lib/Utf8.vos
model/ScopeM.vo model/ScopeM.glob model/ScopeM.v.beautified model/ScopeM.required_vo: model/ScopeM.v 
model/ScopeM.vio: model/ScopeM.v 
model/ScopeM.vos model/ScopeM.vok model/ScopeM.required_vos: model/ScopeM.v 
proofs/Abbreviate_proofs.vo proofs/Abbreviate_proofs.glob proofs/Abbreviate_proofs.v.beautified proofs/Abbreviate_proofs.required_vo: proofs/Abbreviate_proofs.v lib/Bytes.vo lib/Utf8.vo lib/MiscRunes.vo gen/Facts_builtin.vo model/BuiltinM.vo proofs/MiscRunes_proofs.vo
proofs/Abbreviate_proofs.vio: proofs/Abbreviate_proofs.v lib/Bytes.vio lib/Utf8.vio lib/MiscRunes.vio gen/Facts_builtin.vio model/BuiltinM.vio proofs/MiscRunes_proofs.vio
proofs/Abbreviate_proofs.vos proofs/Abbreviate_proofs.vok proofs/Abbreviate_proofs.required_vos: proofs/Abbreviate_proofs.v lib/Bytes.vos lib/Utf8.vos lib/MiscRunes.vos gen/Facts_builtin.vos model/BuiltinM.vos proofs/MiscRunes_proofs.vos
proofs/Capitalize_proofs.vo proofs/Capitalize_proofs.glob proofs/Capitalize_proofs.v.beautified proofs/Capitalize_proofs.required_vo: proofs/Capitalize_proofs.v lib/Bytes.vo lib/Utf8.vo lib/MiscRunes.vo gen/Facts_builtin.vo model/BuiltinM.vo proofs/MiscRunes_proofs.vo
proofs/Capitalize_proofs.vio: proofs/Capitalize_proofs.v lib/Bytes.vio lib/Utf8.vio lib/MiscRunes.vio gen/Facts_builtin.vio model/BuiltinM.vio proofs/MiscRunes_proofs.vio
proofs/Capitalize_proofs.vos proofs/Capitalize_proofs.vok proofs/Capitalize_proofs.required_vos: proofs/Capitalize_proofs.v lib/Bytes.vos lib/Utf8.vos lib/MiscRunes.vos gen/Facts_builtin.vos model/BuiltinM.vos proofs/MiscRunes_proofs.vos
proofs/HTMLEscape_proofs.vo proofs/HTMLEscape_proofs.glob proofs/HTMLEscape_proofs.v.beautified proofs/HTMLEscape_proofs.required_vo: proofs/HTMLEscape_proofs.v lib/Bytes.vo gen/Facts_HTMLEscape.vo model/HTMLEscapeM.vo lib/Utf8.vo model/HtmlDecode.vo proofs/HtmlDecode_proofs.vo
proofs/HTMLEscape_proofs.vio: proofs/HTMLEscape_proofs.v lib/Bytes.vio gen/Facts_HTMLEscape.vio model/HTMLEscapeM.vio lib/Utf8.vio model/HtmlDecode.vio proofs/HtmlDecode_proofs.vio
proofs/HTMLEscape_proofs.vos proofs/HTMLEscape_proofs.vok proofs/HTMLEscape_proofs.required_vos: proofs/HTMLEscape_proofs.v lib/Bytes.vos gen/Facts_HTMLEscape.vos model/HTMLEscapeM.vos lib/Utf8.vos model/HtmlDecode.vos proofs/HtmlDecode_proofs.vos
proofs/HtmlDecode_proofs.vo proofs/HtmlDecode_proofs.glob proofs/HtmlDecode_proofs.v.beautified proofs/HtmlDecode_proofs.required_vo: proofs/HtmlDecode_proofs.v lib/Bytes.vo lib/Utf8.vo model/HtmlDecode.vo
proofs/HtmlDecode_proofs.vio: proofs/HtmlDecode_proofs.v lib/Bytes.vio lib/Utf8.vio model/HtmlDecode.vio
proofs/HtmlDecode_proofs.vos proofs/HtmlDecode_proofs.vok proofs/HtmlDecode_proofs.required_vos: proofs/HtmlDecode_proofs.v lib/Bytes.vos lib/Utf8.vos model/HtmlDecode.vos
proofs/JSONSpace_proofs.vo proofs/JSONSpace_proofs.glob proofs/JSONSpace_proofs.v.beautified proofs/JSONSpace_proofs.required_vo: proofs/JSONSpace_proofs.v lib/Bytes.vo gen/Facts_builtin.vo model/BuiltinM.vo
proofs/JSONSpace_proofs.vio: proofs/JSONSpace_proofs.v lib/Bytes.vio gen/Facts_builtin.vio model/BuiltinM.vio
proofs/JSONSpace_proofs.vos proofs/JSONSpace_proofs.vok proofs/JSONSpace_proofs.required_vos: proofs/JSONSpace_proofs.v lib/Bytes.vos gen/Facts_builtin.vos model/BuiltinM.vos
proofs/MapRange_proofs.vo proofs/MapRange_proofs.glob proofs/MapRange_proofs.v.beautified proofs/MapRange_proofs.required_vo: proofs/MapRange_proofs.v gen/Facts_maprange.vo
proofs/MapRange_proofs.vio: proofs/MapRange_proofs.v gen/Facts_maprange.vio
proofs/MapRange_proofs.vos proofs/MapRange_proofs.vok proofs/MapRange_proofs.required_vos: proofs/MapRange_proofs.v gen/Facts_maprange.vos
proofs/MiscRunes_proofs.vo proofs/MiscRunes_proofs.glob proofs/MiscRunes_proofs.v.beautified proofs/MiscRunes_proofs.required_vo: proofs/MiscRunes_proofs.v lib/Bytes.vo lib/Utf8.vo lib/MiscRunes.vo
proofs/MiscRunes_proofs.vio: proofs/MiscRunes_proofs.v lib/Bytes.vio lib/Utf8.vio lib/MiscRunes.vio
proofs/MiscRunes_proofs.vos proofs/MiscRunes_proofs.vok proofs/MiscRunes_proofs.required_vos: proofs/MiscRunes_proofs.v lib/Bytes.vos lib/Utf8.vos lib/MiscRunes.vos
proofs/QueryEscape_proofs.vo proofs/QueryEscape_proofs.glob proofs/QueryEscape_proofs.v.beautified proofs/QueryEscape_proofs.required_vo: proofs/QueryEscape_proofs.v lib/Bytes.vo gen/Facts_builtin.vo model/HTMLEscapeM.vo proofs/HTMLEscape_proofs.vo model/BuiltinM.vo
proofs/QueryEscape_proofs.vio: proofs/QueryEscape_proofs.v lib/Bytes.vio gen/Facts_builtin.vio model/HTMLEscapeM.vio proofs/HTMLEscape_proofs.vio model/BuiltinM.vio
proofs/QueryEscape_proofs.vos proofs/QueryEscape_proofs.vok proofs/QueryEscape_proofs.required_vos: proofs/QueryEscape_proofs.v lib/Bytes.vos gen/Facts_builtin.vos model/HTMLEscapeM.vos proofs/HTMLEscape_proofs.vos model/BuiltinM.vos
proofs/Scope_proofs.vo proofs/Scope_proofs.glob proofs/Scope_proofs.v.beautified proofs/Scope_proofs.required_vo: proofs/Scope_proofs.v model/ScopeM.vo
proofs/Scope_proofs.vio: proofs/Scope_proofs.v model/ScopeM.vio
proofs/Scope_proofs.vos proofs/Scope_proofs.vok proofs/Scope_proofs.required_vos: proofs/Scope_proofs.v model/ScopeM.vos
props/C19.vo props/C19.glob props/C19.v.beautified props/C19.required_vo: props/C19.v model/ScopeM.vo proofs/Scope_proofs.vo
props/C19.vio: props/C19.v model/ScopeM.vio proofs/Scope_proofs.vio
props/C19.vos props/C19.vok props/C19.required_vos: props/C19.v model/ScopeM.vos proofs/Scope_proofs.vos
props/C24.vo props/C24.glob props/C24.v.beautified props/C24.required_vo: props/C24.v lib/Bytes.vo gen/Facts_HTMLEscape.vo model/HTMLEscapeM.vo model/HtmlDecode.vo proofs/HTMLEscape_proofs.vo
props/C24.vio: props/C24.v lib/Bytes.vio gen/Facts_HTMLEscape.vio model/HTMLEscapeM.vio model/HtmlDecode.vio proofs/HTMLEscape_proofs.vio
props/C24.vos props/C24.vok props/C24.required_vos: props/C24.v lib/Bytes.vos gen/Facts_HTMLEscape.vos model/HTMLEscapeM.vos model/HtmlDecode.vos proofs/HTMLEscape_proofs.vos
props/C25.vo props/C25.glob props/C25.v.beautified props/C25.required_vo: props/C25.v lib/Bytes.vo lib/Utf8.vo lib/MiscRunes.vo gen/Facts_builtin.vo model/BuiltinM.vo proofs/QueryEscape_proofs.vo proofs/JSONSpace_proofs.vo proofs/Abbreviate_proofs.vo proofs/Capitalize_proofs.vo
props/C25.vio: props/C25.v lib/Bytes.vio lib/Utf8.vio lib/MiscRunes.vio gen/Facts_builtin.vio model/BuiltinM.vio proofs/QueryEscape_proofs.vio proofs/JSONSpace_proofs.vio proofs/Abbreviate_proofs.vio proofs/Capitalize_proofs.vio
props/C25.vos props/C25.vok props/C25.required_vos: props/C25.v lib/Bytes.vos lib/Utf8.vos lib/MiscRunes.vos gen/Facts_builtin.vos model/BuiltinM.vos proofs/QueryEscape_proofs.vos proofs/JSONSpace_proofs.vos proofs/Abbreviate_proofs.vos proofs/Capitalize_proofs.vos
props/C30.vo props/C30.glob props/C30.v.beautified props/C30.required_vo: props/C30.v lib/Perm.vo gen/Facts_maprange.vo proofs/MapRange_proofs.vo
props/C30.vio: props/C30.v lib/Perm.vio gen/Facts_maprange.vio proofs/MapRange_proofs.vio
props/C30.vos props/C30.vok props/C30.required_vos: props/C30.v lib/Perm.vos gen/Facts_maprange.vos proofs/MapRange_proofs.vos
