gen/Facts_HTMLEscape.vo gen/Facts_HTMLEscape.glob gen/Facts_HTMLEscape.v.beautified gen/Facts_HTMLEscape.required_vo: gen/Facts_HTMLEscape.v 
gen/Facts_HTMLEscape.vio: gen/Facts_HTMLEscape.v 
gen/Facts_HTMLEscape.vos gen/Facts_HTMLEscape.vok gen/Facts_HTMLEscape.required_vos: gen/Facts_HTMLEscape.v 
gen/Facts_escapers.vo gen/Facts_escapers.glob gen/Facts_escapers.v.beautified gen/Facts_escapers.required_vo: gen/Facts_escapers.v 
gen/Facts_escapers.vio: gen/Facts_escapers.v 
gen/Facts_escapers.vos gen/Facts_escapers.vok gen/Facts_escapers.required_vos: gen/Facts_escapers.v 
gen/Facts_paths.vo gen/Facts_paths.glob gen/Facts_paths.v.beautified gen/Facts_paths.required_vo: gen/Facts_paths.v 
gen/Facts_paths.vio: gen/Facts_paths.v 
gen/Facts_paths.vos gen/Facts_paths.vok gen/Facts_paths.required_vos: gen/Facts_paths.v 
gen/Facts_vars.vo gen/Facts_vars.glob gen/Facts_vars.v.beautified gen/Facts_vars.required_vo: gen/Facts_vars.v 
gen/Facts_vars.vio: gen/Facts_vars.v 
gen/Facts_vars.vos gen/Facts_vars.vok gen/Facts_vars.required_vos: gen/Facts_vars.v 
lib/Bytes.vo lib/Bytes.glob lib/Bytes.v.beautified lib/Bytes.required_vo: lib/Bytes.v 
lib/Bytes.vio: lib/Bytes.v 
lib/Bytes.vos lib/Bytes.vok lib/Bytes.required_vos: lib/Bytes.v 
lib/Utf8.vo lib/Utf8.glob lib/Utf8.v.beautified lib/Utf8.required_vo: lib/Utf8.v lib/Bytes.vo
lib/Utf8.vio: lib/Utf8.v lib/Bytes.vio
lib/Utf8.vos lib/Utf8.vok lib/Utf8.required_vos: lib/Utf8.v lib/Bytes.vos
model/ExpandM.vo model/ExpandM.glob model/ExpandM.v.beautified model/ExpandM.required_vo: model/ExpandM.v lib/Bytes.vo model/PathsM.vo gen/Facts_paths.vo
model/ExpandM.vio: model/ExpandM.v lib/Bytes.vio model/PathsM.vio gen/Facts_paths.vio
model/ExpandM.vos model/ExpandM.vok model/ExpandM.required_vos: model/ExpandM.v lib/Bytes.vos model/PathsM.vos gen/Facts_paths.vos
model/HTMLEscapeM.vo model/HTMLEscapeM.glob model/HTMLEscapeM.v.beautified model/HTMLEscapeM.required_vo: model/HTMLEscapeM.v lib/Bytes.vo gen/Facts_HTMLEscape.vo
model/HTMLEscapeM.vio: model/HTMLEscapeM.v lib/Bytes.vio gen/Facts_HTMLEscape.vio
model/HTMLEscapeM.vos model/HTMLEscapeM.vok model/HTMLEscapeM.required_vos: model/HTMLEscapeM.v lib/Bytes.vos gen/Facts_HTMLEscape.vos
model/HtmlDecode.vo model/HtmlDecode.glob model/HtmlDecode.v.beautified model/HtmlDecode.required_vo: model/HtmlDecode.v lib/Bytes.vo lib/Utf8.vo
model/HtmlDecode.vio: model/HtmlDecode.v lib/Bytes.vio lib/Utf8.vio
model/HtmlDecode.vos model/HtmlDecode.vok model/HtmlDecode.required_vos: model/HtmlDecode.v lib/Bytes.vos lib/Utf8.vos
model/PathSpec.vo model/PathSpec.glob model/PathSpec.v.beautified model/PathSpec.required_vo: model/PathSpec.v lib/Bytes.vo model/PathsM.vo
model/PathSpec.vio: model/PathSpec.v lib/Bytes.vio model/PathsM.vio
model/PathSpec.vos model/PathSpec.vok model/PathSpec.required_vos: model/PathSpec.v lib/Bytes.vos model/PathsM.vos
model/PathsM.vo model/PathsM.glob model/PathsM.v.beautified model/PathsM.required_vo: model/PathsM.v lib/Bytes.vo
model/PathsM.vio: model/PathsM.v lib/Bytes.vio
model/PathsM.vos model/PathsM.vok model/PathsM.required_vos: model/PathsM.v lib/Bytes.vos
model/VarsM.vo model/VarsM.glob model/VarsM.v.beautified model/VarsM.required_vo: model/VarsM.v lib/Bytes.vo gen/Facts_vars.vo
model/VarsM.vio: model/VarsM.v lib/Bytes.vio gen/Facts_vars.vio
model/VarsM.vos model/VarsM.vok model/VarsM.required_vos: model/VarsM.v lib/Bytes.vos gen/Facts_vars.vos
model/VarsSpec.vo model/VarsSpec.glob model/VarsSpec.v.beautified model/VarsSpec.required_vo: model/VarsSpec.v lib/Bytes.vo model/VarsM.vo
model/VarsSpec.vio: model/VarsSpec.v lib/Bytes.vio model/VarsM.vio
model/VarsSpec.vos model/VarsSpec.vok model/VarsSpec.required_vos: model/VarsSpec.v lib/Bytes.vos model/VarsM.vos
proofs/Expand_proofs.vo proofs/Expand_proofs.glob proofs/Expand_proofs.v.beautified proofs/Expand_proofs.required_vo: proofs/Expand_proofs.v lib/Bytes.vo model/PathsM.vo model/PathSpec.vo model/ExpandM.vo proofs/Paths_proofs.vo
proofs/Expand_proofs.vio: proofs/Expand_proofs.v lib/Bytes.vio model/PathsM.vio model/PathSpec.vio model/ExpandM.vio proofs/Paths_proofs.vio
proofs/Expand_proofs.vos proofs/Expand_proofs.vok proofs/Expand_proofs.required_vos: proofs/Expand_proofs.v lib/Bytes.vos model/PathsM.vos model/PathSpec.vos model/ExpandM.vos proofs/Paths_proofs.vos
proofs/HTMLEscape_proofs.vo proofs/HTMLEscape_proofs.glob proofs/HTMLEscape_proofs.v.beautified proofs/HTMLEscape_proofs.required_vo: proofs/HTMLEscape_proofs.v lib/Bytes.vo gen/Facts_HTMLEscape.vo model/HTMLEscapeM.vo lib/Utf8.vo model/HtmlDecode.vo proofs/HtmlDecode_proofs.vo
proofs/HTMLEscape_proofs.vio: proofs/HTMLEscape_proofs.v lib/Bytes.vio gen/Facts_HTMLEscape.vio model/HTMLEscapeM.vio lib/Utf8.vio model/HtmlDecode.vio proofs/HtmlDecode_proofs.vio
proofs/HTMLEscape_proofs.vos proofs/HTMLEscape_proofs.vok proofs/HTMLEscape_proofs.required_vos: proofs/HTMLEscape_proofs.v lib/Bytes.vos gen/Facts_HTMLEscape.vos model/HTMLEscapeM.vos lib/Utf8.vos model/HtmlDecode.vos proofs/HtmlDecode_proofs.vos
proofs/HtmlDecode_proofs.vo proofs/HtmlDecode_proofs.glob proofs/HtmlDecode_proofs.v.beautified proofs/HtmlDecode_proofs.required_vo: proofs/HtmlDecode_proofs.v lib/Bytes.vo lib/Utf8.vo model/HtmlDecode.vo
proofs/HtmlDecode_proofs.vio: proofs/HtmlDecode_proofs.v lib/Bytes.vio lib/Utf8.vio model/HtmlDecode.vio
proofs/HtmlDecode_proofs.vos proofs/HtmlDecode_proofs.vok proofs/HtmlDecode_proofs.required_vos: proofs/HtmlDecode_proofs.v lib/Bytes.vos lib/Utf8.vos model/HtmlDecode.vos
proofs/Paths_proofs.vo proofs/Paths_proofs.glob proofs/Paths_proofs.v.beautified proofs/Paths_proofs.required_vo: proofs/Paths_proofs.v lib/Bytes.vo model/PathsM.vo model/PathSpec.vo
proofs/Paths_proofs.vio: proofs/Paths_proofs.v lib/Bytes.vio model/PathsM.vio model/PathSpec.vio
proofs/Paths_proofs.vos proofs/Paths_proofs.vok proofs/Paths_proofs.required_vos: proofs/Paths_proofs.v lib/Bytes.vos model/PathsM.vos model/PathSpec.vos
proofs/VarsRun_proofs.vo proofs/VarsRun_proofs.glob proofs/VarsRun_proofs.v.beautified proofs/VarsRun_proofs.required_vo: proofs/VarsRun_proofs.v lib/Bytes.vo gen/Facts_vars.vo model/VarsM.vo model/VarsSpec.vo proofs/Vars_proofs.vo
proofs/VarsRun_proofs.vio: proofs/VarsRun_proofs.v lib/Bytes.vio gen/Facts_vars.vio model/VarsM.vio model/VarsSpec.vio proofs/Vars_proofs.vio
proofs/VarsRun_proofs.vos proofs/VarsRun_proofs.vok proofs/VarsRun_proofs.required_vos: proofs/VarsRun_proofs.v lib/Bytes.vos gen/Facts_vars.vos model/VarsM.vos model/VarsSpec.vos proofs/Vars_proofs.vos
proofs/Vars_proofs.vo proofs/Vars_proofs.glob proofs/Vars_proofs.v.beautified proofs/Vars_proofs.required_vo: proofs/Vars_proofs.v lib/Bytes.vo gen/Facts_vars.vo model/VarsM.vo model/VarsSpec.vo
proofs/Vars_proofs.vio: proofs/Vars_proofs.v lib/Bytes.vio gen/Facts_vars.vio model/VarsM.vio model/VarsSpec.vio
proofs/Vars_proofs.vos proofs/Vars_proofs.vok proofs/Vars_proofs.required_vos: proofs/Vars_proofs.v lib/Bytes.vos gen/Facts_vars.vos model/VarsM.vos model/VarsSpec.vos
props/C17.vo props/C17.glob props/C17.v.beautified props/C17.required_vo: props/C17.v lib/Bytes.vo gen/Facts_vars.vo model/VarsM.vo model/VarsSpec.vo proofs/Vars_proofs.vo proofs/VarsRun_proofs.vo
props/C17.vio: props/C17.v lib/Bytes.vio gen/Facts_vars.vio model/VarsM.vio model/VarsSpec.vio proofs/Vars_proofs.vio proofs/VarsRun_proofs.vio
props/C17.vos props/C17.vok props/C17.required_vos: props/C17.v lib/Bytes.vos gen/Facts_vars.vos model/VarsM.vos model/VarsSpec.vos proofs/Vars_proofs.vos proofs/VarsRun_proofs.vos
props/C18.vo props/C18.glob props/C18.v.beautified props/C18.required_vo: props/C18.v lib/Bytes.vo model/PathsM.vo model/PathSpec.vo model/ExpandM.vo proofs/Paths_proofs.vo proofs/Expand_proofs.vo
props/C18.vio: props/C18.v lib/Bytes.vio model/PathsM.vio model/PathSpec.vio model/ExpandM.vio proofs/Paths_proofs.vio proofs/Expand_proofs.vio
props/C18.vos props/C18.vok props/C18.required_vos: props/C18.v lib/Bytes.vos model/PathsM.vos model/PathSpec.vos model/ExpandM.vos proofs/Paths_proofs.vos proofs/Expand_proofs.vos
props/C24.vo props/C24.glob props/C24.v.beautified props/C24.required_vo: props/C24.v lib/Bytes.vo gen/Facts_HTMLEscape.vo model/HTMLEscapeM.vo model/HtmlDecode.vo proofs/HTMLEscape_proofs.vo
props/C24.vio: props/C24.v lib/Bytes.vio gen/Facts_HTMLEscape.vio model/HTMLEscapeM.vio model/HtmlDecode.vio proofs/HTMLEscape_proofs.vio
props/C24.vos props/C24.vok props/C24.required_vos: props/C24.v lib/Bytes.vos gen/Facts_HTMLEscape.vos model/HTMLEscapeM.vos model/HtmlDecode.vos proofs/HTMLEscape_proofs.vos
