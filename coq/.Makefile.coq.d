gen/Facts_HTMLEscape.vo gen/Facts_HTMLEscape.glob gen/Facts_HTMLEscape.v.beautified gen/Facts_HTMLEscape.required_vo: gen/Facts_HTMLEscape.v 
gen/Facts_HTMLEscape.vio: gen/Facts_HTMLEscape.v 
gen/Facts_HTMLEscape.vos gen/Facts_HTMLEscape.vok gen/Facts_HTMLEscape.required_vos: gen/Facts_HTMLEscape.v 
gen/Facts_escapers.vo gen/Facts_escapers.glob gen/Facts_escapers.v.beautified gen/Facts_escapers.required_vo: gen/Facts_escapers.v 
gen/Facts_escapers.vio: gen/Facts_escapers.v 
gen/Facts_escapers.vos gen/Facts_escapers.vok gen/Facts_escapers.required_vos: gen/Facts_escapers.v 
gen/Facts_show.vo gen/Facts_show.glob gen/Facts_show.v.beautified gen/Facts_show.required_vo: gen/Facts_show.v lib/ShowTree.vo
gen/Facts_show.vio: gen/Facts_show.v lib/ShowTree.vio
gen/Facts_show.vos gen/Facts_show.vok gen/Facts_show.required_vos: gen/Facts_show.v lib/ShowTree.vos
lib/Bytes.vo lib/Bytes.glob lib/Bytes.v.beautified lib/Bytes.required_vo: lib/Bytes.v 
lib/Bytes.vio: lib/Bytes.v 
lib/Bytes.vos lib/Bytes.vok lib/Bytes.required_vos: lib/Bytes.v 
lib/ShowTree.vo lib/ShowTree.glob lib/ShowTree.v.beautified lib/ShowTree.required_vo: lib/ShowTree.v 
lib/ShowTree.vio: lib/ShowTree.v 
lib/ShowTree.vos lib/ShowTree.vok lib/ShowTree.required_vos: lib/ShowTree.v 
lib/Utf8.vo lib/Utf8.glob lib/Utf8.v.beautified lib/Utf8.required_vo: lib/Utf8.v lib/Bytes.vo
lib/Utf8.vio: lib/Utf8.v lib/Bytes.vio
lib/Utf8.vos lib/Utf8.vok lib/Utf8.required_vos: lib/Utf8.v lib/Bytes.vos
model/HTMLEscapeM.vo model/HTMLEscapeM.glob model/HTMLEscapeM.v.beautified model/HTMLEscapeM.required_vo: model/HTMLEscapeM.v lib/Bytes.vo gen/Facts_HTMLEscape.vo
model/HTMLEscapeM.vio: model/HTMLEscapeM.v lib/Bytes.vio gen/Facts_HTMLEscape.vio
model/HTMLEscapeM.vos model/HTMLEscapeM.vok model/HTMLEscapeM.required_vos: model/HTMLEscapeM.v lib/Bytes.vos gen/Facts_HTMLEscape.vos
model/HtmlDecode.vo model/HtmlDecode.glob model/HtmlDecode.v.beautified model/HtmlDecode.required_vo: model/HtmlDecode.v lib/Bytes.vo lib/Utf8.vo
model/HtmlDecode.vio: model/HtmlDecode.v lib/Bytes.vio lib/Utf8.vio
model/HtmlDecode.vos model/HtmlDecode.vok model/HtmlDecode.required_vos: model/HtmlDecode.v lib/Bytes.vos lib/Utf8.vos
model/Json.vo model/Json.glob model/Json.v.beautified model/Json.required_vo: model/Json.v lib/Bytes.vo
model/Json.vio: model/Json.v lib/Bytes.vio
model/Json.vos model/Json.vok model/Json.required_vos: model/Json.v lib/Bytes.vos
model/ShowJsonM.vo model/ShowJsonM.glob model/ShowJsonM.v.beautified model/ShowJsonM.required_vo: model/ShowJsonM.v lib/Bytes.vo lib/ShowTree.vo gen/Facts_show.vo model/ShowTypesM.vo
model/ShowJsonM.vio: model/ShowJsonM.v lib/Bytes.vio lib/ShowTree.vio gen/Facts_show.vio model/ShowTypesM.vio
model/ShowJsonM.vos model/ShowJsonM.vok model/ShowJsonM.required_vos: model/ShowJsonM.v lib/Bytes.vos lib/ShowTree.vos gen/Facts_show.vos model/ShowTypesM.vos
model/ShowLeavesM.vo model/ShowLeavesM.glob model/ShowLeavesM.v.beautified model/ShowLeavesM.required_vo: model/ShowLeavesM.v lib/Bytes.vo lib/ShowTree.vo gen/Facts_show.vo gen/Facts_escapers.vo model/ShowTypesM.vo model/ShowJsonM.vo
model/ShowLeavesM.vio: model/ShowLeavesM.v lib/Bytes.vio lib/ShowTree.vio gen/Facts_show.vio gen/Facts_escapers.vio model/ShowTypesM.vio model/ShowJsonM.vio
model/ShowLeavesM.vos model/ShowLeavesM.vok model/ShowLeavesM.required_vos: model/ShowLeavesM.v lib/Bytes.vos lib/ShowTree.vos gen/Facts_show.vos gen/Facts_escapers.vos model/ShowTypesM.vos model/ShowJsonM.vos
model/ShowSpecM.vo model/ShowSpecM.glob model/ShowSpecM.v.beautified model/ShowSpecM.required_vo: model/ShowSpecM.v lib/Bytes.vo lib/ShowTree.vo gen/Facts_show.vo model/ShowTypesM.vo model/ShowJsonM.vo model/ShowLeavesM.vo model/Json.vo
model/ShowSpecM.vio: model/ShowSpecM.v lib/Bytes.vio lib/ShowTree.vio gen/Facts_show.vio model/ShowTypesM.vio model/ShowJsonM.vio model/ShowLeavesM.vio model/Json.vio
model/ShowSpecM.vos model/ShowSpecM.vok model/ShowSpecM.required_vos: model/ShowSpecM.v lib/Bytes.vos lib/ShowTree.vos gen/Facts_show.vos model/ShowTypesM.vos model/ShowJsonM.vos model/ShowLeavesM.vos model/Json.vos
model/ShowTypesM.vo model/ShowTypesM.glob model/ShowTypesM.v.beautified model/ShowTypesM.required_vo: model/ShowTypesM.v lib/Bytes.vo lib/ShowTree.vo gen/Facts_show.vo
model/ShowTypesM.vio: model/ShowTypesM.v lib/Bytes.vio lib/ShowTree.vio gen/Facts_show.vio
model/ShowTypesM.vos model/ShowTypesM.vok model/ShowTypesM.required_vos: model/ShowTypesM.v lib/Bytes.vos lib/ShowTree.vos gen/Facts_show.vos
proofs/HTMLEscape_proofs.vo proofs/HTMLEscape_proofs.glob proofs/HTMLEscape_proofs.v.beautified proofs/HTMLEscape_proofs.required_vo: proofs/HTMLEscape_proofs.v lib/Bytes.vo gen/Facts_HTMLEscape.vo model/HTMLEscapeM.vo lib/Utf8.vo model/HtmlDecode.vo proofs/HtmlDecode_proofs.vo
proofs/HTMLEscape_proofs.vio: proofs/HTMLEscape_proofs.v lib/Bytes.vio gen/Facts_HTMLEscape.vio model/HTMLEscapeM.vio lib/Utf8.vio model/HtmlDecode.vio proofs/HtmlDecode_proofs.vio
proofs/HTMLEscape_proofs.vos proofs/HTMLEscape_proofs.vok proofs/HTMLEscape_proofs.required_vos: proofs/HTMLEscape_proofs.v lib/Bytes.vos gen/Facts_HTMLEscape.vos model/HTMLEscapeM.vos lib/Utf8.vos model/HtmlDecode.vos proofs/HtmlDecode_proofs.vos
proofs/HtmlDecode_proofs.vo proofs/HtmlDecode_proofs.glob proofs/HtmlDecode_proofs.v.beautified proofs/HtmlDecode_proofs.required_vo: proofs/HtmlDecode_proofs.v lib/Bytes.vo lib/Utf8.vo model/HtmlDecode.vo
proofs/HtmlDecode_proofs.vio: proofs/HtmlDecode_proofs.v lib/Bytes.vio lib/Utf8.vio model/HtmlDecode.vio
proofs/HtmlDecode_proofs.vos proofs/HtmlDecode_proofs.vok proofs/HtmlDecode_proofs.required_vos: proofs/HtmlDecode_proofs.v lib/Bytes.vos lib/Utf8.vos model/HtmlDecode.vos
proofs/Json_proofs.vo proofs/Json_proofs.glob proofs/Json_proofs.v.beautified proofs/Json_proofs.required_vo: proofs/Json_proofs.v lib/Bytes.vo model/Json.vo
proofs/Json_proofs.vio: proofs/Json_proofs.v lib/Bytes.vio model/Json.vio
proofs/Json_proofs.vos proofs/Json_proofs.vok proofs/Json_proofs.required_vos: proofs/Json_proofs.v lib/Bytes.vos model/Json.vos
proofs/ShowData_proofs.vo proofs/ShowData_proofs.glob proofs/ShowData_proofs.v.beautified proofs/ShowData_proofs.required_vo: proofs/ShowData_proofs.v lib/Bytes.vo lib/ShowTree.vo gen/Facts_show.vo model/ShowTypesM.vo model/ShowJsonM.vo model/ShowLeavesM.vo model/Json.vo model/ShowSpecM.vo proofs/ShowTree_proofs.vo proofs/Show_flat_proofs.vo proofs/Show_js_checks.vo proofs/Show_js_proofs.vo proofs/Show_c09_proofs.vo proofs/Json_proofs.vo proofs/ShowLeaves_proofs.vo proofs/ShowJson_proofs.vo
proofs/ShowData_proofs.vio: proofs/ShowData_proofs.v lib/Bytes.vio lib/ShowTree.vio gen/Facts_show.vio model/ShowTypesM.vio model/ShowJsonM.vio model/ShowLeavesM.vio model/Json.vio model/ShowSpecM.vio proofs/ShowTree_proofs.vio proofs/Show_flat_proofs.vio proofs/Show_js_checks.vio proofs/Show_js_proofs.vio proofs/Show_c09_proofs.vio proofs/Json_proofs.vio proofs/ShowLeaves_proofs.vio proofs/ShowJson_proofs.vio
proofs/ShowData_proofs.vos proofs/ShowData_proofs.vok proofs/ShowData_proofs.required_vos: proofs/ShowData_proofs.v lib/Bytes.vos lib/ShowTree.vos gen/Facts_show.vos model/ShowTypesM.vos model/ShowJsonM.vos model/ShowLeavesM.vos model/Json.vos model/ShowSpecM.vos proofs/ShowTree_proofs.vos proofs/Show_flat_proofs.vos proofs/Show_js_checks.vos proofs/Show_js_proofs.vos proofs/Show_c09_proofs.vos proofs/Json_proofs.vos proofs/ShowLeaves_proofs.vos proofs/ShowJson_proofs.vos
proofs/ShowJson_proofs.vo proofs/ShowJson_proofs.glob proofs/ShowJson_proofs.v.beautified proofs/ShowJson_proofs.required_vo: proofs/ShowJson_proofs.v lib/Bytes.vo lib/ShowTree.vo gen/Facts_show.vo model/ShowTypesM.vo model/ShowJsonM.vo model/ShowLeavesM.vo model/Json.vo proofs/ShowTree_proofs.vo proofs/Show_flat_proofs.vo proofs/Show_js_checks.vo proofs/Show_js_proofs.vo proofs/Show_c09_proofs.vo proofs/Json_proofs.vo proofs/ShowLeaves_proofs.vo
proofs/ShowJson_proofs.vio: proofs/ShowJson_proofs.v lib/Bytes.vio lib/ShowTree.vio gen/Facts_show.vio model/ShowTypesM.vio model/ShowJsonM.vio model/ShowLeavesM.vio model/Json.vio proofs/ShowTree_proofs.vio proofs/Show_flat_proofs.vio proofs/Show_js_checks.vio proofs/Show_js_proofs.vio proofs/Show_c09_proofs.vio proofs/Json_proofs.vio proofs/ShowLeaves_proofs.vio
proofs/ShowJson_proofs.vos proofs/ShowJson_proofs.vok proofs/ShowJson_proofs.required_vos: proofs/ShowJson_proofs.v lib/Bytes.vos lib/ShowTree.vos gen/Facts_show.vos model/ShowTypesM.vos model/ShowJsonM.vos model/ShowLeavesM.vos model/Json.vos proofs/ShowTree_proofs.vos proofs/Show_flat_proofs.vos proofs/Show_js_checks.vos proofs/Show_js_proofs.vos proofs/Show_c09_proofs.vos proofs/Json_proofs.vos proofs/ShowLeaves_proofs.vos
proofs/ShowLeaves_proofs.vo proofs/ShowLeaves_proofs.glob proofs/ShowLeaves_proofs.v.beautified proofs/ShowLeaves_proofs.required_vo: proofs/ShowLeaves_proofs.v lib/Bytes.vo gen/Facts_escapers.vo lib/ShowTree.vo gen/Facts_show.vo model/ShowTypesM.vo model/ShowJsonM.vo model/ShowLeavesM.vo model/Json.vo proofs/Json_proofs.vo
proofs/ShowLeaves_proofs.vio: proofs/ShowLeaves_proofs.v lib/Bytes.vio gen/Facts_escapers.vio lib/ShowTree.vio gen/Facts_show.vio model/ShowTypesM.vio model/ShowJsonM.vio model/ShowLeavesM.vio model/Json.vio proofs/Json_proofs.vio
proofs/ShowLeaves_proofs.vos proofs/ShowLeaves_proofs.vok proofs/ShowLeaves_proofs.required_vos: proofs/ShowLeaves_proofs.v lib/Bytes.vos gen/Facts_escapers.vos lib/ShowTree.vos gen/Facts_show.vos model/ShowTypesM.vos model/ShowJsonM.vos model/ShowLeavesM.vos model/Json.vos proofs/Json_proofs.vos
proofs/ShowTree_proofs.vo proofs/ShowTree_proofs.glob proofs/ShowTree_proofs.v.beautified proofs/ShowTree_proofs.required_vo: proofs/ShowTree_proofs.v lib/Bytes.vo lib/ShowTree.vo
proofs/ShowTree_proofs.vio: proofs/ShowTree_proofs.v lib/Bytes.vio lib/ShowTree.vio
proofs/ShowTree_proofs.vos proofs/ShowTree_proofs.vok proofs/ShowTree_proofs.required_vos: proofs/ShowTree_proofs.v lib/Bytes.vos lib/ShowTree.vos
proofs/Show_c09_proofs.vo proofs/Show_c09_proofs.glob proofs/Show_c09_proofs.v.beautified proofs/Show_c09_proofs.required_vo: proofs/Show_c09_proofs.v lib/Bytes.vo lib/ShowTree.vo gen/Facts_show.vo model/ShowTypesM.vo model/ShowJsonM.vo proofs/ShowTree_proofs.vo proofs/Show_flat_proofs.vo proofs/Show_js_checks.vo proofs/Show_js_proofs.vo
proofs/Show_c09_proofs.vio: proofs/Show_c09_proofs.v lib/Bytes.vio lib/ShowTree.vio gen/Facts_show.vio model/ShowTypesM.vio model/ShowJsonM.vio proofs/ShowTree_proofs.vio proofs/Show_flat_proofs.vio proofs/Show_js_checks.vio proofs/Show_js_proofs.vio
proofs/Show_c09_proofs.vos proofs/Show_c09_proofs.vok proofs/Show_c09_proofs.required_vos: proofs/Show_c09_proofs.v lib/Bytes.vos lib/ShowTree.vos gen/Facts_show.vos model/ShowTypesM.vos model/ShowJsonM.vos proofs/ShowTree_proofs.vos proofs/Show_flat_proofs.vos proofs/Show_js_checks.vos proofs/Show_js_proofs.vos
proofs/Show_flat_proofs.vo proofs/Show_flat_proofs.glob proofs/Show_flat_proofs.v.beautified proofs/Show_flat_proofs.required_vo: proofs/Show_flat_proofs.v lib/Bytes.vo lib/ShowTree.vo gen/Facts_show.vo model/ShowTypesM.vo proofs/ShowTree_proofs.vo
proofs/Show_flat_proofs.vio: proofs/Show_flat_proofs.v lib/Bytes.vio lib/ShowTree.vio gen/Facts_show.vio model/ShowTypesM.vio proofs/ShowTree_proofs.vio
proofs/Show_flat_proofs.vos proofs/Show_flat_proofs.vok proofs/Show_flat_proofs.required_vos: proofs/Show_flat_proofs.v lib/Bytes.vos lib/ShowTree.vos gen/Facts_show.vos model/ShowTypesM.vos proofs/ShowTree_proofs.vos
proofs/Show_js_checks.vo proofs/Show_js_checks.glob proofs/Show_js_checks.v.beautified proofs/Show_js_checks.required_vo: proofs/Show_js_checks.v lib/Bytes.vo lib/ShowTree.vo gen/Facts_show.vo model/ShowTypesM.vo model/ShowJsonM.vo model/ShowLeavesM.vo model/Json.vo model/ShowSpecM.vo proofs/ShowTree_proofs.vo
proofs/Show_js_checks.vio: proofs/Show_js_checks.v lib/Bytes.vio lib/ShowTree.vio gen/Facts_show.vio model/ShowTypesM.vio model/ShowJsonM.vio model/ShowLeavesM.vio model/Json.vio model/ShowSpecM.vio proofs/ShowTree_proofs.vio
proofs/Show_js_checks.vos proofs/Show_js_checks.vok proofs/Show_js_checks.required_vos: proofs/Show_js_checks.v lib/Bytes.vos lib/ShowTree.vos gen/Facts_show.vos model/ShowTypesM.vos model/ShowJsonM.vos model/ShowLeavesM.vos model/Json.vos model/ShowSpecM.vos proofs/ShowTree_proofs.vos
proofs/Show_js_proofs.vo proofs/Show_js_proofs.glob proofs/Show_js_proofs.v.beautified proofs/Show_js_proofs.required_vo: proofs/Show_js_proofs.v lib/Bytes.vo lib/ShowTree.vo gen/Facts_show.vo model/ShowTypesM.vo model/ShowJsonM.vo model/ShowLeavesM.vo model/Json.vo model/ShowSpecM.vo proofs/ShowTree_proofs.vo proofs/Show_js_checks.vo
proofs/Show_js_proofs.vio: proofs/Show_js_proofs.v lib/Bytes.vio lib/ShowTree.vio gen/Facts_show.vio model/ShowTypesM.vio model/ShowJsonM.vio model/ShowLeavesM.vio model/Json.vio model/ShowSpecM.vio proofs/ShowTree_proofs.vio proofs/Show_js_checks.vio
proofs/Show_js_proofs.vos proofs/Show_js_proofs.vok proofs/Show_js_proofs.required_vos: proofs/Show_js_proofs.v lib/Bytes.vos lib/ShowTree.vos gen/Facts_show.vos model/ShowTypesM.vos model/ShowJsonM.vos model/ShowLeavesM.vos model/Json.vos model/ShowSpecM.vos proofs/ShowTree_proofs.vos proofs/Show_js_checks.vos
props/C08.vo props/C08.glob props/C08.v.beautified props/C08.required_vo: props/C08.v lib/Bytes.vo lib/ShowTree.vo gen/Facts_show.vo model/ShowTypesM.vo model/ShowJsonM.vo model/ShowLeavesM.vo model/Json.vo model/ShowSpecM.vo proofs/ShowTree_proofs.vo proofs/Show_flat_proofs.vo proofs/Show_js_checks.vo proofs/Show_js_proofs.vo proofs/Show_c09_proofs.vo proofs/Json_proofs.vo proofs/ShowLeaves_proofs.vo proofs/ShowJson_proofs.vo proofs/ShowData_proofs.vo
props/C08.vio: props/C08.v lib/Bytes.vio lib/ShowTree.vio gen/Facts_show.vio model/ShowTypesM.vio model/ShowJsonM.vio model/ShowLeavesM.vio model/Json.vio model/ShowSpecM.vio proofs/ShowTree_proofs.vio proofs/Show_flat_proofs.vio proofs/Show_js_checks.vio proofs/Show_js_proofs.vio proofs/Show_c09_proofs.vio proofs/Json_proofs.vio proofs/ShowLeaves_proofs.vio proofs/ShowJson_proofs.vio proofs/ShowData_proofs.vio
props/C08.vos props/C08.vok props/C08.required_vos: props/C08.v lib/Bytes.vos lib/ShowTree.vos gen/Facts_show.vos model/ShowTypesM.vos model/ShowJsonM.vos model/ShowLeavesM.vos model/Json.vos model/ShowSpecM.vos proofs/ShowTree_proofs.vos proofs/Show_flat_proofs.vos proofs/Show_js_checks.vos proofs/Show_js_proofs.vos proofs/Show_c09_proofs.vos proofs/Json_proofs.vos proofs/ShowLeaves_proofs.vos proofs/ShowJson_proofs.vos proofs/ShowData_proofs.vos
props/C09.vo props/C09.glob props/C09.v.beautified props/C09.required_vo: props/C09.v lib/Bytes.vo lib/ShowTree.vo gen/Facts_show.vo model/ShowTypesM.vo model/ShowJsonM.vo proofs/ShowTree_proofs.vo proofs/Show_flat_proofs.vo proofs/Show_js_checks.vo proofs/Show_js_proofs.vo proofs/Show_c09_proofs.vo
props/C09.vio: props/C09.v lib/Bytes.vio lib/ShowTree.vio gen/Facts_show.vio model/ShowTypesM.vio model/ShowJsonM.vio proofs/ShowTree_proofs.vio proofs/Show_flat_proofs.vio proofs/Show_js_checks.vio proofs/Show_js_proofs.vio proofs/Show_c09_proofs.vio
props/C09.vos props/C09.vok props/C09.required_vos: props/C09.v lib/Bytes.vos lib/ShowTree.vos gen/Facts_show.vos model/ShowTypesM.vos model/ShowJsonM.vos proofs/ShowTree_proofs.vos proofs/Show_flat_proofs.vos proofs/Show_js_checks.vos proofs/Show_js_proofs.vos proofs/Show_c09_proofs.vos
props/C24.vo props/C24.glob props/C24.v.beautified props/C24.required_vo: props/C24.v lib/Bytes.vo gen/Facts_HTMLEscape.vo model/HTMLEscapeM.vo model/HtmlDecode.vo proofs/HTMLEscape_proofs.vo
props/C24.vio: props/C24.v lib/Bytes.vio gen/Facts_HTMLEscape.vio model/HTMLEscapeM.vio model/HtmlDecode.vio proofs/HTMLEscape_proofs.vio
props/C24.vos props/C24.vok props/C24.required_vos: props/C24.v lib/Bytes.vos gen/Facts_HTMLEscape.vos model/HTMLEscapeM.vos model/HtmlDecode.vos proofs/HTMLEscape_proofs.vos
