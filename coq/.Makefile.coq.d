lib/Bytes.vo lib/Bytes.glob lib/Bytes.v.beautified lib/Bytes.required_vo: lib/Bytes.v 
lib/Bytes.vio: lib/Bytes.v 
lib/Bytes.vos lib/Bytes.vok lib/Bytes.required_vos: lib/Bytes.v 
lib/Utf8.vo lib/Utf8.glob lib/Utf8.v.beautified lib/Utf8.required_vo: lib/Utf8.v lib/Bytes.vo
lib/Utf8.vio: lib/Utf8.v lib/Bytes.vio
lib/Utf8.vos lib/Utf8.vok lib/Utf8.required_vos: lib/Utf8.v lib/Bytes.vos
gen/Facts_HTMLEscape.vo gen/Facts_HTMLEscape.glob gen/Facts_HTMLEscape.v.beautified gen/Facts_HTMLEscape.required_vo: gen/Facts_HTMLEscape.v 
gen/Facts_HTMLEscape.vio: gen/Facts_HTMLEscape.v 
gen/Facts_HTMLEscape.vos gen/Facts_HTMLEscape.vok gen/Facts_HTMLEscape.required_vos: gen/Facts_HTMLEscape.v 
gen/Facts_checker.vo gen/Facts_checker.glob gen/Facts_checker.v.beautified gen/Facts_checker.required_vo: gen/Facts_checker.v 
gen/Facts_checker.vio: gen/Facts_checker.v 
gen/Facts_checker.vos gen/Facts_checker.vok gen/Facts_checker.required_vos: gen/Facts_checker.v 
gen/Facts_escapers.vo gen/Facts_escapers.glob gen/Facts_escapers.v.beautified gen/Facts_escapers.required_vo: gen/Facts_escapers.v 
gen/Facts_escapers.vio: gen/Facts_escapers.v 
gen/Facts_escapers.vos gen/Facts_escapers.vok gen/Facts_escapers.required_vos: gen/Facts_escapers.v 
model/BuildWrapM.vo model/BuildWrapM.glob model/BuildWrapM.v.beautified model/BuildWrapM.required_vo: model/BuildWrapM.v gen/Facts_checker.vo
model/BuildWrapM.vio: model/BuildWrapM.v gen/Facts_checker.vio
model/BuildWrapM.vos model/BuildWrapM.vok model/BuildWrapM.required_vos: model/BuildWrapM.v gen/Facts_checker.vos
model/HTMLEscapeM.vo model/HTMLEscapeM.glob model/HTMLEscapeM.v.beautified model/HTMLEscapeM.required_vo: model/HTMLEscapeM.v lib/Bytes.vo gen/Facts_HTMLEscape.vo
model/HTMLEscapeM.vio: model/HTMLEscapeM.v lib/Bytes.vio gen/Facts_HTMLEscape.vio
model/HTMLEscapeM.vos model/HTMLEscapeM.vok model/HTMLEscapeM.required_vos: model/HTMLEscapeM.v lib/Bytes.vos gen/Facts_HTMLEscape.vos
model/HtmlDecode.vo model/HtmlDecode.glob model/HtmlDecode.v.beautified model/HtmlDecode.required_vo: model/HtmlDecode.v lib/Bytes.vo lib/Utf8.vo
model/HtmlDecode.vio: model/HtmlDecode.v lib/Bytes.vio lib/Utf8.vio
model/HtmlDecode.vos model/HtmlDecode.vok model/HtmlDecode.required_vos: model/HtmlDecode.v lib/Bytes.vos lib/Utf8.vos
model/MiniGoM.vo model/MiniGoM.glob model/MiniGoM.v.beautified model/MiniGoM.required_vo: model/MiniGoM.v 
model/MiniGoM.vio: model/MiniGoM.v 
model/MiniGoM.vos model/MiniGoM.vok model/MiniGoM.required_vos: model/MiniGoM.v 
model/MiniGoSpec.vo model/MiniGoSpec.glob model/MiniGoSpec.v.beautified model/MiniGoSpec.required_vo: model/MiniGoSpec.v model/MiniGoM.vo
model/MiniGoSpec.vio: model/MiniGoSpec.v model/MiniGoM.vio
model/MiniGoSpec.vos model/MiniGoSpec.vok model/MiniGoSpec.required_vos: model/MiniGoSpec.v model/MiniGoM.vos
proofs/BuildWrap_proofs.vo proofs/BuildWrap_proofs.glob proofs/BuildWrap_proofs.v.beautified proofs/BuildWrap_proofs.required_vo: proofs/BuildWrap_proofs.v gen/Facts_checker.vo model/BuildWrapM.vo
proofs/BuildWrap_proofs.vio: proofs/BuildWrap_proofs.v gen/Facts_checker.vio model/BuildWrapM.vio
proofs/BuildWrap_proofs.vos proofs/BuildWrap_proofs.vok proofs/BuildWrap_proofs.required_vos: proofs/BuildWrap_proofs.v gen/Facts_checker.vos model/BuildWrapM.vos
proofs/HTMLEscape_proofs.vo proofs/HTMLEscape_proofs.glob proofs/HTMLEscape_proofs.v.beautified proofs/HTMLEscape_proofs.required_vo: proofs/HTMLEscape_proofs.v lib/Bytes.vo gen/Facts_HTMLEscape.vo model/HTMLEscapeM.vo lib/Utf8.vo model/HtmlDecode.vo proofs/HtmlDecode_proofs.vo
proofs/HTMLEscape_proofs.vio: proofs/HTMLEscape_proofs.v lib/Bytes.vio gen/Facts_HTMLEscape.vio model/HTMLEscapeM.vio lib/Utf8.vio model/HtmlDecode.vio proofs/HtmlDecode_proofs.vio
proofs/HTMLEscape_proofs.vos proofs/HTMLEscape_proofs.vok proofs/HTMLEscape_proofs.required_vos: proofs/HTMLEscape_proofs.v lib/Bytes.vos gen/Facts_HTMLEscape.vos model/HTMLEscapeM.vos lib/Utf8.vos model/HtmlDecode.vos proofs/HtmlDecode_proofs.vos
proofs/HtmlDecode_proofs.vo proofs/HtmlDecode_proofs.glob proofs/HtmlDecode_proofs.v.beautified proofs/HtmlDecode_proofs.required_vo: proofs/HtmlDecode_proofs.v lib/Bytes.vo lib/Utf8.vo model/HtmlDecode.vo
proofs/HtmlDecode_proofs.vio: proofs/HtmlDecode_proofs.v lib/Bytes.vio lib/Utf8.vio model/HtmlDecode.vio
proofs/HtmlDecode_proofs.vos proofs/HtmlDecode_proofs.vok proofs/HtmlDecode_proofs.required_vos: proofs/HtmlDecode_proofs.v lib/Bytes.vos lib/Utf8.vos model/HtmlDecode.vos
proofs/MiniGo_proofs.vo proofs/MiniGo_proofs.glob proofs/MiniGo_proofs.v.beautified proofs/MiniGo_proofs.required_vo: proofs/MiniGo_proofs.v model/MiniGoM.vo model/MiniGoSpec.vo
proofs/MiniGo_proofs.vio: proofs/MiniGo_proofs.v model/MiniGoM.vio model/MiniGoSpec.vio
proofs/MiniGo_proofs.vos proofs/MiniGo_proofs.vok proofs/MiniGo_proofs.required_vos: proofs/MiniGo_proofs.v model/MiniGoM.vos model/MiniGoSpec.vos
props/C03.vo props/C03.glob props/C03.v.beautified props/C03.required_vo: props/C03.v model/MiniGoM.vo model/MiniGoSpec.vo proofs/MiniGo_proofs.vo gen/Facts_checker.vo model/BuildWrapM.vo proofs/BuildWrap_proofs.vo
props/C03.vio: props/C03.v model/MiniGoM.vio model/MiniGoSpec.vio proofs/MiniGo_proofs.vio gen/Facts_checker.vio model/BuildWrapM.vio proofs/BuildWrap_proofs.vio
props/C03.vos props/C03.vok props/C03.required_vos: props/C03.v model/MiniGoM.vos model/MiniGoSpec.vos proofs/MiniGo_proofs.vos gen/Facts_checker.vos model/BuildWrapM.vos proofs/BuildWrap_proofs.vos
props/C24.vo props/C24.glob props/C24.v.beautified props/C24.required_vo: props/C24.v lib/Bytes.vo gen/Facts_HTMLEscape.vo model/HTMLEscapeM.vo model/HtmlDecode.vo proofs/HTMLEscape_proofs.vo
props/C24.vio: props/C24.v lib/Bytes.vio gen/Facts_HTMLEscape.vio model/HTMLEscapeM.vio model/HtmlDecode.vio proofs/HTMLEscape_proofs.vio
props/C24.vos props/C24.vok props/C24.required_vos: props/C24.v lib/Bytes.vos gen/Facts_HTMLEscape.vos model/HTMLEscapeM.vos model/HtmlDecode.vos proofs/HTMLEscape_proofs.vos
