gen/Facts_HTMLEscape.vo gen/Facts_HTMLEscape.glob gen/Facts_HTMLEscape.v.beautified gen/Facts_HTMLEscape.required_vo: gen/Facts_HTMLEscape.v 
gen/Facts_HTMLEscape.vio: gen/Facts_HTMLEscape.v 
gen/Facts_HTMLEscape.vos gen/Facts_HTMLEscape.vok gen/Facts_HTMLEscape.required_vos: gen/Facts_HTMLEscape.v 
gen/Facts_alu.vo gen/Facts_alu.glob gen/Facts_alu.v.beautified gen/Facts_alu.required_vo: gen/Facts_alu.v lib/GoInt.vo
gen/Facts_alu.vio: gen/Facts_alu.v lib/GoInt.vio
gen/Facts_alu.vos gen/Facts_alu.vok gen/Facts_alu.required_vos: gen/Facts_alu.v lib/GoInt.vos
gen/Facts_escapers.vo gen/Facts_escapers.glob gen/Facts_escapers.v.beautified gen/Facts_escapers.required_vo: gen/Facts_escapers.v 
gen/Facts_escapers.vio: gen/Facts_escapers.v 
gen/Facts_escapers.vos gen/Facts_escapers.vok gen/Facts_escapers.required_vos: gen/Facts_escapers.v 
gen/Facts_limits.vo gen/Facts_limits.glob gen/Facts_limits.v.beautified gen/Facts_limits.required_vo: gen/Facts_limits.v lib/GoInt.vo
gen/Facts_limits.vio: gen/Facts_limits.v lib/GoInt.vio
gen/Facts_limits.vos gen/Facts_limits.vok gen/Facts_limits.required_vos: gen/Facts_limits.v lib/GoInt.vos
lib/Bytes.vo lib/Bytes.glob lib/Bytes.v.beautified lib/Bytes.required_vo: lib/Bytes.v 
lib/Bytes.vio: lib/Bytes.v 
lib/Bytes.vos lib/Bytes.vok lib/Bytes.required_vos: lib/Bytes.v 
lib/GoBits.vo lib/GoBits.glob lib/GoBits.v.beautified lib/GoBits.required_vo: lib/GoBits.v lib/GoInt.vo
lib/GoBits.vio: lib/GoBits.v lib/GoInt.vio
lib/GoBits.vos lib/GoBits.vok lib/GoBits.required_vos: lib/GoBits.v lib/GoInt.vos
lib/GoInt.vo lib/GoInt.glob lib/GoInt.v.beautified lib/GoInt.required_vo: lib/GoInt.v 
lib/GoInt.vio: lib/GoInt.v 
lib/GoInt.vos lib/GoInt.vok lib/GoInt.required_vos: lib/GoInt.v 
lib/Utf8.vo lib/Utf8.glob lib/Utf8.v.beautified lib/Utf8.required_vo: lib/Utf8.v lib/Bytes.vo
lib/Utf8.vio: lib/Utf8.v lib/Bytes.vio
lib/Utf8.vos lib/Utf8.vok lib/Utf8.required_vos: lib/Utf8.v lib/Bytes.vos
model/AluM.vo model/AluM.glob model/AluM.v.beautified model/AluM.required_vo: model/AluM.v lib/GoInt.vo gen/Facts_alu.vo
model/AluM.vio: model/AluM.v lib/GoInt.vio gen/Facts_alu.vio
model/AluM.vos model/AluM.vok model/AluM.required_vos: model/AluM.v lib/GoInt.vos gen/Facts_alu.vos
model/HTMLEscapeM.vo model/HTMLEscapeM.glob model/HTMLEscapeM.v.beautified model/HTMLEscapeM.required_vo: model/HTMLEscapeM.v lib/Bytes.vo gen/Facts_HTMLEscape.vo
model/HTMLEscapeM.vio: model/HTMLEscapeM.v lib/Bytes.vio gen/Facts_HTMLEscape.vio
model/HTMLEscapeM.vos model/HTMLEscapeM.vok model/HTMLEscapeM.required_vos: model/HTMLEscapeM.v lib/Bytes.vos gen/Facts_HTMLEscape.vos
model/HtmlDecode.vo model/HtmlDecode.glob model/HtmlDecode.v.beautified model/HtmlDecode.required_vo: model/HtmlDecode.v lib/Bytes.vo lib/Utf8.vo
model/HtmlDecode.vio: model/HtmlDecode.v lib/Bytes.vio lib/Utf8.vio
model/HtmlDecode.vos model/HtmlDecode.vok model/HtmlDecode.required_vos: model/HtmlDecode.v lib/Bytes.vos lib/Utf8.vos
model/LimitsM.vo model/LimitsM.glob model/LimitsM.v.beautified model/LimitsM.required_vo: model/LimitsM.v lib/GoInt.vo gen/Facts_limits.vo
model/LimitsM.vio: model/LimitsM.v lib/GoInt.vio gen/Facts_limits.vio
model/LimitsM.vos model/LimitsM.vok model/LimitsM.required_vos: model/LimitsM.v lib/GoInt.vos gen/Facts_limits.vos
proofs/Alu_proofs.vo proofs/Alu_proofs.glob proofs/Alu_proofs.v.beautified proofs/Alu_proofs.required_vo: proofs/Alu_proofs.v lib/GoInt.vo gen/Facts_alu.vo model/AluM.vo lib/GoBits.vo
proofs/Alu_proofs.vio: proofs/Alu_proofs.v lib/GoInt.vio gen/Facts_alu.vio model/AluM.vio lib/GoBits.vio
proofs/Alu_proofs.vos proofs/Alu_proofs.vok proofs/Alu_proofs.required_vos: proofs/Alu_proofs.v lib/GoInt.vos gen/Facts_alu.vos model/AluM.vos lib/GoBits.vos
proofs/HTMLEscape_proofs.vo proofs/HTMLEscape_proofs.glob proofs/HTMLEscape_proofs.v.beautified proofs/HTMLEscape_proofs.required_vo: proofs/HTMLEscape_proofs.v lib/Bytes.vo gen/Facts_HTMLEscape.vo model/HTMLEscapeM.vo lib/Utf8.vo model/HtmlDecode.vo proofs/HtmlDecode_proofs.vo
proofs/HTMLEscape_proofs.vio: proofs/HTMLEscape_proofs.v lib/Bytes.vio gen/Facts_HTMLEscape.vio model/HTMLEscapeM.vio lib/Utf8.vio model/HtmlDecode.vio proofs/HtmlDecode_proofs.vio
proofs/HTMLEscape_proofs.vos proofs/HTMLEscape_proofs.vok proofs/HTMLEscape_proofs.required_vos: proofs/HTMLEscape_proofs.v lib/Bytes.vos gen/Facts_HTMLEscape.vos model/HTMLEscapeM.vos lib/Utf8.vos model/HtmlDecode.vos proofs/HtmlDecode_proofs.vos
proofs/HtmlDecode_proofs.vo proofs/HtmlDecode_proofs.glob proofs/HtmlDecode_proofs.v.beautified proofs/HtmlDecode_proofs.required_vo: proofs/HtmlDecode_proofs.v lib/Bytes.vo lib/Utf8.vo model/HtmlDecode.vo
proofs/HtmlDecode_proofs.vio: proofs/HtmlDecode_proofs.v lib/Bytes.vio lib/Utf8.vio model/HtmlDecode.vio
proofs/HtmlDecode_proofs.vos proofs/HtmlDecode_proofs.vok proofs/HtmlDecode_proofs.required_vos: proofs/HtmlDecode_proofs.v lib/Bytes.vos lib/Utf8.vos model/HtmlDecode.vos
proofs/Limits_proofs.vo proofs/Limits_proofs.glob proofs/Limits_proofs.v.beautified proofs/Limits_proofs.required_vo: proofs/Limits_proofs.v lib/GoInt.vo lib/GoBits.vo gen/Facts_limits.vo model/LimitsM.vo
proofs/Limits_proofs.vio: proofs/Limits_proofs.v lib/GoInt.vio lib/GoBits.vio gen/Facts_limits.vio model/LimitsM.vio
proofs/Limits_proofs.vos proofs/Limits_proofs.vok proofs/Limits_proofs.required_vos: proofs/Limits_proofs.v lib/GoInt.vos lib/GoBits.vos gen/Facts_limits.vos model/LimitsM.vos
proofs/Limits_sweeps.vo proofs/Limits_sweeps.glob proofs/Limits_sweeps.v.beautified proofs/Limits_sweeps.required_vo: proofs/Limits_sweeps.v lib/GoInt.vo lib/GoBits.vo gen/Facts_limits.vo model/LimitsM.vo
proofs/Limits_sweeps.vio: proofs/Limits_sweeps.v lib/GoInt.vio lib/GoBits.vio gen/Facts_limits.vio model/LimitsM.vio
proofs/Limits_sweeps.vos proofs/Limits_sweeps.vok proofs/Limits_sweeps.required_vos: proofs/Limits_sweeps.v lib/GoInt.vos lib/GoBits.vos gen/Facts_limits.vos model/LimitsM.vos
props/C01.vo props/C01.glob props/C01.v.beautified props/C01.required_vo: props/C01.v lib/GoInt.vo gen/Facts_alu.vo model/AluM.vo proofs/Alu_proofs.vo
props/C01.vio: props/C01.v lib/GoInt.vio gen/Facts_alu.vio model/AluM.vio proofs/Alu_proofs.vio
props/C01.vos props/C01.vok props/C01.required_vos: props/C01.v lib/GoInt.vos gen/Facts_alu.vos model/AluM.vos proofs/Alu_proofs.vos
props/C20.vo props/C20.glob props/C20.v.beautified props/C20.required_vo: props/C20.v lib/GoInt.vo gen/Facts_limits.vo model/LimitsM.vo proofs/Limits_proofs.vo proofs/Limits_sweeps.vo
props/C20.vio: props/C20.v lib/GoInt.vio gen/Facts_limits.vio model/LimitsM.vio proofs/Limits_proofs.vio proofs/Limits_sweeps.vio
props/C20.vos props/C20.vok props/C20.required_vos: props/C20.v lib/GoInt.vos gen/Facts_limits.vos model/LimitsM.vos proofs/Limits_proofs.vos proofs/Limits_sweeps.vos
props/C24.vo props/C24.glob props/C24.v.beautified props/C24.required_vo: props/C24.v lib/Bytes.vo gen/Facts_HTMLEscape.vo model/HTMLEscapeM.vo model/HtmlDecode.vo proofs/HTMLEscape_proofs.vo
props/C24.vio: props/C24.v lib/Bytes.vio gen/Facts_HTMLEscape.vio model/HTMLEscapeM.vio model/HtmlDecode.vio proofs/HTMLEscape_proofs.vio
props/C24.vos props/C24.vok props/C24.required_vos: props/C24.v lib/Bytes.vos gen/Facts_HTMLEscape.vos model/HTMLEscapeM.vos model/HtmlDecode.vos proofs/HTMLEscape_proofs.vos
