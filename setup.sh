#!/bin/bash
# Builds the whole framework from files on disk (offline): translator, facts,
# the Coq development (full .vo build), the extracted model drivers, the Go harness.
set -e
cd "$(dirname "$0")"
export GOFLAGS=-mod=mod GOPROXY=off GONOSUMDB=golang.org,pgregory.net,github.com,gopkg.in CGO_ENABLED=0
unset GOSUMDB
export GOTOOLCHAIN=auto
mkdir -p bin build coq/gen evidence replays
(cd tools/gofacts && go build -o ../../bin/gofacts .)
./bin/gofacts -repo "${VERIF_REPO:-/repo}" -out coq/gen || echo "setup: gofacts reported untranslatable facts (see coq/gen/ERRORS.txt)"
cd coq
FILES=$(find lib gen model proofs props -name '*.v' | sort)
coq_makefile -f _CoqProject $FILES -o Makefile.coq
echo "$FILES" | sed 's/ /\n/g' > /dev/null
timeout 3000 make -f Makefile.coq -j16 -k > ../build/setup_make.log 2>&1 || { echo "setup: coq build had errors (see build/setup_make.log)"; grep -A5 "^File\|Error" ../build/setup_make.log | head -40; }
cd ..
for e in $(ls coq/extract/Extract_*.v | sed 's/.*Extract_\(.*\)\.v/\1/'); do
  ./build_engine.sh $e || echo "setup: engine $e failed"
done
for c in harness/cmd/*/; do (cd harness && go build -tags verif -o ../bin/$(basename $c) ./cmd/$(basename $c)) || echo "setup: harness $(basename $c) failed"; done
python3 tools/lint.py || echo "setup: lint reported forbidden constructs"
echo "setup done"
