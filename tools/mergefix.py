#!/usr/bin/env python3
"""Resolve merge conflicts in the append-only shared text files by taking both
sides, and remap commit hashes of agent branches to the cherry-picked commits
on /repo's main branch (matched by subject)."""
import re, subprocess, sys
files = ["KNOWN_FINDINGS.txt", "checks/hook_commits.txt"]
main = {}
for l in subprocess.check_output(["git", "-C", "/repo", "log", "--format=%h\t%s", "main"]).decode().splitlines():
    h, s = l.split("\t", 1)
    main.setdefault(s, h)
mainhashes = set(main.values())
def remap(m):
    h = m.group(0)
    if h in mainhashes:
        return h
    try:
        s = subprocess.check_output(["git", "-C", "/repo", "log", "-1", "--format=%s", h], stderr=subprocess.DEVNULL).decode().strip()
    except subprocess.CalledProcessError:
        return h
    return main.get(s, h)
for f in files:
    txt = open(f).read()
    out, seen = [], set()
    for l in txt.split("\n"):
        if l.startswith("<<<<<<<") or l.startswith("=======") or l.startswith(">>>>>>>"):
            continue
        l2 = re.sub(r"\b[0-9a-f]{7}\b", remap, l)
        if l2.strip() and l2 in seen:
            continue
        seen.add(l2)
        out.append(l2)
    open(f, "w").write("\n".join(out).rstrip("\n") + "\n")
print("merged", files)
