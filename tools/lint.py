#!/usr/bin/env python3
"""Checks the Coq development for what the brief forbids: Admitted/admit, Axiom/Parameter/Conjecture,
Variable/Hypothesis outside a Section, switched-off kernel checks. Exit 1 if anything is found."""
import re, glob, os, sys
V = os.path.dirname(os.path.dirname(os.path.abspath(__file__)))
bad = []
for f in sorted(glob.glob(os.path.join(V, "coq", "*", "*.v"))):
    if "/gen/" in f:
        continue
    txt = re.sub(r"\(\*.*?\*\)", "", open(f, errors="replace").read(), flags=re.S)
    depth = 0
    for n, line in enumerate(txt.split("\n"), 1):
        if re.match(r"\s*Section\s+\w+", line):
            depth += 1
        elif re.match(r"\s*End\s+\w+\s*\.", line) and depth > 0:
            depth -= 1
        if re.search(r"\b(Admitted|admit|Conjecture)\b|Unset\s+Guard|bypass_check|Unset\s+Universe\s+Checking|Unset\s+Positivity", line):
            bad.append((f, n, line.strip()))
        if re.match(r"\s*(Axiom|Axioms|Parameter|Parameters)\b", line):
            bad.append((f, n, line.strip()))
        if depth == 0 and re.match(r"\s*(Variable|Variables|Hypothesis|Hypotheses|Context)\b", line):
            bad.append((f, n, line.strip()))
for a in ("_CoqProject",):
    p = os.path.join(V, "coq", a)
    if os.path.exists(p) and re.search(r"type-in-type|impredicative-set", open(p).read()):
        bad.append((p, 0, "forbidden coqc flag"))
for b in bad:
    print("%s:%d: %s" % b)
print("lint: %d problem(s)" % len(bad))
sys.exit(1 if bad else 0)
