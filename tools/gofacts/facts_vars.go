package main

import (
	"bytes"
	"fmt"
	"go/ast"
	"go/constant"
	"go/token"

	"golang.org/x/tools/go/packages"
)

// constString returns the constant string value of x in p, or panics naming what.
func constString(p *packages.Package, x ast.Expr, what string) string {
	tv, ok := p.TypesInfo.Types[x]
	if !ok || tv.Value == nil || tv.Value.Kind() != constant.String {
		panic(fmt.Sprintf("%s is not a constant string: %s", what, exprText(p.Fset, x)))
	}
	return constant.StringVal(tv.Value)
}

func init() {
	// Facts_vars: the package names that tie a reference to a template global
	// (checker), its Global entry (emitter) and the binding in Template.Run.
	register("Facts_vars", func(w *world, b *bytes.Buffer) error {
		comp := w.pkg("internal/compiler")
		// 1. checkIdentifier: ast.Upvar{NativeName: ident.Name, NativePkg: <X>, ...}
		fd := findMethod(comp, "typechecker", "checkIdentifier")
		if fd == nil {
			panic("method typechecker.checkIdentifier not found")
		}
		var pkgExpr, nameExpr ast.Expr
		ast.Inspect(fd.Body, func(n ast.Node) bool {
			cl, ok := n.(*ast.CompositeLit)
			if !ok {
				return true
			}
			if sel, ok := cl.Type.(*ast.SelectorExpr); !ok || sel.Sel.Name != "Upvar" {
				return true
			}
			for _, e := range cl.Elts {
				if kv, ok := e.(*ast.KeyValueExpr); ok {
					if k, ok := kv.Key.(*ast.Ident); ok && k.Name == "NativePkg" {
						pkgExpr = kv.Value
					} else if ok && k.Name == "NativeName" {
						nameExpr = kv.Value
					}
				}
			}
			return true
		})
		if pkgExpr == nil || nameExpr == nil {
			panic("checkIdentifier: no ast.Upvar literal with NativePkg and NativeName found")
		}
		upvarPkg := constString(comp, pkgExpr, "NativePkg of the native upvar built by checkIdentifier")
		fmt.Fprintf(b, "(* checker_expressions.go checkIdentifier: NativePkg of the upvar of a template global *)\nDefinition gen_upvar_NativePkg : list N := %s.\n\n", coqBytes(upvarPkg))
		isIdentName := exprText(comp.Fset, nameExpr) == "ident.Name"
		fmt.Fprintf(b, "(* checkIdentifier: NativeName of that upvar is ident.Name *)\nDefinition gen_upvar_NativeName_is_ident : bool := %s.\n\n", coqBool(isIdentName))

		// 2. typecheck: globals := native.Package{Name: <X>, Declarations: opts.globals}
		tcf := findFunc(comp, "typecheck")
		if tcf == nil {
			panic("function compiler.typecheck not found")
		}
		var globalsName ast.Expr
		ast.Inspect(tcf.Body, func(n ast.Node) bool {
			cl, ok := n.(*ast.CompositeLit)
			if !ok {
				return true
			}
			if sel, ok := cl.Type.(*ast.SelectorExpr); !ok || sel.Sel.Name != "Package" {
				return true
			}
			var name ast.Expr
			isGlobals := false
			for _, e := range cl.Elts {
				if kv, ok := e.(*ast.KeyValueExpr); ok {
					if k, ok := kv.Key.(*ast.Ident); ok && k.Name == "Name" {
						name = kv.Value
					} else if ok && k.Name == "Declarations" && exprText(comp.Fset, kv.Value) == "opts.globals" {
						isGlobals = true
					}
				}
			}
			if isGlobals {
				globalsName = name
			}
			return true
		})
		if globalsName == nil {
			panic("typecheck: native.Package{Name: ..., Declarations: opts.globals} not found")
		}
		fmt.Fprintf(b, "(* checker.go typecheck: the package name given to the globals of the build options *)\nDefinition gen_globals_PackageName : list N := %s.\n\n",
			coqBytes(constString(comp, globalsName, "Name of the native.Package of the globals in typecheck")))

		// 3. initGlobalVariables: if variable.Pkg == <X>
		root := w.pkg("")
		ig := findFunc(root, "initGlobalVariables")
		if ig == nil {
			panic("function initGlobalVariables not found")
		}
		var cmp ast.Expr
		count := 0
		ast.Inspect(ig.Body, func(n ast.Node) bool {
			be, ok := n.(*ast.BinaryExpr)
			if !ok || be.Op != token.EQL {
				return true
			}
			if sel, ok := be.X.(*ast.SelectorExpr); ok && sel.Sel.Name == "Pkg" {
				cmp = be.Y
				count++
			}
			return true
		})
		if count != 1 {
			panic(fmt.Sprintf("initGlobalVariables: expected one comparison of variable.Pkg, found %d", count))
		}
		fmt.Fprintf(b, "(* templates.go initGlobalVariables: variables of this package are bound to Run's vars *)\nDefinition gen_init_pkg : list N := %s.\n\n",
			coqBytes(constString(root, cmp, "the package compared with variable.Pkg in initGlobalVariables")))
		return nil
	})
}
