package main

import (
	"bytes"
	"fmt"
	"go/ast"
	"go/constant"

	"golang.org/x/tools/go/packages"
)

// escLoopByte runs the body of loop #n of fn with s[i] = c (and the given
// parameter values) and reports the string held by variable `esc` when the
// body goes on to its write section, or ok=false when it `continue`s.
func escLoopByte(p *packages.Package, fn string, n int, params map[string]constant.Value, c int64) (string, bool) {
	fd := mustFunc(p, fn)
	ls := loops(fd.Body)
	if n >= len(ls) {
		panic(fmt.Sprintf("%s: loop #%d not found", fn, n))
	}
	e := newEnv(p)
	bindParams(e, fd, params)
	e.byname["s[i]"] = constant.MakeInt64(c)
	if rs, ok := ls[n].(*ast.RangeStmt); ok && rs.Value != nil {
		if id, ok := rs.Value.(*ast.Ident); ok {
			e.vars[p.TypesInfo.Defs[id]] = constant.MakeInt64(c)
		}
	}
	k := e.run(loopBody(ls[n]).List)
	switch k {
	case stopContinue:
		return "", false
	case stopUnknown:
		v, ok := e.varNamed("esc")
		if !ok {
			panic(fmt.Sprintf("%s: byte %d: stopped (%s) without a known esc", fn, c, e.why))
		}
		s := constant.StringVal(v)
		if s == "" {
			panic(fmt.Sprintf("%s: byte %d: reaches the write section with an empty esc (%s)", fn, c, e.why))
		}
		return s, true
	}
	panic(fmt.Sprintf("%s: byte %d: unexpected end of loop body (%d)", fn, c, k))
}

func boolFunc(p *packages.Package, fn string) func(c int64) bool {
	fd := mustFunc(p, fn)
	return func(c int64) bool {
		r, ok := callFunc(p, fd, []constant.Value{constant.MakeInt64(c)}, 0)
		if !ok || len(r) != 1 {
			panic(fmt.Sprintf("%s(%d) is not evaluable", fn, c))
		}
		return constant.BoolVal(r[0])
	}
}

func init() {
	register("Facts_HTMLEscape", func(w *world, b *bytes.Buffer) error {
		p := w.pkg("")
		fd := mustFunc(p, "HTMLEscape")
		ls := loops(fd.Body)
		if len(ls) != 2 {
			return fmt.Errorf("HTMLEscape: expected 2 loops, found %d", len(ls))
		}
		// pass 1: the amount added to n for each byte (absent = `continue`).
		emitByteNTable(b, "gen_HTMLEscape_inc", "templates.go HTMLEscape, first loop: n += K for byte c", func(c int64) (int64, bool) {
			e := newEnv(p)
			e.byname["s[i]"] = constant.MakeInt64(c)
			e.byname["n"] = constant.MakeInt64(0)
			k := e.run(loopBody(ls[0]).List)
			if k == stopContinue {
				return 0, false
			}
			v, ok := e.varNamed("n")
			if !ok {
				panic(fmt.Sprintf("HTMLEscape pass 1, byte %d: n unknown (%s)", c, e.why))
			}
			return i64(v), true
		})
		// the threshold of `if n <= T { j = i }`: largest n in 0..64 for which j is assigned.
		thr := int64(-1)
		for n := int64(0); n <= 64; n++ {
			e := newEnv(p)
			e.byname["s[i]"] = constant.MakeInt64('<')
			e.byname["n"] = constant.MakeInt64(n)
			e.byname["i"] = constant.MakeInt64(7)
			e.byname["j"] = constant.MakeInt64(0)
			e.run(loopBody(ls[0]).List)
			nv, _ := e.varNamed("n")
			if v, ok := e.varNamed("j"); ok && i64(v) == 7 {
				thr = i64(nv)
			}
		}
		fmt.Fprintf(b, "(* templates.go HTMLEscape, first loop: j = i is executed iff the updated n <= this bound *)\nDefinition gen_HTMLEscape_first_bound : N := %d.\n\n", thr)
		// pass 2: bytes copied at b[j:] and the advance of j.
		type r2 struct {
			rep string
			adv int64
		}
		pass2 := func(c int64) (r2, bool) {
			e := newEnv(p)
			e.byname["s[i]"] = constant.MakeInt64(c)
			e.byname["j"] = constant.MakeInt64(0)
			k := e.run(loopBody(ls[1]).List)
			j, ok := e.varNamed("j")
			if !ok {
				panic(fmt.Sprintf("HTMLEscape pass 2, byte %d: j unknown", c))
			}
			if k == stopContinue {
				// default: b[j] = c; j++
				if len(e.effects) != 1 || e.effects[0].fn != "assign:b[j]" || e.effects[0].args[0] == nil || i64(e.effects[0].args[0]) != c || i64(j) != 1 {
					panic(fmt.Sprintf("HTMLEscape pass 2, byte %d: unexpected default branch %v", c, e.effects))
				}
				return r2{}, false
			}
			if len(e.effects) != 1 || e.effects[0].fn != "copy" || e.effects[0].args[1] == nil {
				panic(fmt.Sprintf("HTMLEscape pass 2, byte %d: expected one copy(b[j:], lit), got %v (%s)", c, e.effects, e.why))
			}
			return r2{constant.StringVal(e.effects[0].args[1]), i64(j)}, true
		}
		emitByteTable(b, "gen_HTMLEscape_rep", "templates.go HTMLEscape, second loop: copy(b[j:], lit) for byte c (absent = byte copied)", func(c int64) (string, bool) {
			r, ok := pass2(c)
			return r.rep, ok
		})
		emitByteNTable(b, "gen_HTMLEscape_adv", "templates.go HTMLEscape, second loop: j += K for byte c", func(c int64) (int64, bool) {
			r, ok := pass2(c)
			return r.adv, ok
		})
		// builtin.HtmlEscape is a direct call of scriggo.HTMLEscape.
		bp := w.pkg("builtin")
		bf := mustFunc(bp, "HtmlEscape")
		direct := false
		if len(bf.Body.List) == 1 {
			if rs, ok := bf.Body.List[0].(*ast.ReturnStmt); ok && len(rs.Results) == 1 {
				if ce, ok := rs.Results[0].(*ast.CallExpr); ok {
					if se, ok := ce.Fun.(*ast.SelectorExpr); ok && se.Sel.Name == "HTMLEscape" && len(ce.Args) == 1 {
						if id, ok := ce.Args[0].(*ast.Ident); ok && id.Name == bf.Type.Params.List[0].Names[0].Name {
							direct = true
						}
					}
				}
			}
		}
		fmt.Fprintf(b, "(* builtin.HtmlEscape(s) is `return scriggo.HTMLEscape(s)` *)\nDefinition gen_builtin_HtmlEscape_is_HTMLEscape : bool := %s.\n", coqBool(direct))
		return nil
	})

	register("Facts_escapers", func(w *world, b *bytes.Buffer) error {
		p := w.pkg("internal/runtime")
		T, F := constant.MakeBool(true), constant.MakeBool(false)
		emitByteTable(b, "gen_htmlEscape_tbl", "escapers.go htmlEscape: esc for byte c", func(c int64) (string, bool) {
			return escLoopByte(p, "htmlEscape", 0, nil, c)
		})
		emitByteTable(b, "gen_htmlNoEntitiesEscape_tbl", "escapers.go htmlNoEntitiesEscape", func(c int64) (string, bool) {
			return escLoopByte(p, "htmlNoEntitiesEscape", 0, nil, c)
		})
		emitByteTable(b, "gen_attrUnquoted_entities_tbl", "escapers.go attributeEscape(escapeEntities=true, quoted=false)", func(c int64) (string, bool) {
			return escLoopByte(p, "attributeEscape", 0, map[string]constant.Value{"escapeEntities": T, "quoted": F}, c)
		})
		emitByteTable(b, "gen_attrUnquoted_noentities_tbl", "escapers.go attributeEscape(escapeEntities=false, quoted=false)", func(c int64) (string, bool) {
			return escLoopByte(p, "attributeEscape", 0, map[string]constant.Value{"escapeEntities": F, "quoted": F}, c)
		})
		// attributeEscape quoted dispatch: which function is called.
		for _, q := range []struct {
			ent  bool
			name string
		}{{true, "gen_attrQuoted_entities_callee"}, {false, "gen_attrQuoted_noentities_callee"}} {
			fd := mustFunc(p, "attributeEscape")
			callee := ""
			e := newEnv(p)
			bindParams(e, fd, map[string]constant.Value{"escapeEntities": constant.MakeBool(q.ent), "quoted": T})
			// walk: if quoted { if escapeEntities { return A } return B }
			var find func(list []ast.Stmt) bool
			find = func(list []ast.Stmt) bool {
				for _, s := range list {
					switch s := s.(type) {
					case *ast.IfStmt:
						c := e.eval(s.Cond)
						if c == nil {
							return false
						}
						if constant.BoolVal(c) {
							if find(s.Body.List) {
								return true
							}
						}
					case *ast.ReturnStmt:
						if len(s.Results) == 1 {
							if ce, ok := s.Results[0].(*ast.CallExpr); ok {
								if id, ok := ce.Fun.(*ast.Ident); ok {
									callee = id.Name
								}
							}
						}
						return true
					default:
						return false
					}
				}
				return false
			}
			find(fd.Body.List)
			if callee == "" {
				return fmt.Errorf("attributeEscape: quoted dispatch not recognised")
			}
			fmt.Fprintf(b, "(* attributeEscape with quoted=true, escapeEntities=%v returns %s(w, s) *)\nDefinition %s : N := %d.\n\n", q.ent, callee, q.name,
				map[string]int{"htmlEscape": 1, "htmlNoEntitiesEscape": 2}[callee])
		}
		emitByteSet(b, "gen_prefixWithSpace", "escapers.go prefixWithSpace", boolFunc(p, "prefixWithSpace"))
		emitByteSet(b, "gen_isHexDigit", "escapers.go isHexDigit", boolFunc(p, "isHexDigit"))
		emitByteTable(b, "gen_cssStringEscape_tbl", "escapers.go cssStringEscape: esc for byte c (through cssStringEscapes)", func(c int64) (string, bool) {
			return escLoopByte(p, "cssStringEscape", 0, nil, c)
		})
		// jsStringEscape iterates over runes: evaluate every rune up to U+2100 and a few beyond.
		fmt.Fprintf(b, "(* escapers.go jsStringEscape: esc for rune c, evaluated for every rune <= U+20FF, U+FFFD, U+FEFF, U+10FFFF *)\nDefinition gen_jsStringEscape_tbl : list (N * list N) := [")
		first := true
		runes := []int64{}
		for c := int64(0); c < 0x2100; c++ {
			runes = append(runes, c)
		}
		runes = append(runes, 0xFFFD, 0xFEFF, 0x10FFFF, 0xE000)
		for _, c := range runes {
			if s, ok := escLoopByte(p, "jsStringEscape", 0, nil, c); ok {
				if !first {
					b.WriteString(";")
				}
				first = false
				fmt.Fprintf(b, "\n  (%d, %s)", c, coqBytes(s))
			}
		}
		b.WriteString("].\n\n")
		hc := findConst(p, "hexchars")
		fmt.Fprintf(b, "(* escapers.go hexchars *)\nDefinition gen_hexchars : list N := %s.\n\n", coqBytes(hc))
		return nil
	})
}

func findConst(p *packages.Package, name string) string {
	o := p.Types.Scope().Lookup(name)
	if o == nil {
		panic("constant " + name + " not found")
	}
	c, ok := o.(interface{ Val() constant.Value })
	if !ok {
		panic(name + " is not a constant")
	}
	return constant.StringVal(c.Val())
}
