package main

// Facts_checker (property C03): how a rejected program leaves scriggo.Build.
//
//   - every `panic(` call site of internal/compiler/checker*.go, parser*.go and
//     emitter*.go, classified by its argument with go/types (a CheckingError
//     built by tc.errorf / checkError, a *SyntaxError, a *LimitExceededError, a
//     *CycleError, a re-panic of a recovered value, or anything else =
//     internal error that would escape Build as a raw panic);
//   - the same list as committed in checks/C03_panic_sites.json (so that the
//     Coq obligation gen = committed breaks when a site is added or changed);
//   - the error types that the recover() sites of the compiler convert into a
//     returned error, the types that implement compiler.Error, and whether
//     Build wraps a compiler.Error into a *BuildError.
//
// GOFACTS_WRITE_PANIC_SITES=1 rewrites the committed classification file.

import (
	"bytes"
	"encoding/json"
	"fmt"
	"go/ast"
	"go/token"
	"go/types"
	"hash/fnv"
	"os"
	"path/filepath"
	"sort"
	"strings"

	"golang.org/x/tools/go/packages"
)

type panicSite struct {
	Func    string `json:"func"`    // enclosing function or method
	Ordinal int    `json:"ordinal"` // index among the panic sites of that function with the same argument text
	Arg     string `json:"arg"`     // normalised argument text
	Class   string `json:"class"`
	pos     token.Position
}

func (s panicSite) key() string { return fmt.Sprintf("%s#%d#%s", s.Func, s.Ordinal, s.Arg) }

var panicClasses = []string{"checking", "syntax", "limit", "cycle", "repanic", "internal", "other"}

func coqClass(c string) string { return "P" + strings.ToUpper(c[:1]) + c[1:] }

func funcDeclName(fd *ast.FuncDecl) string {
	if fd.Recv != nil && len(fd.Recv.List) == 1 {
		var b bytes.Buffer
		t := fd.Recv.List[0].Type
		if st, ok := t.(*ast.StarExpr); ok {
			b.WriteString("(*")
			if id, ok := st.X.(*ast.Ident); ok {
				b.WriteString(id.Name)
			}
			b.WriteString(")")
		} else if id, ok := t.(*ast.Ident); ok {
			b.WriteString(id.Name)
		}
		return b.String() + "." + fd.Name.Name
	}
	return fd.Name.Name
}

func normArg(fset *token.FileSet, x ast.Expr) string {
	s := exprText(fset, x)
	return strings.Join(strings.Fields(s), " ")
}

// namedPtr returns the name of T when t is *T with T a named type of the compiler package.
func namedPtr(t types.Type) string {
	if p, ok := t.(*types.Pointer); ok {
		if n, ok := p.Elem().(*types.Named); ok {
			return n.Obj().Name()
		}
	}
	return ""
}

func classOfTypeName(n string) string {
	switch n {
	case "CheckingError":
		return "checking"
	case "SyntaxError":
		return "syntax"
	case "LimitExceededError":
		return "limit"
	case "CycleError":
		return "cycle"
	}
	return ""
}

// calleeName returns the name of the called function or method.
func calleeName(info *types.Info, call *ast.CallExpr) string {
	switch f := call.Fun.(type) {
	case *ast.Ident:
		return f.Name
	case *ast.SelectorExpr:
		if sel, ok := info.Selections[f]; ok {
			recv := sel.Recv()
			if n := namedPtr(recv); n != "" {
				return "(*" + n + ")." + f.Sel.Name
			}
			if n, ok := recv.(*types.Named); ok {
				return n.Obj().Name() + "." + f.Sel.Name
			}
		}
		return exprTextNoPos(f)
	}
	return ""
}

func exprTextNoPos(x ast.Expr) string {
	switch x := x.(type) {
	case *ast.Ident:
		return x.Name
	case *ast.SelectorExpr:
		return exprTextNoPos(x.X) + "." + x.Sel.Name
	}
	return "?"
}

func classifyPanicArg(p *packages.Package, arg ast.Expr, recovered map[types.Object]bool) string {
	info := p.TypesInfo
	if id, ok := arg.(*ast.Ident); ok {
		if obj := info.Uses[id]; obj != nil && recovered[obj] {
			return "repanic"
		}
	}
	if tv, ok := info.Types[arg]; ok && tv.Type != nil {
		if c := classOfTypeName(namedPtr(tv.Type)); c != "" {
			return c
		}
	}
	if call, ok := arg.(*ast.CallExpr); ok {
		switch calleeName(info, call) {
		case "(*typechecker).errorf", "checkError":
			return "checking"
		case "internalError":
			return "internal"
		}
	}
	if tv, ok := info.Types[arg]; ok && tv.Type != nil {
		if b, ok := tv.Type.Underlying().(*types.Basic); ok && b.Info()&types.IsString != 0 {
			return "internal"
		}
		if call, ok := arg.(*ast.CallExpr); ok {
			n := calleeName(info, call)
			if n == "fmt.Errorf" || n == "fmt.Sprintf" || n == "errors.New" {
				return "internal"
			}
		}
	}
	return "other"
}

// recoveredVars: variables assigned from recover() (r := recover()).
func recoveredVars(p *packages.Package, f *ast.File) map[types.Object]bool {
	m := map[types.Object]bool{}
	ast.Inspect(f, func(n ast.Node) bool {
		as, ok := n.(*ast.AssignStmt)
		if !ok || len(as.Lhs) != 1 || len(as.Rhs) != 1 {
			return true
		}
		call, ok := as.Rhs[0].(*ast.CallExpr)
		if !ok {
			return true
		}
		if id, ok := call.Fun.(*ast.Ident); ok && id.Name == "recover" {
			if l, ok := as.Lhs[0].(*ast.Ident); ok {
				if obj := p.TypesInfo.Defs[l]; obj != nil {
					m[obj] = true
				}
			}
		}
		return true
	})
	return m
}

func compilerFile(name string) bool {
	b := filepath.Base(name)
	if strings.HasSuffix(b, "_test.go") || strings.HasPrefix(b, "verif_") {
		return false
	}
	return strings.HasPrefix(b, "checker") || strings.HasPrefix(b, "parser") || strings.HasPrefix(b, "emitter")
}

func collectPanicSites(p *packages.Package) []panicSite {
	var out []panicSite
	for _, f := range p.Syntax {
		if !compilerFile(p.Fset.Position(f.Pos()).Filename) {
			continue
		}
		rec := recoveredVars(p, f)
		for _, d := range f.Decls {
			fd, ok := d.(*ast.FuncDecl)
			if !ok || fd.Body == nil {
				continue
			}
			name := funcDeclName(fd)
			ord := 0
			ast.Inspect(fd.Body, func(n ast.Node) bool {
				call, ok := n.(*ast.CallExpr)
				if !ok {
					return true
				}
				id, ok := call.Fun.(*ast.Ident)
				if !ok || id.Name != "panic" || len(call.Args) != 1 {
					return true
				}
				if _, isBuiltin := p.TypesInfo.Uses[id].(*types.Builtin); !isBuiltin {
					return true
				}
				// the ordinal counts the earlier sites of the same function with the SAME argument text, so
				// that inserting or removing an unrelated site does not renumber the others
				arg := normArg(p.Fset, call.Args[0])
				dup := 0
				for _, o := range out {
					if o.Func == name && o.Arg == arg {
						dup++
					}
				}
				out = append(out, panicSite{
					Func: name, Ordinal: dup, Arg: arg,
					Class: classifyPanicArg(p, call.Args[0], rec), pos: p.Fset.Position(call.Pos()),
				})
				ord++
				return true
			})
		}
	}
	sort.Slice(out, func(i, j int) bool { return out[i].key() < out[j].key() })
	return out
}

func siteHash(s panicSite) uint64 {
	h := fnv.New64a()
	h.Write([]byte(s.key()))
	return h.Sum64() >> 1 // 63 bits
}

func emitSites(b *bytes.Buffer, name string, sites []panicSite) {
	fmt.Fprintf(b, "Definition %s : list (N * pclass) := [", name)
	for i, s := range sites {
		if i > 0 {
			b.WriteString(";")
		}
		if i%4 == 0 {
			b.WriteString("\n  ")
		} else {
			b.WriteString(" ")
		}
		fmt.Fprintf(b, "(%d, %s)", siteHash(s), coqClass(s.Class))
	}
	b.WriteString("].\n\n")
}

// recoverConversions: for every recover() site, the error types that the
// handler asserts and turns into the returned error.
func recoverConversions(p *packages.Package) map[string]bool {
	conv := map[string]bool{}
	for _, f := range p.Syntax {
		if strings.HasSuffix(p.Fset.Position(f.Pos()).Filename, "_test.go") {
			continue
		}
		rec := recoveredVars(p, f)
		if len(rec) == 0 {
			continue
		}
		ast.Inspect(f, func(n ast.Node) bool {
			ta, ok := n.(*ast.TypeAssertExpr)
			if !ok || ta.Type == nil {
				return true
			}
			id, ok := ta.X.(*ast.Ident)
			if !ok || !rec[p.TypesInfo.Uses[id]] {
				return true
			}
			if tv, ok := p.TypesInfo.Types[ta.Type]; ok {
				if c := classOfTypeName(namedPtr(tv.Type)); c != "" {
					conv[c] = true
				}
			}
			return true
		})
	}
	return conv
}

// buildWraps: scriggo.Build contains `err.(compiler.Error)` and `&BuildError{...}`.
func buildWraps(root *packages.Package) bool {
	fd := mustFunc(root, "Build")
	assert, wrap := false, false
	ast.Inspect(fd.Body, func(n ast.Node) bool {
		switch n := n.(type) {
		case *ast.TypeAssertExpr:
			if n.Type != nil {
				if tv, ok := root.TypesInfo.Types[n.Type]; ok {
					if nt, ok := tv.Type.(*types.Named); ok && nt.Obj().Name() == "Error" && nt.Obj().Pkg().Name() == "compiler" {
						assert = true
					}
				}
			}
		case *ast.CompositeLit:
			if tv, ok := root.TypesInfo.Types[n]; ok {
				if nt, ok := tv.Type.(*types.Named); ok && nt.Obj().Name() == "BuildError" {
					wrap = true
				}
			}
		}
		return true
	})
	return assert && wrap
}

func init() {
	register("Facts_checker", func(w *world, b *bytes.Buffer) error {
		p := w.pkg("internal/compiler")
		sites := collectPanicSites(p)
		if len(sites) < 100 {
			return fmt.Errorf("only %d panic sites found in checker/parser/emitter files", len(sites))
		}
		root, _ := filepath.Abs(filepath.Join(outDir(), "..", ".."))
		committedPath := filepath.Join(root, "checks", "C03_panic_sites.json")
		if os.Getenv("GOFACTS_WRITE_PANIC_SITES") != "" {
			data, _ := json.MarshalIndent(sites, "", " ")
			if err := os.WriteFile(committedPath, append(data, '\n'), 0o644); err != nil {
				return err
			}
		}
		var committed []panicSite
		data, err := os.ReadFile(committedPath)
		if err != nil {
			return fmt.Errorf("committed classification %s: %v", committedPath, err)
		}
		if err := json.Unmarshal(data, &committed); err != nil {
			return fmt.Errorf("committed classification %s: %v", committedPath, err)
		}
		sort.Slice(committed, func(i, j int) bool { return committed[i].key() < committed[j].key() })

		// a readable difference for the log
		ck := map[string]string{}
		for _, s := range committed {
			ck[s.key()] = s.Class
		}
		gk := map[string]bool{}
		var diff bytes.Buffer
		for _, s := range sites {
			gk[s.key()] = true
			if c, ok := ck[s.key()]; !ok {
				fmt.Fprintf(&diff, "new or changed site: %s (%s) class %s at %s\n", s.key(), s.Class, s.Class, s.pos)
			} else if c != s.Class {
				fmt.Fprintf(&diff, "class changed: %s committed %s now %s at %s\n", s.key(), c, s.Class, s.pos)
			}
		}
		for _, s := range committed {
			if !gk[s.key()] {
				fmt.Fprintf(&diff, "site no longer present: %s (%s)\n", s.key(), s.Class)
			}
		}
		writeIfChanged(filepath.Join(outDir(), "C03_panic_sites.diff.txt"), diff.Bytes())
		if diff.Len() > 0 {
			fmt.Fprintf(os.Stderr, "gofacts: Facts_checker: panic sites differ from checks/C03_panic_sites.json:\n%s", diff.String())
		}

		fmt.Fprintf(b, "(* classes of panic arguments *)\nInductive pclass := %s.\n\n", "P"+strings.Join(mapStr(panicClasses, func(s string) string { return strings.ToUpper(s[:1]) + s[1:] }), " | P"))
		fmt.Fprintf(b, "(* %d panic sites of internal/compiler checker*.go parser*.go emitter*.go: (hash of function#ordinal#argument, class) *)\n", len(sites))
		emitSites(b, "gen_panic_sites", sites)
		fmt.Fprintf(b, "(* the classification committed in checks/C03_panic_sites.json *)\n")
		emitSites(b, "committed_panic_sites", committed)

		counts := map[string]int{}
		for _, s := range sites {
			counts[s.Class]++
		}
		fmt.Fprintf(b, "(* sites per class:")
		for _, c := range panicClasses {
			fmt.Fprintf(b, " %s=%d", c, counts[c])
		}
		fmt.Fprintf(b, " *)\n\n")

		conv := recoverConversions(p)
		var cs []string
		for _, c := range panicClasses {
			if conv[c] {
				cs = append(cs, coqClass(c))
			}
		}
		if len(cs) == 0 {
			return fmt.Errorf("no recover() site converting an error type found")
		}
		fmt.Fprintf(b, "(* error types that a recover() handler of the compiler turns into the returned error *)\nDefinition gen_recover_converts : list pclass := [%s].\n\n", strings.Join(cs, "; "))

		// types implementing compiler.Error
		errIface, _ := p.Types.Scope().Lookup("Error").Type().Underlying().(*types.Interface)
		if errIface == nil {
			return fmt.Errorf("compiler.Error interface not found")
		}
		var impl []string
		for _, tn := range []string{"CheckingError", "SyntaxError", "LimitExceededError", "CycleError"} {
			obj := p.Types.Scope().Lookup(tn)
			if obj == nil {
				return fmt.Errorf("type %s not found", tn)
			}
			if types.Implements(types.NewPointer(obj.Type()), errIface) {
				impl = append(impl, coqClass(classOfTypeName(tn)))
			}
		}
		fmt.Fprintf(b, "(* error types whose pointer implements compiler.Error *)\nDefinition gen_compiler_errors : list pclass := [%s].\n\n", strings.Join(impl, "; "))
		fmt.Fprintf(b, "(* scriggo.Build wraps an error that is a compiler.Error into a *BuildError *)\nDefinition gen_build_wraps : bool := %s.\n", coqBool(buildWraps(w.pkg(""))))
		return nil
	})
}

func mapStr(l []string, f func(string) string) []string {
	out := make([]string, len(l))
	for i, s := range l {
		out[i] = f(s)
	}
	return out
}

// outDir returns the -out directory of this run.
func outDir() string {
	for i, a := range os.Args {
		if (a == "-out" || a == "--out") && i+1 < len(os.Args) {
			return os.Args[i+1]
		}
		if strings.HasPrefix(a, "-out=") {
			return strings.TrimPrefix(a, "-out=")
		}
		if strings.HasPrefix(a, "--out=") {
			return strings.TrimPrefix(a, "--out=")
		}
	}
	return "/verif/coq/gen"
}
