package main

// ALU facts: for every arithmetic opcode of VM.run (internal/runtime/run.go)
// and every integer kind found in operand A, the expression given to
// vm.setInt, as a typed term over the GoInt.v primitives; and the
// instruction-selection tables of the builder's emit* functions
// (internal/compiler/builder_instructions.go): source kind -> (opcode, A).
//
// The translation is a symbolic partial evaluation of the implementation's own
// statements: `a` is bound to a concrete reflect.Kind, kind switches and ifs
// are folded through go/types constant values, locals are substituted.

import (
	"bytes"
	"fmt"
	"go/ast"
	"go/constant"
	"go/token"
	"go/types"
	"sort"
	"strings"

	"golang.org/x/tools/go/packages"
)

type symEnv struct {
	e      *env                    // concrete part
	locals map[types.Object]string // symbolic locals (Coq terms of type option Z)
	result string                  // argument of vm.setInt
	other  string                  // setFloat/setString/… reached instead
	rets     []string
	returned bool
	// leaf, when set, is consulted first for every expression: a sub-expression
	// it recognises is a parameter of the generated term (facts_vmexec.go).
	leaf func(x ast.Expr) (string, bool)
}

// call translates a loop-free function applied to argument expressions
// (evaluated in s) and returns the terms of its results.
func (s *symEnv) call(fd *ast.FuncDecl, args []ast.Expr) ([]string, error) {
	var terms []string
	for _, a := range args {
		t, err := s.term(a)
		if err != nil {
			return nil, err
		}
		terms = append(terms, t)
	}
	return translateFunc(s.e.pkg, fd, terms)
}

// translateFunc translates fd with its integer parameters bound to the given terms.
func translateFunc(p *packages.Package, fd *ast.FuncDecl, args []string) ([]string, error) {
	c := &symEnv{e: newEnv(p), locals: map[types.Object]string{}}
	i := 0
	for _, f := range fd.Type.Params.List {
		for _, n := range f.Names {
			if i >= len(args) {
				return nil, fmt.Errorf("%s: too few arguments", fd.Name.Name)
			}
			c.locals[p.TypesInfo.Defs[n]] = args[i]
			i++
		}
	}
	var named []types.Object
	if fd.Type.Results != nil {
		for _, f := range fd.Type.Results.List {
			for _, n := range f.Names {
				o := p.TypesInfo.Defs[n]
				named = append(named, o)
				c.locals[o] = "(Some 0%Z)"
			}
		}
	}
	if _, err := c.run(fd.Body.List); err != nil {
		return nil, fmt.Errorf("%s: %v", fd.Name.Name, err)
	}
	if !c.returned {
		return nil, fmt.Errorf("%s: no return reached", fd.Name.Name)
	}
	if len(c.rets) == 0 && len(named) > 0 {
		for _, o := range named {
			c.rets = append(c.rets, c.locals[o])
		}
	}
	return c.rets, nil
}



func ityOf(t types.Type) string {
	b, ok := t.Underlying().(*types.Basic)
	if !ok {
		return ""
	}
	switch b.Kind() {
	case types.Int8:
		return "I8"
	case types.Int16:
		return "I16"
	case types.Int32:
		return "I32"
	case types.Int64, types.Int:
		return "I64"
	case types.Uint8:
		return "U8"
	case types.Uint16:
		return "U16"
	case types.Uint32:
		return "U32"
	case types.Uint64, types.Uint, types.Uintptr:
		return "U64"
	case types.UntypedInt:
		return "I64"
	}
	return ""
}

var cmpNames = map[token.Token]string{token.EQL: "Ceq", token.NEQ: "Cne", token.LSS: "Clt", token.LEQ: "Cle", token.GTR: "Cgt", token.GEQ: "Cge"}

var binNames = map[token.Token]string{
	token.ADD: "Add", token.SUB: "Sub", token.MUL: "Mul", token.QUO: "Quo", token.REM: "Rem",
	token.AND: "And", token.OR: "Or", token.XOR: "Xor", token.AND_NOT: "AndNot", token.SHL: "Shl", token.SHR: "Shr",
}

func (s *symEnv) term(x ast.Expr) (string, error) {
	if s.leaf != nil {
		if t, ok := s.leaf(x); ok {
			return t, nil
		}
	}
	if v := s.e.eval(x); v != nil && v.Kind() == constant.Int {
		return fmt.Sprintf("(Some (%s)%%Z)", v.ExactString()), nil
	}
	info := s.e.pkg.TypesInfo
	switch x := x.(type) {
	case *ast.ParenExpr:
		return s.term(x.X)
	case *ast.Ident:
		if o := s.e.obj(x); o != nil {
			if t, ok := s.locals[o]; ok {
				return t, nil
			}
		}
		return "", fmt.Errorf("unknown identifier %s", x.Name)
	case *ast.UnaryExpr:
		t, err := s.term(x.X)
		if err != nil {
			return "", err
		}
		ty := ityOf(info.TypeOf(x))
		switch x.Op {
		case token.SUB:
			return fmt.Sprintf("(oun Neg %s %s)", ty, t), nil
		case token.XOR:
			return fmt.Sprintf("(oun Not %s %s)", ty, t), nil
		case token.ADD:
			return t, nil
		}
		return "", fmt.Errorf("unary %s", x.Op)
	case *ast.BinaryExpr:
		if cn, ok := cmpNames[x.Op]; ok {
			l, err := s.term(x.X)
			if err != nil {
				return "", err
			}
			r, err := s.term(x.Y)
			if err != nil {
				return "", err
			}
			return fmt.Sprintf("(ocmp %s %s %s)", cn, l, r), nil
		}
		name, ok := binNames[x.Op]
		if !ok {
			return "", fmt.Errorf("binary operator %s", x.Op)
		}
		l, err := s.term(x.X)
		if err != nil {
			return "", err
		}
		r, err := s.term(x.Y)
		if err != nil {
			return "", err
		}
		ty := ityOf(info.TypeOf(x))
		if ty == "" {
			return "", fmt.Errorf("non integer type %s", info.TypeOf(x))
		}
		if x.Op == token.SHL || x.Op == token.SHR {
			cty := ityOf(info.TypeOf(x.Y))
			cv := s.e.eval(x.Y)
			constCount := cv != nil && cv.Kind() == constant.Int && constant.Sign(cv) >= 0
			if !constCount && (cty == "" || cty[0] != 'U') {
				return "", fmt.Errorf("shift count of type %s is not unsigned", info.TypeOf(x.Y))
			}
		}
		return fmt.Sprintf("(obin %s %s %s %s)", name, ty, l, r), nil
	case *ast.CallExpr:
		if tv, ok := info.Types[x.Fun]; ok && tv.IsType() && len(x.Args) == 1 {
			to := ityOf(tv.Type)
			if to == "" {
				return "", fmt.Errorf("conversion to %s", tv.Type)
			}
			a, err := s.term(x.Args[0])
			if err != nil {
				return "", err
			}
			return fmt.Sprintf("(oconv %s %s)", to, a), nil
		}
		if se, ok := x.Fun.(*ast.SelectorExpr); ok {
			if id, ok := se.X.(*ast.Ident); ok && id.Name == "vm" && len(x.Args) >= 1 {
				reg, ok := x.Args[0].(*ast.Ident)
				if ok && (se.Sel.Name == "int" || se.Sel.Name == "intk") && (reg.Name == "a" || reg.Name == "b" || reg.Name == "c") {
					return "r" + reg.Name, nil
				}
			}
		}
		if id, ok := x.Fun.(*ast.Ident); ok {
			if fd := findFunc(s.e.pkg, id.Name); fd != nil {
				rs, err := s.call(fd, x.Args)
				if err != nil {
					return "", err
				}
				if len(rs) != 1 {
					return "", fmt.Errorf("call %s has %d results", id.Name, len(rs))
				}
				return rs[0], nil
			}
		}
		return "", fmt.Errorf("call %s", types.ExprString(x.Fun))
	}
	return "", fmt.Errorf("expression %s", types.ExprString(x))
}

type symStop int

const (
	symGo symStop = iota
	symDone
	symBreak
)

func (s *symEnv) run(list []ast.Stmt) (symStop, error) {
	for _, st := range list {
		k, err := s.stmt(st)
		if err != nil || k != symGo {
			return k, err
		}
	}
	return symGo, nil
}

func (s *symEnv) assign(lhs ast.Expr, rhs ast.Expr) error {
	id, ok := lhs.(*ast.Ident)
	if !ok {
		return fmt.Errorf("assignment to %s", types.ExprString(lhs))
	}
	o := s.e.obj(id)
	if v := s.e.eval(rhs); v != nil && ityOf(s.e.pkg.TypesInfo.TypeOf(rhs)) == "" {
		// a non-integer constant (e.g. a reflect.Kind): keep it concrete
		s.e.vars[o] = v
		return nil
	}
	if v := s.e.eval(rhs); v != nil {
		if _, isKind := s.e.pkg.TypesInfo.TypeOf(rhs).(*types.Named); isKind {
			s.e.vars[o] = v
			return nil
		}
	}
	t, err := s.term(rhs)
	if err != nil {
		return err
	}
	delete(s.e.vars, o)
	s.locals[o] = t
	return nil
}

func (s *symEnv) stmt(st ast.Stmt) (symStop, error) {
	switch st := st.(type) {
	case *ast.EmptyStmt:
		return symGo, nil
	case *ast.BlockStmt:
		return s.run(st.List)
	case *ast.DeclStmt:
		gd := st.Decl.(*ast.GenDecl)
		for _, sp := range gd.Specs {
			vs, ok := sp.(*ast.ValueSpec)
			if !ok {
				continue
			}
			for i, n := range vs.Names {
				o := s.e.pkg.TypesInfo.Defs[n]
				if i < len(vs.Values) {
					t, err := s.term(vs.Values[i])
					if err != nil {
						return symGo, err
					}
					s.locals[o] = t
				} else if ityOf(o.Type()) != "" {
					s.locals[o] = "(Some 0%Z)"
				} else if b, ok := o.Type().Underlying().(*types.Basic); ok && b.Kind() == types.Bool {
					s.locals[o] = "(Some false)"
				}
			}
		}
		return symGo, nil
	case *ast.AssignStmt:
		if len(st.Rhs) == 1 && len(st.Lhs) > 1 {
			ce, ok := st.Rhs[0].(*ast.CallExpr)
			if !ok {
				return symGo, fmt.Errorf("tuple assignment")
			}
			id, ok := ce.Fun.(*ast.Ident)
			if !ok {
				return symGo, fmt.Errorf("tuple assignment from %s", types.ExprString(ce.Fun))
			}
			fd := findFunc(s.e.pkg, id.Name)
			if fd == nil {
				return symGo, fmt.Errorf("function %s not found", id.Name)
			}
			rs, err := s.call(fd, ce.Args)
			if err != nil {
				return symGo, err
			}
			if len(rs) != len(st.Lhs) {
				return symGo, fmt.Errorf("tuple assignment arity")
			}
			for i, l := range st.Lhs {
				lid, ok := l.(*ast.Ident)
				if !ok {
					return symGo, fmt.Errorf("tuple assignment target")
				}
				s.locals[s.e.obj(lid)] = rs[i]
			}
			return symGo, nil
		}
		if op, ok := map[token.Token]token.Token{token.OR_ASSIGN: token.OR, token.AND_ASSIGN: token.AND, token.ADD_ASSIGN: token.ADD, token.SUB_ASSIGN: token.SUB,
			token.XOR_ASSIGN: token.XOR, token.SHL_ASSIGN: token.SHL, token.SHR_ASSIGN: token.SHR, token.AND_NOT_ASSIGN: token.AND_NOT, token.MUL_ASSIGN: token.MUL}[st.Tok]; ok && len(st.Lhs) == 1 {
			l, err := s.term(st.Lhs[0])
			if err != nil {
				return symGo, err
			}
			r, err := s.term(st.Rhs[0])
			if err != nil {
				return symGo, err
			}
			ty := ityOf(s.e.pkg.TypesInfo.TypeOf(st.Lhs[0]))
			id, ok := st.Lhs[0].(*ast.Ident)
			if !ok || ty == "" {
				return symGo, fmt.Errorf("op-assignment target")
			}
			s.locals[s.e.obj(id)] = fmt.Sprintf("(obin %s %s %s %s)", binNames[op], ty, l, r)
			return symGo, nil
		}
		if len(st.Lhs) != len(st.Rhs) || (st.Tok != token.ASSIGN && st.Tok != token.DEFINE) {
			return symGo, fmt.Errorf("assignment form %s", st.Tok)
		}
		for i := range st.Lhs {
			if err := s.assign(st.Lhs[i], st.Rhs[i]); err != nil {
				return symGo, err
			}
		}
		return symGo, nil
	case *ast.ExprStmt:
		c, ok := st.X.(*ast.CallExpr)
		if !ok {
			return symGo, fmt.Errorf("expression statement")
		}
		name := types.ExprString(c.Fun)
		switch name {
		case "vm.setInt":
			t, err := s.term(c.Args[1])
			if err != nil {
				return symGo, err
			}
			if reg, ok := c.Args[0].(*ast.Ident); !ok || reg.Name != "c" {
				return symGo, fmt.Errorf("setInt target %s", types.ExprString(c.Args[0]))
			}
			s.result = t
			return symGo, nil
		case "vm.setFloat", "vm.setString", "vm.setGeneral", "vm.setBool":
			s.other = name
			return symGo, nil
		}
		return symGo, fmt.Errorf("call %s", name)
	case *ast.IfStmt:
		if st.Init != nil {
			if k, err := s.stmt(st.Init); err != nil || k != symGo {
				return k, err
			}
		}
		c := s.e.eval(st.Cond)
		if c == nil {
			if id, ok := st.Cond.(*ast.Ident); ok {
				if t, ok := s.locals[s.e.obj(id)]; ok && id.Name == "cond" {
					s.result = t
					return symDone, nil
				}
			}
			return symGo, fmt.Errorf("condition %s is not constant", types.ExprString(st.Cond))
		}
		if constant.BoolVal(c) {
			return s.run(st.Body.List)
		}
		if st.Else != nil {
			return s.stmt(st.Else)
		}
		return symGo, nil
	case *ast.SwitchStmt:
		if st.Init != nil {
			if k, err := s.stmt(st.Init); err != nil || k != symGo {
				return k, err
			}
		}
		if st.Tag == nil {
			return symGo, fmt.Errorf("tagless switch")
		}
		tag := s.e.eval(st.Tag)
		if tag == nil {
			return symGo, fmt.Errorf("switch tag %s is not constant", types.ExprString(st.Tag))
		}
		sel, def := -1, -1
		for i, c := range st.Body.List {
			cc := c.(*ast.CaseClause)
			if cc.List == nil {
				def = i
				continue
			}
			for _, x := range cc.List {
				v := s.e.eval(x)
				if v == nil {
					return symGo, fmt.Errorf("case %s is not constant", types.ExprString(x))
				}
				if constant.Compare(tag, token.EQL, v) {
					sel = i
				}
			}
			if sel >= 0 {
				break
			}
		}
		if sel < 0 {
			sel = def
		}
		if sel < 0 {
			return symGo, nil
		}
		k, err := s.run(st.Body.List[sel].(*ast.CaseClause).Body)
		if k == symBreak {
			k = symGo
		}
		return k, err
	case *ast.BranchStmt:
		if st.Tok == token.BREAK {
			return symBreak, nil
		}
	case *ast.ReturnStmt:
		s.rets = nil
		for _, r := range st.Results {
			t, err := s.term(r)
			if err != nil {
				return symGo, err
			}
			s.rets = append(s.rets, t)
		}
		s.returned = true
		return symDone, nil
	}
	return symGo, fmt.Errorf("statement %T", st)
}

// opcodeCase finds the `case OpX, -OpX:` clause of the big switch in VM.run.
func opcodeCases(p *packages.Package) map[string]*ast.CaseClause {
	fd := findMethod(p, "VM", "run")
	if fd == nil {
		panic("method VM.run not found")
	}
	out := map[string]*ast.CaseClause{}
	ast.Inspect(fd.Body, func(n ast.Node) bool {
		sw, ok := n.(*ast.SwitchStmt)
		if !ok {
			return true
		}
		if id, ok := sw.Tag.(*ast.Ident); !ok || id.Name != "op" {
			return true
		}
		for _, c := range sw.Body.List {
			cc := c.(*ast.CaseClause)
			for _, x := range cc.List {
				if id, ok := x.(*ast.Ident); ok && strings.HasPrefix(id.Name, "Op") {
					out[id.Name] = cc
				}
			}
		}
		return false
	})
	if len(out) == 0 {
		panic("VM.run: switch op not found")
	}
	return out
}

func reflectKinds(p *packages.Package) map[string]int64 {
	rp := p.Imports["reflect"]
	if rp == nil {
		panic("package reflect not imported by " + p.PkgPath)
	}
	out := map[string]int64{}
	for _, n := range []string{"Bool", "Int", "Int8", "Int16", "Int32", "Int64", "Uint", "Uint8", "Uint16", "Uint32", "Uint64", "Uintptr", "Float32", "Float64"} {
		c, ok := rp.Types.Scope().Lookup(n).(*types.Const)
		if !ok {
			panic("reflect." + n + " not found")
		}
		out[n] = i64(c.Val())
	}
	return out
}

var intKindNames = []string{"Int", "Int8", "Int16", "Int32", "Int64", "Uint", "Uint8", "Uint16", "Uint32", "Uint64", "Uintptr"}

func init() {
	register("Facts_alu", func(w *world, b *bytes.Buffer) error {
		rt := w.pkg("internal/runtime")
		cp := w.pkg("internal/compiler")
		kinds := reflectKinds(rt)
		fmt.Fprintf(b, "From Verif Require Import GoInt.\nOpen Scope Z_scope.\n\n")
		fmt.Fprintf(b, "(* reflect.Kind numbering *)\n")
		for _, n := range []string{"Bool", "Int", "Int8", "Int16", "Int32", "Int64", "Uint", "Uint8", "Uint16", "Uint32", "Uint64", "Uintptr", "Float32", "Float64"} {
			fmt.Fprintf(b, "Definition gen_kind_%s : Z := %d.\n", n, kinds[n])
		}
		// opcode numbering
		fmt.Fprintf(b, "\n(* runtime.Operation numbering (vm.go) *)\n")
		var opnames []string
		sc := rt.Types.Scope()
		for _, n := range sc.Names() {
			if c, ok := sc.Lookup(n).(*types.Const); ok && strings.HasPrefix(n, "Op") && c.Type().String() == rt.PkgPath+".Operation" {
				opnames = append(opnames, n)
			}
		}
		sort.Slice(opnames, func(i, j int) bool {
			return i64(sc.Lookup(opnames[i]).(*types.Const).Val()) < i64(sc.Lookup(opnames[j]).(*types.Const).Val())
		})
		opval := map[string]int64{}
		for _, n := range opnames {
			opval[n] = i64(sc.Lookup(n).(*types.Const).Val())
			fmt.Fprintf(b, "Definition gen_%s : Z := %d.\n", n, opval[n])
		}
		// ALU terms
		cases := opcodeCases(rt)
		aluOps := []string{"OpAdd", "OpAddInt", "OpSub", "OpSubInt", "OpSubInv", "OpSubInvInt", "OpMul", "OpMulInt", "OpDiv", "OpDivInt",
			"OpRem", "OpRemInt", "OpNeg", "OpAnd", "OpAndNot", "OpOr", "OpXor", "OpShl", "OpShlInt", "OpShr", "OpShrInt"}
		fmt.Fprintf(b, "\n(* VM.run: the value given to vm.setInt(c, _) by `case Op` when operand A holds reflect.Kind k.\n   ra = vm.int(a), rb = vm.intk(b, op<0), rc = vm.int(c).  None = a Go run-time panic (integer divide by zero). *)\n")
		fmt.Fprintf(b, "Definition gen_alu (opc k : Z) (ra rb rc : option Z) : option (option Z) :=\n")
		for _, opn := range aluOps {
			cc := cases[opn]
			if cc == nil {
				return fmt.Errorf("VM.run: case %s not found", opn)
			}
			fmt.Fprintf(b, "  if opc =? %d then (* %s *)\n", opval[opn], opn)
			var terms []string
			same := true
			for _, kn := range intKindNames {
				s := &symEnv{e: newEnv(rt), locals: map[types.Object]string{}}
				s.e.byname["a"] = constant.MakeInt64(kinds[kn])
				s.e.byname["op"] = constant.MakeInt64(opval[opn])
				_, err := s.run(cc.Body)
				if err != nil {
					return fmt.Errorf("VM.run case %s, kind %s: %v", opn, kn, err)
				}
				res := s.result
				if res == "" {
					if s.other != "" {
						return fmt.Errorf("VM.run case %s, kind %s: reaches %s", opn, kn, s.other)
					}
					return fmt.Errorf("VM.run case %s, kind %s: no vm.setInt reached", opn, kn)
				}
				terms = append(terms, res)
				if res != terms[0] {
					same = false
				}
			}
			if same {
				// operand A is not read as a kind by this opcode
				fmt.Fprintf(b, "    Some %s else\n", terms[0])
				continue
			}
			for i, kn := range intKindNames {
				fmt.Fprintf(b, "    if k =? %d then Some %s else (* %s *)\n", kinds[kn], terms[i], kn)
			}
			fmt.Fprintf(b, "    None else\n")
		}
		fmt.Fprintf(b, "  None.\n\n")
		// conversions: OpConvertInt / OpConvertUint, destination kind t.Kind()
		for _, opn := range []string{"OpConvertInt", "OpConvertUint"} {
			cc := cases[opn]
			if cc == nil {
				return fmt.Errorf("VM.run: case %s not found", opn)
			}
			fmt.Fprintf(b, "(* VM.run %s: value given to vm.setInt(c, _) for destination kind k; ra = vm.int(a) *)\nDefinition gen_alu_%s (k : Z) (ra : option Z) : option (option Z) :=\n", opn, opn)
			for _, kn := range intKindNames {
				s := &symEnv{e: newEnv(rt), locals: map[types.Object]string{}}
				s.e.byname["t.Kind()"] = constant.MakeInt64(kinds[kn])
				// skip `t := vm.fn.Types[uint8(b)]`
				body := cc.Body
				if as, ok := body[0].(*ast.AssignStmt); ok && types.ExprString(as.Lhs[0]) == "t" {
					body = body[1:]
				}
				if _, err := s.run(body); err != nil {
					return fmt.Errorf("VM.run case %s, kind %s: %v", opn, kn, err)
				}
				if s.result == "" {
					return fmt.Errorf("VM.run case %s, kind %s: no vm.setInt reached", opn, kn)
				}
				fmt.Fprintf(b, "  if k =? %d then Some %s else (* %s *)\n", kinds[kn], s.result, kn)
			}
			fmt.Fprintf(b, "  None.\n\n")
		}
		// integer conditions of OpIfInt
		{
			cc := cases["OpIfInt"]
			if cc == nil {
				return fmt.Errorf("VM.run: case OpIfInt not found")
			}
			conds := []string{"ConditionZero", "ConditionNotZero", "ConditionEqual", "ConditionNotEqual", "ConditionLess", "ConditionLessEqual", "ConditionGreater", "ConditionGreaterEqual",
				"ConditionLessU", "ConditionLessEqualU", "ConditionGreaterU", "ConditionGreaterEqualU"}
			fmt.Fprintf(b, "(* runtime.Condition numbering *)\n")
			cval := map[string]int64{}
			for _, cn := range conds {
				c, ok := sc.Lookup(cn).(*types.Const)
				if !ok {
					return fmt.Errorf("runtime.%s not found", cn)
				}
				cval[cn] = i64(c.Val())
				fmt.Fprintf(b, "Definition gen_%s : Z := %d.\n", cn, cval[cn])
			}
			fmt.Fprintf(b, "\n(* VM.run OpIfInt: the value of `cond` for Condition(b) = cnd; ra = vm.int(a), rc = vm.intk(c, op<0) *)\nDefinition gen_ifint (cnd : Z) (ra rc : option Z) : option (option bool) :=\n")
			for _, cn := range conds {
				s := &symEnv{e: newEnv(rt), locals: map[types.Object]string{}}
				s.e.byname["b"] = constant.MakeInt64(cval[cn])
				s.e.byname["op"] = constant.MakeInt64(opval["OpIfInt"])
				if _, err := s.run(cc.Body); err != nil {
					return fmt.Errorf("VM.run case OpIfInt, %s: %v", cn, err)
				}
				if s.result == "" {
					return fmt.Errorf("VM.run case OpIfInt, %s: `if cond` not reached", cn)
				}
				fmt.Fprintf(b, "  if cnd =? %d then Some %s else (* %s *)\n", cval[cn], s.result, cn)
			}
			fmt.Fprintf(b, "  None.\n\n")
			// emitComparison: operator x kind -> condition
			fd := findMethod(cp, "emitter", "emitComparison")
			if fd == nil {
				return fmt.Errorf("emitter.emitComparison not found")
			}
			ap := cp.Imports["github.com/open2b/scriggo/ast"]
			if ap == nil {
				return fmt.Errorf("package ast not imported by the compiler")
			}
			for _, on := range []string{"OperatorEqual", "OperatorNotEqual", "OperatorLess", "OperatorLessEqual", "OperatorGreater", "OperatorGreaterEqual"} {
				oc, ok := ap.Types.Scope().Lookup(on).(*types.Const)
				if !ok {
					return fmt.Errorf("ast.%s not found", on)
				}
				fmt.Fprintf(b, "Definition gen_select_cmp_%s : list (Z * Z) := [", on)
				for i, kn := range intKindNames {
					e := newEnv(cp)
					bindParams(e, fd, map[string]constant.Value{"op": oc.Val(), "ky": constant.MakeBool(false), "x": constant.MakeInt64(100), "y": constant.MakeInt64(101)})
					e.byname["tx.Kind()"] = constant.MakeInt64(kinds[kn])
					e.byname["ty.Kind()"] = constant.MakeInt64(kinds[kn])
					if k := e.run(fd.Body.List); k != stopNone {
						return fmt.Errorf("emitComparison(%s, %s): not evaluable: %s", on, kn, e.why)
					}
					var cond constant.Value
					for _, ef := range e.effects {
						if ef.fn == "em.fb.emitIf" && len(ef.args) >= 3 {
							cond = ef.args[2]
						}
					}
					if cond == nil {
						return fmt.Errorf("emitComparison(%s, %s): emitIf call with a constant condition not found", on, kn)
					}
					if i > 0 {
						b.WriteString("; ")
					}
					fmt.Fprintf(b, "(%d, %d)", kinds[kn], i64(cond))
				}
				b.WriteString("].\n")
			}
			b.WriteString("\n")
		}
		// instruction selection of the builder
		sel := []struct{ name, fn string }{{"Add", "emitAdd"}, {"Sub", "emitSub"}, {"SubInv", "emitSubInv"}, {"Mul", "emitMul"}, {"Div", "emitDiv"}, {"Rem", "emitRem"},
			{"Neg", "emitNeg"}, {"And", "emitAnd"}, {"AndNot", "emitAndNot"}, {"Or", "emitOr"}, {"Xor", "emitXor"}, {"Shl", "emitShl"}, {"Shr", "emitShr"}}
		fmt.Fprintf(b, "(* builder_instructions.go emit*: source kind -> (opcode, operand A) of the appended instruction *)\n")
		for _, sl := range sel {
			fd := findMethod(cp, "functionBuilder", sl.fn)
			if fd == nil {
				return fmt.Errorf("functionBuilder.%s not found", sl.fn)
			}
			fmt.Fprintf(b, "Definition gen_select_%s : list (Z * (Z * Z)) := [", sl.name)
			for i, kn := range intKindNames {
				e := newEnv(cp)
				vals := map[string]constant.Value{"kind": constant.MakeInt64(kinds[kn]), "k": constant.MakeBool(false), "ky": constant.MakeBool(false),
					"x": constant.MakeInt64(100), "y": constant.MakeInt64(101), "z": constant.MakeInt64(100)}
				bindParams(e, fd, vals)
				k := e.run(fd.Body.List)
				if k != stopNone {
					return fmt.Errorf("%s(kind=%s): not evaluable: %s", sl.fn, kn, e.why)
				}
				op, a, err := lastInstruction(e, fd)
				if err != nil {
					return fmt.Errorf("%s(kind=%s): %v", sl.fn, kn, err)
				}
				if i > 0 {
					b.WriteString("; ")
				}
				// A is the register x (bound to 100) for the *Int forms, otherwise the flattened kind.
				fmt.Fprintf(b, "(%d, (%d, %d))", kinds[kn], op, a)
			}
			b.WriteString("].\n")
		}
		// emitConvert: source kind -> opcode
		{
			fd := findMethod(cp, "functionBuilder", "emitConvert")
			if fd == nil {
				return fmt.Errorf("functionBuilder.emitConvert not found")
			}
			fmt.Fprintf(b, "(* builder_instructions.go emitConvert: source kind -> opcode *)\nDefinition gen_select_Convert : list (Z * Z) := [")
			for i, kn := range intKindNames {
				e := newEnv(cp)
				bindParams(e, fd, map[string]constant.Value{"srcKind": constant.MakeInt64(kinds[kn]), "src": constant.MakeInt64(100), "dst": constant.MakeInt64(101)})
				// skip statements that are not evaluable (fn := fb.fn; regType := fb.addType(...))
				for _, st := range fd.Body.List {
					if _, ok := st.(*ast.SwitchStmt); ok {
						if k := e.stmt(st); k != stopNone {
							return fmt.Errorf("emitConvert(srcKind=%s): not evaluable: %s", kn, e.why)
						}
					}
				}
				op, _, err := lastInstruction(e, fd)
				if err != nil {
					return fmt.Errorf("emitConvert(srcKind=%s): %v", kn, err)
				}
				if i > 0 {
					b.WriteString("; ")
				}
				fmt.Fprintf(b, "(%d, %d)", kinds[kn], op)
			}
			b.WriteString("].\n")
		}
		fmt.Fprintf(b, "\n(* the value bound to parameter x when evaluating emit* (operand A is this register for the *Int opcodes) *)\nDefinition gen_select_reg_x : Z := 100.\n")
		// flattenIntegerKind
		ff := mustFunc(cp, "flattenIntegerKind")
		fmt.Fprintf(b, "\n(* builder.go flattenIntegerKind *)\nDefinition gen_flattenIntegerKind : list (Z * Z) := [")
		for i, kn := range append([]string{"Bool"}, intKindNames...) {
			r, ok := callFunc(cp, ff, []constant.Value{constant.MakeInt64(kinds[kn])}, 0)
			if !ok {
				return fmt.Errorf("flattenIntegerKind(%s) not evaluable", kn)
			}
			if i > 0 {
				b.WriteString("; ")
			}
			fmt.Fprintf(b, "(%d, %d)", kinds[kn], i64(r[0]))
		}
		b.WriteString("].\n")
		return nil
	})
}

// lastInstruction evaluates the Op and A fields of the runtime.Instruction
// literal appended at the end of an emit* function.
func lastInstruction(e *env, fd *ast.FuncDecl) (int64, int64, error) {
	var lit *ast.CompositeLit
	ast.Inspect(fd.Body, func(n ast.Node) bool {
		if cl, ok := n.(*ast.CompositeLit); ok {
			if strings.HasSuffix(types.ExprString(cl.Type), "Instruction") {
				lit = cl
			}
		}
		return true
	})
	if lit == nil {
		return 0, 0, fmt.Errorf("no Instruction literal")
	}
	var op, a constant.Value
	a = constant.MakeInt64(0)
	for _, el := range lit.Elts {
		kv, ok := el.(*ast.KeyValueExpr)
		if !ok {
			return 0, 0, fmt.Errorf("positional Instruction literal")
		}
		switch types.ExprString(kv.Key) {
		case "Op":
			op = e.eval(kv.Value)
		case "A":
			a = e.eval(kv.Value)
		}
	}
	if op == nil {
		return 0, 0, fmt.Errorf("Op of the Instruction literal is not evaluable")
	}
	if a == nil {
		return 0, 0, fmt.Errorf("A of the Instruction literal is not evaluable")
	}
	return i64(op), i64(a), nil
}
