package main

// Facts_mdshow: the TYPE DISPATCH of the Markdown show functions of
// internal/runtime/renderer.go (C26): which values showInMarkdown and
// showInMarkdownCodeBlock write as they are, which ones they send through
// markdownEscape (and with which allowHTML flag) or markdownCodeBlockEscape
// (and with which indentation), and which string is taken from the value
// (the value itself, toString, v.String(), v.Error(), v.Markdown(), ...).
//
// The trees are produced by the decision-tree generator of facts_show.go
// (showGen.explore / showFrame: the implementation's code is executed for
// every reflect.Kind, splitting on interface satisfaction and on identity
// with a well known type).  That generator only distinguishes "written" from
// "error"; here the statements that write are intercepted before they reach
// it, so that a leaf names the SINK (verbatim write / escaper) and the SOURCE
// of the written string.  A path that returns without a recognised sink, or
// with more than one, is not translatable: the fact file fails by name and
// the obligations stated over it are reported as broken.
//
// The routing renderer.Show(context) -> show function is generated as well.

import (
	"bytes"
	"fmt"
	"go/ast"
	"go/constant"
	"go/types"
	"sort"
	"strings"
)

type mdRun struct {
	fr    *showFrame
	sinks []string
	src   map[types.Object]string
}

// methodSrc maps a method called on the shown value to the Coq source term.
func methodSrc(name string, nargs int) string {
	env := "false"
	if nargs == 1 {
		env = "true"
	} else if nargs != 0 {
		return ""
	}
	switch name {
	case "String":
		return "SString " + env
	case "Markdown":
		return "SMarkdown " + env
	case "HTML":
		return "SHTML " + env
	case "Error":
		if nargs == 0 {
			return "SError"
		}
	}
	return ""
}

// source classifies the expression whose string is written.
func (r *mdRun) source(x ast.Expr) string {
	fr := r.fr
	switch x := x.(type) {
	case *ast.ParenExpr:
		return r.source(x.X)
	case *ast.Ident:
		if fr.isValueExpr(x) {
			if fr.isString {
				panic(fr.fd.Name.Name + ": the shown value was replaced by a string before it is written")
			}
			return "SValue"
		}
		if o := fr.e.obj(x); o != nil {
			if s, ok := r.src[o]; ok {
				return s
			}
		}
	case *ast.CallExpr:
		// a conversion string(X), []byte(X), native.Markdown(X)
		if tv, ok := fr.p.TypesInfo.Types[x.Fun]; ok && tv.IsType() && len(x.Args) == 1 {
			return r.source(x.Args[0])
		}
		if name, recv := calleeOf(x); recv != nil && fr.isValueExpr(recv) {
			if s := methodSrc(name, len(x.Args)); s != "" {
				return s
			}
		}
	}
	panic(fr.fd.Name.Name + ": cannot tell where the written string comes from: " + types.ExprString(x))
}

func (r *mdRun) boolArg(x ast.Expr) string {
	v := r.fr.e.eval(x)
	if v == nil || v.Kind() != constant.Bool {
		panic(r.fr.fd.Name.Name + ": flag of the escaper is not a constant: " + types.ExprString(x))
	}
	return coqBool(constant.BoolVal(v))
}

// sinkOf recognises a call that writes the value.
func (r *mdRun) sinkOf(x ast.Expr) {
	c, ok := x.(*ast.CallExpr)
	if !ok {
		return
	}
	name, recv := calleeOf(c)
	switch {
	case recv == nil && name == "markdownEscape" && len(c.Args) == 3:
		r.sinks = append(r.sinks, fmt.Sprintf("MEscape (%s) %s", r.source(c.Args[1]), r.boolArg(c.Args[2])))
	case recv == nil && name == "markdownCodeBlockEscape" && len(c.Args) == 3:
		r.sinks = append(r.sinks, fmt.Sprintf("MCode (%s) %s", r.source(c.Args[1]), r.boolArg(c.Args[2])))
	case recv != nil && (name == "WriteString" || name == "Write") && len(c.Args) == 1:
		r.sinks = append(r.sinks, fmt.Sprintf("MWrite (%s)", r.source(c.Args[0])))
	case recv == nil && strings.HasSuffix(name, "Escape"):
		panic(r.fr.fd.Name.Name + ": a Markdown show function calls the escaper " + name)
	case recv != nil && name == "conv":
		panic(r.fr.fd.Name.Name + ": a Markdown show function calls the Markdown converter")
	}
}

// hook sees every statement before the generic show hook.
func (r *mdRun) hook(s ast.Stmt) (stopKind, bool) {
	fr := r.fr
	if fr.sc.blocked != "" || fr.sc.panicked != "" || fr.out != "" {
		return fr.hook(s)
	}
	switch s := s.(type) {
	case *ast.ReturnStmt:
		for _, x := range s.Results {
			r.sinkOf(x)
		}
	case *ast.ExprStmt:
		r.sinkOf(s.X)
	case *ast.AssignStmt:
		for _, x := range s.Rhs {
			r.sinkOf(x)
		}
		if len(s.Rhs) == 1 && len(s.Lhs) >= 1 {
			if id, ok := s.Lhs[0].(*ast.Ident); ok && id.Name != "_" {
				if o := fr.e.obj(id); o != nil {
					delete(r.src, o)
					if b, ok := o.Type().Underlying().(*types.Basic); ok && b.Info()&types.IsString != 0 {
						if call, ok := s.Rhs[0].(*ast.CallExpr); ok {
							if name, recv := calleeOf(call); name == "toString" && recv == nil {
								r.src[o] = "SToString"
							} else if recv != nil && fr.isValueExpr(recv) {
								if m := methodSrc(name, len(call.Args)); m != "" {
									r.src[o] = m
								}
							} else if tv, ok := fr.p.TypesInfo.Types[call.Fun]; ok && tv.IsType() && len(call.Args) == 1 {
								r.src[o] = r.source(call.Args[0])
							}
						}
					}
				}
			}
		}
	}
	return fr.hook(s)
}

// mdShowTree runs fn for the kind and returns the tree of sinks.
func (g *showGen) mdShowTree(fn string, kind int64, bind map[string]constant.Value) *tree {
	fd := mustFunc(g.rt, fn)
	return g.explore(kind, -1, func(sc *sym) string {
		fr := g.newFrame(sc, g.rt, fd, modeDynamic, 0)
		for n, v := range bind {
			fr.bind(n, v)
		}
		r := &mdRun{fr: fr, src: map[types.Object]string{}}
		fr.e.hook = r.hook
		out := fr.runBody()
		switch out {
		case "":
			return ""
		case "OOk":
			if len(r.sinks) != 1 {
				panic(fmt.Sprintf("%s (kind %s): a path returns after %d recognised writes %v (expected exactly one)", fn, kindNames[kind], len(r.sinks), r.sinks))
			}
			return r.sinks[0]
		case "OErr":
			if len(r.sinks) != 0 {
				panic(fmt.Sprintf("%s (kind %s): a path writes %v and then returns a cannot-show error", fn, kindNames[kind], r.sinks))
			}
			return "MCannot"
		}
		panic(fn + ": unexpected outcome " + out)
	})
}

func mdTreeString(t *tree) string {
	if t.atom == "" {
		l := t.leaf
		if l == "OPanic" {
			l = "MPanic"
		}
		return "MLeaf " + paren(l)
	}
	return "MNode (" + t.atom + ") (" + mdTreeString(t.yes) + ") (" + mdTreeString(t.no) + ")"
}

func emitMdTreeTable(b *bytes.Buffer, name, comment string, entries []tblEntry) {
	names := map[string]string{}
	var defs, rows []string
	for _, en := range entries {
		s := mdTreeString(en.tree)
		n, ok := names[s]
		if !ok {
			n = fmt.Sprintf("gt_%s_%d", name, len(names))
			names[s] = n
			defs = append(defs, fmt.Sprintf("Definition %s : mdtree := %s.\n", n, s))
		}
		rows = append(rows, fmt.Sprintf("(%d, %s)", en.key, n))
	}
	fmt.Fprintf(b, "(* %s *)\n", comment)
	for _, d := range defs {
		b.WriteString(d)
	}
	fmt.Fprintf(b, "Definition %s : list (N * mdtree) := [\n  %s].\n\n", name, strings.Join(rows, ";\n  "))
}

func init() {
	register("Facts_mdshow", func(w *world, b *bytes.Buffer) error {
		g := &showGen{w: w, rt: w.pkg("internal/runtime"), cp: w.pkg("internal/compiler"), others: map[string]int64{}, kinds: map[string]int64{}}
		b.WriteString("From Verif Require Import ShowTree MdShowM.\n\n")

		var rp *types.Package
		for _, imp := range g.rt.Types.Imports() {
			if imp.Path() == "reflect" {
				rp = imp
			}
		}
		if rp == nil {
			return fmt.Errorf("internal/runtime does not import reflect")
		}
		for i, n := range kindNames {
			c, ok := rp.Scope().Lookup(n).(*types.Const)
			if !ok {
				return fmt.Errorf("reflect.%s not found", n)
			}
			g.kinds[n] = i64(c.Val())
			if g.kinds[n] != int64(i) {
				return fmt.Errorf("reflect.%s = %d, expected %d", n, g.kinds[n], i)
			}
		}
		nk := int64(len(kindNames))
		fmt.Fprintf(b, "Definition md_n_kinds : N := %d.\nDefinition md_k_String : N := %d.\nDefinition md_k_Invalid : N := %d.\n\n", nk, g.kinds["String"], g.kinds["Invalid"])

		// ---- routing: which function renderer.Show calls in the Markdown contexts
		ap := w.pkg("ast")
		ctxVal := func(name string) int64 {
			c, ok := ap.Types.Scope().Lookup(name).(*types.Const)
			if !ok {
				panic("ast." + name + " not found")
			}
			return i64(c.Val())
		}
		show := findMethod(g.rt, "renderer", "Show")
		if show == nil {
			return fmt.Errorf("method renderer.Show not found")
		}
		type route struct {
			ctx    string
			fn     string
			spaces string
		}
		var routes []route
		for _, cn := range []string{"ContextMarkdown", "ContextTabCodeBlock", "ContextSpacesCodeBlock"} {
			t := g.explore(g.kinds["String"], -1, func(sc *sym) string {
				fr := g.newFrame(sc, g.rt, show, modeDynamic, 0)
				fr.bind("context", constant.MakeInt64(ctxVal(cn)))
				var calls []string
				orig := fr.e.pre
				fr.e.pre = func(x ast.Expr) constant.Value {
					c, ok := x.(*ast.CallExpr)
					if !ok || sc.blocked != "" || sc.panicked != "" {
						return orig(x)
					}
					name, recv := calleeOf(c)
					if recv != nil || !strings.HasPrefix(name, "showIn") {
						return orig(x)
					}
					spaces := "-"
					fdc := mustFunc(g.rt, name)
					i := 0
					for _, f := range fdc.Type.Params.List {
						for _, n := range f.Names {
							if i < len(c.Args) {
								if n.Name == "spaces" {
									v := fr.e.eval(c.Args[i])
									if v == nil || v.Kind() != constant.Bool {
										panic("renderer.Show: the spaces argument of " + name + " is not a constant")
									}
									spaces = coqBool(constant.BoolVal(v))
								}
								if o := g.rt.TypesInfo.Defs[n]; o != nil {
									if it, ok := types.Unalias(o.Type()).Underlying().(*types.Interface); ok && it.Empty() && !fr.isValueExpr(c.Args[i]) {
										panic("renderer.Show calls " + name + " on something else than the shown value")
									}
								}
							}
							i++
						}
					}
					calls = append(calls, name+" "+spaces)
					return nilMarker
				}
				out := fr.runBody()
				if out == "" {
					return ""
				}
				if out != "OOk" || len(calls) != 1 {
					panic(fmt.Sprintf("renderer.Show(%s): outcome %q after the show calls %v (expected exactly one call)", cn, out, calls))
				}
				return calls[0]
			})
			if t.atom != "" {
				return fmt.Errorf("renderer.Show(%s): the function called depends on %s", cn, t.atom)
			}
			f := strings.Fields(t.leaf)
			if len(f) != 2 {
				return fmt.Errorf("renderer.Show(%s): %s", cn, t.leaf)
			}
			routes = append(routes, route{ctx: cn, fn: f[0], spaces: f[1]})
		}
		b.WriteString("(* renderer.go renderer.Show, not in a URL: the function called in each Markdown context *)\n")
		fnIndex := map[string]string{"showInMarkdown": "RParagraph", "showInMarkdownCodeBlock": "RCodeBlock"}
		var rr []string
		for _, r := range routes {
			c, ok := fnIndex[r.fn]
			if !ok {
				return fmt.Errorf("renderer.Show(%s) calls %s, which is not a Markdown show function", r.ctx, r.fn)
			}
			if c == "RCodeBlock" {
				if r.spaces == "-" {
					return fmt.Errorf("renderer.Show(%s): %s called without the spaces flag", r.ctx, r.fn)
				}
				c = "RCodeBlock " + r.spaces
			}
			rr = append(rr, fmt.Sprintf("(%d, %s)", ctxVal(r.ctx), c))
			fmt.Fprintf(b, "Definition md_ctx_%s : N := %d.\n", strings.TrimPrefix(r.ctx, "Context"), ctxVal(r.ctx))
		}
		fmt.Fprintf(b, "Definition gen_md_route : list (N * mdroute) := [%s].\n\n", strings.Join(rr, "; "))

		// ---- the dispatch of each function
		var entries []tblEntry
		for k := int64(0); k < nk; k++ {
			entries = append(entries, tblEntry{k, g.mdShowTree("showInMarkdown", k, nil)})
		}
		emitMdTreeTable(b, "gen_showInMarkdown_tbl", "renderer.go showInMarkdown: sink and source of the written string; key = kind of the value (0: nil interface)", entries)
		for _, sp := range []bool{false, true} {
			entries = nil
			for k := int64(0); k < nk; k++ {
				entries = append(entries, tblEntry{k, g.mdShowTree("showInMarkdownCodeBlock", k, map[string]constant.Value{"spaces": constant.MakeBool(sp)})})
			}
			emitMdTreeTable(b, fmt.Sprintf("gen_showInMarkdownCodeBlock_%s_tbl", map[bool]string{false: "tab", true: "spaces"}[sp]),
				fmt.Sprintf("renderer.go showInMarkdownCodeBlock(..., spaces = %v): key = kind of the value", sp), entries)
		}

		type oa struct {
			n    int64
			text string
		}
		var oas []oa
		for t, n := range g.others {
			oas = append(oas, oa{n, t})
		}
		sort.Slice(oas, func(i, j int) bool { return oas[i].n < oas[j].n })
		b.WriteString("(* undecided conditions met (AOther n):\n")
		for _, o := range oas {
			fmt.Fprintf(b, "   AOther %d = %s\n", o.n, strings.ReplaceAll(strings.ReplaceAll(o.text, "\"", "``"), "'", "`"))
		}
		b.WriteString("*)\n")
		return nil
	})
}
