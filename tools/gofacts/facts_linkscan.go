package main

// Facts for the scanner of cmd/scriggo/linkdestination.go (C29, model
// coq/model/LinkScanM.v): byte classes (goldmark util.IsPunct / util.IsSpace
// as resolved by the repository's go.mod, isASCIIAlpha, isHTMLTagNameChar),
// element names (isVoidElement, isRawTextElement), util.TabWidth and the
// step of util.IndentWidth, the decisions of isFenceStart / isFenceClose /
// isIndentedCode as functions of the values their loops compute, the guard
// of parseReferenceDefinition, and the `switch` of scanInlineLinks on the
// four constructs that start with "<!" or "<?".  Everything is obtained by
// running the implementation's own statements in the partial evaluator.

import (
	"bytes"
	"fmt"
	"go/ast"
	"go/constant"
	"go/token"
	"go/types"
	"sort"
	"strings"

	"golang.org/x/tools/go/packages"
)

const goldmarkUtil = "github.com/yuin/goldmark/util"

// callHook executes `a, b := f(...)` / `a := f(...)` / `a, b = f(...)` for the
// functions named in vals by assigning the given values, and leaves every
// other statement to the evaluator.
func callHook(e *env, vals map[string][]constant.Value) func(s ast.Stmt) (stopKind, bool) {
	return func(s ast.Stmt) (stopKind, bool) {
		as, ok := s.(*ast.AssignStmt)
		if !ok || len(as.Rhs) != 1 {
			return stopNone, false
		}
		c, ok := as.Rhs[0].(*ast.CallExpr)
		if !ok {
			return stopNone, false
		}
		vs, ok := vals[types.ExprString(c.Fun)]
		if !ok {
			return stopNone, false
		}
		if len(vs) != len(as.Lhs) {
			panic(fmt.Sprintf("%s: %d results expected, %d assigned", types.ExprString(c.Fun), len(vs), len(as.Lhs)))
		}
		for i, l := range as.Lhs {
			id, ok := l.(*ast.Ident)
			if !ok {
				panic("call result assigned to a non-identifier")
			}
			if id.Name == "_" {
				continue
			}
			e.vars[e.obj(id)] = vs[i]
		}
		return stopNone, true
	}
}

// caseStrings lists the string constants of the case clauses of fn's switch.
func caseStrings(p *packages.Package, fd *ast.FuncDecl) []string {
	var out []string
	ast.Inspect(fd.Body, func(n ast.Node) bool {
		if cc, ok := n.(*ast.CaseClause); ok {
			for _, x := range cc.List {
				if tv, ok := p.TypesInfo.Types[x]; ok && tv.Value != nil && tv.Value.Kind() == constant.String {
					out = append(out, constant.StringVal(tv.Value))
				}
			}
		}
		return true
	})
	return out
}

// stringSetFunc evaluates a func(string) bool on its own case constants and on
// strings around them; it returns the strings on which it is true.
func stringSetFunc(p *packages.Package, name string) []string {
	fd := mustFunc(p, name)
	lits := caseStrings(p, fd)
	if len(lits) == 0 {
		panic(name + ": no string case found")
	}
	call := func(s string) bool {
		r, ok := callFunc(p, fd, []constant.Value{constant.MakeString(s)}, 0)
		if !ok || len(r) != 1 {
			panic(fmt.Sprintf("%s(%q) is not evaluable", name, s))
		}
		return constant.BoolVal(r[0])
	}
	var out []string
	for _, l := range lits {
		if call(l) {
			out = append(out, l)
		}
		for _, other := range []string{l + "x", "x" + l, strings.ToUpper(l), l[:len(l)-1]} {
			isLit := false
			for _, m := range lits {
				if m == other {
					isLit = true
				}
			}
			if !isLit && call(other) {
				panic(fmt.Sprintf("%s(%q) is true for a string that is not one of its cases", name, other))
			}
		}
	}
	if call("") || call("div") && !contains(lits, "div") {
		panic(name + ": true outside its cases")
	}
	sort.Strings(out)
	return out
}

func contains(l []string, s string) bool {
	for _, x := range l {
		if x == s {
			return true
		}
	}
	return false
}

func coqStrList(l []string) string {
	var p []string
	for _, s := range l {
		p = append(p, coqBytes(s))
	}
	return "[" + strings.Join(p, "; ") + "]"
}

// lineEnv is an environment in which `line` is a concrete byte string:
// len(line), line[k], bytes.HasPrefix(line[k:], []byte("lit")) are computed.
func lineEnv(p *packages.Package, line string, i int64, iObj types.Object) *env {
	e := newEnv(p)
	if iObj != nil {
		e.vars[iObj] = mkInt(i)
	}
	isLine := func(x ast.Expr) bool {
		id, ok := x.(*ast.Ident)
		return ok && id.Name == "line"
	}
	e.pre = func(x ast.Expr) constant.Value {
		switch x := x.(type) {
		case *ast.IndexExpr:
			if isLine(x.X) {
				k := e.eval(x.Index)
				if k == nil {
					return nil
				}
				kk := i64(k)
				if kk < 0 || kk >= int64(len(line)) {
					panic(fmt.Sprintf("line[%d] out of range (len %d) while evaluating %s", kk, len(line), types.ExprString(x)))
				}
				return mkInt(int64(line[kk]))
			}
		case *ast.CallExpr:
			fun := types.ExprString(x.Fun)
			if fun == "len" && len(x.Args) == 1 && isLine(x.Args[0]) {
				return mkInt(int64(len(line)))
			}
			if fun == "bytes.HasPrefix" && len(x.Args) == 2 {
				sl, ok := x.Args[0].(*ast.SliceExpr)
				if !ok || !isLine(sl.X) || sl.High != nil || sl.Low == nil {
					return nil
				}
				lo := e.eval(sl.Low)
				conv, ok2 := x.Args[1].(*ast.CallExpr)
				if lo == nil || !ok2 || len(conv.Args) != 1 {
					return nil
				}
				pv := e.eval(conv.Args[0])
				if pv == nil || pv.Kind() != constant.String {
					return nil
				}
				l := i64(lo)
				if l < 0 || l > int64(len(line)) {
					panic("line[k:] out of range in bytes.HasPrefix")
				}
				return constant.MakeBool(strings.HasPrefix(line[l:], constant.StringVal(pv)))
			}
		}
		return nil
	}
	return e
}

func init() {
	register("Facts_linkscan", func(w *world, b *bytes.Buffer) error {
		p := w.pkg("cmd/scriggo")
		gm := p.Imports[goldmarkUtil]
		if gm == nil || len(gm.Syntax) == 0 {
			return fmt.Errorf("package %s is not loaded with its syntax", goldmarkUtil)
		}
		fmt.Fprintf(b, "Open Scope Z_scope.\nOpen Scope N_scope.\n\n")

		// ---- byte classes ----
		emitByteSet(b, "gen_ls_punct", "goldmark util.IsPunct", boolFunc(gm, "IsPunct"))
		emitByteSet(b, "gen_ls_space", "goldmark util.IsSpace", boolFunc(gm, "IsSpace"))
		emitByteSet(b, "gen_ls_alpha", "linkdestination.go isASCIIAlpha", boolFunc(p, "isASCIIAlpha"))
		emitByteSet(b, "gen_ls_tagname", "linkdestination.go isHTMLTagNameChar", boolFunc(p, "isHTMLTagNameChar"))

		// ---- element names ----
		fmt.Fprintf(b, "(* linkdestination.go isVoidElement: the strings on which it is true *)\nDefinition gen_ls_void : list (list N) := %s.\n\n", coqStrList(stringSetFunc(p, "isVoidElement")))
		fmt.Fprintf(b, "(* linkdestination.go isRawTextElement: the strings on which it is true *)\nDefinition gen_ls_rawtext : list (list N) := %s.\n\n", coqStrList(stringSetFunc(p, "isRawTextElement")))

		// ---- util.TabWidth(p) = base - p %% mod ----
		tw := mustFunc(gm, "TabWidth")
		tabw := func(x int64) int64 {
			r, ok := callFunc(gm, tw, []constant.Value{mkInt(x)}, 0)
			if !ok || len(r) != 1 {
				panic("util.TabWidth is not evaluable")
			}
			return i64(r[0])
		}
		base := tabw(0)
		mod := int64(0)
		for m := int64(1); m <= 16; m++ {
			if tabw(m) == base {
				mod = m
				break
			}
		}
		if mod == 0 {
			return fmt.Errorf("util.TabWidth: no period found")
		}
		for x := int64(0); x <= 4*mod; x++ {
			if tabw(x) != base-x%mod {
				return fmt.Errorf("util.TabWidth(%d) = %d is not %d - %d %% %d", x, tabw(x), base, x, mod)
			}
		}
		fmt.Fprintf(b, "(* goldmark util.TabWidth(p) = gen_ls_tab_base - p %% gen_ls_tab_mod (evaluated on 0..%d) *)\nDefinition gen_ls_tab_base : Z := %d%%Z.\nDefinition gen_ls_tab_mod : Z := %d%%Z.\n\n", 4*mod, base, mod)

		// ---- util.IndentWidth: one iteration on the byte b = bs[i] ----
		iw := mustFunc(gm, "IndentWidth")
		ils := loops(iw.Body)
		if len(ils) != 1 {
			return fmt.Errorf("util.IndentWidth: expected 1 loop, found %d", len(ils))
		}
		wObj, pObj := localObj(gm, iw, "width"), localObj(gm, iw, "pos")
		// class 0 break, 1 width+1 pos+1, 2 width+TabWidth(currentPos+width) pos+1
		indentClass := func(c int64) int {
			class := -1
			for cur := int64(0); cur <= 2; cur++ {
				for w0 := int64(0); w0 <= 9; w0++ {
					if tabw(cur+w0) == 1 {
						continue // a tab and a space cannot be told apart here
					}
					e := newEnv(gm)
					bindParams(e, iw, map[string]constant.Value{"currentPos": mkInt(cur)})
					e.vars[wObj], e.vars[pObj] = mkInt(w0), mkInt(5)
					e.byname["bs[i]"] = mkInt(c)
					k := e.run(loopBody(ils[0]).List)
					var cl int
					switch k {
					case stopBreak:
						cl = 0
						if i64(e.vars[wObj]) != w0 || i64(e.vars[pObj]) != 5 {
							panic("util.IndentWidth: break after a change")
						}
					case stopNone:
						dw, dp := i64(e.vars[wObj])-w0, i64(e.vars[pObj])-5
						switch {
						case dw == 1 && dp == 1:
							cl = 1
						case dw == tabw(cur+w0) && dp == 1:
							cl = 2
						default:
							panic(fmt.Sprintf("util.IndentWidth: byte %d: width+%d pos+%d", c, dw, dp))
						}
					default:
						panic(fmt.Sprintf("util.IndentWidth: loop body not evaluable (%s)", e.why))
					}
					if class >= 0 && cl != class {
						panic(fmt.Sprintf("util.IndentWidth: byte %d is treated differently at different widths", c))
					}
					class = cl
				}
			}
			return class
		}
		var icls [256]int
		for c := 0; c < 256; c++ {
			icls[c] = indentClass(int64(c))
		}
		emitByteSet(b, "gen_ls_indent_space", "goldmark util.IndentWidth: bytes that add 1 to width and pos", func(c int64) bool { return icls[c] == 1 })
		emitByteSet(b, "gen_ls_indent_tab", "goldmark util.IndentWidth: bytes that add TabWidth(currentPos+width) to width and 1 to pos; any other byte ends the loop", func(c int64) bool { return icls[c] == 2 })

		// ---- isFenceStart as a decision on (width, pos, len(line), c, run, a later searched byte) ----
		fs := mustFunc(p, "isFenceStart")
		ibs := callsTo(fs.Body, "bytes.IndexByte")
		if len(ibs) != 1 || len(ibs[0].Args) != 2 {
			return fmt.Errorf("isFenceStart: expected one bytes.IndexByte(s, c)")
		}
		sv := newEnv(p).eval(ibs[0].Args[1])
		if sv == nil {
			return fmt.Errorf("isFenceStart: searched byte not constant")
		}
		type fsRes struct {
			ok  bool
			fc  int64
			fl  int64
		}
		fenceStart := func(width, pos, n, c, run int64, later bool) fsRes {
			e := newEnv(p)
			e.hook = callHook(e, map[string][]constant.Value{
				"util.IndentWidth": {mkInt(width), mkInt(pos)},
				"countRun":         {mkInt(run)},
			})
			e.byname["len(line)"] = mkInt(n)
			e.byname["line[pos]"] = mkInt(c)
			idx := int64(-1)
			if later {
				idx = 2
			}
			e.byname[types.ExprString(ibs[0])] = mkInt(idx)
			if k := e.run(fs.Body.List); k != stopReturn || len(e.ret) != 3 {
				panic(fmt.Sprintf("isFenceStart: not evaluable (%s)", e.why))
			}
			return fsRes{constant.BoolVal(e.ret[0]), i64(e.ret[1]), i64(e.ret[2])}
		}
		var fchars []int64
		for c := int64(0); c < 256; c++ {
			if fenceStart(0, 0, 20, c, 9, false).ok {
				fchars = append(fchars, c)
			}
		}
		if len(fchars) == 0 {
			return fmt.Errorf("isFenceStart: no fence character")
		}
		maxIndent := int64(-1)
		for wd := int64(0); wd <= 12; wd++ {
			if fenceStart(wd, 0, 20, fchars[0], 9, false).ok {
				maxIndent = wd
			}
		}
		minRun := int64(-1)
		for r := int64(12); r >= 0; r-- {
			if fenceStart(0, 0, 20, fchars[0], r, false).ok {
				minRun = r
			}
		}
		var noinfo []int64
		for _, c := range fchars {
			if !fenceStart(0, 0, 20, c, 9, true).ok {
				noinfo = append(noinfo, c)
			}
		}
		if len(noinfo) != 1 {
			return fmt.Errorf("isFenceStart: expected exactly one fence character that excludes itself from the info string, found %v", noinfo)
		}
		isFC := func(c int64) bool {
			for _, x := range fchars {
				if x == c {
					return true
				}
			}
			return false
		}
		fsOK := true
		for wd := int64(0); wd <= maxIndent+3; wd++ {
			for pos := int64(0); pos <= 3; pos++ {
				for n := int64(0); n <= 4; n++ {
					for _, c := range []int64{0, 32, 96, 126, 97, fchars[0], fchars[len(fchars)-1]} {
						for run := int64(0); run <= minRun+2; run++ {
							for _, later := range []bool{false, true} {
								if pos >= n && wd <= maxIndent {
									// line[pos] is not read: the evaluator must not need it
									e := newEnv(p)
									e.hook = callHook(e, map[string][]constant.Value{"util.IndentWidth": {mkInt(wd), mkInt(pos)}, "countRun": {mkInt(run)}})
									e.byname["len(line)"] = mkInt(n)
									if k := e.run(fs.Body.List); k != stopReturn || constant.BoolVal(e.ret[0]) {
										fsOK = false
									}
									continue
								}
								got := fenceStart(wd, pos, n, c, run, later)
								want := !(wd > maxIndent || pos >= n) && isFC(c) && run >= minRun && !(c == noinfo[0] && later)
								if got.ok != want || (want && (got.fc != c || got.fl != run)) {
									fsOK = false
								}
							}
						}
					}
				}
			}
		}
		fmt.Fprintf(b, "(* linkdestination.go isFenceStart / isFenceClose / parseReferenceDefinition: the largest indentation width accepted *)\nDefinition gen_ls_max_indent : Z := %d%%Z.\n\n", maxIndent)
		fmt.Fprintf(b, "(* linkdestination.go isFenceStart: the fence characters *)\nDefinition gen_ls_fence_chars : list N := %s.\n\n", coqNList(fchars))
		fmt.Fprintf(b, "(* linkdestination.go isFenceStart: the shortest run *)\nDefinition gen_ls_fence_min : Z := %d%%Z.\n\n", minRun)
		fmt.Fprintf(b, "(* linkdestination.go isFenceStart: the fence character after which the rest of the line is searched, and the byte searched by bytes.IndexByte *)\nDefinition gen_ls_fence_noinfo : N := %d.\nDefinition gen_ls_fence_noinfo_search : N := %d.\n\n", noinfo[0], i64(sv))
		fmt.Fprintf(b, "(* linkdestination.go isFenceStart = not (width > max_indent || pos >= len) && c in fence_chars && run >= fence_min && not (c = noinfo && the searched byte occurs later), with results (c, run): evaluated on a grid *)\nDefinition gen_ls_fence_start_ok : bool := %s.\n\n", coqBool(fsOK))

		// ---- isFenceClose on (width, pos, len(line), run, fenceLen, IsBlank of the rest) ----
		fc := mustFunc(p, "isFenceClose")
		blankCalls := callsTo(fc.Body, "util.IsBlank")
		if len(blankCalls) != 1 {
			return fmt.Errorf("isFenceClose: expected one util.IsBlank")
		}
		fcOK := true
		for wd := int64(0); wd <= maxIndent+3; wd++ {
			for pos := int64(0); pos <= 3; pos++ {
				for n := int64(0); n <= 4; n++ {
					for run := int64(0); run <= 5; run++ {
						for fl := int64(1); fl <= 5; fl++ {
							for _, blank := range []bool{false, true} {
								e := newEnv(p)
								bindParams(e, fc, map[string]constant.Value{"fenceChar": mkInt(96), "fenceLen": mkInt(fl)})
								e.hook = callHook(e, map[string][]constant.Value{"util.IndentWidth": {mkInt(wd), mkInt(pos)}, "countRun": {mkInt(run)}})
								e.byname["len(line)"] = mkInt(n)
								e.byname[types.ExprString(blankCalls[0])] = constant.MakeBool(blank)
								if k := e.run(fc.Body.List); k != stopReturn || len(e.ret) != 1 {
									return fmt.Errorf("isFenceClose: not evaluable (%s)", e.why)
								}
								want := !(wd > maxIndent || pos >= n) && run >= fl && blank
								if constant.BoolVal(e.ret[0]) != want {
									fcOK = false
								}
							}
						}
					}
				}
			}
		}
		fmt.Fprintf(b, "(* linkdestination.go isFenceClose = not (width > max_indent || pos >= len) && run >= fenceLen && IsBlank(rest): evaluated on a grid *)\nDefinition gen_ls_fence_close_ok : bool := %s.\n\n", coqBool(fcOK))

		// ---- isIndentedCode on (width, IsBlank(line)) ----
		ic := mustFunc(p, "isIndentedCode")
		icBlank := callsTo(ic.Body, "util.IsBlank")
		if len(icBlank) != 1 {
			return fmt.Errorf("isIndentedCode: expected one util.IsBlank")
		}
		indented := func(wd int64, blank bool) bool {
			e := newEnv(p)
			e.hook = callHook(e, map[string][]constant.Value{"util.IndentWidth": {mkInt(wd), mkInt(0)}})
			e.byname[types.ExprString(icBlank[0])] = constant.MakeBool(blank)
			if k := e.run(ic.Body.List); k != stopReturn || len(e.ret) != 1 {
				panic(fmt.Sprintf("isIndentedCode: not evaluable (%s)", e.why))
			}
			return constant.BoolVal(e.ret[0])
		}
		codeIndent := int64(-1)
		for wd := int64(16); wd >= 0; wd-- {
			if indented(wd, false) {
				codeIndent = wd
			}
		}
		icOK := codeIndent >= 0
		for wd := int64(0); wd <= 16; wd++ {
			if indented(wd, true) || indented(wd, false) != (wd >= codeIndent) {
				icOK = false
			}
		}
		fmt.Fprintf(b, "(* linkdestination.go isIndentedCode = width >= gen_ls_code_indent && not IsBlank(line) (evaluated for widths 0..16) *)\nDefinition gen_ls_code_indent : Z := %d%%Z.\nDefinition gen_ls_indented_ok : bool := %s.\n\n", codeIndent, coqBool(icOK))

		// ---- parseReferenceDefinition: the first guard ----
		rd := mustFunc(p, "parseReferenceDefinition")
		rdOK := true
		for wd := int64(0); wd <= maxIndent+3; wd++ {
			for pos := int64(0); pos <= 2; pos++ {
				for n := int64(0); n <= 3; n++ {
					for _, c := range []int64{91, 93, 32, 0} {
						e := newEnv(p)
						e.hook = callHook(e, map[string][]constant.Value{"util.IndentWidth": {mkInt(wd), mkInt(pos)}})
						e.byname["len(line)"] = mkInt(n)
						if pos < n {
							e.byname["line[pos]"] = mkInt(c)
						}
						k := e.run(rd.Body.List[:2])
						rejected := k == stopReturn
						if k != stopReturn && k != stopNone {
							return fmt.Errorf("parseReferenceDefinition: guard not evaluable (%s)", e.why)
						}
						if rejected != (wd > maxIndent || pos >= n || c != 91) {
							rdOK = false
						}
					}
				}
			}
		}
		fmt.Fprintf(b, "(* linkdestination.go parseReferenceDefinition: rejected at once iff width > max_indent || pos >= len || line[pos] != '[' (grid) *)\nDefinition gen_ls_refdef_guard_ok : bool := %s.\n\n", coqBool(rdOK))

		// ---- scanInlineLinks: the switch on "<!--", "<![CDATA[", "<?", "<!" ----
		si := findMethod(p, "linkDestinationReplacer", "scanInlineLinks")
		if si == nil {
			return fmt.Errorf("linkDestinationReplacer.scanInlineLinks not found")
		}
		var sw *ast.SwitchStmt
		ast.Inspect(si.Body, func(n ast.Node) bool {
			if s, ok := n.(*ast.SwitchStmt); ok && s.Tag == nil && sw == nil {
				sw = s
			}
			return true
		})
		if sw == nil {
			return fmt.Errorf("scanInlineLinks: the tagless switch was not found")
		}
		iObj := localObj(p, si, "i")
		selected := func(line string) int {
			for k, c := range sw.Body.List {
				cc := c.(*ast.CaseClause)
				if len(cc.List) != 1 {
					panic("scanInlineLinks: a case of the switch has not exactly one condition")
				}
				e := lineEnv(p, line, 0, iObj)
				v := e.eval(cc.List[0])
				if v == nil {
					panic(fmt.Sprintf("scanInlineLinks: case %d not evaluable on %q", k, line))
				}
				if constant.BoolVal(v) {
					return k
				}
			}
			return -1
		}
		type special struct{ prefix, closer string }
		var specials []special
		spOK := true
		for k, c := range sw.Body.List {
			cc := c.(*ast.CaseClause)
			// the search: bytes.Index(line[i+K:], []byte("closer")) or bytes.IndexByte(line[i+K:], 'c')
			var off int64 = -1
			closer := ""
			for _, fn := range []string{"bytes.Index", "bytes.IndexByte"} {
				for _, call := range callsTo(cc, fn) {
					sl, ok := call.Args[0].(*ast.SliceExpr)
					if !ok || sl.High != nil || sl.Low == nil {
						return fmt.Errorf("scanInlineLinks: case %d: the search is not on line[i+K:]", k)
					}
					e := newEnv(p)
					e.vars[iObj] = mkInt(0)
					lo := e.eval(sl.Low)
					if lo == nil {
						return fmt.Errorf("scanInlineLinks: case %d: offset not constant", k)
					}
					off = i64(lo)
					if fn == "bytes.Index" {
						conv := call.Args[1].(*ast.CallExpr)
						closer = constant.StringVal(e.eval(conv.Args[0]))
					} else {
						closer = string([]byte{byte(i64(e.eval(call.Args[1])))})
					}
				}
			}
			if off < 0 || closer == "" {
				return fmt.Errorf("scanInlineLinks: case %d: no search found", k)
			}
			// the closer remembered when the end is not on the line, and the increment of i
			endObj := func() types.Object {
				var o types.Object
				ast.Inspect(cc, func(n ast.Node) bool {
					if id, ok := n.(*ast.Ident); ok && id.Name == "end" && o == nil {
						if d := p.TypesInfo.Defs[id]; d != nil {
							o = d
						}
					}
					return true
				})
				return o
			}()
			if endObj == nil {
				return fmt.Errorf("scanInlineLinks: case %d: variable end not found", k)
			}
			for _, endv := range []int64{-1, 0, 5} {
				e := newEnv(p)
				e.vars[iObj] = mkInt(3)
				e.hook = callHook(e, map[string][]constant.Value{"bytes.Index": {mkInt(endv)}, "bytes.IndexByte": {mkInt(endv)}})
				kk := e.run(cc.Body)
				if endv == -1 {
					if kk != stopReturn || len(e.effects) != 1 || e.effects[0].fn != "assign:html.rawCloser" || e.effects[0].args[0] == nil || constant.StringVal(e.effects[0].args[0]) != closer {
						spOK = false
					}
				} else if kk != stopContinue || i64(e.vars[iObj]) != 3+off+endv+int64(len(closer)) || len(e.effects) != 0 {
					spOK = false
				}
			}
			// the prefix that selects this case
			var cands []string
			var alpha []byte
			ast.Inspect(cc.List[0], func(n ast.Node) bool {
				if bl, ok := n.(*ast.BasicLit); ok {
					v := constant.MakeFromLiteral(bl.Value, bl.Kind, 0)
					switch bl.Kind {
					case token.CHAR:
						alpha = append(alpha, byte(i64(v)))
					case token.STRING:
						cands = append(cands, constant.StringVal(v))
					}
				}
				return true
			})
			if len(cands) == 0 {
				var gen func(s string)
				gen = func(s string) {
					if int64(len(s)) == off {
						cands = append(cands, s)
						return
					}
					for _, a := range alpha {
						gen(s + string([]byte{a}))
					}
				}
				gen("<")
			}
			var pre []string
			seenCand := map[string]bool{}
			for _, s := range cands {
				if seenCand[s] {
					continue
				}
				seenCand[s] = true
				if int64(len(s)) == off && selected(s+"\x00") == k {
					pre = append(pre, s)
				}
			}
			if len(pre) != 1 {
				return fmt.Errorf("scanInlineLinks: case %d: expected exactly one selecting prefix of length %d, found %q", k, off, pre)
			}
			specials = append(specials, special{pre[0], closer})
		}
		// the selection is "the first case whose prefix is a prefix of line[i:]"
		var tests []string
		var genT func(s string)
		genT = func(s string) {
			tests = append(tests, s)
			if len(s) >= 5 {
				return
			}
			for _, a := range []byte("<!-?[x") {
				genT(s + string([]byte{a}))
			}
		}
		genT("<")
		for _, sp := range specials {
			for k := 1; k <= len(sp.prefix); k++ {
				tests = append(tests, sp.prefix[:k], sp.prefix[:k]+"x", sp.prefix[:k]+"xyzxyzxyz")
				mut := []byte(sp.prefix)
				mut[k-1] = 'x'
				if k > 1 {
					tests = append(tests, string(mut)+"  ")
				}
			}
		}
		for _, tline := range tests {
			want := -1
			for k, sp := range specials {
				if strings.HasPrefix(tline, sp.prefix) {
					want = k
					break
				}
			}
			if selected(tline) != want {
				spOK = false
			}
		}
		fmt.Fprintf(b, "(* linkdestination.go scanInlineLinks, the switch after `len(linkStack) == 0 && c == '<'`: (prefix, closer) per case, in order; the body of the construct starts after the prefix *)\nDefinition gen_ls_special : list (list N * list N) := [")
		for k, sp := range specials {
			if k > 0 {
				b.WriteString(";")
			}
			fmt.Fprintf(b, "\n  (%s, %s)", coqBytes(sp.prefix), coqBytes(sp.closer))
		}
		b.WriteString("].\n\n")
		fmt.Fprintf(b, "(* the case selected is the first whose prefix is a prefix of line[i:] (%d lines); a case whose closer is absent sets html.rawCloser to it and returns, otherwise i += len(prefix) + end + len(closer) *)\nDefinition gen_ls_special_ok : bool := %s.\n", len(tests), coqBool(spOK))
		return nil
	})
}

