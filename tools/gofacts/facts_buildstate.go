package main

// Facts_buildstate (C19, also read by C30): the process-wide state of the
// compiler. Every package level variable of internal/compiler,
// internal/compiler/types, the root package and package native is listed with
// go/types, together with every site outside init functions that can change
// it or what it refers to: assignments and increments whose target is rooted
// at the variable (x = .., x.f = .., x[k] = .., *x = ..), delete/clear/copy
// with it as destination, calls of sync / sync/atomic methods and of methods
// with a pointer receiver on it, and places where its address is taken.
//
// The committed classification checks/C19_globals.json is joined in. A
// variable must be classified when it has a write site or when its type can
// be changed through a reference (maps, slices, pointers, channels,
// functions, sync types, or composites of them); every write site must be
// classified. A variable or site that is new, renamed or gone is reported in
// the fact and breaks the obligations of proofs/BuildState_proofs.v - this is
// how a new process-wide cache of the compiler shows up.

import (
	"bytes"
	"encoding/json"
	"fmt"
	"go/ast"
	"go/token"
	"go/types"
	"os"
	"path/filepath"
	"sort"
	"strings"

	"golang.org/x/tools/go/packages"
)

type bsVar struct {
	key    string
	typ    string
	ref    bool
	writes []string
}

// bsRefType reports whether a value of type t can be changed through a copy of it.
func bsRefType(t types.Type, seen map[types.Type]bool) bool {
	if seen[t] {
		return false
	}
	seen[t] = true
	if n, ok := t.(*types.Named); ok && n.Obj().Pkg() != nil {
		switch n.Obj().Pkg().Path() {
		case "sync", "sync/atomic":
			return true
		}
	}
	switch u := t.Underlying().(type) {
	case *types.Map, *types.Slice, *types.Pointer, *types.Chan, *types.Signature:
		return true
	case *types.Array:
		return bsRefType(u.Elem(), seen)
	case *types.Struct:
		for i := 0; i < u.NumFields(); i++ {
			if bsRefType(u.Field(i).Type(), seen) {
				return true
			}
		}
	}
	return false
}

// bsRoot returns the package level variable that e is selected / indexed /
// dereferenced / sliced from, if any.
func bsRoot(p *packages.Package, e ast.Expr, scanned map[*types.Package]string) *types.Var {
	for {
		switch x := e.(type) {
		case *ast.SelectorExpr:
			if id, ok := x.X.(*ast.Ident); ok {
				if _, isPkg := p.TypesInfo.Uses[id].(*types.PkgName); isPkg {
					if v, ok := p.TypesInfo.Uses[x.Sel].(*types.Var); ok && v.Pkg() != nil && v.Parent() == v.Pkg().Scope() {
						if _, ok := scanned[v.Pkg()]; ok {
							return v
						}
					}
					return nil
				}
			}
			e = x.X
		case *ast.IndexExpr:
			e = x.X
		case *ast.StarExpr:
			e = x.X
		case *ast.ParenExpr:
			e = x.X
		case *ast.SliceExpr:
			e = x.X
		case *ast.Ident:
			obj := p.TypesInfo.Uses[x]
			if obj == nil {
				obj = p.TypesInfo.Defs[x]
			}
			if v, ok := obj.(*types.Var); ok && v.Pkg() != nil && !v.IsField() && v.Parent() == v.Pkg().Scope() {
				if _, ok := scanned[v.Pkg()]; ok {
					return v
				}
			}
			return nil
		default:
			return nil
		}
	}
}

func buildStateVars(w *world) []*bsVar {
	rels := []string{"internal/compiler", "internal/compiler/types", "", "native"}
	var pkgs []*packages.Package
	scanned := map[*types.Package]string{}
	for _, rel := range rels {
		var p *packages.Package
		if rel == "internal/compiler/types" {
			p = w.pkg("internal/compiler").Imports[modPath+"/internal/compiler/types"]
			if p == nil || len(p.Syntax) == 0 {
				panic("package internal/compiler/types not loaded with its syntax")
			}
		} else {
			p = w.pkg(rel)
		}
		name := rel
		if name == "" {
			name = "scriggo"
		}
		pkgs = append(pkgs, p)
		scanned[p.Types] = name
	}
	vars := map[*types.Var]*bsVar{}
	var order []*types.Var
	skipFile := func(p *packages.Package, f *ast.File) bool {
		name := filepath.Base(p.Fset.Position(f.Pos()).Filename)
		return strings.HasSuffix(name, "_test.go") || strings.HasPrefix(name, "verif_")
	}
	// the variables
	for _, p := range pkgs {
		for _, f := range p.Syntax {
			if skipFile(p, f) {
				continue
			}
			for _, d := range f.Decls {
				gd, ok := d.(*ast.GenDecl)
				if !ok || gd.Tok != token.VAR {
					continue
				}
				for _, sp := range gd.Specs {
					for _, n := range sp.(*ast.ValueSpec).Names {
						if n.Name == "_" {
							continue
						}
						v, ok := p.TypesInfo.Defs[n].(*types.Var)
						if !ok {
							continue
						}
						bv := &bsVar{key: scanned[p.Types] + "." + n.Name, typ: types.TypeString(v.Type(), func(q *types.Package) string { return q.Name() })}
						bv.ref = bsRefType(v.Type(), map[types.Type]bool{})
						vars[v] = bv
						order = append(order, v)
					}
				}
			}
		}
	}
	// the sites
	count := map[string]int{}
	add := func(v *types.Var, owner, what string) {
		bv := vars[v]
		if bv == nil {
			return // a variable of a verif_ file
		}
		k := bv.key + " <- " + owner + ": " + what
		count[k]++
		if count[k] > 1 {
			k = fmt.Sprintf("%s #%d", k, count[k])
		}
		bv.writes = append(bv.writes, k)
	}
	for _, p := range pkgs {
		for _, f := range p.Syntax {
			if skipFile(p, f) {
				continue
			}
			for _, d := range f.Decls {
				owner := ""
				var body ast.Node
				switch d := d.(type) {
				case *ast.FuncDecl:
					if d.Body == nil || (d.Recv == nil && d.Name.Name == "init") {
						continue
					}
					owner = scanned[p.Types] + "." + mrFuncDeclName(d)
					body = d.Body
				case *ast.GenDecl:
					if d.Tok != token.VAR {
						continue
					}
					// function literals in initialisers run later
					owner = scanned[p.Types] + ".package-level var"
					body = d
				}
				inLit := 0
				isGen := false
				if _, ok := body.(*ast.GenDecl); ok {
					isGen = true
				}
				var visit func(n ast.Node) bool
				visit = func(n ast.Node) bool {
					if n == nil {
						return true
					}
					if fl, ok := n.(*ast.FuncLit); ok && isGen {
						inLit++
						ast.Inspect(fl.Body, visit)
						inLit--
						return false
					}
					if isGen && inLit == 0 {
						return true // the initialiser itself runs before any build
					}
					target := func(e ast.Expr, kind string) {
						if v := bsRoot(p, e, scanned); v != nil {
							add(v, owner, kind+" "+exprString(e))
						}
					}
					switch s := n.(type) {
					case *ast.AssignStmt:
						if s.Tok == token.DEFINE {
							return true
						}
						for _, l := range s.Lhs {
							target(l, "assign")
						}
					case *ast.IncDecStmt:
						target(s.X, "incdec")
					case *ast.RangeStmt:
						if s.Tok == token.ASSIGN {
							if s.Key != nil {
								target(s.Key, "range-assign")
							}
							if s.Value != nil {
								target(s.Value, "range-assign")
							}
						}
					case *ast.UnaryExpr:
						if s.Op == token.AND {
							target(s.X, "address")
						}
					case *ast.CallExpr:
						if id, ok := s.Fun.(*ast.Ident); ok {
							if _, isBuiltin := p.TypesInfo.Uses[id].(*types.Builtin); isBuiltin && len(s.Args) > 0 {
								switch id.Name {
								case "delete", "clear", "copy":
									target(s.Args[0], id.Name)
								}
							}
							return true
						}
						se, ok := s.Fun.(*ast.SelectorExpr)
						if !ok {
							return true
						}
						sel := p.TypesInfo.Selections[se]
						if sel == nil || sel.Kind() != types.MethodVal {
							return true
						}
						v := bsRoot(p, se.X, scanned)
						if v == nil {
							return true
						}
						fn, _ := sel.Obj().(*types.Func)
						if fn == nil {
							return true
						}
						sig := fn.Type().(*types.Signature)
						ptrRecv := false
						if sig.Recv() != nil {
							_, ptrRecv = sig.Recv().Type().(*types.Pointer)
						}
						pk := ""
						if fn.Pkg() != nil {
							pk = fn.Pkg().Path()
						}
						if pk == "sync" || pk == "sync/atomic" {
							add(v, owner, "sync-call "+exprString(se.X)+"."+se.Sel.Name+"()")
						} else if ptrRecv {
							add(v, owner, "pointer-method "+exprString(se.X)+"."+se.Sel.Name+"()")
						}
					}
					return true
				}
				ast.Inspect(body, visit)
			}
		}
	}
	var out []*bsVar
	for _, v := range order {
		out = append(out, vars[v])
	}
	sort.Slice(out, func(i, j int) bool { return out[i].key < out[j].key })
	return out
}

var bsVarClasses = []string{"", "read-only", "written-no-build-information", "cross-build-state"}
var bsWriteClasses = []string{"", "idempotent", "scratch", "debug-switch", "cross-build-state"}

func init() {
	register("Facts_buildstate", func(w *world, b *bytes.Buffer) error {
		vars := buildStateVars(w)
		if len(vars) == 0 {
			return fmt.Errorf("no package level variable found")
		}
		by, err := os.ReadFile(filepath.Join(checksDir(), "C19_globals.json"))
		if err != nil {
			return err
		}
		var doc struct {
			Vars map[string]struct {
				Class string `json:"class"`
				Note  string `json:"note"`
			} `json:"vars"`
			Writes map[string]struct {
				Class string `json:"class"`
				Note  string `json:"note"`
			} `json:"writes"`
		}
		if err := json.Unmarshal(by, &doc); err != nil {
			return fmt.Errorf("checks/C19_globals.json: %v", err)
		}
		code := func(classes []string, c string) (int, error) {
			for i, n := range classes {
				if n == c {
					return i, nil
				}
			}
			return 0, fmt.Errorf("checks/C19_globals.json: unknown class %q", c)
		}
		// the listing, for the reviewer (not an input of anything)
		type listed struct {
			Key    string   `json:"key"`
			Type   string   `json:"type"`
			Ref    bool     `json:"reference_type"`
			Writes []string `json:"writes"`
			Needs  bool     `json:"needs_classification"`
		}
		var listing []listed
		for _, v := range vars {
			listing = append(listing, listed{v.key, v.typ, v.ref, v.writes, v.ref || len(v.writes) > 0})
		}
		if js, err := json.MarshalIndent(listing, "", " "); err == nil {
			os.MkdirAll(filepath.Join(verifDir(), "build"), 0o755)
			os.WriteFile(filepath.Join(verifDir(), "build", "C19_globals_generated.json"), js, 0o644)
		}
		b.WriteString("Require Import Coq.Strings.String.\nOpen Scope string_scope.\n\n")
		fmt.Fprintf(b, "(* package level variables of internal/compiler, internal/compiler/types, the root package and native:\n   (name, its type can be changed through a reference, number of write sites outside init,\n   class of checks/C19_globals.json: 0 unclassified 1 read-only 2 written-no-build-information 3 cross-build-state) *)\n")
		fmt.Fprintf(b, "Definition gen_package_vars : list (string * bool * N * N) := [")
		seenV := map[string]bool{}
		for i, v := range vars {
			if i > 0 {
				b.WriteString(";")
			}
			if seenV[v.key] {
				return fmt.Errorf("two package level variables with the key %s", v.key)
			}
			seenV[v.key] = true
			c, err := code(bsVarClasses, doc.Vars[v.key].Class)
			if err != nil {
				return err
			}
			fmt.Fprintf(b, "\n  (* %s *) (%s, %s, %d, %d)", strings.ReplaceAll(v.typ, "*)", "* )"), coqString(v.key), coqBool(v.ref), len(v.writes), c)
		}
		b.WriteString("].\n\n")
		fmt.Fprintf(b, "(* sites outside init that can change a package level variable or what it refers to:\n   (site, class of checks/C19_globals.json: 0 unclassified 1 idempotent 2 scratch 3 debug-switch 4 cross-build-state) *)\n")
		fmt.Fprintf(b, "Definition gen_package_var_writes : list (string * N) := [")
		seenW := map[string]bool{}
		first := true
		for _, v := range vars {
			for _, k := range v.writes {
				if !first {
					b.WriteString(";")
				}
				first = false
				seenW[k] = true
				c, err := code(bsWriteClasses, doc.Writes[k].Class)
				if err != nil {
					return err
				}
				fmt.Fprintf(b, "\n  (%s, %d)", coqString(k), c)
			}
		}
		b.WriteString("].\n\n")
		var stale []string
		for k := range doc.Vars {
			if !seenV[k] {
				stale = append(stale, "var "+k)
			}
		}
		for k := range doc.Writes {
			if !seenW[k] {
				stale = append(stale, "write "+k)
			}
		}
		sort.Strings(stale)
		fmt.Fprintf(b, "(* entries of checks/C19_globals.json without a variable or site in the code: %s *)\nDefinition gen_stale_buildstate_entries : N := %d.\n", strings.ReplaceAll(fmt.Sprint(stale), "*)", "* )"), len(stale))
		return nil
	})
}
