package main

// Limits and operand encodings (C20): the max*Count constants of the builder,
// the encode*/decode* helpers of compiler and runtime as typed terms, the
// register-type numbering, the pool "add if absent" limit tests.

import (
	"bytes"
	"fmt"
	"go/ast"
	"go/constant"
	"go/types"
	"strings"

	"golang.org/x/tools/go/packages"
)

func emitFuncTerm(b *bytes.Buffer, p *packages.Package, prefix, name string) error {
	fd := findFunc(p, name)
	if fd == nil {
		return fmt.Errorf("function %s.%s not found", p.PkgPath, name)
	}
	var params []string
	for _, f := range fd.Type.Params.List {
		for _, n := range f.Names {
			params = append(params, "p_"+n.Name)
		}
	}
	rs, err := translateFunc(p, fd, params)
	if err != nil {
		return err
	}
	fmt.Fprintf(b, "Definition gen_%s_%s (%s : option Z) : list (option Z) :=\n  [%s].\n", prefix, name, strings.Join(params, " "), strings.Join(rs, ";\n   "))
	return nil
}

func intConst(p *packages.Package, name string) (int64, error) {
	o := p.Types.Scope().Lookup(name)
	c, ok := o.(*types.Const)
	if !ok {
		return 0, fmt.Errorf("constant %s.%s not found", p.PkgPath, name)
	}
	v, ok := constant.Int64Val(c.Val())
	if !ok {
		return 0, fmt.Errorf("constant %s is not an int64", name)
	}
	return v, nil
}

// poolLimit finds, in method fb.<fn>, the `if <x> == <maxConst> { panic(newLimitExceededError(...)) }`
// test and the conversion applied to the returned index; reports the constant compared with.
func poolLimit(p *packages.Package, fn string) (limit string, ret string, err error) {
	fd := findMethod(p, "functionBuilder", fn)
	if fd == nil {
		return "", "", fmt.Errorf("functionBuilder.%s not found", fn)
	}
	ast.Inspect(fd.Body, func(n ast.Node) bool {
		is, ok := n.(*ast.IfStmt)
		if !ok {
			return true
		}
		be, ok := is.Cond.(*ast.BinaryExpr)
		if !ok || be.Op.String() != "==" {
			return true
		}
		if id, ok := be.Y.(*ast.Ident); ok && strings.HasPrefix(id.Name, "max") {
			// body must panic with newLimitExceededError
			txt := ""
			for _, s := range is.Body.List {
				if es, ok := s.(*ast.ExprStmt); ok {
					txt += types.ExprString(es.X)
				}
			}
			if strings.Contains(txt, "panic(newLimitExceededError(") {
				limit = id.Name
			}
		}
		return true
	})
	if limit == "" {
		return "", "", fmt.Errorf("functionBuilder.%s: limit test `== max…Count` followed by panic(newLimitExceededError) not found", fn)
	}
	// last return statement's expression
	var last *ast.ReturnStmt
	for _, s := range fd.Body.List {
		if r, ok := s.(*ast.ReturnStmt); ok {
			last = r
		}
	}
	if last == nil || len(last.Results) != 1 {
		return "", "", fmt.Errorf("functionBuilder.%s: final return not found", fn)
	}
	ret = "int"
	if ce, ok := last.Results[0].(*ast.CallExpr); ok {
		ret = types.ExprString(ce.Fun)
	}
	return limit, ret, nil
}

func init() {
	register("Facts_limits", func(w *world, b *bytes.Buffer) error {
		cp := w.pkg("internal/compiler")
		rt := w.pkg("internal/runtime")
		fmt.Fprintf(b, "From Verif Require Import GoInt.\nOpen Scope Z_scope.\n\n(* builder.go limits *)\n")
		for _, n := range []string{"maxRegistersCount", "maxNativeFunctionsCount", "maxScriggoFunctionsCount", "maxFieldIndexesCount", "maxSelectCasesCount",
			"maxTypesCount", "maxIntValuesCount", "maxFloatValuesCount", "maxStringValuesCount", "maxGeneralValuesCount"} {
			v, err := intConst(cp, n)
			if err != nil {
				return err
			}
			fmt.Fprintf(b, "Definition gen_%s : Z := %d.\n", n, v)
		}
		fmt.Fprintf(b, "\n(* register type numbering: compiler (disassembler.go) and runtime (vm.go) *)\n")
		for _, pk := range []struct {
			p   *packages.Package
			pre string
		}{{cp, "c"}, {rt, "r"}} {
			for _, n := range []string{"intRegister", "floatRegister", "stringRegister", "generalRegister"} {
				v, err := intConst(pk.p, n)
				if err != nil {
					return err
				}
				fmt.Fprintf(b, "Definition gen_%s_%s : Z := %d.\n", pk.pre, n, v)
			}
		}
		fmt.Fprintf(b, "\n(* operand encodings as typed terms; p_x are the parameters *)\n")
		for _, n := range []string{"encodeInt16", "decodeInt16", "encodeUint16", "decodeUint16", "encodeUint24", "decodeUint24", "encodeValueIndex", "decodeValueIndex"} {
			if err := emitFuncTerm(b, cp, "c", n); err != nil {
				return err
			}
		}
		for _, n := range []string{"decodeInt16", "decodeUint16", "decodeUint24", "decodeValueIndex"} {
			if err := emitFuncTerm(b, rt, "r", n); err != nil {
				return err
			}
		}
		// pools: which constant bounds the index and how the index is returned
		fmt.Fprintf(b, "\n(* add-if-absent pools of functionBuilder: (limit constant, conversion applied to the returned index: 1 = int8(r), 0 = none) *)\n")
		type pool struct{ fn, coq string }
		for _, pl := range []pool{{"addType", "Type"}, {"addNativeFunction", "NativeFunction"}, {"addFunction", "Function"}, {"makeStringValue", "StringValue"},
			{"makeGeneralValue", "GeneralValue"}, {"makeFloatValue", "FloatValue"}, {"makeIntValue", "IntValue"}, {"makeFieldIndex", "FieldIndex"}} {
			lim, ret, err := poolLimit(cp, pl.fn)
			if err != nil {
				return err
			}
			v, err := intConst(cp, lim)
			if err != nil {
				return err
			}
			conv := 0
			switch ret {
			case "int8":
				conv = 1
			case "int":
				conv = 0
			default:
				return fmt.Errorf("functionBuilder.%s returns through %s", pl.fn, ret)
			}
			fmt.Fprintf(b, "Definition gen_pool_%s : Z * Z := (%d, %d). (* %s: index == %s panics LimitExceeded *)\n", pl.coq, v, conv, pl.fn, lim)
		}
		// newRegister: num == maxRegistersCount panics, returns num+1
		{
			lim, _, err := poolLimit(cp, "newRegister")
			if err != nil {
				return err
			}
			v, _ := intConst(cp, lim)
			fmt.Fprintf(b, "Definition gen_newRegister_limit : Z := %d. (* newRegister: num == %s panics LimitExceeded; returns num+1 as int8 *)\n", v, lim)
		}
		return nil
	})
}
