package main

// Facts_builtinapi (C25): every exported function of package builtin and every
// exported method of its exported types, listed with go/types, with
//   - a hash of the normalised text of its signature and body,
//   - the functions of other packages it calls (standard library, yaml, ...),
//   - whether its body is exactly `return <oracle>(parameters in order)` for
//     the oracle named in the committed classification
//     checks/C25_wrappers.json (conversions of the parameters and of the
//     result, a selector on the receiver's field, and wrapping the result in
//     the Time / Regexp struct are allowed),
//   - whether the harness has a differential entry for it (the keys of the
//     composite literal `var diffTable = map[string]diffEntry{...}` in
//     harness/cmd/h_misc/c25diff.go, read with go/parser).
// The classification records for each function its class (direct-wrapper,
// guarded-wrapper, own-logic, constructor, host-glue), the oracle named by
// its documentation and the hash it was reviewed at. A new exported function,
// a changed body, a wrapper without differential entry or a direct wrapper
// that is no longer direct breaks an obligation of proofs/BuiltinApi_proofs.v.

import (
	"bytes"
	"crypto/sha256"
	"encoding/json"
	"fmt"
	"go/ast"
	"go/parser"
	"go/printer"
	"go/token"
	"go/types"
	"os"
	"path/filepath"
	"sort"
	"strings"

	"golang.org/x/tools/go/packages"
)

type apiFunc struct {
	Name    string   `json:"name"`
	Sig     string   `json:"signature"`
	Hash    string   `json:"hash"`
	Callees []string `json:"callees"`
	Doc     string   `json:"doc,omitempty"`
	decl    *ast.FuncDecl
}

func apiFuncName(f *types.Func) string {
	sig := f.Type().(*types.Signature)
	if r := sig.Recv(); r != nil {
		t := r.Type()
		ptr := ""
		if p, ok := t.(*types.Pointer); ok {
			t = p.Elem()
			ptr = "*"
		}
		if n, ok := t.(*types.Named); ok && n.Obj().Pkg() != nil {
			return "(" + ptr + n.Obj().Pkg().Path() + "." + n.Obj().Name() + ")." + f.Name()
		}
		return "(" + ptr + t.String() + ")." + f.Name()
	}
	if f.Pkg() == nil {
		return f.Name()
	}
	return f.Pkg().Path() + "." + f.Name()
}

func builtinAPI(p *packages.Package) []*apiFunc {
	var out []*apiFunc
	for _, f := range p.Syntax {
		fname := filepath.Base(p.Fset.Position(f.Pos()).Filename)
		if strings.HasSuffix(fname, "_test.go") || strings.HasPrefix(fname, "verif_") {
			continue
		}
		for _, d := range f.Decls {
			fd, ok := d.(*ast.FuncDecl)
			if !ok || !fd.Name.IsExported() || fd.Body == nil {
				continue
			}
			name := fd.Name.Name
			if fd.Recv != nil {
				if len(fd.Recv.List) != 1 {
					continue
				}
				t := fd.Recv.List[0].Type
				if s, ok := t.(*ast.StarExpr); ok {
					t = s.X
				}
				id, ok := t.(*ast.Ident)
				if !ok || !id.IsExported() {
					continue
				}
				name = id.Name + "." + name
			}
			obj, _ := p.TypesInfo.Defs[fd.Name].(*types.Func)
			if obj == nil {
				continue
			}
			a := &apiFunc{Name: name, decl: fd}
			a.Sig = types.TypeString(obj.Type(), func(q *types.Package) string { return q.Name() })
			var b bytes.Buffer
			printer.Fprint(&b, token.NewFileSet(), fd.Type)
			b.WriteString(" ")
			printer.Fprint(&b, token.NewFileSet(), fd.Body)
			norm := strings.Join(strings.Fields(b.String()), " ")
			h := sha256.Sum256([]byte(norm))
			a.Hash = fmt.Sprintf("%x", h[:5])
			seen := map[string]bool{}
			ast.Inspect(fd.Body, func(n ast.Node) bool {
				ce, ok := n.(*ast.CallExpr)
				if !ok {
					return true
				}
				var id *ast.Ident
				switch fn := ce.Fun.(type) {
				case *ast.SelectorExpr:
					id = fn.Sel
				case *ast.Ident:
					id = fn
				}
				if id == nil {
					return true
				}
				if fo, ok := p.TypesInfo.Uses[id].(*types.Func); ok && fo.Pkg() != nil && !strings.HasPrefix(fo.Pkg().Path(), modPath) {
					seen[apiFuncName(fo)] = true
				}
				return true
			})
			for k := range seen {
				a.Callees = append(a.Callees, k)
			}
			sort.Strings(a.Callees)
			if fd.Doc != nil {
				a.Doc = strings.Join(strings.Fields(fd.Doc.Text()), " ")
				if len(a.Doc) > 240 {
					a.Doc = a.Doc[:240] + "..."
				}
			}
			out = append(out, a)
		}
	}
	sort.Slice(out, func(i, j int) bool { return out[i].Name < out[j].Name })
	return out
}

// apiDirect reports whether the body of fd is `return oracle(params in order)`.
func apiDirect(p *packages.Package, fd *ast.FuncDecl, oracle string) bool {
	if len(fd.Body.List) != 1 {
		return false
	}
	rs, ok := fd.Body.List[0].(*ast.ReturnStmt)
	if !ok || len(rs.Results) != 1 {
		return false
	}
	var params []types.Object
	for _, f := range fd.Type.Params.List {
		for _, n := range f.Names {
			params = append(params, p.TypesInfo.Defs[n])
		}
	}
	var recv types.Object
	if fd.Recv != nil && len(fd.Recv.List[0].Names) == 1 {
		recv = p.TypesInfo.Defs[fd.Recv.List[0].Names[0]]
	}
	// strip conversions and the wrapping struct literal from the result
	e := rs.Results[0]
	for {
		switch x := e.(type) {
		case *ast.ParenExpr:
			e = x.X
			continue
		case *ast.CompositeLit:
			if len(x.Elts) == 1 {
				if _, isKV := x.Elts[0].(*ast.KeyValueExpr); !isKV {
					e = x.Elts[0]
					continue
				}
			}
		case *ast.CallExpr:
			if tv, ok := p.TypesInfo.Types[x.Fun]; ok && tv.IsType() && len(x.Args) == 1 {
				e = x.Args[0]
				continue
			}
		}
		break
	}
	ce, ok := e.(*ast.CallExpr)
	if !ok {
		return false
	}
	var id *ast.Ident
	var recvExpr ast.Expr
	switch fn := ce.Fun.(type) {
	case *ast.SelectorExpr:
		id = fn.Sel
		recvExpr = fn.X
	case *ast.Ident:
		id = fn
	}
	if id == nil {
		return false
	}
	fo, ok := p.TypesInfo.Uses[id].(*types.Func)
	if !ok || apiFuncName(fo) != oracle {
		return false
	}
	// the object an argument is: a parameter, possibly converted; or the receiver's field
	var root func(e ast.Expr) types.Object
	root = func(e ast.Expr) types.Object {
		switch x := e.(type) {
		case *ast.ParenExpr:
			return root(x.X)
		case *ast.Ident:
			return p.TypesInfo.Uses[x]
		case *ast.CallExpr:
			if tv, ok := p.TypesInfo.Types[x.Fun]; ok && tv.IsType() && len(x.Args) == 1 {
				return root(x.Args[0])
			}
		case *ast.SelectorExpr:
			// receiver.field
			if _, isField := p.TypesInfo.Uses[x.Sel].(*types.Var); isField {
				return root(x.X)
			}
		}
		return nil
	}
	var got []types.Object
	if fo.Type().(*types.Signature).Recv() != nil {
		if recvExpr == nil {
			return false
		}
		r := root(recvExpr)
		if r == nil || r != recv {
			return false
		}
	}
	for _, a := range ce.Args {
		o := root(a)
		if o == nil {
			return false
		}
		if o == recv && recv != nil {
			// an argument that is the field of another value of the receiver type is a parameter, handled below
		}
		got = append(got, o)
	}
	if len(got) != len(params) {
		return false
	}
	for i := range got {
		if got[i] != params[i] {
			return false
		}
	}
	return true
}

// harnessDiffEntries reads the keys of `var diffTable = map[string]diffEntry{...}`.
func harnessDiffEntries() (map[string]bool, error) {
	path := filepath.Join(verifDir(), "harness", "cmd", "h_misc", "c25diff.go")
	fset := token.NewFileSet()
	f, err := parser.ParseFile(fset, path, nil, 0)
	if err != nil {
		return nil, err
	}
	out := map[string]bool{}
	found := false
	for _, d := range f.Decls {
		gd, ok := d.(*ast.GenDecl)
		if !ok || gd.Tok != token.VAR {
			continue
		}
		for _, sp := range gd.Specs {
			vs := sp.(*ast.ValueSpec)
			if len(vs.Names) != 1 || vs.Names[0].Name != "diffTable" || len(vs.Values) != 1 {
				continue
			}
			cl, ok := vs.Values[0].(*ast.CompositeLit)
			if !ok {
				continue
			}
			found = true
			for _, el := range cl.Elts {
				kv, ok := el.(*ast.KeyValueExpr)
				if !ok {
					continue
				}
				if bl, ok := kv.Key.(*ast.BasicLit); ok && bl.Kind == token.STRING {
					out[strings.Trim(bl.Value, "\"`")] = true
				}
			}
		}
	}
	if !found {
		return nil, fmt.Errorf("%s: composite literal diffTable not found", path)
	}
	return out, nil
}

// coqCommentText makes s safe inside a Coq comment.
func coqCommentText(s string) string {
	s = strings.ReplaceAll(s, "(*", "( *")
	s = strings.ReplaceAll(s, "*)", "* )")
	s = strings.ReplaceAll(s, "\"", "'")
	return s
}

var apiClasses = []string{"", "direct-wrapper", "guarded-wrapper", "own-logic", "constructor", "host-glue"}

func init() {
	register("Facts_builtinapi", func(w *world, b *bytes.Buffer) error {
		p := w.pkg("builtin")
		api := builtinAPI(p)
		if len(api) < 20 {
			return fmt.Errorf("only %d exported functions found in package builtin", len(api))
		}
		if js, err := json.MarshalIndent(api, "", " "); err == nil {
			os.MkdirAll(filepath.Join(verifDir(), "build"), 0o755)
			os.WriteFile(filepath.Join(verifDir(), "build", "C25_api_generated.json"), js, 0o644)
		}
		by, err := os.ReadFile(filepath.Join(checksDir(), "C25_wrappers.json"))
		if err != nil {
			return err
		}
		var doc struct {
			Functions map[string]struct {
				Hash   string `json:"hash"`
				Class  string `json:"class"`
				Oracle string `json:"oracle"`
			} `json:"functions"`
		}
		if err := json.Unmarshal(by, &doc); err != nil {
			return fmt.Errorf("checks/C25_wrappers.json: %v", err)
		}
		entries, err := harnessDiffEntries()
		if err != nil {
			return err
		}
		code := func(c string) (int, error) {
			for i, n := range apiClasses {
				if n == c {
					return i, nil
				}
			}
			return 0, fmt.Errorf("checks/C25_wrappers.json: unknown class %q", c)
		}
		b.WriteString("Require Import Coq.Strings.String.\nOpen Scope string_scope.\n\n")
		fmt.Fprintf(b, "(* exported functions and methods of package builtin:\n   (name, class of checks/C25_wrappers.json reviewed at the current hash of its signature and body:\n      0 unclassified or changed since the review, 1 direct-wrapper 2 guarded-wrapper 3 own-logic 4 constructor 5 host-glue,\n    the oracle named in the classification is called by the body,\n    the body is `return oracle(parameters in order)`,\n    the harness has a differential entry for it) *)\n")
		fmt.Fprintf(b, "Definition gen_builtin_api : list (string * N * bool * bool * bool) := [")
		seen := map[string]bool{}
		for i, a := range api {
			if i > 0 {
				b.WriteString(";")
			}
			seen[a.Name] = true
			cl := 0
			ent, ok := doc.Functions[a.Name]
			if ok && ent.Hash == a.Hash {
				if cl, err = code(ent.Class); err != nil {
					return err
				}
			}
			calls := false
			for _, c := range a.Callees {
				if c == ent.Oracle {
					calls = true
				}
			}
			direct := ok && ent.Oracle != "" && apiDirect(p, a.decl, ent.Oracle)
			fmt.Fprintf(b, "\n  (* %s hash %s calls %s *) (%s, %d, %s, %s, %s)", coqCommentText(a.Sig), a.Hash,
				coqCommentText(strings.Join(a.Callees, " ")), coqString(a.Name), cl, coqBool(calls), coqBool(direct), coqBool(entries[a.Name]))
		}
		b.WriteString("].\n\n")
		var stale []string
		for k := range doc.Functions {
			if !seen[k] {
				stale = append(stale, k)
			}
		}
		sort.Strings(stale)
		fmt.Fprintf(b, "(* entries of checks/C25_wrappers.json without a function in the code: %v *)\nDefinition gen_stale_api_entries : N := %d.\n\n", stale, len(stale))
		var extra []string
		for k := range entries {
			if !seen[k] {
				extra = append(extra, k)
			}
		}
		sort.Strings(extra)
		fmt.Fprintf(b, "(* differential entries of the harness without a function in the code: %v *)\nDefinition gen_stale_differential_entries : N := %d.\n", extra, len(extra))
		return nil
	})
}
