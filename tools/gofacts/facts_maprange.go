package main

// Facts_maprange (C30): every `for ... range <map-typed expression>` site of
// the compiler, the runtime, the root package and package native, found with
// go/types, keyed by enclosing function + ordinal + hash of the normalised
// loop text (not by line number), together with the committed classification
// checks/C30_sites.json. The obligation "generated = classified" is proved in
// Coq by computation over both lists.

import (
	"bytes"
	"crypto/sha256"
	"encoding/json"
	"flag"
	"fmt"
	"go/ast"
	"go/printer"
	"go/token"
	"go/types"
	"os"
	"path/filepath"
	"sort"
	"strings"

	"golang.org/x/tools/go/packages"
)

type mapRangeSite struct {
	Key     string `json:"key"`
	Pkg     string `json:"pkg"`
	File    string `json:"file"`
	Line    int    `json:"line"`
	Func    string `json:"func"`
	Ordinal int    `json:"ordinal"`
	Hash    string `json:"hash"`
	Snippet string `json:"snippet"`
}

type mapRangeClass struct {
	Key     string `json:"key"`
	Pattern string `json:"pattern"`
	Reason  string `json:"reason"`
}

var mapRangePatterns = []string{"no-reach", "point-update", "max-min", "set-insert", "count", "collect-sort", "any-witness-error"}

func mrFuncDeclName(fd *ast.FuncDecl) string {
	if fd.Recv != nil && len(fd.Recv.List) == 1 {
		return "(" + types.ExprString(fd.Recv.List[0].Type) + ")." + fd.Name.Name
	}
	return fd.Name.Name
}

func mapRangeSites(w *world, rels []string) []mapRangeSite {
	var out []mapRangeSite
	for _, rel := range rels {
		p := w.pkg(rel)
		for _, f := range p.Syntax {
			fname := filepath.Base(p.Fset.Position(f.Pos()).Filename)
			if strings.HasSuffix(fname, "_test.go") || strings.HasPrefix(fname, "verif_") {
				continue
			}
			for _, d := range f.Decls {
				owner := ""
				var node ast.Node = d
				switch d := d.(type) {
				case *ast.FuncDecl:
					owner = mrFuncDeclName(d)
				case *ast.GenDecl:
					owner = "package-level " + d.Tok.String()
				}
				ord := 0
				ast.Inspect(node, func(n ast.Node) bool {
					rs, ok := n.(*ast.RangeStmt)
					if !ok {
						return true
					}
					t := p.TypesInfo.TypeOf(rs.X)
					if t == nil {
						return true
					}
					if _, isMap := t.Underlying().(*types.Map); !isMap {
						return true
					}
					ord++
					var b bytes.Buffer
					printer.Fprint(&b, token.NewFileSet(), rs)
					norm := strings.Join(strings.Fields(b.String()), " ")
					h := sha256.Sum256([]byte(norm))
					hs := fmt.Sprintf("%x", h[:5])
					pkgName := rel
					if pkgName == "" {
						pkgName = "scriggo"
					}
					s := mapRangeSite{Pkg: pkgName, File: fname, Line: p.Fset.Position(rs.Pos()).Line, Func: owner, Ordinal: ord, Hash: hs, Snippet: norm}
					s.Key = fmt.Sprintf("%s:%s#%d#%s", pkgName, owner, ord, hs)
					out = append(out, s)
					return true
				})
			}
		}
	}
	sort.Slice(out, func(i, j int) bool { return out[i].Key < out[j].Key })
	return out
}

func coqString(s string) string { return "\"" + strings.ReplaceAll(s, "\"", "\"\"") + "\"" }

func verifDir() string {
	out := "/verif/coq/gen"
	if f := flag.Lookup("out"); f != nil {
		out = f.Value.String()
	}
	return filepath.Join(out, "..", "..")
}

func init() {
	register("Facts_maprange", func(w *world, b *bytes.Buffer) error {
		sites := mapRangeSites(w, []string{"internal/compiler", "internal/runtime", "", "native"})
		if len(sites) == 0 {
			return fmt.Errorf("no map range site found")
		}
		// the listing, for the reviewer (not an input of anything)
		if js, err := json.MarshalIndent(sites, "", " "); err == nil {
			os.WriteFile(filepath.Join(verifDir(), "build", "C30_sites_generated.json"), js, 0o644)
		}
		var classes []mapRangeClass
		cp := filepath.Join(verifDir(), "checks", "C30_sites.json")
		data, err := os.ReadFile(cp)
		if err != nil {
			return fmt.Errorf("classification file: %v", err)
		}
		if err := json.Unmarshal(data, &classes); err != nil {
			return fmt.Errorf("classification file %s: %v", cp, err)
		}
		pid := map[string]int{}
		for i, n := range mapRangePatterns {
			pid[n] = i
		}
		b.WriteString("Require Import Coq.Strings.String.\nOpen Scope string_scope.\n\n")
		fmt.Fprintf(b, "(* for ... range <map> sites of internal/compiler, internal/runtime, the root package and native: package:function#ordinal#hash of the loop text *)\nDefinition gen_map_range_sites : list string := [")
		for i, s := range sites {
			if i > 0 {
				b.WriteString(";")
			}
			fmt.Fprintf(b, "\n  %s", coqString(s.Key))
		}
		b.WriteString("].\n\n")
		fmt.Fprintf(b, "(* checks/C30_sites.json: site key and pattern number (")
		for i, n := range mapRangePatterns {
			fmt.Fprintf(b, "%d = %s; ", i, n)
		}
		b.WriteString(") *)\nDefinition gen_map_range_classified : list (string * N) := [")
		for i, c := range classes {
			id, ok := pid[c.Pattern]
			if !ok {
				return fmt.Errorf("classification of %s: unknown pattern %q", c.Key, c.Pattern)
			}
			if strings.TrimSpace(c.Reason) == "" {
				return fmt.Errorf("classification of %s: no reason given", c.Key)
			}
			if i > 0 {
				b.WriteString(";")
			}
			fmt.Fprintf(b, "\n  (%s, %d%%N)", coqString(c.Key), id)
		}
		b.WriteString("].\n")
		return nil
	})
}

var _ = packages.NeedName
