package main

// A small partial evaluator for loop-free Go code over go/constant values.
// It executes the implementation's own statements and expressions on concrete
// inputs (one byte, a few flags), so the generated tables say what the code
// computes now, however the code is written. It never executes loops.

import (
	"fmt"
	"go/ast"
	"go/constant"
	"go/token"
	"go/types"

	"golang.org/x/tools/go/packages"
)

type stopKind int

const (
	stopNone     stopKind = iota // fell off the end of the statement list
	stopContinue                 // `continue`
	stopBreak                    // `break`
	stopReturn                   // `return`, values in Ret
	stopUnknown                  // reached something not evaluable
	stopFall                     // fallthrough (internal)
)

type env struct {
	pkg    *packages.Package
	vars   map[types.Object]constant.Value
	byname map[string]constant.Value // values bound by the caller by expression text, e.g. "s[i]"
	ret    []constant.Value
	why    string // reason of stopUnknown
	// effects records calls such as copy(b[j:], "lit") as the evaluated constant arguments.
	effects []effect
	depth   int
	// pre, when set, is consulted before the normal evaluation of every
	// expression; a non-nil result is the value of the expression (symbolic
	// atoms of facts_show.go).
	pre func(x ast.Expr) constant.Value
	// hook, when set, is consulted before every statement; handled=true means
	// the hook executed the statement and k is its result.
	hook func(s ast.Stmt) (k stopKind, handled bool)
}

type effect struct {
	fn   string
	args []constant.Value
}

func newEnv(pkg *packages.Package) *env {
	return &env{pkg: pkg, vars: map[types.Object]constant.Value{}, byname: map[string]constant.Value{}}
}

func (e *env) obj(id *ast.Ident) types.Object {
	if o := e.pkg.TypesInfo.Uses[id]; o != nil {
		return o
	}
	return e.pkg.TypesInfo.Defs[id]
}

func exprText(fset *token.FileSet, x ast.Expr) string {
	return types.ExprString(x)
}

// eval returns nil when the expression is not evaluable.
func (e *env) eval(x ast.Expr) constant.Value {
	if e.pre != nil {
		if v := e.pre(x); v != nil {
			return v
		}
	}
	if tv, ok := e.pkg.TypesInfo.Types[x]; ok && tv.Value != nil {
		return tv.Value
	}
	if id, ok := x.(*ast.Ident); ok {
		if o := e.obj(id); o != nil {
			if v, ok := e.vars[o]; ok {
				return v
			}
		}
	}
	if v, ok := e.byname[types.ExprString(x)]; ok {
		return v
	}
	switch x := x.(type) {
	case *ast.ParenExpr:
		return e.eval(x.X)
	case *ast.Ident:
		switch x.Name {
		case "true":
			return constant.MakeBool(true)
		case "false":
			return constant.MakeBool(false)
		}
		if o := e.obj(x); o != nil {
			if v, ok := e.vars[o]; ok {
				return v
			}
		}
		return nil
	case *ast.UnaryExpr:
		v := e.eval(x.X)
		if v == nil {
			return nil
		}
		if x.Op == token.NOT {
			return constant.MakeBool(!constant.BoolVal(v))
		}
		return constant.UnaryOp(x.Op, v, 0)
	case *ast.BinaryExpr:
		l := e.eval(x.X)
		switch x.Op {
		case token.LAND:
			if l == nil {
				return nil
			}
			if !constant.BoolVal(l) {
				return l
			}
			return e.eval(x.Y)
		case token.LOR:
			if l == nil {
				return nil
			}
			if constant.BoolVal(l) {
				return l
			}
			return e.eval(x.Y)
		}
		r := e.eval(x.Y)
		if l == nil || r == nil {
			return nil
		}
		switch x.Op {
		case token.EQL, token.NEQ, token.LSS, token.LEQ, token.GTR, token.GEQ:
			return constant.MakeBool(constant.Compare(l, x.Op, r))
		case token.SHL, token.SHR:
			s, _ := constant.Uint64Val(r)
			v := constant.Shift(l, x.Op, uint(s))
			return e.wrap(x, v)
		case token.QUO:
			if l.Kind() == constant.Int && r.Kind() == constant.Int {
				if constant.Sign(r) == 0 {
					return nil
				}
				return e.wrap(x, constant.BinaryOp(l, token.QUO_ASSIGN, r))
			}
		}
		return e.wrap(x, constant.BinaryOp(l, x.Op, r))
	case *ast.IndexExpr:
		idx := e.eval(x.Index)
		if idx == nil {
			return nil
		}
		i, ok := constant.Int64Val(idx)
		if !ok {
			return nil
		}
		// constant string indexed
		if base := e.eval(x.X); base != nil && base.Kind() == constant.String {
			s := constant.StringVal(base)
			if i < 0 || int(i) >= len(s) {
				return nil
			}
			return constant.MakeInt64(int64(s[i]))
		}
		// package-level []string / []T composite literal
		if elems, ok := e.pkgSliceLit(x.X); ok {
			if v, ok := elems[i]; ok {
				return v
			}
			if i >= 0 && i < sliceLitLen(elems) {
				return zeroOf(e.pkg.TypesInfo.TypeOf(x))
			}
			return nil
		}
		return nil
	case *ast.CallExpr:
		// conversions
		if tv, ok := e.pkg.TypesInfo.Types[x.Fun]; ok && tv.IsType() && len(x.Args) == 1 {
			v := e.eval(x.Args[0])
			if v == nil {
				return nil
			}
			return convertConst(v, tv.Type)
		}
		if id, ok := x.Fun.(*ast.Ident); ok {
			if id.Name == "len" && len(x.Args) == 1 {
				if v := e.eval(x.Args[0]); v != nil && v.Kind() == constant.String {
					return constant.MakeInt64(int64(len(constant.StringVal(v))))
				}
				if elems, ok := e.pkgSliceLit(x.Args[0]); ok {
					return constant.MakeInt64(sliceLitLen(elems))
				}
				if n, ok := e.pkgArrayLen(x.Args[0]); ok {
					return constant.MakeInt64(n)
				}
				return nil
			}
			// same-package pure function
			if fn := findFunc(e.pkg, id.Name); fn != nil && e.depth < 8 {
				args := make([]constant.Value, len(x.Args))
				for i, a := range x.Args {
					args[i] = e.eval(a)
					if args[i] == nil {
						return nil
					}
				}
				rets, ok := callFunc(e.pkg, fn, args, e.depth+1)
				if ok && len(rets) == 1 {
					return rets[0]
				}
			}
		}
		return nil
	}
	return nil
}

// wrap truncates an integer result to the static Go type of x.
func (e *env) wrap(x ast.Expr, v constant.Value) constant.Value {
	if v == nil || v.Kind() != constant.Int {
		return v
	}
	t := e.pkg.TypesInfo.TypeOf(x)
	if t == nil {
		return v
	}
	return convertConst(v, t)
}

func convertConst(v constant.Value, t types.Type) constant.Value {
	b, ok := t.Underlying().(*types.Basic)
	if !ok {
		return v
	}
	if b.Info()&types.IsString != 0 {
		if v.Kind() == constant.Int {
			i, _ := constant.Int64Val(v)
			return constant.MakeString(string(rune(i)))
		}
		return v
	}
	if b.Info()&types.IsInteger == 0 || v.Kind() != constant.Int {
		return v
	}
	var bits uint
	signed := true
	switch b.Kind() {
	case types.Int8:
		bits = 8
	case types.Int16:
		bits = 16
	case types.Int32:
		bits = 32
	case types.Int64, types.Int:
		bits = 64
	case types.Uint8:
		bits, signed = 8, false
	case types.Uint16:
		bits, signed = 16, false
	case types.Uint32:
		bits, signed = 32, false
	case types.Uint64, types.Uint, types.Uintptr:
		bits, signed = 64, false
	default:
		return v
	}
	mod := constant.Shift(constant.MakeInt64(1), token.SHL, bits)
	// r = v mod 2^bits, in [0, 2^bits)
	q := constant.BinaryOp(v, token.QUO_ASSIGN, mod)
	r := constant.BinaryOp(v, token.SUB, constant.BinaryOp(q, token.MUL, mod))
	if constant.Sign(r) < 0 {
		r = constant.BinaryOp(r, token.ADD, mod)
	}
	if signed {
		half := constant.Shift(constant.MakeInt64(1), token.SHL, bits-1)
		if constant.Compare(r, token.GEQ, half) {
			r = constant.BinaryOp(r, token.SUB, mod)
		}
	}
	return r
}

func zeroOf(t types.Type) constant.Value {
	if t == nil {
		return nil
	}
	if b, ok := t.Underlying().(*types.Basic); ok {
		switch {
		case b.Info()&types.IsString != 0:
			return constant.MakeString("")
		case b.Info()&types.IsBoolean != 0:
			return constant.MakeBool(false)
		case b.Info()&types.IsInteger != 0:
			return constant.MakeInt64(0)
		}
	}
	return nil
}

func sliceLitLen(m map[int64]constant.Value) int64 {
	var n int64
	for k := range m {
		if k+1 > n {
			n = k + 1
		}
	}
	if l, ok := m[-1]; ok { // explicit array length stored at -1
		v, _ := constant.Int64Val(l)
		return v
	}
	return n
}

// pkgSliceLit resolves x to a package-level variable initialised with a
// composite literal of constants and returns index → value.
func (e *env) pkgSliceLit(x ast.Expr) (map[int64]constant.Value, bool) {
	id, ok := x.(*ast.Ident)
	if !ok {
		return nil, false
	}
	o := e.obj(id)
	v, ok := o.(*types.Var)
	if !ok || v.Parent() != e.pkg.Types.Scope() {
		return nil, false
	}
	lit := findVarInit(e.pkg, id.Name)
	cl, ok := lit.(*ast.CompositeLit)
	if !ok {
		return nil, false
	}
	out := map[int64]constant.Value{}
	var next int64
	for _, el := range cl.Elts {
		val := el
		if kv, ok := el.(*ast.KeyValueExpr); ok {
			k := e.eval(kv.Key)
			if k == nil {
				return nil, false
			}
			next, _ = constant.Int64Val(k)
			val = kv.Value
		}
		c := e.eval(val)
		if c == nil {
			return nil, false
		}
		out[next] = c
		next++
	}
	if at, ok := v.Type().Underlying().(*types.Array); ok {
		out[-1] = constant.MakeInt64(at.Len())
	}
	return out, true
}

func (e *env) pkgArrayLen(x ast.Expr) (int64, bool) {
	t := e.pkg.TypesInfo.TypeOf(x)
	if t == nil {
		return 0, false
	}
	if at, ok := t.Underlying().(*types.Array); ok {
		return at.Len(), true
	}
	return 0, false
}

func findFunc(pkg *packages.Package, name string) *ast.FuncDecl {
	for _, f := range pkg.Syntax {
		for _, d := range f.Decls {
			if fd, ok := d.(*ast.FuncDecl); ok && fd.Recv == nil && fd.Name.Name == name {
				return fd
			}
		}
	}
	return nil
}

func findMethod(pkg *packages.Package, recv, name string) *ast.FuncDecl {
	for _, f := range pkg.Syntax {
		for _, d := range f.Decls {
			fd, ok := d.(*ast.FuncDecl)
			if !ok || fd.Recv == nil || fd.Name.Name != name || len(fd.Recv.List) != 1 {
				continue
			}
			t := fd.Recv.List[0].Type
			if s, ok := t.(*ast.StarExpr); ok {
				t = s.X
			}
			if id, ok := t.(*ast.Ident); ok && id.Name == recv {
				return fd
			}
		}
	}
	return nil
}

func findVarInit(pkg *packages.Package, name string) ast.Expr {
	for _, f := range pkg.Syntax {
		for _, d := range f.Decls {
			gd, ok := d.(*ast.GenDecl)
			if !ok || gd.Tok != token.VAR {
				continue
			}
			for _, s := range gd.Specs {
				vs := s.(*ast.ValueSpec)
				for i, n := range vs.Names {
					if n.Name == name && i < len(vs.Values) {
						return vs.Values[i]
					}
				}
			}
		}
	}
	return nil
}

// callFunc evaluates a loop-free function on constant arguments.
func callFunc(pkg *packages.Package, fn *ast.FuncDecl, args []constant.Value, depth int) ([]constant.Value, bool) {
	e := newEnv(pkg)
	e.depth = depth
	i := 0
	for _, f := range fn.Type.Params.List {
		for _, n := range f.Names {
			if i < len(args) && args[i] != nil {
				e.vars[pkg.TypesInfo.Defs[n]] = args[i]
			}
			i++
		}
	}
	k := e.run(fn.Body.List)
	if k == stopReturn {
		return e.ret, true
	}
	return nil, false
}

// run executes statements; it stops at the first one it cannot decide.
func (e *env) run(list []ast.Stmt) stopKind {
	for _, s := range list {
		if k := e.stmt(s); k != stopNone {
			return k
		}
	}
	return stopNone
}

func (e *env) unknown(format string, a ...any) stopKind {
	if e.why == "" {
		e.why = fmt.Sprintf(format, a...)
	}
	return stopUnknown
}

func (e *env) stmt(s ast.Stmt) stopKind {
	if e.hook != nil {
		if k, handled := e.hook(s); handled {
			return k
		}
	}
	switch s := s.(type) {
	case *ast.EmptyStmt:
		return stopNone
	case *ast.BlockStmt:
		return e.run(s.List)
	case *ast.DeclStmt:
		gd := s.Decl.(*ast.GenDecl)
		if gd.Tok != token.VAR {
			return stopNone
		}
		for _, sp := range gd.Specs {
			vs := sp.(*ast.ValueSpec)
			for i, n := range vs.Names {
				o := e.pkg.TypesInfo.Defs[n]
				if i < len(vs.Values) {
					if v := e.eval(vs.Values[i]); v != nil {
						e.vars[o] = v
					} else {
						delete(e.vars, o)
					}
				} else if z := zeroOf(o.Type()); z != nil {
					e.vars[o] = z
				}
			}
		}
		return stopNone
	case *ast.AssignStmt:
		if len(s.Lhs) != len(s.Rhs) {
			for _, l := range s.Lhs {
				if id, ok := l.(*ast.Ident); ok {
					if o := e.obj(id); o != nil {
						delete(e.vars, o)
					}
				}
			}
			return stopNone
		}
		vals := make([]constant.Value, len(s.Rhs))
		for i := range s.Rhs {
			r := e.eval(s.Rhs[i])
			if s.Tok != token.ASSIGN && s.Tok != token.DEFINE {
				l := e.eval(s.Lhs[i])
				if l == nil || r == nil {
					r = nil
				} else {
					op := map[token.Token]token.Token{token.ADD_ASSIGN: token.ADD, token.SUB_ASSIGN: token.SUB, token.MUL_ASSIGN: token.MUL, token.OR_ASSIGN: token.OR, token.AND_ASSIGN: token.AND}[s.Tok]
					if op == 0 {
						r = nil
					} else {
						r = convertConst(constant.BinaryOp(l, op, r), e.pkg.TypesInfo.TypeOf(s.Lhs[i]))
					}
				}
			}
			vals[i] = r
		}
		for i, l := range s.Lhs {
			id, ok := l.(*ast.Ident)
			if !ok {
				// assignment to an element: record as effect when evaluable
				e.effects = append(e.effects, effect{fn: "assign:" + types.ExprString(l), args: []constant.Value{vals[i]}})
				continue
			}
			if id.Name == "_" {
				continue
			}
			o := e.obj(id)
			if vals[i] == nil {
				delete(e.vars, o)
			} else {
				e.vars[o] = vals[i]
			}
		}
		return stopNone
	case *ast.IncDecStmt:
		id, ok := s.X.(*ast.Ident)
		if !ok {
			return stopNone
		}
		o := e.obj(id)
		if v := e.eval(s.X); v != nil {
			d := int64(1)
			if s.Tok == token.DEC {
				d = -1
			}
			e.vars[o] = convertConst(constant.BinaryOp(v, token.ADD, constant.MakeInt64(d)), o.Type())
		}
		return stopNone
	case *ast.ExprStmt:
		if c, ok := s.X.(*ast.CallExpr); ok {
			ef := effect{fn: types.ExprString(c.Fun)}
			for _, a := range c.Args {
				ef.args = append(ef.args, e.eval(a))
			}
			e.effects = append(e.effects, ef)
			return stopNone
		}
		return e.unknown("expression statement %s", types.ExprString(s.X))
	case *ast.ReturnStmt:
		e.ret = nil
		for _, r := range s.Results {
			v := e.eval(r)
			if v == nil {
				return e.unknown("return value %s", types.ExprString(r))
			}
			e.ret = append(e.ret, v)
		}
		return stopReturn
	case *ast.BranchStmt:
		switch s.Tok {
		case token.CONTINUE:
			return stopContinue
		case token.BREAK:
			return stopBreak
		case token.FALLTHROUGH:
			return stopFall
		}
		return e.unknown("branch %s", s.Tok)
	case *ast.IfStmt:
		if s.Init != nil {
			if k := e.stmt(s.Init); k != stopNone {
				return k
			}
		}
		c := e.eval(s.Cond)
		if c == nil {
			return e.unknown("if %s", types.ExprString(s.Cond))
		}
		if constant.BoolVal(c) {
			return e.run(s.Body.List)
		}
		if s.Else != nil {
			return e.stmt(s.Else)
		}
		return stopNone
	case *ast.SwitchStmt:
		if s.Init != nil {
			if k := e.stmt(s.Init); k != stopNone {
				return k
			}
		}
		var tag constant.Value
		if s.Tag != nil {
			tag = e.eval(s.Tag)
			if tag == nil {
				return e.unknown("switch tag %s", types.ExprString(s.Tag))
			}
		}
		clauses := s.Body.List
		sel := -1
		def := -1
	find:
		for i, c := range clauses {
			cc := c.(*ast.CaseClause)
			if cc.List == nil {
				def = i
				continue
			}
			for _, x := range cc.List {
				v := e.eval(x)
				if v == nil {
					return e.unknown("case %s", types.ExprString(x))
				}
				if tag != nil {
					if constant.Compare(tag, token.EQL, v) {
						sel = i
						break find
					}
				} else if constant.BoolVal(v) {
					sel = i
					break find
				}
			}
		}
		if sel < 0 {
			sel = def
		}
		if sel < 0 {
			return stopNone
		}
		for i := sel; i < len(clauses); i++ {
			k := e.run(clauses[i].(*ast.CaseClause).Body)
			switch k {
			case stopFall:
				continue
			case stopBreak:
				return stopNone
			default:
				return k
			}
		}
		return stopNone
	}
	return e.unknown("statement %T", s)
}
