package main

import (
	"bytes"
	"fmt"
	"go/ast"
	"go/constant"
	"go/token"
	"go/types"
	"math/big"
	"strings"

	"golang.org/x/tools/go/packages"
)

// Facts about internal/compiler/constant.go (property C02): the literal
// bounds, precisions and tables the constant arithmetic depends on, and the
// range conditions of int64Const.representedBy translated as boolean
// expressions over n.

func mustMethod(p *packages.Package, recv, name string) *ast.FuncDecl {
	f := findMethod(p, recv, name)
	if f == nil {
		panic(fmt.Sprintf("method %s.%s not found", recv, name))
	}
	return f
}

func constOf(p *packages.Package, x ast.Expr) constant.Value {
	if tv, ok := p.TypesInfo.Types[x]; ok && tv.Value != nil {
		return tv.Value
	}
	return nil
}

func zlit(v constant.Value) string {
	if v.Kind() == constant.Float {
		// integral float constant
		f := constant.ToInt(v)
		if f.Kind() != constant.Int {
			panic("constant " + v.ExactString() + " is not integral")
		}
		v = f
	}
	if v.Kind() != constant.Int {
		panic("constant " + v.ExactString() + " is not an integer")
	}
	s := v.ExactString()
	if strings.HasPrefix(s, "-") {
		return "(" + s + ")"
	}
	return s
}

// condToCoq translates a loop-free boolean Go expression over the variables
// in vars (Go name -> Coq name) into a Coq bool term over Z.
func condToCoq(p *packages.Package, x ast.Expr, vars map[string]string) string {
	if v := constOf(p, x); v != nil {
		switch v.Kind() {
		case constant.Bool:
			return coqBool(constant.BoolVal(v))
		case constant.Int:
			return zlit(v)
		}
	}
	switch x := x.(type) {
	case *ast.ParenExpr:
		return condToCoq(p, x.X, vars)
	case *ast.Ident:
		if c, ok := vars[x.Name]; ok {
			return c
		}
	case *ast.BinaryExpr:
		l, r := condToCoq(p, x.X, vars), condToCoq(p, x.Y, vars)
		switch x.Op {
		case token.LAND:
			return "(" + l + " && " + r + ")"
		case token.LOR:
			return "(" + l + " || " + r + ")"
		case token.LEQ:
			return "(" + l + " <=? " + r + ")"
		case token.LSS:
			return "(" + l + " <? " + r + ")"
		case token.GEQ:
			return "(" + r + " <=? " + l + ")"
		case token.GTR:
			return "(" + r + " <? " + l + ")"
		case token.EQL:
			return "(" + l + " =? " + r + ")"
		}
	case *ast.CallExpr:
		if tv, ok := p.TypesInfo.Types[x.Fun]; ok && tv.IsType() && len(x.Args) == 1 {
			if b, ok := tv.Type.Underlying().(*types.Basic); ok {
				arg := condToCoq(p, x.Args[0], vars)
				switch b.Kind() {
				case types.Uint64:
					return "(" + arg + " mod 18446744073709551616)"
				case types.Int64:
					// conversion of an int64 variable to int64
					if at, ok := p.TypesInfo.TypeOf(x.Args[0]).Underlying().(*types.Basic); ok && at.Kind() == types.Int64 {
						return arg
					}
				}
			}
		}
	}
	panic("condToCoq: cannot translate " + types.ExprString(x))
}

// kindCases maps each reflect.Kind number listed in the case clauses of the
// `switch typ.Kind()` statement found in fn to its clause.
func kindCases(p *packages.Package, fn *ast.FuncDecl) map[int64]*ast.CaseClause {
	out := map[int64]*ast.CaseClause{}
	ast.Inspect(fn.Body, func(n ast.Node) bool {
		sw, ok := n.(*ast.SwitchStmt)
		if !ok || sw.Tag == nil || !strings.HasSuffix(types.ExprString(sw.Tag), "Kind()") {
			return true
		}
		for _, s := range sw.Body.List {
			cc := s.(*ast.CaseClause)
			for _, e := range cc.List {
				if v := constOf(p, e); v != nil {
					out[i64(v)] = cc
				}
			}
		}
		return false
	})
	if len(out) == 0 {
		panic(fn.Name.Name + ": no switch on typ.Kind() found")
	}
	return out
}

func reflectKind(p *packages.Package, name string) int64 {
	for _, imp := range p.Types.Imports() {
		if imp.Path() == "reflect" {
			o := imp.Scope().Lookup(name)
			if c, ok := o.(*types.Const); ok {
				return i64(c.Val())
			}
		}
	}
	panic("reflect." + name + " not found")
}

// conjuncts flattens a && b && c.
func conjuncts(x ast.Expr) []ast.Expr {
	if p, ok := x.(*ast.ParenExpr); ok {
		return conjuncts(p.X)
	}
	if b, ok := x.(*ast.BinaryExpr); ok && b.Op == token.LAND {
		return append(conjuncts(b.X), conjuncts(b.Y)...)
	}
	return []ast.Expr{x}
}

func init() {
	register("Facts_consts", func(w *world, b *bytes.Buffer) error {
		p := w.pkg("internal/compiler")
		fmt.Fprintf(b, "Open Scope Z_scope.\n\n")

		// intConst.overflow: c1.i.BitLen() > K
		{
			fd := mustMethod(p, "intConst", "overflow")
			var k constant.Value
			ast.Inspect(fd.Body, func(n ast.Node) bool {
				if be, ok := n.(*ast.BinaryExpr); ok && be.Op == token.GTR && strings.HasSuffix(types.ExprString(be.X), "BitLen()") {
					k = constOf(p, be.Y)
				}
				return true
			})
			if k == nil {
				return fmt.Errorf("intConst.overflow: `BitLen() > K` not found")
			}
			fmt.Fprintf(b, "(* constant.go intConst.overflow: BitLen() > K *)\nDefinition gen_int_maxbits : Z := %s.\n\n", zlit(k))
		}
		// bigFloat: SetPrec(K)
		{
			fd := mustFunc(p, "bigFloat")
			var k constant.Value
			ast.Inspect(fd.Body, func(n ast.Node) bool {
				if ce, ok := n.(*ast.CallExpr); ok {
					if se, ok := ce.Fun.(*ast.SelectorExpr); ok && se.Sel.Name == "SetPrec" && len(ce.Args) == 1 {
						k = constOf(p, ce.Args[0])
					}
				}
				return true
			})
			if k == nil {
				return fmt.Errorf("bigFloat: SetPrec(K) not found")
			}
			fmt.Fprintf(b, "(* constant.go bigFloat: precision of every floatConst *)\nDefinition gen_bigfloat_prec : Z := %s.\n\n", zlit(k))
		}
		// shiftConstError: c.binaryOp(ast.OperatorGreaterEqual, int64Const(K))
		{
			fd := mustFunc(p, "shiftConstError")
			var k constant.Value
			ast.Inspect(fd.Body, func(n ast.Node) bool {
				if ce, ok := n.(*ast.CallExpr); ok {
					if se, ok := ce.Fun.(*ast.SelectorExpr); ok && se.Sel.Name == "binaryOp" && len(ce.Args) == 2 &&
						types.ExprString(ce.Args[0]) == "ast.OperatorGreaterEqual" {
						k = constOf(p, ce.Args[1])
					}
				}
				return true
			})
			if k == nil {
				return fmt.Errorf("shiftConstError: binaryOp(ast.OperatorGreaterEqual, K) not found")
			}
			fmt.Fprintf(b, "(* constant.go shiftConstError: a left shift count >= K is rejected (for a non-zero left operand) *)\nDefinition gen_shift_limit : Z := %s.\n\n", zlit(k))
			// the limit of every constant shift count: c.binaryOp(ast.OperatorGreater, int64Const(K))
			var m constant.Value
			ast.Inspect(fd.Body, func(n ast.Node) bool {
				if ce, ok := n.(*ast.CallExpr); ok {
					if se, ok := ce.Fun.(*ast.SelectorExpr); ok && se.Sel.Name == "binaryOp" && len(ce.Args) == 2 &&
						types.ExprString(ce.Args[0]) == "ast.OperatorGreater" {
						m = constOf(p, ce.Args[1])
					}
				}
				return true
			})
			if m == nil {
				return fmt.Errorf("shiftConstError: binaryOp(ast.OperatorGreater, K) not found")
			}
			fmt.Fprintf(b, "(* constant.go shiftConstError: a shift count > K is rejected *)\nDefinition gen_shift_count_max : Z := %s.\n\n", zlit(m))
		}
		// maxUnsignedValues / maxBigUnsignedValues, indexed by kind - reflect.Uint
		for _, tbl := range []string{"maxUnsignedValues", "maxBigUnsignedValues"} {
			init := findVarInit(p, tbl)
			cl, ok := init.(*ast.CompositeLit)
			if !ok {
				return fmt.Errorf("%s: composite literal not found", tbl)
			}
			var xs []string
			for _, el := range cl.Elts {
				v := constOf(p, el)
				if v == nil {
					// new(big.Int).SetUint64(K) or big.NewInt(K): the constant argument
					if ce, ok := el.(*ast.CallExpr); ok && len(ce.Args) == 1 {
						name := types.ExprString(ce.Fun)
						if name == "big.NewInt" || strings.HasSuffix(name, ".SetUint64") {
							v = constOf(p, ce.Args[0])
						}
					}
				}
				if v == nil {
					return fmt.Errorf("%s: element %s is not a constant", tbl, types.ExprString(el))
				}
				xs = append(xs, zlit(v))
			}
			fmt.Fprintf(b, "(* constant.go %s: entry i is the maximum of the unsigned kind reflect.Uint+i *)\nDefinition gen_%s : list Z := [%s].\n\n", tbl, tbl, strings.Join(xs, "; "))
		}
		for _, k := range []string{"Bool", "Int", "Int8", "Int16", "Int32", "Int64", "Uint", "Uint8", "Uint16", "Uint32", "Uint64", "Uintptr", "Float32", "Float64", "Complex64", "Complex128", "String"} {
			fmt.Fprintf(b, "Definition gen_kind_%s : Z := %d.\n", k, reflectKind(p, k))
		}
		b.WriteString("\n")
		// int64Const.representedBy: the condition guarding `return c1, nil` per integer kind
		{
			fd := mustMethod(p, "int64Const", "representedBy")
			cases := kindCases(p, fd)
			vars := map[string]string{}
			// n := int64(c1)
			ast.Inspect(fd.Body, func(n ast.Node) bool {
				if as, ok := n.(*ast.AssignStmt); ok && as.Tok == token.DEFINE && len(as.Lhs) == 1 && types.ExprString(as.Rhs[0]) == "int64(c1)" {
					vars[as.Lhs[0].(*ast.Ident).Name] = "n"
				}
				return true
			})
			if len(vars) == 0 {
				return fmt.Errorf("int64Const.representedBy: `n := int64(c1)` not found")
			}
			fmt.Fprintf(b, "(* constant.go int64Const.representedBy: for the integer kind numbered k, the condition under which\n   the constant n is returned unchanged (None: k is not an integer kind) *)\nDefinition gen_repr_i64 (k : Z) (n : Z) : option bool :=\n")
			lo, hi := reflectKind(p, "Int"), reflectKind(p, "Uintptr")
			for k := lo; k <= hi; k++ {
				cc := cases[k]
				if cc == nil {
					return fmt.Errorf("int64Const.representedBy: no case for kind %d", k)
				}
				cond := ""
				switch s := cc.Body[0].(type) {
				case *ast.IfStmt:
					if len(cc.Body) != 1 || s.Else != nil || len(s.Body.List) != 1 || !isReturnC1(s.Body.List[0]) {
						return fmt.Errorf("int64Const.representedBy: kind %d: unexpected case body", k)
					}
					cond = condToCoq(p, s.Cond, vars)
				case *ast.ReturnStmt:
					if !isReturnC1(s) {
						return fmt.Errorf("int64Const.representedBy: kind %d: unexpected return", k)
					}
					cond = "true"
				default:
					return fmt.Errorf("int64Const.representedBy: kind %d: unexpected case body", k)
				}
				fmt.Fprintf(b, "  if k =? %d then Some %s else\n", k, cond)
			}
			b.WriteString("  None.\n\n")
		}
		// float64Const.representedBy: bounds of the integer conversions
		{
			fd := mustMethod(p, "float64Const", "representedBy")
			cases := kindCases(p, fd)
			for _, c := range []struct {
				kind, name string
			}{{"Int", "int"}, {"Uint", "uint"}} {
				cc := cases[reflectKind(p, c.kind)]
				if cc == nil {
					return fmt.Errorf("float64Const.representedBy: no case for reflect.%s", c.kind)
				}
				ifs, ok := cc.Body[0].(*ast.IfStmt)
				if !ok {
					return fmt.Errorf("float64Const.representedBy: case reflect.%s: no if statement", c.kind)
				}
				var lo, hi constant.Value
				for _, cj := range conjuncts(ifs.Cond) {
					be, ok := cj.(*ast.BinaryExpr)
					if !ok || be.Op != token.LEQ {
						continue
					}
					if v := constOf(p, be.X); v != nil && types.ExprString(be.Y) == "f" {
						lo = v
					}
					if v := constOf(p, be.Y); v != nil && types.ExprString(be.X) == "f" {
						hi = v
					}
				}
				if lo == nil || hi == nil {
					return fmt.Errorf("float64Const.representedBy: case reflect.%s: bounds `K <= f && f <= K` not found", c.kind)
				}
				fmt.Fprintf(b, "(* constant.go float64Const.representedBy, %s kinds: the float64 values of the bounds K1 <= f && f <= K2 *)\n", c.name)
				fmt.Fprintf(b, "Definition gen_f64_%s_lo : Z := %s.\nDefinition gen_f64_%s_hi : Z := %s.\n\n", c.name, zlit(f64Round(lo)), c.name, zlit(f64Round(hi)))
			}
		}
		// parseBasicLiteral: MinPrec() < K and maxExp
		{
			fd := mustFunc(p, "parseBasicLiteral")
			var mp, me constant.Value
			ast.Inspect(fd.Body, func(n ast.Node) bool {
				switch n := n.(type) {
				case *ast.BinaryExpr:
					if n.Op == token.LSS && strings.HasSuffix(types.ExprString(n.X), "MinPrec()") {
						mp = constOf(p, n.Y)
					}
				case *ast.ValueSpec:
					if len(n.Names) == 1 && n.Names[0].Name == "maxExp" && len(n.Values) == 1 {
						me = constOf(p, n.Values[0])
					}
				}
				return true
			})
			if mp == nil || me == nil {
				return fmt.Errorf("parseBasicLiteral: `MinPrec() < K` or `const maxExp` not found")
			}
			fmt.Fprintf(b, "(* constant.go parseBasicLiteral: a float literal with MinPrec() < K becomes a float64Const; with -maxExp < exponent < maxExp a ratConst *)\nDefinition gen_lit_minprec : Z := %s.\nDefinition gen_lit_maxexp : Z := %s.\n\n", zlit(mp), zlit(me))
		}
		// maxInt64 and the size of int
		{
			o, ok := p.Types.Scope().Lookup("maxInt64").(*types.Const)
			if !ok {
				return fmt.Errorf("constant maxInt64 not found")
			}
			fmt.Fprintf(b, "Definition gen_maxInt64 : Z := %s.\n", zlit(o.Val()))
			sz := types.SizesFor("gc", "amd64").Sizeof(types.Typ[types.Int]) * 8
			fmt.Fprintf(b, "(* strconv.IntSize on the platform the check runs on *)\nDefinition gen_intsize : Z := %d.\n", sz)
		}
		return nil
	})
}

func isReturnC1(s ast.Stmt) bool {
	r, ok := s.(*ast.ReturnStmt)
	return ok && len(r.Results) == 2 && types.ExprString(r.Results[0]) == "c1" && types.ExprString(r.Results[1]) == "nil"
}

// f64Round rounds an integer constant to the nearest float64 (what the
// comparison with a float64 variable does to an untyped constant operand).
func f64Round(v constant.Value) constant.Value {
	f, _ := constant.Float64Val(constant.ToFloat(v))
	bf := new(big.Float).SetFloat64(f)
	i, acc := bf.Int(nil)
	if acc != big.Exact {
		panic("bound is not integral")
	}
	return constant.Make(i)
}
