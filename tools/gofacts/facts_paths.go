package main

import (
	"bytes"
	"fmt"
	"go/constant"

	"golang.org/x/tools/go/packages"
)

// mustIntConst returns the value of the integer constant name of package p.
func mustIntConst(p *packages.Package, name string) int64 {
	o := p.Types.Scope().Lookup(name)
	if o == nil {
		panic("constant " + name + " not found in " + p.PkgPath)
	}
	c, ok := o.(interface{ Val() constant.Value })
	if !ok {
		panic(name + " is not a constant")
	}
	v, exact := constant.Int64Val(c.Val())
	if !exact {
		panic(name + " is not an integer constant")
	}
	return v
}

func init() {
	// Facts_paths: the numbering of ast.Format used by the extends format
	// check of template expansion and by readFileAndFormat's range check.
	register("Facts_paths", func(w *world, b *bytes.Buffer) error {
		p := w.pkg("ast")
		for _, n := range []string{"FormatText", "FormatHTML", "FormatCSS", "FormatJS", "FormatJSON", "FormatMarkdown"} {
			fmt.Fprintf(b, "(* ast.%s *)\nDefinition gen_%s : N := %d.\n\n", n, n, mustIntConst(p, n))
		}
		return nil
	})
}
