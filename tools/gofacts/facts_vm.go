package main

// Facts about the virtual machine (internal/runtime): numbering of callStatus,
// stack constants, the register windows copied by startGoroutine. The site
// lists used by C11 (blocking reflect calls) and C10 (writes reachable from the
// shared compiled artefact) are in facts_vm_sites.go.

import (
	"bytes"
	"fmt"
	"go/ast"
	"go/constant"
	"go/token"
	"go/types"
	"strings"

	"golang.org/x/tools/go/packages"
)

func vmConstOf(p *packages.Package, name string) constant.Value {
	o := p.Types.Scope().Lookup(name)
	c, ok := o.(*types.Const)
	if !ok {
		panic(fmt.Sprintf("constant %s.%s not found", p.PkgPath, name))
	}
	return c.Val()
}

func vmConstInt(p *packages.Package, name string) int64 {
	v := vmConstOf(p, name)
	x, ok := constant.Int64Val(constant.ToInt(v))
	if !ok {
		panic(fmt.Sprintf("constant %s.%s is not an integer", p.PkgPath, name))
	}
	return x
}

// exprString prints an expression in a canonical compact form.
func exprString(e ast.Expr) string {
	switch e := e.(type) {
	case *ast.Ident:
		return e.Name
	case *ast.BasicLit:
		return e.Value
	case *ast.SelectorExpr:
		return exprString(e.X) + "." + e.Sel.Name
	case *ast.IndexExpr:
		return exprString(e.X) + "[" + exprString(e.Index) + "]"
	case *ast.CallExpr:
		s := exprString(e.Fun) + "("
		for i, a := range e.Args {
			if i > 0 {
				s += ","
			}
			s += exprString(a)
		}
		return s + ")"
	case *ast.BinaryExpr:
		return exprString(e.X) + e.Op.String() + exprString(e.Y)
	case *ast.ParenExpr:
		return "(" + exprString(e.X) + ")"
	case *ast.StarExpr:
		return "*" + exprString(e.X)
	case *ast.UnaryExpr:
		return e.Op.String() + exprString(e.X)
	case *ast.SliceExpr:
		s := exprString(e.X) + "["
		if e.Low != nil {
			s += exprString(e.Low)
		}
		s += ":"
		if e.High != nil {
			s += exprString(e.High)
		}
		return s + "]"
	case *ast.CompositeLit:
		return "lit"
	case *ast.FuncLit:
		return "funclit"
	case *ast.TypeAssertExpr:
		return exprString(e.X) + ".(T)"
	case *ast.KeyValueExpr:
		return exprString(e.Key) + ":" + exprString(e.Value)
	}
	return fmt.Sprintf("<%T>", e)
}

// spawnWindow describes one `copy(nvm.regs.K, vm.regs.K[vm.fp[i]+Addr(off.F):vm.fp[i]+H])`
// statement of startGoroutine.
type spawnWindow struct {
	kind     string // int, float, string, general
	fpIndex  int64  // i
	offField string // Op, A, B, C
	high     int64  // H
	dstBase  bool   // destination is the whole nvm.regs.K (so the window lands at index 0)
}

func spawnWindows(p *packages.Package) []spawnWindow {
	fd := findMethod(p, "VM", "startGoroutine")
	if fd == nil {
		panic("method VM.startGoroutine not found")
	}
	var out []spawnWindow
	ast.Inspect(fd.Body, func(n ast.Node) bool {
		call, ok := n.(*ast.CallExpr)
		if !ok {
			return true
		}
		id, ok := call.Fun.(*ast.Ident)
		if !ok || id.Name != "copy" || len(call.Args) != 2 {
			return true
		}
		dst, ok := call.Args[0].(*ast.SelectorExpr)
		if !ok {
			panic("startGoroutine: copy destination is not a selector: " + exprString(call.Args[0]))
		}
		sl, ok := call.Args[1].(*ast.SliceExpr)
		if !ok || sl.Low == nil || sl.Max != nil {
			panic("startGoroutine: copy source is not a slice expression with a low bound: " + exprString(call.Args[1]))
		}
		src, ok := sl.X.(*ast.SelectorExpr)
		if !ok || exprString(src.X) != "vm.regs" {
			panic("startGoroutine: copy source is not vm.regs.K[...]: " + exprString(call.Args[1]))
		}
		w := spawnWindow{kind: src.Sel.Name}
		w.dstBase = exprString(dst) == "nvm.regs."+w.kind
		// low = vm.fp[i] + Addr(off.F)
		lo, ok := sl.Low.(*ast.BinaryExpr)
		if !ok || lo.Op != token.ADD {
			panic("startGoroutine: slice low bound is not a sum: " + exprString(sl.Low))
		}
		fpi, ok := lo.X.(*ast.IndexExpr)
		if !ok || exprString(fpi.X) != "vm.fp" {
			panic("startGoroutine: slice low bound does not start at vm.fp[i]: " + exprString(sl.Low))
		}
		w.fpIndex = i64(p.TypesInfo.Types[fpi.Index].Value)
		conv, ok := lo.Y.(*ast.CallExpr)
		if !ok || len(conv.Args) != 1 {
			panic("startGoroutine: slice low bound offset is not Addr(off.F): " + exprString(lo.Y))
		}
		f, ok := conv.Args[0].(*ast.SelectorExpr)
		if !ok || exprString(f.X) != "off" {
			panic("startGoroutine: slice low bound offset is not a field of off: " + exprString(lo.Y))
		}
		w.offField = f.Sel.Name
		if sl.High == nil {
			// open slice: up to the end of the register file (H = 0 in the fact)
			out = append(out, w)
			return true
		}
		// high = vm.fp[i] + H
		hi, ok := sl.High.(*ast.BinaryExpr)
		if !ok || hi.Op != token.ADD || exprString(hi.X) != exprString(lo.X) {
			panic("startGoroutine: slice high bound is not vm.fp[i]+H: " + exprString(sl.High))
		}
		tv := p.TypesInfo.Types[hi.Y]
		if tv.Value == nil {
			panic("startGoroutine: slice high bound offset is not a constant: " + exprString(hi.Y))
		}
		w.high = i64(constant.ToInt(tv.Value))
		out = append(out, w)
		return true
	})
	if len(out) != 4 {
		panic(fmt.Sprintf("startGoroutine: expected 4 register window copies, found %d", len(out)))
	}
	return out
}

// growthChecks lists, for every `if vm.fp[i]+Addr(fn.NumReg[i]) > vm.st[i] { vm.moreXStack() }`
// of the call instructions, the comparison operator used.
func growthChecks(p *packages.Package) (ops []string) {
	return growthChecksIn(p, "run", "vm.fp[")
}

// swapGrowthChecks does the same for the `if a[i]+tot+bs > vm.st[i]` tests of VM.swapStack.
func swapGrowthChecks(p *packages.Package) (ops []string) {
	return growthChecksIn(p, "swapStack", "a[")
}

func growthChecksIn(p *packages.Package, method, lhsPrefix string) (ops []string) {
	fd := findMethod(p, "VM", method)
	if fd == nil {
		panic("method VM." + method + " not found")
	}
	ast.Inspect(fd.Body, func(n ast.Node) bool {
		is, ok := n.(*ast.IfStmt)
		if !ok || is.Init != nil {
			return true
		}
		be, ok := is.Cond.(*ast.BinaryExpr)
		if !ok {
			return true
		}
		l, r := exprString(be.X), exprString(be.Y)
		if strings.HasPrefix(r, "vm.st[") && strings.HasPrefix(l, lhsPrefix) {
			ops = append(ops, be.Op.String())
		}
		return true
	})
	if len(ops) == 0 {
		panic(method + ": no stack growth checks found")
	}
	return ops
}

func allOps(ops []string, op string) bool {
	for _, o := range ops {
		if o != op {
			return false
		}
	}
	return true
}

func init() {
	register("Facts_vm", func(w *world, b *bytes.Buffer) error {
		rt := w.pkg("internal/runtime")
		co := w.pkg("internal/compiler")
		names := []string{"started", "tailed", "returned", "deferred", "panicked", "recovered"}
		fmt.Fprintf(b, "(* internal/runtime/vm.go: numbering of callStatus *)\n")
		var vals []int64
		for _, n := range names {
			v := vmConstInt(rt, n)
			vals = append(vals, v)
			fmt.Fprintf(b, "Definition callStatus_%s : N := %d.\n", n, v)
		}
		fmt.Fprintf(b, "Definition callStatus_values : list N := %s.\n\n", coqNList(vals))
		fmt.Fprintf(b, "(* internal/runtime/vm.go *)\nDefinition stackSize : N := %d.\n", vmConstInt(rt, "stackSize"))
		fmt.Fprintf(b, "(* internal/compiler/builder.go *)\nDefinition maxRegistersCount : N := %d.\n\n", vmConstInt(co, "maxRegistersCount"))
		fmt.Fprintf(b, "(* VM.startGoroutine: copy(nvm.regs.K, vm.regs.K[vm.fp[i]+Addr(off.F) : vm.fp[i]+H]), H = 0 when the slice has no high bound;\n   one entry (i, index of F in Op,A,B,C, H, destination is the whole register file) per register kind *)\n")
		fieldIdx := map[string]int64{"Op": 0, "A": 1, "B": 2, "C": 3}
		fmt.Fprintf(b, "Definition spawn_windows : list (N * N * N * bool) := [")
		for i, sw := range spawnWindows(rt) {
			fi, ok := fieldIdx[sw.offField]
			if !ok {
				panic("startGoroutine: unknown field off." + sw.offField)
			}
			if i > 0 {
				b.WriteString("; ")
			}
			fmt.Fprintf(b, "(%d, %d, %d, %s)", sw.fpIndex, fi, sw.high, coqBool(sw.dstBase))
		}
		b.WriteString("].\n\n")
		ops := growthChecks(rt)
		fmt.Fprintf(b, "(* VM.run: the %d stack growth tests `vm.fp[i]+Addr(fn.NumReg[i]) OP vm.st[i]`: do all use >, do all use >= *)\n", len(ops))
		fmt.Fprintf(b, "Definition growth_checks : N := %d.\nDefinition growth_checks_all_gt : bool := %s.\nDefinition growth_checks_all_ge : bool := %s.\n", len(ops), coqBool(allOps(ops, ">")), coqBool(allOps(ops, ">=")))
		sops := swapGrowthChecks(rt)
		fmt.Fprintf(b, "(* VM.swapStack: the %d tests `a[i]+tot+bs OP vm.st[i]` *)\n", len(sops))
		fmt.Fprintf(b, "Definition swap_growth_checks : N := %d.\nDefinition swap_growth_checks_all_ge : bool := %s.\n", len(sops), coqBool(allOps(sops, ">=")))
		return nil
	})
}
