package main

// Facts_AstPrim: constants and small tables of the primary-expression
// grammar (C27): literal types, channel directions, the spelling of the
// tokens the expression parser tests, the token types that start a result
// type without parentheses, the result names of a macro type, the node types
// that a default expression accepts on its left, the decision of Call.String
// to parenthesise its callee.

import (
	"bytes"
	"fmt"
	"go/ast"
	"go/constant"
	"go/token"
	"sort"
	"strings"
)

func init() {
	register("Facts_AstPrim", func(w *world, b *bytes.Buffer) error {
		ap := w.pkg("ast")
		cp := w.pkg("internal/compiler")

		// ast.LiteralType and ast.ChanDirection
		for _, tn := range []string{"LiteralType", "ChanDirection"} {
			names, vals := namedConsts(ap, tn)
			if len(names) == 0 {
				return fmt.Errorf("ast.%s constants not found", tn)
			}
			fmt.Fprintf(b, "(* ast.%s *)\n", tn)
			for _, n := range names {
				fmt.Fprintf(b, "Definition gen_%s : N := %d.\n", n, vals[n])
			}
			b.WriteString("\n")
		}
		{
			_, lv := namedConsts(ap, "LiteralType")
			for _, n := range []string{"StringLiteral", "RuneLiteral", "IntLiteral", "FloatLiteral", "ImaginaryLiteral"} {
				if _, ok := lv[n]; !ok {
					return fmt.Errorf("ast.%s not found", n)
				}
			}
			_, dv := namedConsts(ap, "ChanDirection")
			for _, n := range []string{"NoDirection", "ReceiveDirection", "SendDirection"} {
				if _, ok := dv[n]; !ok {
					return fmt.Errorf("ast.%s not found", n)
				}
			}
		}

		// tokenString and literalType(token type)
		_, tvals := namedConsts(cp, "tokenTyp")
		tstr := map[string]string{}
		if init := findVarInit(cp, "tokenString"); init != nil {
			if cl, ok := init.(*ast.CompositeLit); ok {
				for _, e := range cl.Elts {
					kv := e.(*ast.KeyValueExpr)
					tv := cp.TypesInfo.Types[kv.Value]
					if id, ok := kv.Key.(*ast.Ident); ok && tv.Value != nil {
						tstr[id.Name] = constant.StringVal(tv.Value)
					}
				}
			}
		}
		if len(tstr) == 0 {
			return fmt.Errorf("compiler.tokenString not found")
		}
		b.WriteString("(* compiler.tokenString of the tokens that the expression parser tests *)\n")
		for _, n := range []string{"tokenMap", "tokenStruct", "tokenInterface", "tokenFunc", "tokenMacro", "tokenChan", "tokenType",
			"tokenDefault", "tokenRender", "tokenLeftParenthesis", "tokenRightParenthesis", "tokenLeftBracket", "tokenRightBracket",
			"tokenLeftBrace", "tokenRightBrace", "tokenPeriod", "tokenColon", "tokenEllipsis", "tokenArrow", "tokenMultiplication",
			"tokenExtendedNot", "tokenContains", "tokenIdentifier", "tokenComma", "tokenSemicolon"} {
			s, ok := tstr[n]
			if !ok {
				return fmt.Errorf("tokenString[%s] not found", n)
			}
			fmt.Fprintf(b, "Definition gen_%s : list N := %s.\n", n, coqBytes(s))
		}
		b.WriteString("\n")
		lt := mustFunc(cp, "literalType")
		b.WriteString("(* compiler.literalType: name of the token type (tokenString) -> ast.LiteralType; both string tokens are named string *)\n")
		var rows [][2]string
		seen := map[string]string{}
		for _, n := range []string{"tokenRawString", "tokenInterpretedString", "tokenRune", "tokenInt", "tokenFloat", "tokenImaginary"} {
			r, ok := callFunc(cp, lt, []constant.Value{constant.MakeInt64(tvals[n])}, 0)
			if !ok || len(r) != 1 {
				return fmt.Errorf("literalType(%s) not evaluable", n)
			}
			v := fmt.Sprint(i64(r[0]))
			if old, dup := seen[tstr[n]]; dup {
				if old != v {
					return fmt.Errorf("literalType: the two token types named %q have different literal types", tstr[n])
				}
				continue
			}
			seen[tstr[n]] = v
			rows = append(rows, [2]string{tstr[n], v})
		}
		coqBytesPairList(b, "gen_literal_type", "literalType", rows)

		// lexIdentifierOrKeyword: the words that are not identifiers, in every syntax and in the template syntax only
		lk := findMethod(cp, "lexer", "lexIdentifierOrKeyword")
		if lk == nil {
			return fmt.Errorf("compiler.lexer.lexIdentifierOrKeyword not found")
		}
		var kwAll, kwTmpl [][2]string
		var kwErr error
		var visit func(n ast.Node, inTmpl bool)
		visit = func(n ast.Node, inTmpl bool) {
			ast.Inspect(n, func(m ast.Node) bool {
				switch v := m.(type) {
				case *ast.IfStmt:
					cond := exprText(cp.Fset, v.Cond)
					if strings.Contains(cond, "templateSyntax") {
						if !strings.HasPrefix(cond, "l.templateSyntax && typ == tokenIdentifier") {
							kwErr = fmt.Errorf("lexIdentifierOrKeyword: unexpected condition %s", cond)
						}
						visit(v.Body, true)
						return false
					}
				case *ast.SwitchStmt:
					if id, ok := v.Tag.(*ast.Ident); !ok || id.Name != "id" {
						return true
					}
					for _, st := range v.Body.List {
						cc := st.(*ast.CaseClause)
						tokName := ""
						for _, bs := range cc.Body {
							if as, ok := bs.(*ast.AssignStmt); ok && len(as.Lhs) == 1 && len(as.Rhs) == 1 {
								if l, ok := as.Lhs[0].(*ast.Ident); ok && l.Name == "typ" {
									if r, ok := as.Rhs[0].(*ast.Ident); ok {
										tokName = r.Name
									}
								}
							}
						}
						if tokName == "" || len(cc.Body) != 1 {
							kwErr = fmt.Errorf("lexIdentifierOrKeyword: a case of the keyword switch is not `typ = token`")
							continue
						}
						sp, ok := tstr[tokName]
						if !ok {
							kwErr = fmt.Errorf("tokenString[%s] not found", tokName)
							continue
						}
						for _, e := range cc.List {
							tv := cp.TypesInfo.Types[e]
							if tv.Value == nil || tv.Value.Kind() != constant.String {
								kwErr = fmt.Errorf("lexIdentifierOrKeyword: non constant case")
								continue
							}
							row := [2]string{constant.StringVal(tv.Value), sp}
							if inTmpl {
								kwTmpl = append(kwTmpl, row)
							} else {
								kwAll = append(kwAll, row)
							}
						}
					}
					return false
				}
				return true
			})
		}
		visit(lk.Body, false)
		if kwErr != nil {
			return kwErr
		}
		if len(kwAll) == 0 || len(kwTmpl) == 0 {
			return fmt.Errorf("lexIdentifierOrKeyword: keyword switches not found")
		}
		emitPairs := func(name, comment string, rows [][2]string) {
			fmt.Fprintf(b, "(* %s *)\nDefinition %s : list (list N * list N) := [", comment, name)
			for i, r := range rows {
				if i > 0 {
					b.WriteString(";")
				}
				fmt.Fprintf(b, "\n  (%s, %s)", coqBytes(r[0]), coqBytes(r[1]))
			}
			b.WriteString("].\n\n")
		}
		emitPairs("gen_keywords", "lexIdentifierOrKeyword: word -> name (tokenString) of its token type, in every syntax", kwAll)
		emitPairs("gen_tmpl_keywords", "lexIdentifierOrKeyword: the same for the words that are keywords in the template syntax only", kwTmpl)

		// parseFuncParameters: token types that start an unparenthesised result; result names of a macro
		pf := findMethod(cp, "parsing", "parseFuncParameters")
		if pf == nil {
			return fmt.Errorf("compiler.parsing.parseFuncParameters not found")
		}
		var starts, macroNames []string
		ast.Inspect(pf.Body, func(n ast.Node) bool {
			cc, ok := n.(*ast.CaseClause)
			if !ok {
				return true
			}
			callsParseExpr := false
			for _, s := range cc.Body {
				ast.Inspect(s, func(m ast.Node) bool {
					if c, ok := m.(*ast.CallExpr); ok {
						if se, ok := c.Fun.(*ast.SelectorExpr); ok && se.Sel.Name == "parseExpr" {
							callsParseExpr = true
						}
					}
					return true
				})
			}
			allTok, allStr := len(cc.List) > 0, len(cc.List) > 0
			for _, e := range cc.List {
				if id, ok := e.(*ast.Ident); !ok || !strings.HasPrefix(id.Name, "token") {
					allTok = false
				}
				if bl, ok := e.(*ast.BasicLit); !ok || bl.Kind != token.STRING {
					allStr = false
				}
			}
			if allTok && callsParseExpr && starts == nil {
				for _, e := range cc.List {
					n := e.(*ast.Ident).Name
					s, ok := tstr[n]
					if !ok {
						panic("tokenString[" + n + "] not found")
					}
					starts = append(starts, s)
				}
			}
			if allStr && macroNames == nil {
				for _, e := range cc.List {
					macroNames = append(macroNames, constant.StringVal(cp.TypesInfo.Types[e].Value))
				}
			}
			return true
		})
		if starts == nil {
			return fmt.Errorf("parseFuncParameters: the case of the token types that start a result type was not found")
		}
		if macroNames == nil {
			return fmt.Errorf("parseFuncParameters: the case of the macro result names was not found")
		}
		emitBytesList := func(name, comment string, xs []string) {
			fmt.Fprintf(b, "(* %s *)\nDefinition %s : list (list N) := [", comment, name)
			for i, x := range xs {
				if i > 0 {
					b.WriteString(";")
				}
				fmt.Fprintf(b, "\n  %s", coqBytes(x))
			}
			b.WriteString("].\n\n")
		}
		emitBytesList("gen_result_start", "parseFuncParameters: names (tokenString) of the token types that start a result type written without parentheses", starts)
		emitBytesList("gen_macro_results", "parseFuncParameters: result names of a macro type", macroNames)

		// parseExpr: node types accepted on the left of `default`
		pe := findMethod(cp, "parsing", "parseExpr")
		if pe == nil {
			return fmt.Errorf("compiler.parsing.parseExpr not found")
		}
		var defKinds []string
		ast.Inspect(pe.Body, func(n ast.Node) bool {
			ts, ok := n.(*ast.TypeSwitchStmt)
			if !ok {
				return true
			}
			// the type switch on operand whose default clause panics
			var kinds []string
			hasDefault := false
			for _, s := range ts.Body.List {
				cc := s.(*ast.CaseClause)
				if cc.List == nil {
					hasDefault = true
					continue
				}
				for _, e := range cc.List {
					if st, ok := e.(*ast.StarExpr); ok {
						if se, ok := st.X.(*ast.SelectorExpr); ok {
							kinds = append(kinds, se.Sel.Name)
						}
					}
				}
			}
			if as, ok := ts.Assign.(*ast.ExprStmt); ok && hasDefault && defKinds == nil {
				if ta, ok := as.X.(*ast.TypeAssertExpr); ok {
					if id, ok := ta.X.(*ast.Ident); ok && id.Name == "operand" {
						defKinds = kinds
					}
				}
			}
			return true
		})
		if defKinds == nil {
			return fmt.Errorf("parseExpr: the type switch on the left operand of default was not found")
		}
		sort.Strings(defKinds)
		emitBytesList("gen_default_left", "parseExpr: node types accepted as the left operand of a default expression", defKinds)

		// Call.String: callee node types that are parenthesised, with the condition kind
		cs := findMethod(ap, "Call", "String")
		if cs == nil {
			return fmt.Errorf("ast.Call.String not found")
		}
		var callKinds []string
		ast.Inspect(cs.Body, func(n ast.Node) bool {
			ts, ok := n.(*ast.TypeSwitchStmt)
			if !ok {
				return true
			}
			for _, s := range ts.Body.List {
				cc := s.(*ast.CaseClause)
				for _, e := range cc.List {
					if st, ok := e.(*ast.StarExpr); ok {
						if id, ok := st.X.(*ast.Ident); ok {
							callKinds = append(callKinds, id.Name)
						}
					}
				}
			}
			return false
		})
		if callKinds == nil {
			return fmt.Errorf("ast.Call.String: the type switch on the callee was not found")
		}
		sort.Strings(callKinds)
		emitBytesList("gen_call_paren_kinds", "ast.Call.String: node types of the callee on which it may add parentheses (the conditions are modelled by hand)", callKinds)
		return nil
	})
}
