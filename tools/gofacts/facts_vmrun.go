package main

// Facts_vmrun: what VM.Run (internal/runtime/vm.go) does with the error that
// runFunc returns. The statements of VM.Run that follow the call of runFunc
// are executed here on every kind of error and every state of the context
// (none, live, done); the result is a decision table. Loops and statements
// this evaluator does not know make the extraction fail with their text.

import (
	"bytes"
	"fmt"
	"go/ast"
	"go/token"
	"go/types"
	"strings"
)

// kinds of the error returned by runFunc
const (
	vrPanic    = 0 // *PanicError, the message is not an outError
	vrPanicOut = 1 // *PanicError whose message is an outError
	vrFatal    = 2 // *fatalError
	vrStop     = 3 // stopError
	vrOther    = 4 // any other error (the error of the context, an error returned as it is)
	vrNil      = 5 // nil
)

// states of the context of the run
const (
	vrNoCtx   = 0
	vrLiveCtx = 1
	vrDoneCtx = 2
)

type vrEnv struct {
	kind, ctx int
	syms      map[string]string // symbolic values of local variables
	oks       map[string]bool   // values of boolean locals
	bound     string            // variable bound by the type switch on err
}

type vrResult struct {
	done   bool
	action string
}

func (e *vrEnv) sym(x ast.Expr) string {
	switch x := x.(type) {
	case *ast.Ident:
		if s, ok := e.syms[x.Name]; ok {
			return s
		}
		return x.Name
	case *ast.SelectorExpr:
		return e.sym(x.X) + "." + x.Sel.Name
	case *ast.CallExpr:
		if len(x.Args) == 0 {
			return e.sym(x.Fun) + "()"
		}
	case *ast.ParenExpr:
		return e.sym(x.X)
	}
	return "?" + types.ExprString(x)
}

func (e *vrEnv) isNil(s string) (bool, bool) {
	switch s {
	case "nil":
		return true, true
	case "err":
		return e.kind == vrNil, true
	case "ctx":
		return e.ctx == vrNoCtx, true
	case "ctx.Err()":
		return e.ctx != vrDoneCtx, true
	case "ctx.Done()":
		return false, true
	}
	return false, false
}

func (e *vrEnv) cond(x ast.Expr) bool {
	switch x := x.(type) {
	case *ast.ParenExpr:
		return e.cond(x.X)
	case *ast.Ident:
		if v, ok := e.oks[x.Name]; ok {
			return v
		}
	case *ast.UnaryExpr:
		if x.Op == token.NOT {
			return !e.cond(x.X)
		}
	case *ast.BinaryExpr:
		switch x.Op {
		case token.LAND:
			return e.cond(x.X) && e.cond(x.Y)
		case token.LOR:
			return e.cond(x.X) || e.cond(x.Y)
		case token.EQL, token.NEQ:
			l, r := e.sym(x.X), e.sym(x.Y)
			if r != "nil" {
				l, r = r, l
			}
			if r == "nil" {
				if n, ok := e.isNil(l); ok {
					return n == (x.Op == token.EQL)
				}
			}
		}
	}
	panic("VM.Run: cannot evaluate the condition " + types.ExprString(x))
}

func (e *vrEnv) assign(st *ast.AssignStmt) {
	if len(st.Lhs) == 2 && len(st.Rhs) == 1 {
		// v, ok := x.(T)
		if ta, ok := st.Rhs[0].(*ast.TypeAssertExpr); ok {
			v, okv := st.Lhs[0].(*ast.Ident), st.Lhs[1].(*ast.Ident)
			src := e.sym(ta.X)
			typ := types.ExprString(ta.Type)
			switch {
			case strings.HasSuffix(src, ".message") && typ == "outError":
				e.oks[okv.Name] = e.kind == vrPanicOut
				e.syms[v.Name] = "outErr"
				return
			}
		}
		panic("VM.Run: cannot evaluate " + exprOfStmt(st))
	}
	if len(st.Lhs) != 1 || len(st.Rhs) != 1 {
		panic("VM.Run: cannot evaluate " + exprOfStmt(st))
	}
	name, ok := st.Lhs[0].(*ast.Ident)
	if !ok {
		panic("VM.Run: cannot evaluate " + exprOfStmt(st))
	}
	val := e.sym(st.Rhs[0])
	switch {
	case strings.HasSuffix(val, ".env.ctx") || strings.HasSuffix(val, ".ctx"):
		val = "ctx"
	case val == "ctx.Err()" || val == "ctx.Done()":
	case val == "outErr.err":
	case e.bound != "" && val == e.bound+".err":
		val = "e.err"
	case e.bound != "" && val == e.bound+".msg":
		val = "e.msg"
	case val == "nil":
	default:
		if strings.HasPrefix(val, "?") {
			panic("VM.Run: cannot evaluate " + exprOfStmt(st))
		}
	}
	e.syms[name.Name] = val
}

func exprOfStmt(st ast.Stmt) string {
	switch st := st.(type) {
	case *ast.AssignStmt:
		var l, r []string
		for _, x := range st.Lhs {
			l = append(l, types.ExprString(x))
		}
		for _, x := range st.Rhs {
			r = append(r, types.ExprString(x))
		}
		return strings.Join(l, ", ") + " " + st.Tok.String() + " " + strings.Join(r, ", ")
	case *ast.ExprStmt:
		return types.ExprString(st.X)
	}
	return fmt.Sprintf("%T", st)
}

func (e *vrEnv) value(x ast.Expr) string {
	s := e.sym(x)
	switch {
	case e.bound != "" && s == e.bound+".err":
		return "e.err"
	case e.bound != "" && s == e.bound+".msg":
		return "e.msg"
	}
	return s
}

func (e *vrEnv) exec(stmts []ast.Stmt) vrResult {
	for _, st := range stmts {
		switch st := st.(type) {
		case *ast.IfStmt:
			if st.Init != nil {
				as, ok := st.Init.(*ast.AssignStmt)
				if !ok {
					panic("VM.Run: cannot evaluate the statement " + exprOfStmt(st.Init))
				}
				e.assign(as)
			}
			var r vrResult
			if e.cond(st.Cond) {
				r = e.exec(st.Body.List)
			} else if st.Else != nil {
				switch el := st.Else.(type) {
				case *ast.BlockStmt:
					r = e.exec(el.List)
				case *ast.IfStmt:
					r = e.exec([]ast.Stmt{el})
				}
			}
			if r.done {
				return r
			}
		case *ast.TypeSwitchStmt:
			var subject ast.Expr
			bound := ""
			switch a := st.Assign.(type) {
			case *ast.AssignStmt:
				bound = a.Lhs[0].(*ast.Ident).Name
				subject = a.Rhs[0].(*ast.TypeAssertExpr).X
			case *ast.ExprStmt:
				subject = a.X.(*ast.TypeAssertExpr).X
			}
			if e.sym(subject) != "err" || e.syms["err"] != "" {
				panic("VM.Run: type switch on " + types.ExprString(subject))
			}
			var chosen, deflt *ast.CaseClause
			for _, cl := range st.Body.List {
				cc := cl.(*ast.CaseClause)
				if cc.List == nil {
					deflt = cc
					continue
				}
				for _, t := range cc.List {
					match := false
					switch types.ExprString(t) {
					case "*PanicError":
						match = e.kind == vrPanic || e.kind == vrPanicOut
					case "*fatalError":
						match = e.kind == vrFatal
					case "stopError":
						match = e.kind == vrStop
					case "nil":
						match = e.kind == vrNil
					default:
						panic("VM.Run: type switch case " + types.ExprString(t))
					}
					if match && chosen == nil {
						chosen = cc
					}
				}
			}
			if chosen == nil {
				chosen = deflt
			}
			if chosen != nil {
				saved := e.bound
				e.bound = bound
				r := e.exec(chosen.Body)
				e.bound = saved
				if r.done {
					return r
				}
			}
		case *ast.ExprStmt:
			ce, ok := st.X.(*ast.CallExpr)
			if !ok || types.ExprString(ce.Fun) != "panic" || len(ce.Args) != 1 {
				panic("VM.Run: cannot evaluate the statement " + exprOfStmt(st))
			}
			return vrResult{true, "panic:" + e.value(ce.Args[0])}
		case *ast.AssignStmt:
			if len(st.Lhs) == 1 && types.ExprString(st.Lhs[0]) == "err" && st.Tok == token.ASSIGN {
				// err = X: Run returns X
				e.syms["errval"] = e.value(st.Rhs[0])
				continue
			}
			e.assign(st)
		case *ast.ReturnStmt:
			if len(st.Results) != 1 {
				panic("VM.Run: return with several results")
			}
			v := e.value(st.Results[0])
			if v == "err" {
				if ev, ok := e.syms["errval"]; ok {
					v = ev
				} else if e.kind == vrNil {
					v = "nil"
				} else {
					v = "runFunc"
				}
			}
			return vrResult{true, "return:" + v}
		case *ast.BlockStmt:
			if r := e.exec(st.List); r.done {
				return r
			}
		default:
			panic(fmt.Sprintf("VM.Run: cannot evaluate a %T statement", st))
		}
	}
	return vrResult{}
}

func init() {
	register("Facts_vmrun", func(w *world, b *bytes.Buffer) error {
		rt := w.pkg("internal/runtime")
		fd := findMethod(rt, "VM", "Run")
		if fd == nil {
			panic("method VM.Run not found")
		}
		// the statements after `err := vm.runFunc(...)`
		start := -1
		for i, st := range fd.Body.List {
			if as, ok := st.(*ast.AssignStmt); ok && len(as.Lhs) == 1 && len(as.Rhs) == 1 && types.ExprString(as.Lhs[0]) == "err" {
				if ce, ok := as.Rhs[0].(*ast.CallExpr); ok && strings.HasSuffix(types.ExprString(ce.Fun), ".runFunc") {
					start = i + 1
				}
			}
		}
		if start < 0 {
			panic("VM.Run: the call of runFunc was not found")
		}
		code := map[string]int{
			"return:runFunc":    1, // the error of runFunc as it is
			"return:e.err":      2, // the error held by the stopError: the argument of env.Stop
			"return:outErr.err": 3, // the error of the output
			"panic:e.msg":       4, // a panic with the value held by the fatalError: the argument of env.Fatal
			"return:ctx.Err()":  5, // the error of the context
			"return:nil":        6,
		}
		fmt.Fprintf(b, "(* internal/runtime/vm.go VM.Run, the statements after the call of runFunc, executed on every kind of\n")
		fmt.Fprintf(b, "   error (0 *PanicError, 1 *PanicError with an outError message, 2 *fatalError, 3 stopError, 4 other, 5 nil)\n")
		fmt.Fprintf(b, "   and every state of the context (0 none, 1 live, 2 done).  Actions: 1 return the error as it is,\n")
		fmt.Fprintf(b, "   2 return the error given to Stop, 3 return the error of the output, 4 panic with the value given to\n")
		fmt.Fprintf(b, "   Fatal, 5 return the error of the context, 6 return nil, 0 anything else *)\n")
		fmt.Fprintf(b, "Definition vmrun_table : list (N * N * N) := [")
		first := true
		var notes []string
		for kind := vrPanic; kind <= vrNil; kind++ {
			for ctx := vrNoCtx; ctx <= vrDoneCtx; ctx++ {
				e := &vrEnv{kind: kind, ctx: ctx, syms: map[string]string{}, oks: map[string]bool{}}
				r := e.exec(fd.Body.List[start:])
				if !r.done {
					panic("VM.Run: the end of the function is reached without a return")
				}
				c := code[r.action]
				if c == 0 {
					notes = append(notes, fmt.Sprintf("(%d, %d): %s", kind, ctx, r.action))
				}
				if !first {
					b.WriteString("; ")
				}
				first = false
				fmt.Fprintf(b, "(%d, %d, %d)", kind, ctx, c)
			}
		}
		b.WriteString("].\n")
		for _, n := range notes {
			fmt.Fprintf(b, "(* other action %s *)\n", strings.ReplaceAll(n, "*)", "* )"))
		}
		return nil
	})
}
